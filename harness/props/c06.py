"""C06 - gc removes exactly the unused objects and never a used one."""

import glob
import itertools
import json
import os

from lib import impl
from lib.core import cN, cbool, cbytes, clist, copt, cpair, ctor, vL, vN, vset

PROPERTY = "C06"
GEN = ["gc"]  # Gen/GcDecisions.v: the decisions of gc() (translator/gcunit.py), regenerated every run
RULE = (
    "stores are built from <=3 file objects, <=2 directory objects over them (shared files, a listed "
    "file that is absent), an unused directory object and a stray file; used sets range over store ids, "
    "an absent id and an id of another algorithm; x shallow/expanding x dry/real x store class x "
    "read-only x cache_odb (omitted = the store itself | a second store | a second odb object over the "
    "store's directory; of the same or of the OTHER algorithm (md5 / md5-dos2unix) and class; holding all / "
    "some / none of the directory objects, loadable / corrupt / not-a-list / missing) x the container kind in which the "
    "used set is handed to gc (list, set, tuple, frozenset, generator, iter(list), map object; drawn from "
    "the seeded rng - the one-shot kinds can be consumed only once). quick: seeded sample; thorough: "
    "the full product. On top: a LARGE-store stream (the small structure plus 1000..2300 tiny planted file "
    "objects - sizes on and around multiples of fs.LIST_OBJECT_PAGE_SIZE=1000 - of which 0..3 are used; dry "
    "and real, both store classes; 32-hex md5 names and short 5-hex names) and a medium stream (20..999). "
    "Next to some directory objects (used, unused, absent) a legacy <oid>.dir.unpacked directory with files is "
    "planted. corpus/C06/*.json runs first. A case is non-trivial when gc removed at least one object and kept at "
    "least one, or raised."
)
ASSUMPTIONS = [
    "the model gc is assembled from decisions generated from the AST of gc.py (translator unit gc, fail-closed on "
    "the statement sequence): guard, algorithm filter, expansion test + source, scan test + source, .dir partition, "
    "count/removal guards, defaults; the loop STRUCTURE around them is hand-written and pinned by the shape check. "
    "Trusted: translator/gcunit.py's reading of those expressions; QueryingProgress passes its iterable through; "
    "`if not cache_odb` means `is None` (HashFileDB defines neither __bool__ nor __len__ - checked; ObjectDB in "
    "dvc_objects is outside the translated tree)",
    "the property speaks about the OBJECTS of the store: regular files at <root>/<2 chars>/<rest>. The legacy "
    "<oid>.dir.unpacked side directories of old DVC caches are not objects (odb.all() does not list them, the "
    "model does not contain them); that gc removes the side directory of an unused .dir object on local-class "
    "stores even in a dry run (odb._remove_unpacked_dir) is outside the property and not judged - what is judged "
    "is that the objects next to them are kept / removed / counted exactly as without them",
    "cache_odb enters the model as what it can load (g_trees) plus its algorithm name (g_cache_alg, carried but "
    "never read: C06_cache_alg_irrelevant); the used set is filtered by the COLLECTED store's algorithm "
    "(C06_other_alg); only md5 and md5-dos2unix stores are exercised (the algorithms Tree.load can read "
    "listings for)",
    "odb.all() lists exactly the files at <root>/<2 chars>/<rest> (dvc_objects; observed independently by os.listdir)",
    "Tree.load raises FileNotFoundError / ObjectFormatError for a missing / unparsable directory object",
    "the model takes the used set as a list: the claim checked is that gc is agnostic to the container kind "
    "(Iterable[HashInfo]); for set/frozenset the harness observes the iteration order (list(container)) and "
    "passes that order to the model (it only decides WHICH load error is reported; C06_used_set: an Ok result "
    "depends on the membership of `used` alone)",
    "the theorems are unbounded in the size of the store (C06_store_app: the decision on an object does not "
    "depend on the rest of the store), so size cannot matter in the model; the large-store stream exists because "
    "a batching/paging implementation could make size matter in the real code. Large stores hold real files "
    "planted with lib.impl.plant; model and implementation see the same names (no aliasing); the short 5-hex "
    "names exist only to keep the Coq literals of the biggest stores small - gc never inspects the shape of a "
    "name beyond the '.dir' suffix and dvc_objects lists every <2 chars>/<rest> file",
]

IMPORTS = "From Coq Require Import NArith List.\nFrom DvcData Require Import Model.Gc."


def gen_cases(ctx):
    F = [b"f-one", b"f-two", b"", b"f-absent"]
    fo = [impl.md5hex(b) for b in F]
    d1 = [("a", fo[0]), ("sub/b", fo[1])]
    d2 = [("x", fo[1]), ("y/z", fo[2]), ("gone", fo[3])]  # lists a file that is not in the store
    d3 = [("only", fo[0])]
    dirs = {"D1": d1, "D2": d2, "D3": d3}
    store_variants = []
    for files in itertools.chain.from_iterable(itertools.combinations(range(3), k) for k in range(4)):
        for ds in (["D1"], ["D1", "D2"], ["D2", "D3"], [], ["D1", "D2", "D3"]):
            store_variants.append((files, ds))
    used_universe = [("md5", fo[0]), ("md5", fo[1]), ("md5", fo[2]), ("md5", "D1"), ("md5", "D2"),
                     ("md5", "D3"), ("md5", "0" * 32), ("sha256", fo[0]), ("md5-dos2unix", "D1")]
    out = []
    for (files, ds) in store_variants:
        for r in range(0, 4):
            for used in itertools.combinations(used_universe, r):
                for shallow in (True, False):
                    for dry in (False, True):
                        out.append({"files": list(files), "dirs": ds, "used": list(used),
                                    "shallow": shallow, "dry": dry})
    return out, fo, dirs, F


USED_KINDS = ("list", "set", "tuple", "frozenset", "generator", "iter", "map")
ONE_SHOT = ("generator", "iter", "map")


def bulk_oids(b):
    """names of the planted bulk file objects of a large-store case: B<i> -> oid"""
    if not b:
        return {}
    if b.get("shape", "md5") == "md5":
        return {f"B{i}": impl.md5hex(b"bulk-%d" % i) for i in range(b["n"])}
    # short names: 5 hex chars -> <store>/<2>/<3>; never collide with 32-hex names or '.dir' names
    return {f"B{i}": "%05x" % (0x10000 + i) for i in range(b["n"])}


def plant_bulk(store, oids):
    """impl.plant for thousands of tiny read-only file objects with fewer system calls
    (same layout: <store>/<2 chars>/<rest>, mode 0444, one byte of content)"""
    made = set()
    for o in oids:
        d = os.path.join(store, o[:2])
        if d not in made:
            os.makedirs(d, exist_ok=True)
            made.add(d)
        fd = os.open(os.path.join(d, o[2:]), os.O_WRONLY | os.O_CREAT | os.O_EXCL, 0o444)
        os.write(fd, b"b")
        os.close(fd)


def interleave(small, big):
    """one list of correspondence items + the shard size that puts every big item (a large
    store: a big Coq literal) at the head of its own shard, so that they compile in parallel"""
    if not big:
        return list(small), 250
    shard = max(8, min(250, len(small) // len(big) + 1))
    out, si = [], 0
    for b in big:
        out.append(b)
        out.extend(small[si:si + shard - 1])
        si += shard - 1
    out.extend(small[si:])
    return out, shard


def as_container(kind, used):
    """the same used HashInfos in the container kind under test -> (container, iteration order)"""
    if kind == "list":
        return list(used), list(used)
    if kind == "tuple":
        return tuple(used), list(used)
    if kind in ("set", "frozenset"):
        c = set(used) if kind == "set" else frozenset(used)
        return c, list(c)  # iteration order of an unmodified set is stable: observe it
    if kind == "generator":
        return (h for h in used), list(used)
    if kind == "iter":
        return iter(list(used)), list(used)
    if kind == "map":
        return map(lambda h: h, used), list(used)
    raise ValueError(kind)


def _few(lst, k=6):
    lst = list(lst)
    return f"{lst[:k]}" + (f" (+{len(lst) - k} more)" if len(lst) > k else "")


def run_case(ctx, case, fo, dirs, F):
    """returns (input_term, impl_val, oracle problems)"""
    from dvc_objects.errors import ObjectDBPermissionError, ObjectFormatError

    from dvc_data.hashfile.gc import gc
    from dvc_data.hashfile.hash_info import HashInfo

    root = ctx.fresh("gc")
    store = os.path.join(root, "store")
    cache = os.path.join(root, "cache") if case.get("sep_cache") else store
    cls = case.get("cls", "local")
    alg = case.get("alg", "md5")  # algorithm of the COLLECTED store
    # cache_odb: omitted | a second store (sep_cache) | a second odb object over the store's own
    # directory (cache_at_store); of the same or of ANOTHER algorithm / class than the store
    explicit_cache = bool(case.get("sep_cache") or case.get("cache_at_store"))
    cache_alg = case.get("cache_alg", alg)
    cache_cls = case.get("cache_cls", cls)
    for fi in case["files"]:
        impl.plant(store, fo[fi], F[fi])
    doid = {}
    for dn, lst in dirs.items():
        doid[dn] = impl.dir_oid(lst)
    for dn in case["dirs"]:
        impl.plant(store, doid[dn], impl.canon_listing(dirs[dn]))
    bulk = bulk_oids(case.get("bulk"))
    plant_bulk(store, bulk.values())
    names = {**doid, **bulk}  # symbolic name in the case -> oid
    if case.get("stray"):
        impl.plant(store, "zz" + "tmpstray", b"partial", mode=0o644)
        with open(os.path.join(store, "rootfile"), "wb") as f:
            f.write(b"not an object")
    trees = {}  # what cache_odb can load: dn -> ok | corrupt | notalist | missing
    for dn in dirs:
        forced = case.get("cache_state", {}).get(dn)
        if cache != store:
            st = forced or "ok"
        else:
            st = forced or ("ok" if dn in case["dirs"] else "missing")
            if st == "missing" and dn in case["dirs"]:
                st = "ok"
        if st == "ok" and cache != store:
            impl.plant(cache, doid[dn], impl.canon_listing(dirs[dn]))
        elif st == "corrupt":
            impl.plant(cache, doid[dn], b"{not json")
        elif st == "notalist":
            impl.plant(cache, doid[dn], b'{"a": 1}')
        trees[dn] = st
    # legacy layout of old DVC versions: a directory <object path>.unpacked (with files) next to a
    # .dir object.  gc calls odb._remove_unpacked_dir for every unused .dir object, dry or not (local
    # class: removes that side directory; base class: no-op).  They are not objects: odb.all() skips
    # them (3 path parts) and so does walk_store (regular files at <2>/<rest> only).
    for dn in case.get("unpacked", []):
        up = os.path.join(store, doid[dn][:2], doid[dn][2:] + ".unpacked")
        os.makedirs(os.path.join(up, "sub"), exist_ok=True)
        for rel in ("a", os.path.join("sub", "b")):
            with open(os.path.join(up, rel), "wb") as f:
                f.write(b"unpacked copy")
    # when cache == store, planting into the cache changed the store: re-observe
    before = impl.walk_store(store)
    odb = impl.make_odb(cls, store, read_only=case.get("ro", False), hash_name=alg)
    cache_odb = impl.make_odb(cache_cls, cache, hash_name=cache_alg) if explicit_cache else None
    case_used = [(n, v) for n, v in case["used"]]
    case_used += [("md5", f"B{i}") for i in case.get("bulk", {}).get("used", [])]
    kind = case.get("used_kind", "list")
    used, order = as_container(kind, [HashInfo(n, names.get(v, v)) for n, v in case_used])
    try:
        n = gc(odb, used, cache_odb=cache_odb, shallow=case["shallow"], dry=case["dry"])
        res = ("ok", n)
    except ObjectDBPermissionError:
        res = ("err", 1)
    except FileNotFoundError:
        res = ("err", 2)
    except ObjectFormatError:
        res = ("err", 3)
    except Exception as exc:  # noqa: BLE001
        res = ("exc", type(exc).__name__)
    after = impl.walk_store(store)

    # ---- model input
    trees_term = []
    for dn in dirs:
        if trees[dn] == "ok":
            trees_term.append(cpair(cbytes(doid[dn]), copt([cbytes(h) for _, h in dirs[dn]], clist)))
        elif trees[dn] in ("corrupt", "notalist"):
            trees_term.append(cpair(cbytes(doid[dn]), "None"))
    hexnames = set(bulk.values()) if case.get("bulk", {}).get("shape", "md5") == "md5" else set()

    def coid(o):  # a bulk 32-hex name as (oid_hex32 0x...): the same list N, a cheaper literal
        return f"(oid_hex32 0x{o})" if o in hexnames else cbytes(o)

    def cset(oids):  # vset with the cheaper literals (sorted by code point, deduplicated)
        return vset(oids) if not hexnames else "VL [" + "; ".join(f"VB {coid(o)}" for o in sorted(set(oids))) + "]"

    inp = ("{| g_store := %s; g_alg := %s; g_ro := %s; g_used := %s; g_trees := %s; g_cache_alg := %s; "
           "g_shallow := %s; g_dry := %s |}"
           % (clist([coid(o) for o in sorted(before)]), cbytes(alg), cbool(case.get("ro", False)),
              clist([cpair(cbytes(h.name), cbytes(h.value)) for h in order]),
              clist(trees_term), copt(cbytes(cache_alg) if explicit_cache else None),
              cbool(case["shallow"]), cbool(case["dry"])))
    if res[0] == "ok":
        exp = vL([vN(1), vN(res[1]), cset(after.keys())])
    elif res[0] == "err":
        exp = vL([vN(0), vN(res[1])])
    else:
        exp = vL([vN(0), vN(99)])

    # ---- oracle: the property itself, computed independently
    problems = []
    used_set = set()
    load_fail = False
    for n, v in case_used:
        if n != alg:
            continue
        v = names.get(v, v)
        used_set.add(v)
        if v.endswith(".dir") and not case["shallow"]:
            dn = [k for k, o in doid.items() if o == v][0]
            if trees[dn] == "ok":
                used_set.update(h for _, h in dirs[dn])
            else:
                load_fail = True
    if case.get("ro"):
        if res != ("err", 1):
            problems.append(("C06:readonly-not-refused", f"read-only store: gc returned {res}"))
        if after != before:
            problems.append(("C06:readonly-modified", "read-only store was modified"))
    elif res[0] == "exc":
        problems.append((f"C06:unexpected-exception:{res[1]}", f"gc raised {res[1]}"))
    elif res[0] == "err":
        if not load_fail:
            problems.append(("C06:spurious-error", f"gc failed with {res} although every used directory loads"))
        if after != before:
            problems.append(("C06:error-but-modified", "gc raised but had already removed objects"))
    else:
        lost_used = [o for o in before if o in used_set and o not in after]
        if lost_used:
            problems.append(("C06:removed-used", f"used object(s) removed (used handed over as {kind}): {_few(lost_used)}"))
        unused = [o for o in before if o not in used_set]
        if case["dry"]:
            if after != before:
                gone = [o for o in before if o not in after]
                problems.append(("C06:dry-modified", f"dry run changed the store of {len(before)} objects: "
                                                     f"{len(gone)} removed, e.g. {_few(gone, 3)}"))
        else:
            kept_unused = [o for o in unused if o in after]
            if kept_unused:
                problems.append(("C06:kept-unused", f"unused object(s) not removed: {_few(kept_unused)}"))
            if any(after[o] != before[o] for o in after if o in before) or set(after) - set(before):
                problems.append(("C06:store-altered", "gc altered or created objects"))
        if not load_fail and res[1] != len(unused):
            problems.append(("C06:count", f"returned {res[1]}, unused objects: {len(unused)}"))
    nontrivial = res[0] != "ok" or (0 < len(after) < len(before))
    impl.rm_rf(root)
    return inp, exp, problems, nontrivial, res


VERIF = os.path.dirname(os.path.dirname(os.path.dirname(os.path.abspath(__file__))))


def load_corpus():
    out = []
    for p in sorted(glob.glob(os.path.join(VERIF, "corpus", "C06", "*.json"))):
        with open(p, encoding="utf-8") as f:
            body = json.load(f)
        for c in body if isinstance(body, list) else [body]:
            c = dict(c)
            c.pop("note", None)
            out.append(c)
    return out


OTHER_ALG = {"md5": "md5-dos2unix", "md5-dos2unix": "md5"}


def sprinkle_cache(rng, c, dirnames):
    """the cache_odb dimension: omitted (defaults to the store) | a second store | a second odb
    object over the store's directory; same or ANOTHER algorithm (md5 vs md5-dos2unix) and class;
    the second store holds all / some / none of the directory objects (ok / missing / corrupt)"""
    r = rng.random()
    if r < 0.4:
        c["sep_cache"] = True
        if rng.random() < 0.5:
            c["cache_alg"] = OTHER_ALG[c.get("alg", "md5")]
        if rng.random() < 0.3:
            c["cache_cls"] = "base" if c.get("cls", "local") == "local" else "local"
        h = rng.random()
        if h < 0.25:  # holds none of them
            c["cache_state"] = {dn: "missing" for dn in dirnames}
        elif h < 0.6:  # holds some
            st = dict(c.get("cache_state", {}))
            for dn in dirnames:
                if dn not in st and rng.random() < 0.4:
                    st[dn] = rng.choice(["missing", "missing", "corrupt", "notalist"])
            c["cache_state"] = st
    elif r < 0.5:
        c["cache_at_store"] = True
        c["cache_alg"] = OTHER_ALG[c.get("alg", "md5")] if rng.random() < 0.7 else c.get("alg", "md5")


def sprinkle_unpacked(rng, c, dirnames):
    """legacy <oid>.dir.unpacked side directories next to some directory objects (used and unused
    ones, and now and then next to one that is not in the store)"""
    if rng.random() < 0.45:
        pool = [dn for dn in dirnames if dn in c["dirs"] or rng.random() < 0.15]
        pick = [dn for dn in pool if rng.random() < 0.7]
        if pick:
            c["unpacked"] = pick


def gen_bulk(ctx, cases):
    """large- and medium-store cases: a small structural case + planted bulk file objects.
    The number of UNUSED bulk objects is what a batching implementation would count: put it on and
    around multiples of the listing page size (1000) and at random sizes."""
    rng = ctx.rng
    n_big = ctx.n(4, 16)
    n_med = ctx.n(2, 10)
    md5_cap = 1100 if ctx.tier == "quick" else 2300
    plan = []
    classes = ["local", "base"]
    flip = 0
    for j in range(n_big):
        shape = "md5" if j % 2 == 0 else "short"
        dry = (j // 2) % 2 == 0
        if j % 2 == 0:
            flip = rng.randint(0, 1)  # per (dry|real) pair: which shape gets which store class
        if shape == "md5":
            unused = rng.choice([1000, 1001, rng.randint(1002, md5_cap), rng.randint(1002, md5_cap)])
        else:
            unused = rng.choice([1000, 1001, 1999, 2000, 2001, rng.randint(1002, 2300), rng.randint(1002, 2300)])
        plan.append((shape, dry, unused, classes[(j + flip) % 2]))
    for _ in range(n_med):
        plan.append(("short" if rng.random() < 0.7 else "md5", rng.random() < 0.5, rng.randint(20, 999),
                     rng.choice(classes)))
    out = []
    for shape, dry, unused, cls in plan:
        base = dict(rng.choice(cases))
        k = rng.choice([0, 1, 2, 2, 3])
        n = unused + k
        c = {**base, "dry": dry, "cls": cls, "used_kind": rng.choice(USED_KINDS),
             "bulk": {"n": n, "shape": shape, "used": sorted(rng.sample(range(n), k))}}
        if rng.random() < 0.25:
            c["alg"] = "md5-dos2unix"
        sprinkle_cache(rng, c, ["D1", "D2", "D3"])
        sprinkle_unpacked(rng, c, ["D1", "D2", "D3"])
        if rng.random() < 0.2:
            c["stray"] = True
        out.append(c)
    return out


def run(ctx):
    cases, fo, dirs, F = gen_cases(ctx)
    # configuration dimensions sampled on top of the structural product
    extra = []
    for c in cases:
        for cls in ("local", "base"):
            extra.append({**c, "cls": cls})
    full = extra
    k = ctx.n(260, 6000)
    sample = ctx.rng.sample(full, min(k, len(full)))
    # sprinkle the remaining dimensions
    for c in sample:
        r = ctx.rng.random()
        if r < 0.08:
            c["ro"] = True
        if ctx.rng.random() < 0.3:
            c["stray"] = True
        if ctx.rng.random() < 0.25:
            c["cache_state"] = {ctx.rng.choice(list(dirs)): ctx.rng.choice(["corrupt", "notalist", "missing"])}
        if ctx.rng.random() < 0.15:
            c["alg"] = "md5-dos2unix"
        sprinkle_cache(ctx.rng, c, list(dirs))
        sprinkle_unpacked(ctx.rng, c, list(dirs))
        c["used_kind"] = ctx.rng.choice(USED_KINDS)
    bulk_cases = gen_bulk(ctx, cases)
    corpus = load_corpus() + [
        {"files": [0, 1], "dirs": ["D1"], "used": [("md5", "D1")], "shallow": False, "dry": False, "cls": "local"},
        {"files": [0, 1, 2], "dirs": ["D1", "D2"], "used": [("md5", "D2")], "shallow": False, "dry": True, "cls": "base"},
        {"files": [0], "dirs": ["D3"], "used": [], "shallow": True, "dry": False, "cls": "local"},
    ]
    ctx.count("corpus", len(corpus))
    items, big_items = [], []
    for c in corpus + sample + bulk_cases:
        inp, exp, problems, nontrivial, res = run_case(ctx, c, fo, dirs, F)
        ctx.case(c, nontrivial)
        ctx.count("result:" + ("ok" if res[0] == "ok" else f"err{res[1]}"))
        ctx.count("mode:" + ("shallow" if c["shallow"] else "expand") + ("/dry" if c["dry"] else "/real"))
        ctx.count("class:" + c.get("cls", "local"))
        ctx.count("used_as:" + c.get("used_kind", "list"))
        if c.get("unpacked"):
            ctx.count("legacy-unpacked-dirs:" + c.get("cls", "local") + ("/dry" if c["dry"] else "/real"))
        ctx.count("cache_odb:" + ("omitted" if not (c.get("sep_cache") or c.get("cache_at_store")) else
                                  ("second-store" if c.get("sep_cache") else "second-odb-on-store-dir") +
                                  ("/other-alg" if c.get("cache_alg", c.get("alg", "md5")) != c.get("alg", "md5")
                                   else "/same-alg")))
        b = c.get("bulk")
        if b:
            ctx.count("store:" + ("large(>=1000)" if b["n"] >= 1000 else "medium(20..999)") + "/" + b["shape"]
                      + ("/dry" if c["dry"] else "/real"))
        else:
            ctx.count("store:small")
        for sig, what in problems:
            ctx.oracle_fail(sig, what, c)
        (big_items if b and b["n"] >= 400 else items).append((c, inp, exp))
    ctx.obligation("oracle:gc", not any(v.kind == "oracle" for v in ctx.violations),
                   f"{len(items) + len(big_items)} real gc runs judged by the independent set-difference oracle")
    # the large stores have big literals: one per shard, at its head (parallel coqc)
    allitems, shard = interleave(items, big_items)
    ctx.correspond("gc", IMPORTS, "gc_in", "fun i => enc_gc_out (gc i)", allitems, shard=shard)
    ctx.extra["exhaustive"] = False if ctx.tier == "quick" else (len(sample) == len(full))


def replay_case(ctx, case):
    cases, fo, dirs, F = gen_cases(ctx)
    inp, exp, problems, nontrivial, res = run_case(ctx, case, fo, dirs, F)
    return {"result": res, "problems": problems, "violates": bool(problems)}
