"""C06 - gc removes exactly the unused objects and never a used one."""

import glob
import itertools
import json
import os
import re

from lib import impl
from lib.core import cN, cbool, cbytes, clist, copt, cpair, ctor, vL, vN, vset

PROPERTY = "C06"
GEN = ["gc"]  # Gen/GcDecisions.v: the decisions of gc() (translator/gcunit.py), regenerated every run
RULE = (
    "stores are built from <=3 file objects, <=2 directory objects over them (shared files, a listed "
    "file that is absent), an unused directory object and a stray file; used sets range over store ids, "
    "an absent id and an id of another algorithm; x shallow/expanding x dry/real x store class x "
    "read-only x cache_odb (omitted = the store itself | a second store | a second odb object over the "
    "store's directory; of the same or of the OTHER algorithm (md5 / md5-dos2unix) and class; holding all / "
    "some / none of the directory objects, loadable / corrupt / not-a-list / missing) x the container kind in which the "
    "used set is handed to gc (list, set, tuple, frozenset, generator, iter(list), map object; drawn from "
    "the seeded rng - the one-shot kinds can be consumed only once). quick: seeded sample; thorough: "
    "the full product. On top: a LARGE-store stream (the small structure plus 1000..2300 tiny planted file "
    "objects - sizes on and around multiples of fs.LIST_OBJECT_PAGE_SIZE=1000 - of which 0..3 are used; dry "
    "and real, both store classes; 32-hex md5 names and short 5-hex names), a medium stream (20..999) and SKEWED "
    "stores (16..400 crafted objects under the prefix directory 00 - from 1000*256/fs.jobs/256 of them on ObjectDB.all() "
    "lists the store prefix by prefix - with garbage under a few sparse later prefixes, all other prefix "
    "directories missing; fixed cases with 300 under 00 in every run, both classes, dry and real). "
    "Next to some directory objects (used, unused, absent) a legacy <oid>.dir.unpacked directory with files is "
    "planted. An AUDIT block (tools/COVERAGE_AUDIT.md) of ~110 fixed cases runs in every run of both tiers: every "
    "flag and pair (shallow x dry x class x jobs, declared defaults, positional call, read_only x dry x cache_odb), "
    "cache_odb omitted / the odb object itself / second store / read-only, the same value under two algorithm "
    "names in both orders, duplicate ids, obj_name labels, the EMPTY listing's oid (used / unused / absent / only "
    "in the cache), an unused directory whose files all belong to a used one, garbage of only directory objects / "
    "only files / none / everything / empty store, a used .dir missing or corrupt in odb but present in cache_odb "
    "(and the reverse, and unknown everywhere), unusual names inside listings (backslash, space, leading dot, "
    "non-ASCII, NFD next to NFC, a name ending in .dir, prefix siblings, 1 and 200 characters, case twins), depth "
    ">= 3, identical content twice in one directory, a root-key entry, crafted oids ending in every hex digit, a "
    "directory oid ...dd.dir next to a file named like it without .dir, unprotected objects, stores built through "
    "add_bytes/add_update_tree, and an injected EIO of fs.remove on the first / last call (oracle only); "
    "ctx.extra['input_dimensions'] tallies what each run reached. corpus/C06/*.json runs first. A case is non-trivial when gc removed at least one object and kept at "
    "least one, or raised."
)
ASSUMPTIONS = [
    "fault cases (an injected EIO from odb.fs.remove on object paths) are judged by the safety half of the oracle "
    "only (the error surfaces, no used object is gone, nothing altered or created, a dry run never removes); the "
    "model has no I/O faults and these cases are not part of the correspondence",
    "a hand-made listing that names one relpath twice with different files is outside the input space (a Tree is "
    "keyed by relpath): Tree.load keeps the last entry, so gc protects only that file - recorded as an unjudged "
    "probe in the evidence (coverage.probes)",
    "the model gc is assembled from decisions generated from the AST of gc.py (translator unit gc, fail-closed on "
    "the statement sequence): guard, algorithm filter, expansion test + source, scan test + source, .dir partition, "
    "count/removal guards, defaults; the loop STRUCTURE around them is hand-written and pinned by the shape check. "
    "Trusted: translator/gcunit.py's reading of those expressions; QueryingProgress passes its iterable through; "
    "`if not cache_odb` means `is None` (HashFileDB defines neither __bool__ nor __len__ - checked; ObjectDB in "
    "dvc_objects is outside the translated tree)",
    "the property speaks about the OBJECTS of the store: regular files at <root>/<2 chars>/<rest>. The legacy "
    "<oid>.dir.unpacked side directories of old DVC caches are not objects (odb.all() does not list them, the "
    "model does not contain them); that gc removes the side directory of an unused .dir object on local-class "
    "stores even in a dry run (odb._remove_unpacked_dir) is outside the property and not judged - what is judged "
    "is that the objects next to them are kept / removed / counted exactly as without them",
    "cache_odb enters the model as what it can load (g_trees) plus its algorithm name (g_cache_alg, carried but "
    "never read: C06_cache_alg_irrelevant); the used set is filtered by the COLLECTED store's algorithm "
    "(C06_other_alg); only md5 and md5-dos2unix stores are exercised (the algorithms Tree.load can read "
    "listings for)",
    "odb.all() lists exactly the files at <root>/<2 chars>/<rest> (dvc_objects; observed independently by os.listdir)",
    "Tree.load raises FileNotFoundError / ObjectFormatError for a missing / unparsable directory object",
    "the model takes the used set as a list: the claim checked is that gc is agnostic to the container kind "
    "(Iterable[HashInfo]); for set/frozenset the harness observes the iteration order (list(container)) and "
    "passes that order to the model (it only decides WHICH load error is reported; C06_used_set: an Ok result "
    "depends on the membership of `used` alone)",
    "the theorems are unbounded in the size of the store (C06_store_app: the decision on an object does not "
    "depend on the rest of the store), so size cannot matter in the model; the large-store stream exists because "
    "a batching/paging implementation could make size matter in the real code. Large stores hold real files "
    "planted with lib.impl.plant; model and implementation see the same names (no aliasing); the short 5-hex "
    "names exist only to keep the Coq literals of the biggest stores small - gc never inspects the shape of a "
    "name beyond the '.dir' suffix and dvc_objects lists every <2 chars>/<rest> file",
]

IMPORTS = "From Coq Require Import NArith List.\nFrom DvcData Require Import Model.Gc."


def gen_cases(ctx):
    F = [b"f-one", b"f-two", b"", b"f-absent"]
    fo = [impl.md5hex(b) for b in F]
    d1 = [("a", fo[0]), ("sub/b", fo[1])]
    d2 = [("x", fo[1]), ("y/z", fo[2]), ("gone", fo[3])]  # lists a file that is not in the store
    d3 = [("only", fo[0])]
    dirs = {"D1": d1, "D2": d2, "D3": d3}
    store_variants = []
    for files in itertools.chain.from_iterable(itertools.combinations(range(3), k) for k in range(4)):
        for ds in (["D1"], ["D1", "D2"], ["D2", "D3"], [], ["D1", "D2", "D3"]):
            store_variants.append((files, ds))
    used_universe = [("md5", fo[0]), ("md5", fo[1]), ("md5", fo[2]), ("md5", "D1"), ("md5", "D2"),
                     ("md5", "D3"), ("md5", "0" * 32), ("sha256", fo[0]), ("md5-dos2unix", "D1")]
    out = []
    for (files, ds) in store_variants:
        for r in range(0, 4):
            for used in itertools.combinations(used_universe, r):
                for shallow in (True, False):
                    for dry in (False, True):
                        out.append({"files": list(files), "dirs": ds, "used": list(used),
                                    "shallow": shallow, "dry": dry})
    return out, fo, dirs, F


USED_KINDS = ("list", "set", "tuple", "frozenset", "generator", "iter", "map")
ONE_SHOT = ("generator", "iter", "map")


def bulk_oids(b):
    """names of the planted bulk file objects of a large-store case: B<i> -> oid"""
    if not b:
        return {}
    if b.get("shape", "md5") == "md5":
        return {f"B{i}": impl.md5hex(b"bulk-%d" % i) for i in range(b["n"])}
    if b["shape"] == "skew":
        # a SKEWED store: n00 objects under the prefix directory 00 (ObjectDB.all() estimates the size
        # of the store from that prefix: 256 * n00 objects; from 1000 * 256 / fs.jobs on it lists the
        # other 255 prefixes one by one instead of walking the whole store), the others under a few
        # sparse later prefixes - every other prefix directory is missing
        pf = b["prefixes"]
        return {f"B{i}": ("00" if i < b["n00"] else pf[(i - b["n00"]) % len(pf)]) + "%030x" % i for i in range(b["n"])}
    # short names: 5 hex chars -> <store>/<2>/<3>; never collide with 32-hex names or '.dir' names
    return {f"B{i}": "%05x" % (0x10000 + i) for i in range(b["n"])}


def plant_bulk(store, oids):
    """impl.plant for thousands of tiny read-only file objects with fewer system calls
    (same layout: <store>/<2 chars>/<rest>, mode 0444, one byte of content)"""
    made = set()
    for o in oids:
        d = os.path.join(store, o[:2])
        if d not in made:
            os.makedirs(d, exist_ok=True)
            made.add(d)
        fd = os.open(os.path.join(d, o[2:]), os.O_WRONLY | os.O_CREAT | os.O_EXCL, 0o444)
        os.write(fd, b"b")
        os.close(fd)


def interleave(small, big):
    """one list of correspondence items + the shard size that puts every big item (a large
    store: a big Coq literal) at the head of its own shard, so that they compile in parallel"""
    if not big:
        return list(small), 250
    shard = max(8, min(250, len(small) // len(big) + 1))
    out, si = [], 0
    for b in big:
        out.append(b)
        out.extend(small[si:si + shard - 1])
        si += shard - 1
    out.extend(small[si:])
    return out, shard


def as_container(kind, used):
    """the same used HashInfos in the container kind under test -> (container, iteration order)"""
    if kind == "list":
        return list(used), list(used)
    if kind == "tuple":
        return tuple(used), list(used)
    if kind in ("set", "frozenset"):
        c = set(used) if kind == "set" else frozenset(used)
        return c, list(c)  # iteration order of an unmodified set is stable: observe it
    if kind == "generator":
        return (h for h in used), list(used)
    if kind == "iter":
        return iter(list(used)), list(used)
    if kind == "map":
        return map(lambda h: h, used), list(used)
    raise ValueError(kind)


def _few(lst, k=6):
    lst = list(lst)
    return f"{lst[:k]}" + (f" (+{len(lst) - k} more)" if len(lst) > k else "")


def resolve_universe(case, fo, dirs, F):
    """the file / directory universe of one case: the fixed F[0..3], D1..D3 plus the case's own
    `xfiles` {name: {"data": text, "oid": crafted name (optional)}} and
    `xdirs` {name: {"entries": [[relpath, file ref]], "oid": crafted name (optional)}}.
    A file ref is an index into F, the name of an xfile, or a literal oid.
    -> (foid: ref -> oid, fdata: ref -> bytes, cdirs: name -> [(relpath, oid)], doid: name -> oid)"""
    foid = {i: fo[i] for i in range(len(fo))}
    fdata = {i: F[i] for i in range(len(F))}
    for name, spec in case.get("xfiles", {}).items():
        data = spec.get("data", "").encode("utf-8")
        fdata[name] = data
        foid[name] = spec.get("oid") or impl.md5hex(data)
    cdirs = {dn: list(lst) for dn, lst in dirs.items()}
    crafted = {}
    for dn, spec in case.get("xdirs", {}).items():
        cdirs[dn] = [(rp, foid.get(ref, ref)) for rp, ref in spec["entries"]]
        if spec.get("oid"):
            crafted[dn] = spec["oid"]
    doid = {dn: crafted.get(dn) or impl.dir_oid(lst) for dn, lst in cdirs.items()}
    # "raw:<dir>" = the directory's oid without the .dir suffix (a FILE object of that name)
    for name, spec in case.get("xfiles", {}).items():
        if str(spec.get("oid", "")).startswith("raw:"):
            foid[name] = doid[spec["oid"][4:]][:-4]
    return foid, fdata, cdirs, doid


class InjectedFault(OSError):
    pass


def run_case(ctx, case, fo, dirs, F):
    """returns (input_term, impl_val, oracle problems, nontrivial, res)"""
    import errno

    from dvc_objects.errors import ObjectDBPermissionError, ObjectFormatError

    from dvc_data.hashfile.gc import gc
    from dvc_data.hashfile.hash_info import HashInfo

    root = ctx.fresh("gc")
    store = os.path.join(root, "store")
    cache = os.path.join(root, "cache") if case.get("sep_cache") else store
    cls = case.get("cls", "local")
    alg = case.get("alg", "md5")  # algorithm of the COLLECTED store
    # cache_odb: omitted | the very same object as odb (cache_is_odb) | a second store (sep_cache) | a second
    # odb object over the store's own directory (cache_at_store); same or ANOTHER algorithm / class
    explicit_cache = bool(case.get("sep_cache") or case.get("cache_at_store"))
    cache_alg = case.get("cache_alg", alg)
    cache_cls = case.get("cache_cls", cls)
    foid, fdata, cdirs, doid = resolve_universe(case, fo, dirs, F)
    fmode = 0o644 if case.get("modes") == "unprotected" else 0o444
    store_state = case.get("store_state", {})  # dir name -> "corrupt": the STORE's copy is unreadable
    if case.get("route") == "api":
        # the same store built through the public API instead of planted files
        from dvc_data.hashfile.db import add_update_tree
        from dvc_data.hashfile.tree import Tree

        w = impl.make_odb(cls, store, hash_name=alg)
        for fi in case["files"]:
            w.add_bytes(foid[fi], fdata[fi])
        for dn in case["dirs"]:
            t = Tree()
            for rp, h in cdirs[dn]:
                t.add(tuple(rp.split("/")), None, HashInfo("md5", h))
            t.digest()
            assert t.hash_info.value == doid[dn], (t.hash_info.value, doid[dn])
            add_update_tree(w, t)
    else:
        for fi in case["files"]:
            impl.plant(store, foid[fi], fdata[fi], mode=fmode)
        for dn in case["dirs"]:
            body = b"{not json" if store_state.get(dn) == "corrupt" else impl.canon_listing(cdirs[dn])
            impl.plant(store, doid[dn], body, mode=fmode)
    bulk = bulk_oids(case.get("bulk"))
    plant_bulk(store, bulk.values())
    names = {**{k: v for k, v in foid.items() if isinstance(k, str)}, **doid, **bulk}  # symbolic name -> oid
    if case.get("stray"):
        impl.plant(store, "zz" + "tmpstray", b"partial", mode=0o644)
        with open(os.path.join(store, "rootfile"), "wb") as f:
            f.write(b"not an object")
    trees = {}  # what cache_odb can load: dn -> ok | corrupt | notalist | missing
    for dn in cdirs:
        forced = case.get("cache_state", {}).get(dn)
        if cache != store:
            st = forced or "ok"
        else:
            st = forced or ("ok" if dn in case["dirs"] else "missing")
            if st == "missing" and dn in case["dirs"]:
                st = "ok"
            if dn in case["dirs"] and store_state.get(dn) == "corrupt" and not forced:
                st = "corrupt"  # the store IS the cache
        if st == "ok" and cache != store:
            impl.plant(cache, doid[dn], impl.canon_listing(cdirs[dn]))
        elif st == "corrupt" and not (cache == store and store_state.get(dn) == "corrupt"):
            impl.plant(cache, doid[dn], b"{not json")
        elif st == "notalist":
            impl.plant(cache, doid[dn], b'{"a": 1}')
        trees[dn] = st
    # legacy layout of old DVC versions: a directory <object path>.unpacked (with files) next to a
    # .dir object.  gc calls odb._remove_unpacked_dir for every unused .dir object, dry or not (local
    # class: removes that side directory; base class: no-op).  They are not objects: odb.all() skips
    # them (3 path parts) and so does walk_store (regular files at <2>/<rest> only).
    for dn in case.get("unpacked", []):
        up = os.path.join(store, doid[dn][:2], doid[dn][2:] + ".unpacked")
        os.makedirs(os.path.join(up, "sub"), exist_ok=True)
        for rel in ("a", os.path.join("sub", "b")):
            with open(os.path.join(up, rel), "wb") as f:
                f.write(b"unpacked copy")
    # when cache == store, planting into the cache changed the store: re-observe
    before = impl.walk_store(store)
    odb = impl.make_odb(cls, store, read_only=case.get("ro", False), hash_name=alg)
    if case.get("cache_is_odb"):
        cache_odb = odb
    elif explicit_cache:
        cache_odb = impl.make_odb(cache_cls, cache, hash_name=cache_alg, read_only=case.get("cache_ro", False))
    else:
        cache_odb = None
    case_used = [tuple(u) for u in case["used"]]  # (alg, ref) or (alg, ref, obj_name)
    case_used += [("md5", f"B{i}") for i in case.get("bulk", {}).get("used", [])]
    kind = case.get("used_kind", "list")
    his = [HashInfo(u[0], names.get(u[1], u[1]), *( [u[2]] if len(u) > 2 else [])) for u in case_used]
    used, order = as_container(kind, his)
    fault = case.get("fault")  # {"remove_call": k}: the k-th odb.fs.remove call on OBJECT paths raises EIO
    calls = {"n": 0}
    if fault:
        real_remove = odb.fs.remove

        def failing_remove(paths, *a, **kw):
            if isinstance(paths, str):
                # not gc's batch removal of object paths (a list): e.g. odb._remove_unpacked_dir on the
                # legacy side directory <oid>.dir.unpacked
                return real_remove(paths, *a, **kw)
            calls["n"] += 1
            if calls["n"] == fault["remove_call"]:
                raise InjectedFault(errno.EIO, "injected I/O error")
            return real_remove(paths, *a, **kw)

        odb.fs.remove = failing_remove
    try:
        try:
            how = case.get("call", "kw")
            if how == "defaults":  # shallow=True, dry=False are the declared defaults
                assert case["shallow"] and not case["dry"]
                kw = {}
                if cache_odb is not None:
                    kw["cache_odb"] = cache_odb
                if "jobs" in case:
                    kw["jobs"] = case["jobs"]
                n = gc(odb, used, **kw)
            elif how == "positional":
                n = gc(odb, used, case.get("jobs"), cache_odb, case["shallow"], case["dry"])
            else:
                n = gc(odb, used, jobs=case.get("jobs"), cache_odb=cache_odb, shallow=case["shallow"],
                       dry=case["dry"])
            res = ("ok", n)
        finally:
            if fault:
                try:
                    del odb.fs.remove  # instance attribute shadowing the method
                except AttributeError:
                    odb.fs.remove = real_remove
    except ObjectDBPermissionError:
        res = ("err", 1)
    except InjectedFault:
        res = ("fault", calls["n"])
    except FileNotFoundError:
        res = ("err", 2)
    except ObjectFormatError:
        res = ("err", 3)
    except Exception as exc:  # noqa: BLE001
        res = ("exc", type(exc).__name__)
    after = impl.walk_store(store)

    # ---- model input
    trees_term = []
    for dn in cdirs:
        if trees[dn] == "ok":
            trees_term.append(cpair(cbytes(doid[dn]), copt([cbytes(h) for _, h in cdirs[dn]], clist)))
        elif trees[dn] in ("corrupt", "notalist"):
            trees_term.append(cpair(cbytes(doid[dn]), "None"))
    # the store list and the expected set are the bulk of every literal: write 32-hex names there as
    # (oid_hex32 0x...) [++ dot_dir] - the same list N, ~2.5x cheaper to parse (GcProofs.oid_hex32_example);
    # used ids and listings stay plain lists, so a wrong helper would show as disagreements
    hex32 = re.compile(r"[0-9a-f]{32}")

    def coid(o):
        if hex32.fullmatch(o):
            return f"(oid_hex32 0x{o})"
        if o.endswith(".dir") and hex32.fullmatch(o[:-4]):
            return f"(oid_hex32 0x{o[:-4]} ++ dot_dir)"
        return cbytes(o)

    def cset(oids):  # vset (sorted by code point, deduplicated) with the cheaper literals
        return "VL [" + "; ".join(f"VB {coid(o)}" for o in sorted(set(oids))) + "]"

    cache_alg_term = copt(cbytes(cache_alg) if explicit_cache and not case.get("cache_is_odb") else
                          (cbytes(alg) if case.get("cache_is_odb") else None))
    inp = ("{| g_store := %s; g_alg := %s; g_ro := %s; g_used := %s; g_trees := %s; g_cache_alg := %s; "
           "g_shallow := %s; g_dry := %s |}"
           % (clist([coid(o) for o in sorted(before)]), cbytes(alg), cbool(case.get("ro", False)),
              clist([cpair(cbytes(h.name), cbytes(h.value)) for h in order]),
              clist(trees_term), cache_alg_term,
              cbool(case["shallow"]), cbool(case["dry"])))
    if res[0] == "ok":
        exp = vL([vN(1), vN(res[1]), cset(after.keys())])
    elif res[0] == "err":
        exp = vL([vN(0), vN(res[1])])
    else:
        exp = vL([vN(0), vN(99)])

    # ---- oracle: the property itself, computed independently
    problems = []
    used_set = set()
    load_fail = False
    by_oid = {o: dn for dn, o in doid.items()}
    for u in case_used:
        n, v = u[0], u[1]
        if n != alg:
            continue
        v = names.get(v, v)
        used_set.add(v)
        if v.endswith(".dir") and not case["shallow"]:
            dn = by_oid.get(v)
            if dn is not None and trees[dn] == "ok":
                used_set.update(h for _, h in cdirs[dn])
            else:
                load_fail = True  # unknown to cache_odb, or unreadable there
    unused = [o for o in before if o not in used_set]
    if case.get("ro"):
        if res != ("err", 1):
            problems.append(("C06:readonly-not-refused", f"read-only store: gc returned {res}"))
        if after != before:
            problems.append(("C06:readonly-modified", "read-only store was modified"))
    elif res[0] == "exc":
        problems.append((f"C06:unexpected-exception:{res[1]}", f"gc raised {res[1]}"))
    elif res[0] == "fault":
        # an injected I/O error of fs.remove propagates; whatever happened before it, no used object
        # may be gone, nothing may be created or altered, and a dry run never calls remove at all
        lost_used = [o for o in before if o in used_set and o not in after]
        if lost_used:
            problems.append(("C06:fault:removed-used", f"after a failed removal used object(s) are gone: {_few(lost_used)}"))
        if case["dry"]:
            problems.append(("C06:fault:dry-called-remove", "a dry run called fs.remove"))
        if any(after[o] != before[o] for o in after if o in before) or set(after) - set(before):
            problems.append(("C06:store-altered", "gc altered or created objects"))
    elif res[0] == "err":
        if not load_fail:
            problems.append(("C06:spurious-error", f"gc failed with {res} although every used directory loads"))
        if after != before:
            problems.append(("C06:error-but-modified", "gc raised but had already removed objects"))
    else:
        lost_used = [o for o in before if o in used_set and o not in after]
        if lost_used:
            problems.append(("C06:removed-used", f"used object(s) removed (used handed over as {kind}): {_few(lost_used)}"))
        if case["dry"]:
            if after != before:
                gone = [o for o in before if o not in after]
                problems.append(("C06:dry-modified", f"dry run changed the store of {len(before)} objects: "
                                                     f"{len(gone)} removed, e.g. {_few(gone, 3)}"))
        else:
            kept_unused = [o for o in unused if o in after]
            if kept_unused:
                problems.append(("C06:kept-unused", f"unused object(s) not removed: {_few(kept_unused)}"))
            if any(after[o] != before[o] for o in after if o in before) or set(after) - set(before):
                problems.append(("C06:store-altered", "gc altered or created objects"))
        if not load_fail and res[1] != len(unused):
            problems.append(("C06:count", f"returned {res[1]}, unused objects: {len(unused)}"))
        if fault and not case["dry"] and unused and not load_fail:
            expected_calls = len({o.endswith(".dir") for o in unused})
            if fault["remove_call"] <= expected_calls:
                problems.append(("C06:fault:swallowed", f"the injected fs.remove error (call {fault['remove_call']}) "
                                                        f"did not surface: gc returned {res[1]}"))
    nontrivial = res[0] != "ok" or (0 < len(after) < len(before))
    n00 = sum(1 for o in before if o.startswith("0" * odb.fs.TRAVERSE_PREFIX_LEN))
    traverse = odb.fs.CAN_TRAVERSE and (max(n00, 1) * 16 ** odb.fs.TRAVERSE_PREFIX_LEN / odb.fs.LIST_OBJECT_PAGE_SIZE
                                        >= 256 / odb.fs.jobs)
    prefix_dirs = {o[:2] for o in before}
    run_case.last_dims = dimensions(case, alg, case_used, names, his, before, unused, used_set, doid, cdirs, trees,
                                    foid, res, explicit_cache, cache_alg)
    if traverse:
        run_case.last_dims.add("size/skew: ObjectDB.all() lists prefix by prefix (traverse strategy; fs.jobs=%d)" % odb.fs.jobs)
        later = sorted(p_ for p_ in prefix_dirs if p_ != "00")
        if later and any(("%02x" % i) not in prefix_dirs for i in range(1, int(later[-1], 16))):
            run_case.last_dims.add("size/skew: traverse strategy with a missing prefix directory before a populated one")
            if any(o[:2] != "00" for o in unused):
                run_case.last_dims.add("size/skew: traverse strategy, garbage under a prefix after a missing prefix directory")
    impl.rm_rf(root)
    return inp, exp, problems, nontrivial, res


EMPTY_LISTING_OID = "d751713988987e9331980363e24189ce.dir"


def dimensions(case, alg, case_used, names, his, before, unused, used_set, doid, cdirs, trees, foid, res,
               explicit_cache, cache_alg):
    """the input dimensions (tools/COVERAGE_AUDIT.md) this case had - computed from the case as run"""
    import unicodedata

    d = set()
    sh, dry = case["shallow"], case["dry"]
    d.add(f"flags: shallow={sh} x dry={dry}")
    if case.get("ro"):
        d.add("flags: read_only store" + (" x dry" if dry else " x real"))
        if explicit_cache or case.get("cache_is_odb"):
            d.add("flags: read_only store x cache_odb given")
    if "jobs" in case:
        d.add(f"flags: jobs={case['jobs']}")
    d.add("call: " + case.get("call", "kw"))
    if case.get("cache_is_odb"):
        d.add("cache_odb: the same object as odb")
    elif case.get("sep_cache"):
        d.add("cache_odb: second store, " + ("other algorithm" if cache_alg != alg else "same algorithm"))
    elif case.get("cache_at_store"):
        d.add("cache_odb: second odb object over the store's directory, " + ("other algorithm" if cache_alg != alg else "same algorithm"))
    else:
        d.add("cache_odb: omitted")
    if case.get("cache_ro"):
        d.add("cache_odb: read-only (store writable)")
    if case.get("cache_cls") and case["cache_cls"] != case.get("cls", "local"):
        d.add("cache_odb: other class than the store")
    vals = {}
    for i, u in enumerate(case_used):
        v = names.get(u[1], u[1])
        vals.setdefault(v, []).append((i, u[0]))
        if len(u) > 2:
            d.add("identifiers: obj_name label on a " + ("directory id" if v.endswith(".dir") else "file id"))
        if u[0] != alg:
            d.add("used: id of another algorithm" + (" naming a store object" if v in before else ""))
        elif v not in before:
            d.add("used: id absent from the store")
        if u[0] == alg and v.endswith(".dir"):
            dn = {o: k for k, o in doid.items()}.get(v)
            if not sh:
                if dn is None:
                    d.add("used .dir: unknown to odb and cache_odb (expanding)")
                else:
                    in_store = v in before
                    st_store = "corrupt" if case.get("store_state", {}).get(dn) == "corrupt" else ("present" if in_store else "missing")
                    if case.get("sep_cache"):
                        d.add(f"used .dir: {st_store} in odb, {trees[dn]} in cache_odb (expanding)")
                    elif trees[dn] != "ok":
                        d.add(f"used .dir: {trees[dn]} in the store, no separate cache (expanding)")
                    if trees[dn] == "ok":
                        lst = cdirs[dn]
                        if not lst:
                            d.add("shapes: used EMPTY listing expanded")
                        if any(h not in before for _, h in lst):
                            d.add("shapes: used listing names a file absent from the store")
            if v == EMPTY_LISTING_OID:
                d.add("identifiers: the EMPTY listing's oid is used")
    if not case_used:
        d.add("used: empty")
    for v, occ in vals.items():
        algs = [a for _, a in occ]
        if len(set(algs)) > 1 and alg in algs:
            first_other = algs[0] != alg
            d.add("used: same value under two algorithm names, " + ("other algorithm first" if first_other else "store's algorithm first"))
        if len(algs) != len(set(algs)):
            d.add("used: duplicate id")
    if EMPTY_LISTING_OID in before:
        d.add("identifiers: the EMPTY listing's oid is in the store" + ("" if EMPTY_LISTING_OID in used_set else " (unused)"))
    for o in before:
        if o.endswith(".dir") and o[:-4] in before:
            d.add("identifiers: a file object named like a directory oid without .dir"
                  + (" (exactly one of the two used)" if (o in used_set) != (o[:-4] in used_set) else ""))
        if o.endswith("d.dir") or o.endswith("r.dir"):
            d.add("identifiers: directory oid whose hex part ends in a letter of '.dir'")
    if {o[-1] for o in before if not o.endswith(".dir")} >= set("0123456789abcdef"):
        d.add("identifiers: file oids ending in each hex digit")
    ud = [o for o in unused if o.endswith(".dir")]
    uf = [o for o in unused if not o.endswith(".dir")]
    if not before:
        d.add("garbage: empty store")
    elif not unused:
        d.add("garbage: none (everything used)")
    elif len(unused) == len(before):
        d.add("garbage: everything")
    if ud and not uf:
        d.add("garbage: only directory objects")
    if uf and not ud:
        d.add("garbage: only files")
    if ud and uf:
        d.add("garbage: files and directory objects")
    by_oid = {o: k for k, o in doid.items()}
    used_dirs_files = set()
    if not sh:
        for v in used_set:
            if v in by_oid and trees[by_oid[v]] == "ok":
                used_dirs_files.update(h for _, h in cdirs[by_oid[v]])
    for o in ud:
        dn = by_oid.get(o)
        if dn and cdirs[dn] and used_dirs_files and all(h in used_dirs_files for _, h in cdirs[dn]):
            d.add("shapes: unused directory object whose files are all shared with a used directory")
    for dn in case["dirs"]:
        lst = cdirs[dn]
        rps = [rp for rp, _ in lst]
        hs = [h for _, h in lst]
        if len(lst) == 1:
            d.add("shapes: directory with one file")
        if len(hs) != len(set(hs)):
            d.add("shapes: two entries with identical content in one directory")
        if any(rp.count("/") >= 3 for rp in rps):
            d.add("shapes: nesting depth >= 3")
        if "" in rps:
            d.add("shapes: entry at the root key")
        if impl.md5hex(b"") in hs:
            d.add("shapes: zero-length file listed")
        for rp in rps:
            for part in rp.split("/"):
                if "\\" in part:
                    d.add("names: backslash")
                if " " in part:
                    d.add("names: space")
                if part.startswith("."):
                    d.add("names: leading dot")
                if any(ord(c) > 127 for c in part):
                    d.add("names: non-ASCII")
                    if unicodedata.normalize("NFC", part) != part:
                        d.add("names: not NFC (next to its composed twin)")
                if part.endswith(".dir"):
                    d.add("names: a listed name ending in .dir")
                if len(part) == 1:
                    d.add("names: 1 character")
                if len(part) >= 200:
                    d.add("names: 200 characters")
        parts = {p_ for rp in rps for p_ in rp.split("/")}
        if any(a != b and b.startswith(a) for a in parts for b in parts):
            d.add("names: sibling names where one is a prefix of the other")
        if any(a != b and a.lower() == b.lower() for a in parts for b in parts):
            d.add("names: names differing only in case")
    if impl.md5hex(b"") in before:
        d.add("shapes: zero-length file object in the store")
    if case.get("modes") == "unprotected":
        d.add("pre-existing state: objects unprotected (0644)")
    else:
        d.add("pre-existing state: objects protected (0444)")
    if case.get("unpacked"):
        d.add("pre-existing state: legacy .dir.unpacked side directory")
    if case.get("stray"):
        d.add("pre-existing state: stray temp object and a file at the store root")
    if case.get("store_state"):
        d.add("pre-existing state: a directory object of the store is corrupt")
    d.add("construction route: " + case.get("route", "planted files"))
    if case.get("fault"):
        d.add(f"faults: fs.remove call {case['fault']['remove_call']} raises EIO" + (" (dry)" if dry else ""))
    if case.get("bulk"):
        d.add("size: " + ("store beyond the listing page size (>= 1000 unused)" if case["bulk"]["n"] >= 1000 else
                          ("skewed store (bulk under prefix 00)" if case["bulk"]["shape"] == "skew" else "medium store")))
    d.add("used container: " + case.get("used_kind", "list"))
    d.add("store class: " + case.get("cls", "local"))
    d.add("store algorithm: " + alg)
    d.add("result: " + ("ok" if res[0] == "ok" else f"{res[0]} {res[1]}"))
    return d


VERIF = os.path.dirname(os.path.dirname(os.path.dirname(os.path.abspath(__file__))))


def load_corpus():
    out = []
    for p in sorted(glob.glob(os.path.join(VERIF, "corpus", "C06", "*.json"))):
        with open(p, encoding="utf-8") as f:
            body = json.load(f)
        for c in body if isinstance(body, list) else [body]:
            c = dict(c)
            c.pop("note", None)
            out.append(c)
    return out


OTHER_ALG = {"md5": "md5-dos2unix", "md5-dos2unix": "md5"}


def sprinkle_cache(rng, c, dirnames):
    """the cache_odb dimension: omitted (defaults to the store) | a second store | a second odb
    object over the store's directory; same or ANOTHER algorithm (md5 vs md5-dos2unix) and class;
    the second store holds all / some / none of the directory objects (ok / missing / corrupt)"""
    r = rng.random()
    if r < 0.4:
        c["sep_cache"] = True
        if rng.random() < 0.5:
            c["cache_alg"] = OTHER_ALG[c.get("alg", "md5")]
        if rng.random() < 0.3:
            c["cache_cls"] = "base" if c.get("cls", "local") == "local" else "local"
        h = rng.random()
        if h < 0.25:  # holds none of them
            c["cache_state"] = {dn: "missing" for dn in dirnames}
        elif h < 0.6:  # holds some
            st = dict(c.get("cache_state", {}))
            for dn in dirnames:
                if dn not in st and rng.random() < 0.4:
                    st[dn] = rng.choice(["missing", "missing", "corrupt", "notalist"])
            c["cache_state"] = st
    elif r < 0.5:
        c["cache_at_store"] = True
        c["cache_alg"] = OTHER_ALG[c.get("alg", "md5")] if rng.random() < 0.7 else c.get("alg", "md5")


def sprinkle_unpacked(rng, c, dirnames):
    """legacy <oid>.dir.unpacked side directories next to some directory objects (used and unused
    ones, and now and then next to one that is not in the store)"""
    if rng.random() < 0.45:
        pool = [dn for dn in dirnames if dn in c["dirs"] or rng.random() < 0.15]
        pick = [dn for dn in pool if rng.random() < 0.7]
        if pick:
            c["unpacked"] = pick


WEIRD_NAMES = ["we\\ird.txt", "with space.txt", ".hidden", "кириллица.txt", "漢字.txt", "emoji-\U0001F600.bin",
               "café.txt", "café.txt", "looks.dir", "looks.dir/inner", "imgs/a", "imgs_raw/a", "imgs.bak",
               "x", "L" * 200, "Case.txt", "case.txt", "CASE/inner", "a/b/c/d/deep.txt", "only/sub/dirs/f"]


def audit_cases(fo):
    """tools/COVERAGE_AUDIT.md for gc(odb, used, jobs, cache_odb, shallow, dry): one fixed case per
    dimension / interesting pair, run in EVERY run of both tiers and judged by the same oracle and
    the same correspondence as everything else."""
    A = []

    def add(label, **c):
        c.setdefault("files", [0, 1, 2])
        c.setdefault("dirs", ["D1", "D2", "D3"])
        c.setdefault("used", [["md5", "D1"], ["md5", fo[2]]])
        c.setdefault("shallow", False)
        c.setdefault("dry", False)
        c.setdefault("cls", "local")
        c["audit"] = label
        A.append(c)

    # -- every flag, every pair
    jobs = iter([None, 1, 2, 16, 0, None, 4, 1])
    for cls in ("local", "base"):
        for sh in (True, False):
            for dry in (False, True):
                j = next(jobs)
                c = {"shallow": sh, "dry": dry, "cls": cls}
                if j is not None:
                    c["jobs"] = j
                add("flags: shallow x dry x class x jobs", **c)
    add("call: declared defaults (shallow=True, dry=False)", shallow=True, dry=False, call="defaults")
    add("call: defaults + cache_odb + jobs", shallow=True, dry=False, call="defaults", sep_cache=True, jobs=2, cls="base")
    add("call: positional", call="positional", jobs=3)
    add("call: positional, dry, separate cache", call="positional", dry=True, sep_cache=True, cls="base")
    for dry in (False, True):
        add("read_only x dry", ro=True, dry=dry)
        add("read_only x dry x cache_odb given", ro=True, dry=dry, sep_cache=True, cls="base", shallow=True)
    add("read_only x cache_odb is odb", ro=True, cache_is_odb=True)
    add("read_only x nothing to do", ro=True, files=[], dirs=[], used=[])
    # -- cache_odb given / absent / the same object / read-only consumer
    for sh in (True, False):
        add("cache_odb is the odb object itself", cache_is_odb=True, shallow=sh)
    add("cache_odb is the odb object itself, dry, base", cache_is_odb=True, dry=True, cls="base")
    add("cache_odb read-only, store writable", sep_cache=True, cache_ro=True)
    add("cache_odb read-only + other algorithm + other class", sep_cache=True, cache_ro=True, cache_alg="md5-dos2unix",
        cache_cls="base")
    # -- used: the same value under two algorithm names, both orders; duplicates; obj_name labels
    for other in ("sha256", "md5-dos2unix"):
        for first_other in (True, False):
            pair = [[other, fo[0]], ["md5", fo[0]]]
            dpair = [[other, "D2"], ["md5", "D2"]]
            if not first_other:
                pair.reverse()
                dpair.reverse()
            add("used: same value under two algorithm names", used=pair + dpair, used_kind="list")
    add("used: same value under two names, store is md5-dos2unix", alg="md5-dos2unix",
        used=[["md5", fo[1]], ["md5-dos2unix", fo[1]], ["md5", "D1"], ["md5-dos2unix", "D1"]], used_kind="tuple")
    add("used: value only under the other name (protects nothing)", used=[["sha256", "D1"], ["md5-dos2unix", fo[0]]])
    for kind in ("list", "tuple", "generator"):
        add("used: duplicates", used=[["md5", "D1"], ["md5", "D1"], ["md5", fo[2]], ["md5", fo[2]], ["md5", "D1"]],
            used_kind=kind)
    add("used: obj_name labels on file and directory ids",
        used=[["md5", "D1", "data/dir"], ["md5", fo[2], "data/empty.bin"]])
    add("used: one id under two obj_name labels, in a set",
        used=[["md5", "D3", "first"], ["md5", "D3", "second"], ["md5", fo[1], "x"], ["md5", fo[1], None]],
        used_kind="set")
    add("used: obj_name label on an id of another algorithm", used=[["sha256", "D1", "label"], ["md5", "D3", "label"]],
        used_kind="frozenset", dry=True)
    # -- the EMPTY listing
    E = {"DE": {"entries": []}}
    add("EMPTY listing: used, expanded", xdirs=E, dirs=["D1", "DE"], used=[["md5", "DE"]])
    add("EMPTY listing: used, shallow, dry", xdirs=E, dirs=["DE"], used=[["md5", "DE"]], shallow=True, dry=True, cls="base")
    add("EMPTY listing: in the store, unused", xdirs=E, dirs=["D3", "DE"], used=[["md5", "D3"]])
    add("EMPTY listing: used but absent (expanding: load fails)", xdirs=E, dirs=["D1"], used=[["md5", "DE"]])
    add("EMPTY listing: used, only in the separate cache", xdirs=E, dirs=["D1"], used=[["md5", "DE"]], sep_cache=True)
    add("EMPTY listing: its literal oid under another algorithm", xdirs=E, dirs=["DE"],
        used=[["sha256", EMPTY_LISTING_OID]])
    # -- sharing / the two kinds of garbage
    for dry in (False, True):
        add("unused directory all of whose files belong to a used directory", dirs=["D1", "D3"], used=[["md5", "D1"]],
            dry=dry)
    add("garbage: only directory objects", files=[0, 1], dirs=["D1", "D3"], used=[["md5", fo[0]], ["md5", fo[1]]],
        shallow=True)
    add("garbage: only directory objects, dry, base", files=[0, 1], dirs=["D1", "D3"],
        used=[["md5", fo[0]], ["md5", fo[1]]], shallow=True, dry=True, cls="base")
    add("garbage: only directory objects, no file in the store", files=[], dirs=["D1", "D2"], used=[])
    add("garbage: only files", dirs=["D1"], used=[["md5", "D1"]], shallow=True)
    add("garbage: only files, no directory object in the store", dirs=[], used=[["md5", fo[1]]], cls="base")
    add("garbage: none", files=[0, 1], dirs=["D1", "D3"], used=[["md5", "D1"], ["md5", "D3"]])
    add("garbage: none, shallow ids of everything", files=[0, 1], dirs=["D1"],
        used=[["md5", "D1"], ["md5", fo[0]], ["md5", fo[1]]], shallow=True, dry=True)
    add("garbage: everything", used=[])
    add("garbage: everything, dry", used=[], dry=True, cls="base")
    add("empty store", files=[], dirs=[], used=[["md5", fo[0]]], shallow=True)
    add("empty store, expanding an absent directory", files=[], dirs=[], used=[["md5", "D1"]])
    # -- a used .dir missing / corrupt in odb but present in cache_odb, and the other way round
    add("used .dir missing in odb, present in cache_odb", files=[0, 1], dirs=[], used=[["md5", "D1"]], sep_cache=True)
    add("used .dir corrupt in odb, present in cache_odb", files=[0, 1], dirs=["D1"], used=[["md5", "D1"]],
        sep_cache=True, store_state={"D1": "corrupt"})
    add("used .dir corrupt in odb, no cache_odb", files=[0, 1], dirs=["D1"], used=[["md5", "D1"]],
        store_state={"D1": "corrupt"})
    add("used .dir corrupt in odb, shallow (never read)", files=[0, 1], dirs=["D1"], used=[["md5", "D1"]],
        store_state={"D1": "corrupt"}, shallow=True)
    add("unused corrupt .dir is garbage", files=[0, 1], dirs=["D1", "D3"], used=[["md5", "D3"]],
        store_state={"D1": "corrupt"})
    add("used .dir present in odb, missing in cache_odb", dirs=["D1"], used=[["md5", "D1"]], sep_cache=True,
        cache_state={"D1": "missing"})
    add("used .dir present in odb, corrupt in cache_odb", dirs=["D1"], used=[["md5", "D1"]], sep_cache=True,
        cache_state={"D1": "corrupt"}, cls="base")
    add("used .dir unknown everywhere, expanding", used=[["md5", "0" * 32 + ".dir"]])
    add("used .dir unknown everywhere, shallow", used=[["md5", "0" * 32 + ".dir"]], shallow=True)
    # -- names inside listings
    N = {"DN": {"entries": [[rp, [0, 1, 2, "w1", "w2"][i % 5]] for i, rp in enumerate(WEIRD_NAMES)]}}
    W = {"w1": {"data": "weird one"}, "w2": {"data": "weird two"}, "w3": {"data": "not listed"}}
    for cls in ("local", "base"):
        add("names: unusual names in a used listing", xdirs=N, xfiles=W, files=[0, 1, 2, "w1", "w2", "w3"],
            dirs=["DN", "D3"], used=[["md5", "DN"]], cls=cls)
    add("names: unusual names in an unused listing", xdirs=N, xfiles=W, files=[0, 1, 2, "w1", "w2", "w3"],
        dirs=["DN", "D3"], used=[["md5", "D3"], ["md5", "w3"]])
    add("names: unusual names, listing only in the cache, dry", xdirs=N, xfiles=W, files=[0, "w1", "w3"], dirs=[],
        used=[["md5", "DN"]], sep_cache=True, dry=True)
    # -- shapes
    S = {"DS": {"entries": [["a/b/c/d/deep", 0], ["dup1", 1], ["dup2", 1], ["zero", 2]]}, "DK": {"entries": [["", 0]]}}
    add("shapes: depth, identical content twice, zero-length file", xdirs=S, dirs=["DS", "D2"], used=[["md5", "DS"]])
    add("shapes: the same, unused", xdirs=S, dirs=["DS", "D2"], used=[["md5", "D2"]], cls="base")
    add("shapes: entry at the root key", xdirs=S, dirs=["DK", "D1"], used=[["md5", "DK"]])
    # -- identifiers: endings, '.dir' arithmetic
    H = {f"h{c}": {"data": f"hex {c}", "oid": "ab" + "0" * 29 + c} for c in "0123456789abcdef"}
    H["twin"] = {"data": "file named like DD without .dir", "oid": "raw:DD"}
    H["strip"] = {"data": "what rstrip('.dir') would make of DD", "oid": "cd" + "0" * 28}
    X = {"DD": {"entries": [["k", "h3"], ["d", "hd"]], "oid": "cd" + "0" * 28 + "dd.dir"}}
    allh = sorted(H)
    add("identifiers: every hex ending; dir oid ...dd.dir used, its raw twin not", xfiles=H, xdirs=X, files=allh,
        dirs=["DD", "D3"], used=[["md5", "DD"], ["md5", "h0"], ["md5", "hf"], ["md5", "hd"]])
    add("identifiers: the raw twin used, the directory not", xfiles=H, xdirs=X, files=allh, dirs=["DD"],
        used=[["md5", "twin"], ["md5", "strip"], ["md5", "h7"]], cls="base")
    add("identifiers: both twins used, shallow dry", xfiles=H, xdirs=X, files=allh, dirs=["DD"],
        used=[["md5", "twin"], ["md5", "DD"]], shallow=True, dry=True)
    T = {"twin1": {"data": "raw twin of D1", "oid": "raw:D1"}}
    add("identifiers: file object named like D1 without .dir, D1 used", xfiles=T, files=[0, 1, "twin1"], dirs=["D1"],
        used=[["md5", "D1"]])
    add("identifiers: file object named like D1 without .dir, the file used", xfiles=T, files=[0, 1, "twin1"],
        dirs=["D1"], used=[["md5", "twin1"]])
    # -- pre-existing state, construction route
    add("pre-existing state: unprotected objects", modes="unprotected")
    add("pre-existing state: unprotected objects, dry, base", modes="unprotected", dry=True, cls="base")
    for cls in ("local", "base"):
        add("route: store built through add_bytes / add_update_tree", route="api", dirs=["D1", "D3"], cls=cls)
    add("route: API-built store, shallow dry, separate cache", route="api", dirs=["D1", "D3"], shallow=True, dry=True,
        sep_cache=True)
    add("route: API-built store with unusual names", route="api", xdirs=N, xfiles=W, files=[0, 1, 2, "w1", "w2", "w3"],
        dirs=["DN"], used=[["md5", "DN"]])
    # -- store size / skew: >= 300 objects under prefix 00 make ObjectDB.all() list the store prefix by prefix
    #    (threshold 1000 * 256 / fs.jobs / 256 = 250 objects on ONE cpu, 16 on this machine); the later prefixes
    #    are sparse, so most prefix directories are missing, also BEFORE populated ones
    sk = 0
    for cls in ("local", "base"):
        for dry in (True, False):
            pf = [["01", "3c", "ff"], ["02", "fe"], ["7f", "80", "81"], ["ff"]][sk]
            n = 300 + [9, 6, 12, 5][sk]
            add("size/skew: traverse strategy, sparse later prefixes", cls=cls, dry=dry, shallow=bool(sk % 2),
                bulk={"n": n, "shape": "skew", "n00": 300, "prefixes": pf, "used": [0, 150, 301, n - 1]},
                used_kind=["list", "generator", "set", "tuple"][sk])
            sk += 1
    add("size/skew: traverse strategy, everything garbage, separate cache", used=[], sep_cache=True,
        bulk={"n": 320, "shape": "skew", "n00": 310, "prefixes": ["0f", "f0"], "used": []})
    add("size/skew: just below / at the one-cpu threshold (249 / 250 under 00)", dry=True,
        bulk={"n": 255, "shape": "skew", "n00": 249, "prefixes": ["aa", "ab"], "used": [250]})
    add("size/skew: just below / at the one-cpu threshold (249 / 250 under 00)",
        bulk={"n": 256, "shape": "skew", "n00": 250, "prefixes": ["aa", "ab"], "used": [251]}, cls="base")
    # -- faults: fs.remove fails on the first (directory objects) / the last (files) call
    for k in (1, 2):
        for cls in ("local", "base"):
            add("faults: fs.remove raises", dirs=["D1", "D2", "D3"], used=[["md5", "D3"]], fault={"remove_call": k},
                cls=cls)
    add("faults: dry run never reaches fs.remove", used=[["md5", "D3"]], fault={"remove_call": 1}, dry=True)
    add("faults: only files to remove, first call fails", dirs=["D3"], used=[["md5", "D3"]], shallow=True,
        fault={"remove_call": 1})
    return A


def probe_duplicate_relpath(ctx):
    """OBSERVATION, not judged: a hand-made listing that names the same relpath twice with two
    different files cannot be produced by dvc-data (a Tree is keyed by relpath), but it can be
    stored.  Tree.load keeps the last entry only, so gc(expanding) protects only that file.
    Recorded in the evidence so that the behaviour is visible; it raises no violation because such
    an object is not a directory object in the sense of the property (reported to the lead)."""
    from dvc_data.hashfile.gc import gc
    from dvc_data.hashfile.hash_info import HashInfo

    root = ctx.fresh("gc-probe")
    store = os.path.join(root, "store")
    fa, fb = impl.md5hex(b"A"), impl.md5hex(b"B")
    impl.plant(store, fa, b"A")
    impl.plant(store, fb, b"B")
    body = json.dumps([{"md5": fa, "relpath": "same"}, {"md5": fb, "relpath": "same"}]).encode()
    oid = impl.md5hex(body) + ".dir"
    impl.plant(store, oid, body)
    try:
        n = gc(impl.make_odb("local", store), [HashInfo("md5", oid)], shallow=False, dry=False)
    except Exception as exc:  # noqa: BLE001
        n = type(exc).__name__
    after = sorted(impl.walk_store(store))
    impl.rm_rf(root)
    return {"listing": "[{md5: A, relpath: same}, {md5: B, relpath: same}] used, expanding, real run",
            "returned": n, "first_entry_file_kept": fa in after, "last_entry_file_kept": fb in after,
            "judged": False}


def gen_bulk(ctx, cases):
    """large- and medium-store cases: a small structural case + planted bulk file objects.
    The number of UNUSED bulk objects is what a batching implementation would count: put it on and
    around multiples of the listing page size (1000) and at random sizes."""
    rng = ctx.rng
    n_big = ctx.n(4, 16)
    n_med = ctx.n(2, 10)
    md5_cap = 1100 if ctx.tier == "quick" else 2300
    plan = []
    classes = ["local", "base"]
    flip = 0
    for j in range(n_big):
        shape = "md5" if j % 2 == 0 else "short"
        dry = (j // 2) % 2 == 0
        if j % 2 == 0:
            flip = rng.randint(0, 1)  # per (dry|real) pair: which shape gets which store class
        if shape == "md5":
            unused = rng.choice([1000, 1001, rng.randint(1002, md5_cap), rng.randint(1002, md5_cap)])
        else:
            unused = rng.choice([1000, 1001, 1999, 2000, 2001, rng.randint(1002, 2300), rng.randint(1002, 2300)])
        plan.append((shape, dry, unused, classes[(j + flip) % 2]))
    for _ in range(n_med):
        plan.append(("short" if rng.random() < 0.7 else "md5", rng.random() < 0.5, rng.randint(20, 999),
                     rng.choice(classes)))
    out = []
    for shape, dry, unused, cls in plan:
        base = dict(rng.choice(cases))
        k = rng.choice([0, 1, 2, 2, 3])
        n = unused + k
        c = {**base, "dry": dry, "cls": cls, "used_kind": rng.choice(USED_KINDS),
             "bulk": {"n": n, "shape": shape, "used": sorted(rng.sample(range(n), k))}}
        if rng.random() < 0.25:
            c["alg"] = "md5-dos2unix"
        sprinkle_cache(rng, c, ["D1", "D2", "D3"])
        sprinkle_unpacked(rng, c, ["D1", "D2", "D3"])
        if rng.random() < 0.2:
            c["stray"] = True
        out.append(c)
    # skewed stores (bulk under prefix 00 -> ObjectDB.all() lists prefix by prefix), random sparse later prefixes
    for _ in range(ctx.n(2, 8)):
        base = dict(rng.choice(cases))
        n00 = rng.choice([16, 17, 64, 250, 251, rng.randint(252, 400)])
        pf = sorted({"%02x" % rng.randint(1, 255) for _ in range(rng.randint(1, 5))})
        n = n00 + rng.randint(1, 12)
        k = rng.choice([0, 1, 2, 3])
        c = {**base, "dry": rng.random() < 0.5, "cls": rng.choice(classes), "used_kind": rng.choice(USED_KINDS),
             "bulk": {"n": n, "shape": "skew", "n00": n00, "prefixes": pf, "used": sorted(rng.sample(range(n), k))}}
        sprinkle_cache(rng, c, ["D1", "D2", "D3"])
        out.append(c)
    return out


def run(ctx):
    cases, fo, dirs, F = gen_cases(ctx)
    # configuration dimensions sampled on top of the structural product
    extra = []
    for c in cases:
        for cls in ("local", "base"):
            extra.append({**c, "cls": cls})
    full = extra
    k = ctx.n(260, 6000)
    sample = ctx.rng.sample(full, min(k, len(full)))
    # sprinkle the remaining dimensions
    for c in sample:
        r = ctx.rng.random()
        if r < 0.08:
            c["ro"] = True
        if ctx.rng.random() < 0.3:
            c["stray"] = True
        if ctx.rng.random() < 0.25:
            c["cache_state"] = {ctx.rng.choice(list(dirs)): ctx.rng.choice(["corrupt", "notalist", "missing"])}
        if ctx.rng.random() < 0.15:
            c["alg"] = "md5-dos2unix"
        sprinkle_cache(ctx.rng, c, list(dirs))
        sprinkle_unpacked(ctx.rng, c, list(dirs))
        c["used_kind"] = ctx.rng.choice(USED_KINDS)
    bulk_cases = gen_bulk(ctx, cases)
    corpus = load_corpus() + [
        {"files": [0, 1], "dirs": ["D1"], "used": [("md5", "D1")], "shallow": False, "dry": False, "cls": "local"},
        {"files": [0, 1, 2], "dirs": ["D1", "D2"], "used": [("md5", "D2")], "shallow": False, "dry": True, "cls": "base"},
        {"files": [0], "dirs": ["D3"], "used": [], "shallow": True, "dry": False, "cls": "local"},
    ]
    ctx.count("corpus", len(corpus))
    audit = audit_cases(fo)
    ctx.count("audit-cases", len(audit))
    # a few more draws on the sampled stream for the audit's flag-like dimensions
    for c in sample:
        if ctx.rng.random() < 0.15:
            c["jobs"] = ctx.rng.choice([1, 2, 4, 16])
        if ctx.rng.random() < 0.1:
            c["modes"] = "unprotected"
        if not (c.get("sep_cache") or c.get("cache_at_store")) and ctx.rng.random() < 0.12:
            c["cache_is_odb"] = True
        if c.get("sep_cache") and ctx.rng.random() < 0.2:
            c["cache_ro"] = True
        if c["used"] and ctx.rng.random() < 0.15:  # obj_name labels / duplicates
            u = list(c["used"])
            i = ctx.rng.randrange(len(u))
            u[i] = (u[i][0], u[i][1], "data/label-%d" % i)
            if ctx.rng.random() < 0.5:
                u.append(c["used"][i])
            c["used"] = u
        if c["shallow"] and not c["dry"] and ctx.rng.random() < 0.2:
            c["call"] = "defaults"
        elif ctx.rng.random() < 0.1:
            c["call"] = "positional"
    dim_count = {}
    items, big_items = [], []
    for c in corpus + audit + sample + bulk_cases:
        inp, exp, problems, nontrivial, res = run_case(ctx, c, fo, dirs, F)
        for dname in run_case.last_dims:
            dim_count[dname] = dim_count.get(dname, 0) + 1
        ctx.case(c, nontrivial)
        ctx.count("result:" + ("ok" if res[0] == "ok" else f"err{res[1]}"))
        ctx.count("mode:" + ("shallow" if c["shallow"] else "expand") + ("/dry" if c["dry"] else "/real"))
        ctx.count("class:" + c.get("cls", "local"))
        ctx.count("used_as:" + c.get("used_kind", "list"))
        if c.get("unpacked"):
            ctx.count("legacy-unpacked-dirs:" + c.get("cls", "local") + ("/dry" if c["dry"] else "/real"))
        ctx.count("cache_odb:" + ("omitted" if not (c.get("sep_cache") or c.get("cache_at_store")) else
                                  ("second-store" if c.get("sep_cache") else "second-odb-on-store-dir") +
                                  ("/other-alg" if c.get("cache_alg", c.get("alg", "md5")) != c.get("alg", "md5")
                                   else "/same-alg")))
        b = c.get("bulk")
        if b:
            ctx.count("store:" + ("large(>=1000)" if b["n"] >= 1000 else "medium(20..999)") + "/" + b["shape"]
                      + ("/dry" if c["dry"] else "/real"))
        else:
            ctx.count("store:small")
        for sig, what in problems:
            ctx.oracle_fail(sig, what, c)
        if c.get("fault") and res[0] == "fault":
            continue  # judged by the oracle only: the model has no I/O faults
        (big_items if b and b["n"] >= 400 else items).append((c, inp, exp))
    ctx.obligation("oracle:gc", not any(v.kind == "oracle" for v in ctx.violations),
                   f"{len(items) + len(big_items)} real gc runs judged by the independent set-difference oracle")
    # the large stores have big literals: one per shard, at its head (parallel coqc)
    allitems, shard = interleave(items, big_items)
    ctx.correspond("gc", IMPORTS, "gc_in", "fun i => enc_gc_out (gc i)", allitems, shard=shard)
    ctx.extra["input_dimensions"] = dict(sorted(dim_count.items()))
    ctx.extra["probes"] = {"duplicate relpath in a hand-made listing": probe_duplicate_relpath(ctx)}
    ctx.extra["exhaustive"] = False if ctx.tier == "quick" else (len(sample) == len(full))


def replay_case(ctx, case):
    cases, fo, dirs, F = gen_cases(ctx)
    inp, exp, problems, nontrivial, res = run_case(ctx, case, fo, dirs, F)
    return {"result": res, "problems": problems, "violates": bool(problems)}
