"""C03 - the identifier of a directory object is a pure function of its (relpath, digest) set.

Four correspondence streams, each judged by an independent oracle as well:

  tree   random entry lists inserted (with overwrites) into a real Tree in random permutations:
         dict content, as_bytes(), as_bytes(with_meta=True), digest().oid, get_obj(prefix).oid for
         every prefix (+ absent ones), from_list(json.loads(as_bytes)) - against the Gallina
         Tree model, the Gallina json printer/parser and the Gallina MD5, byte for byte.
  hist   add / get_obj / filter / iteritems interleaved on ONE Tree object (the queries are served from a
         cached pygtrie that add() must invalidate): every answer against Model/ListingHist.v (no cache: a
         query is a function of the current dict) and against the sub-directory computed from the current dict.
  routes the same real directories through the object store (build -> odb -> Tree.load / load: same pairs,
         same oid; the empty listing in every run) and through the data index (save, save again, build_tree for
         every prefix): every route must give the canonical identifier.
  build  real directories staged with build() under checksum_jobs x large_file_threshold x
         state-cache temperature (none / cold / warm / foreign algorithm / poisoned); observed:
         the walk order, the state answers, the delivery order of the pool, the merged dict of
         _get_hashes and the resulting oid - against Model/HashSched.v.
  base   hashlib.md5 / json.dumps / json.loads on random inputs against Base/MD5.v, Base/Json.v.
"""

from __future__ import annotations

import functools
import hashlib
import itertools
import json
import os
import random
import time

from lib import impl
from lib.core import cN, cbool, cbytes, clist, copt, cpair, vB, vL, vN, vopt

PROPERTY = "C03"
GEN: list = ["tree"]   # Gen/Tree.v: the decisions of Tree.add/as_list/as_bytes/digest/from_list (translator/treeunit.py)
RULE = (
    "tree stream: 0-7 entries over a pool of escaping-relevant name parts (spaces, quotes, backslashes, "
    "control characters, DEL, non-ASCII, boundary BMP code points, non-BMP), depth 1-3, file/dir name "
    "clashes, sibling names whose tuple order differs from their path order (d / d.e, a / a-b, ...), non-NFC names "
    "with their composed twins, hash names md5 / md5-dos2unix / sha256 / etag / empty / None, random Meta, overwriting "
    "re-insertions, ascending and descending key-tuple order plus 3 random insertion orders each, every prefix of every key plus absent prefixes; a "
    "malformed sub-stream adds lone surrogates, '/' inside a part, empty parts and the empty key. "
    "history stream: 2-5 keys (a path is a file or a directory), 5-14 operations on ONE Tree object mixing add of a new key, "
    "re-add of an existing key with a new digest, get_obj / filter on prefixes of present keys (and absent ones), "
    "iteritems; non-trivial when a query follows a replacement that follows a query (the window in which a cached "
    "trie could be stale). "
    "routes stream: the empty directory, a directory of empty sub-directories, nested directories and every generated "
    "directory: build -> store -> Tree.load/load, index build -> save -> save -> build_tree(prefix) for every prefix. "
    "build stream: real directories (0-9 files, sizes 0-48, nested, odd names) x checksum_jobs "
    "{None,1,2,4} x large_file_threshold {2**20,10,0} x state {none,cold,warm,foreign,poisoned,raced (warmed by a build during which a file was replaced)} with "
    "randomised per-file hashing delays so that the pool delivers out of order. A tree case is "
    "non-trivial when it has >= 2 entries; a build case when >= 1 file was hashed or served by the state."
)
ASSUMPTIONS = [
    "hashlib.md5 = RFC 1321 (Base/MD5.v agrees on the RFC vectors and on the random inputs of every run)",
    "json.dumps(sort_keys=True) on lists of flat str->(str|int|bool) dicts = Base/Json.v printer (compared on every run)",
    "hash_file(path) returns the digest of the file's bytes (C14); here it enters as the value f_true of each file",
    "State.get_many answers in the order of its argument (read from the code: HashesCache.get_many)",
    "get_obj/filter enumerate the sub-tree in pygtrie order, the model in dict order: compared only where the "
    "re-rooted relpaths are pairwise distinct (always the case for '/'-free non-empty parts), justified by C03_perm_relpath",
    "Tree.from_list on a listing whose hash field holds a number/boolean (only producible by re-reading "
    "as_bytes(with_meta=True) with hash_name=None) stores the odd value; the model's hash values are text, it answers "
    "error 99 and that one observable is not compared on such cases (counted in input_distribution)",
    "Tree.ls / Tree.get are judged by the oracle only (the model has no such query); ls is called with a tuple - the "
    "default ls() / ls(None) raises TypeError inside pygtrie on the current code (reported, not part of C03)",
    "a file name that is not valid UTF-8 reaches the code as lone surrogates: build without State gives the canonical "
    "identifier of the surrogate-escaped name, build with the SQLite State raises UnicodeEncodeError (recorded as an "
    "observation, outside Wf)",
    "names are Unicode scalar values (no lone surrogates) for injectivity/round-trip; the surrogate collision is "
    "stated as C03_inj_surrogates_refuted and reproduced on the real encoder",
]

IMPORTS = ("From Coq Require Import NArith List.\n"
           "From DvcData Require Import Base.MD5 Base.Json Model.Listing Model.HashSched Model.ListingHist Model.HashSchedPath.")

PARTS = ["a", "b", "c", "d", "\u00e9", "a b", 'a"b', "a\\b", "\x01x", "\x7f", "\u65e5\u672c", "\U0001F600", "A",
         "a-b", "x.dir", "\u00fa", "\ud7ff", "\ue000", "\uffff", "\U00010000", "\U0010ffff", "\n", "\t", " ",
         "\x1f", "~", "\x80", "0", "relpath", "md5"]
# sibling names where one is a prefix of the other followed by a character that sorts before '/':
# the order of the key tuples ('d','x') < ('d.e','y') is the opposite of the order of the joined paths
SIBLINGS = [("d", "d.e"), ("a", "a-b"), ("a", "a b"), ("data", "data.v2"), ("x", "x!"), ("m", "m#1"), ("a", "a.b")]
# canonically equivalent but different names: decomposed (base + combining mark, Hangul jamo) / composed (NFC)
TWINS = [("e\u0301", "\u00e9"), ("a\u0308", "\u00e4"), ("o\u0323", "\u1ecd"), ("\u1112\u1161\u11ab", "\ud55c"),
         ("cafe\u0301.txt", "caf\u00e9.txt"), ("A\u030a", "\u00c5")]
PARTS += [x for pair in SIBLINGS + TWINS for x in pair if x not in PARTS]
# names asked for by tools/COVERAGE_AUDIT.md (each also appears in a fixed case of every run)
AUDIT_NAMES = ["we\\ird.txt", "sp ace", ".hidden", "\u0444\u0430\u0439\u043b.txt", "imgs", "imgs_raw", "imgs.bak",
               "L" * 200, "Readme", "readme", "B", "Z", "z", "\\u00e9", "tab\there"]
PARTS += [x for x in AUDIT_NAMES if x not in PARTS and len(x) < 50]
EMPTY_LISTING_OID = "d751713988987e9331980363e24189ce.dir"

import collections
import unicodedata

DIM: collections.Counter = collections.Counter()


def name_dims(keys, prefix="name"):
    """which name dimensions of the audit list a set of keys (lists of parts) has; counted once per case"""
    parts = [p for k in keys for p in k]
    allp = set(parts)
    dirs = {p for k in keys for p in k[:-1]}
    leaves = {k[-1] for k in keys if k}
    d = set()
    for p in allp:
        if "\\" in p:
            d.add("backslash")
        if " " in p:
            d.add("space")
        if p.startswith("."):
            d.add("leading-dot")
        if any("\u0400" <= c <= "\u04ff" for c in p):
            d.add("cyrillic")
        if any("\u3040" <= c <= "\u9fff" for c in p):
            d.add("cjk")
        if any(ord(c) > 0xFFFF for c in p):
            d.add("non-bmp(emoji)")
        if any(0xD800 <= ord(c) <= 0xDFFF for c in p):
            d.add("lone-surrogate")
        elif unicodedata.normalize("NFC", p) != p:
            d.add("non-NFC")
            if unicodedata.normalize("NFC", p) in allp:
                d.add("non-NFC-next-to-composed-twin")
        if p.endswith(".dir"):
            d.add("ends-with-.dir")
        if len(p) == 1:
            d.add("1-char")
        if len(p) >= 200:
            d.add("200-chars")
        if any(ord(c) < 0x20 for c in p):
            d.add("control-char")
        if "\x7f" in p:
            d.add("DEL")
        if '"' in p:
            d.add("quote")
        if "\\u" in p:
            d.add("literal-backslash-u-text")
        if any(q != p and q.startswith(p) and q[len(p)] < "/" for q in allp if len(q) > len(p)) and p in dirs:
            d.add("sibling-prefix-sorting-before-slash")
        if any(q != p and q.startswith(p) for q in allp):
            d.add("sibling-string-prefix")
    if any(a != b and a.lower() == b.lower() for a in dirs for b in leaves):
        d.add("file-and-dir-differ-only-in-case")
    if any(c.isupper() for p in allp for c in p[:1]) and any(c.islower() for p in allp for c in p[:1]):
        d.add("upper-and-lower-case-initials(locale-order)")
    if any(ord(c) > 0xFFFF for p in allp for c in p) and any(0xE000 <= ord(c) <= 0xFFFF for p in allp for c in p):
        d.add("code-point-order-differs-from-utf16-order")
    if keys and max(len(k) for k in keys) >= 4:
        d.add("depth>=4")
    for x in d:
        DIM[f"{prefix}:{x}"] += 1
    return d


BAD_PARTS = ["a/b", "", "/", "\ud83d", "\ude00", "\ud83d\ude00", "x/", "\udc80"]
HEX = "0123456789abcdef"


# ----------------------------------------------------------------------------------------------
# term / val helpers


def _jval_term(v):
    if isinstance(v, bool):
        return f"(JBool {cbool(v)})"
    if isinstance(v, int):
        return f"(JNum {cN(v)})"
    return f"(JStr {cbytes(v)})"


def _jval_val(v):
    if isinstance(v, bool):
        return vL([vN(2), vN(1 if v else 0)])
    if isinstance(v, int):
        return vL([vN(1), vN(v)])
    return vL([vN(0), vB(v)])


def _jobj_val(d: dict, sort=True):
    items = sorted(d.items(), key=lambda kv: [ord(c) for c in kv[0]]) if sort else list(d.items())
    return vL([vL([vB(k), _jval_val(v)]) for k, v in items])


META_FIELDS = ["isdir", "size", "nfiles", "isexec", "version_id", "etag", "checksum", "md5", "remote"]


def _meta_term(m):
    """m: dict of Meta kwargs or None"""
    if m is None:
        return "None"
    fields = []
    for f in META_FIELDS:
        v = m.get(f, False if f in ("isdir", "isexec") else None)
        fields.append(f"m_{f} := " + ("None" if v is None else f"(Some {_jval_term(v)})"))
    return "(Some {| " + "; ".join(fields) + " |})"


def _hash_term(h):
    if h is None:
        return "None"
    return f"(Some ({cbytes(h[0] or '')}, {cbytes(h[1] or '')}))"


def _key_term(k):
    return clist([cbytes(p) for p in k])


def _entry_term(e):
    return f"{{| e_key := {_key_term(e['key'])}; e_meta := {_meta_term(e.get('meta'))}; e_hash := {_hash_term(e.get('hash'))} |}}"


def _py_hash_val(hi):
    if hi is None or (hi.name is None and hi.value is None):
        return vL([])
    return vL([vL([vB(hi.name or ""), vB(hi.value or "")])])


def _py_meta_val(meta):
    if meta is None:
        return vL([])
    return vL([_jobj_val(meta.to_dict())])


def _py_tree_val(tree):
    return vL([vL([vL([vB(p) for p in key]), _py_meta_val(meta), _py_hash_val(hi)]) for key, meta, hi in tree])


# ----------------------------------------------------------------------------------------------
# independent reference (nothing from dvc_data)


def emitted(h):
    """what a HashInfo contributes to a listing record (the property's 'file digest')"""
    if h is None or not h[1]:
        return None
    if h[0] == "md5-dos2unix":
        return ("md5", h[1])
    if not h[0]:
        return None
    return (h[0], h[1])


def ref_listing(pairs) -> bytes:
    """pairs: [(relpath, emitted-hash | None)] -> canonical bytes; independent of dvc_data"""
    if all(h is not None and h[0] == "md5" for _, h in pairs):
        return impl.canon_listing([(rp, h[1]) for rp, h in pairs])
    recs = []
    for rp, h in pairs:
        d = {} if h is None else {h[0]: h[1]}
        d["relpath"] = rp
        recs.append(d)
    recs.sort(key=lambda d: d["relpath"])
    return json.dumps(recs, sort_keys=True).encode("utf-8")


def ref_oid(pairs) -> str:
    return impl.md5hex(ref_listing(pairs)) + ".dir"


def final_dict(adds):
    """dict semantics of repeated Tree.add: key -> last value, first-insertion order"""
    d = {}
    for e in adds:
        d[tuple(e["key"])] = e
    return d


def is_scalar_text(s):
    return all(not (0xD800 <= ord(c) <= 0xDFFF) for c in s)


def key_ok(k):
    return len(k) > 0 and all(p and "/" not in p and is_scalar_text(p) for p in k)


def hash_ok(h):
    return h is None or (is_scalar_text(h[0] or "") and is_scalar_text(h[1] or "") and h[0] != "relpath")


# ----------------------------------------------------------------------------------------------
# stream 1: Tree


def _mk_tree(adds, order=None):
    from dvc_data.hashfile.hash_info import HashInfo
    from dvc_data.hashfile.meta import Meta
    from dvc_data.hashfile.tree import Tree

    t = Tree()
    seq = adds if order is None else [adds[i] for i in order]
    for e in seq:
        meta = None if e.get("meta") is None else Meta(**e["meta"])
        hi = None if e.get("hash") is None else HashInfo(e["hash"][0], e["hash"][1])
        if hi is not None and e.get("obj_name"):
            hi.obj_name = e["obj_name"]  # the label DVC attaches; not part of the identifier
        t.add(tuple(e["key"]), meta, hi)
    return t


class _DummyOdb:
    """get_obj only calls odb.get(oid) for a file entry"""

    def get(self, oid):
        from dvc_data.hashfile.hash_info import HashInfo
        from dvc_data.hashfile.obj import HashFile

        return HashFile(None, None, HashInfo("md5", oid))


def prefixes_of(adds, extra):
    ps = {()}
    for e in adds:
        k = tuple(e["key"])
        for i in range(1, len(k) + 1):
            ps.add(k[:i])
    for x in extra:
        ps.add(tuple(x))
    return sorted(ps, key=lambda k: [[ord(c) for c in p] for p in k])


def sub_pairs(fd, prefix):
    """[(rerooted relpath, emitted hash)] of the entries at or below prefix, or None if none"""
    n = len(prefix)
    sub = [(k[n:], e) for k, e in fd.items() if k[:n] == prefix]
    return sub


def tree_oracle(case):
    """the property, judged on the real code with independent reference encoders.
    returns list of (signature, what)"""
    from dvc_data.hashfile.tree import Tree

    adds = case["adds"]
    problems = []
    fd = final_dict(adds)
    wf = all(key_ok(k) for k in fd) and all(hash_ok(e.get("hash")) for e in fd.values())
    rps = ["/".join(k) for k in fd]
    distinct_rp = len(set(rps)) == len(rps)
    pairs = [("/".join(k), emitted(e.get("hash"))) for k, e in fd.items()]
    t0 = _mk_tree(adds)
    b0 = t0.as_bytes()
    t0.digest()
    oid0 = t0.oid
    # permutation invariance (only meaningful when no key is inserted twice)
    no_overwrite = len(fd) == len(adds)
    if distinct_rp:
        want = ref_listing(pairs)
        if b0 != want:
            problems.append(("C03:bytes-not-canonical", f"as_bytes {b0!r} differs from the canonical encoding {want!r}"))
        if oid0 != impl.md5hex(want) + ".dir":
            problems.append(("C03:oid-not-md5-of-listing", f"oid {oid0} is not md5(canonical listing).dir"))
    if no_overwrite and distinct_rp:
        idx = sorted(range(len(adds)), key=lambda i: tuple(adds[i]["key"]))
        # ascending and descending order of the key tuples are always among the insertion orders tried
        orders = [idx, idx[::-1], *case.get("perms", [])]
        if 1 < len(adds) <= 4:
            orders += [list(p) for p in itertools.permutations(range(len(adds)))]  # every insertion order
        for order in orders:
            t = _mk_tree(adds, order)
            b = t.as_bytes()
            t.digest()
            if b != b0 or t.oid != oid0:
                problems.append(("C03:order-dependent", f"insertion order {order} gives {t.oid}, order 0..n gives {oid0}"))
                break
    # metadata blindness
    stripped = [{"key": e["key"], "hash": e.get("hash"), "meta": None} for e in adds]
    ts = _mk_tree(stripped)
    ts.digest()
    if ts.oid != oid0:
        problems.append(("C03:meta-dependent", f"dropping every Meta changes the oid {oid0} -> {ts.oid}"))
    alt = [{"key": e["key"], "hash": e.get("hash"), "meta": {"size": 7, "isexec": True, "etag": "x", "remote": "r"}}
           for e in adds]
    ta = _mk_tree(alt)
    ta.digest()
    if ta.oid != oid0:
        problems.append(("C03:meta-dependent", f"changing every Meta changes the oid {oid0} -> {ta.oid}"))
    # digest(with_meta=True) keeps the with-meta bytes as the object's content; the identifier is still
    # that of the meta-free listing
    for metas in (alt, [{"key": e["key"], "hash": e.get("hash"),
                         "meta": {"size": 1 + i, "isexec": bool(i % 2), "version_id": "v%d" % i, "etag": "e"}}
                        for i, e in enumerate(adds)]):
        tw = _mk_tree(metas)
        tw.digest(with_meta=True)
        if tw.oid != oid0 or (distinct_rp and tw.oid != impl.md5hex(ref_listing(pairs)) + ".dir"):
            problems.append(("C03:meta-dependent:digest-with-meta",
                             f"digest(with_meta=True) gives {tw.oid}, digest() gives {oid0} for the same (path, digest) pairs"))
            break
    # serialise / re-parse
    if wf and distinct_rp:
        t2 = Tree.from_list(json.loads(b0))
        got = {(k, emitted((hi.name, hi.value)) if hi is not None else None) for k, _, hi in t2}
        exp = {(k, emitted(e.get("hash"))) for k, e in fd.items()}
        if got != exp:
            problems.append(("C03:roundtrip", f"from_list(loads(as_bytes)) = {sorted(got)} but the tree holds {sorted(exp)}"))
        else:
            t2.digest()
            if t2.oid != oid0:
                problems.append(("C03:roundtrip-oid", f"re-parsed listing has oid {t2.oid}, original {oid0}"))
    # construction route: from_list of the listing in any order of its records
    if wf and distinct_rp:
        lst = t0.as_list()
        for variant in (lst[::-1], sorted(lst, key=lambda d: (len(d["relpath"]), d["relpath"]))):
            t3 = Tree.from_list([dict(d) for d in variant])
            t3.digest()
            if t3.oid != oid0:
                problems.append(("C03:from-list-order-dependent",
                                 f"from_list of the same records in another order gives {t3.oid}, the tree has {oid0}"))
                break
    # sub-directories
    if wf:
        odb = _DummyOdb()
        for p in prefixes_of(adds, case.get("absent", [])):
            obj = t0.get_obj(odb, p)
            got = None if obj is None else obj.oid
            e = fd.get(p)
            if e is not None and e.get("hash") and e["hash"][1]:
                want_oid = e["hash"][1]
            else:
                sub = sub_pairs(fd, p)
                if not sub and p != ():
                    want_oid = None
                else:
                    want_oid = ref_oid([("/".join(k), emitted(x.get("hash"))) for k, x in sub])
            if got != want_oid:
                problems.append(("C03:subtree", f"get_obj({p!r}).oid = {got}, the sub-directory built alone has {want_oid}"))
                break
    return problems


_seen_bytes: dict = {}


def injectivity_oracle(case, b0, obs):
    """two different (relpath, digest) sets must never serialise to the same bytes"""
    prev = _seen_bytes.get(b0)
    if prev is None:
        _seen_bytes[b0] = (obs, case)
        return []
    if prev[0] != obs:
        return [("C03:collision", f"two different entry sets serialise to the same bytes {b0!r}: {sorted(prev[0])} / {sorted(obs)}")]
    return []


def tree_item(case):
    """(input term, expected val, nontrivial, buckets) for the correspondence"""
    from dvc_data.hashfile.tree import Tree

    adds = case["adds"]
    fd = final_dict(adds)
    t = _mk_tree(adds)
    dict_val = _py_tree_val(t)
    b0 = t.as_bytes()
    try:
        bm = t.as_bytes(with_meta=True)
    except AttributeError:
        bm = None
    t.digest()
    oid = t.oid
    # prefixes on which dict order and trie order provably give the same listing
    odb = _DummyOdb()
    prefs = []
    for p in prefixes_of(adds, case.get("absent", [])):
        sub = sub_pairs(fd, p)
        rps = ["/".join(k) for k, _ in sub]
        if len(set(rps)) == len(rps):
            prefs.append(p)
    got_objs = []
    for p in prefs:
        o = t.get_obj(odb, p)
        got_objs.append(None if o is None else o.oid)

    def fl(raw, hash_name):
        try:
            t2 = Tree.from_list(json.loads(raw), hash_name=hash_name)
        except Exception as exc:  # noqa: BLE001
            code = impl.err_code(exc)
            return vL([vN(0), vN(code)])
        return vL([vN(1), _py_tree_val(t2)])

    # digest(with_meta=True): identifier and the content kept for the object
    dwm = vL([])
    if bm is not None:
        tw = _mk_tree(adds)
        tw.digest(with_meta=True)
        dwm = vL([vL([vB(tw.oid), vB(tw.fs.cat_file(tw.path))])])
    hn = case.get("hash_name")
    # scope limit of Model/Listing.v (stated there): a record whose hash field holds a number or a
    # boolean is stored as such by Tree.from_list, while the model (hash values are text) answers
    # error 99.  Such listings are never written by as_bytes(with_meta=False); with_meta=True can
    # produce them (e.g. {"relpath": .., "size": 3} read back with hash_name=None takes "size" for
    # the hash).  The re-parse of the with-meta bytes is then not compared.
    skip_meta_reparse = bm is None or _odd_typed_hash(bm, hn)
    exp = vL([
        dict_val,
        vB(b0),
        vopt(bm, vB),
        vB(oid),
        vL([vopt(o, vB) for o in got_objs]),
        fl(b0, None),
        vL([]) if skip_meta_reparse else fl(bm, hn),
        dwm,
    ])
    inp = cpair(clist([_entry_term(e) for e in adds]),
                cpair(clist([_key_term(p) for p in prefs]),
                      cpair(cbool(skip_meta_reparse), copt(hn, cbytes))))
    return inp, exp, b0, (bm is not None and skip_meta_reparse)


def _odd_typed_hash(raw, hash_name):
    """does some record of the listing give from_list a non-text hash value?"""
    for rec in json.loads(raw):
        d = {k: v for k, v in rec.items() if k != "relpath"}
        if hash_name is None:
            if len(d) == 1 and not isinstance(next(iter(d.values())), str):
                return True
        else:
            mn = "md5" if hash_name == "md5-dos2unix" else hash_name
            if mn in d and not isinstance(d[mn], str):
                return True
    return False


TREE_INPUT = "list entry * (list key * (bool * option (list N)))"
TREE_MODEL = (
    "fun i : " + TREE_INPUT + " =>"
    " let t := tree_of_list (fst i) in"
    " let b0 := as_bytes false t in"
    " let bm := as_bytes_res true t in"
    " VL [enc_tree t; VB b0; enc_option VB bm; VB (digest t);"
    " enc_list (fun p => enc_option VB (get_obj t p)) (fst (snd i));"
    " enc_fl_res (from_bytes None b0);"
    " match bm, fst (snd (snd i)) with"
    " | Some b, false => enc_fl_res (from_bytes (snd (snd (snd i))) b) | _, _ => VL [] end;"
    " enc_option (fun oc : list N * list N => VL [VB (fst oc); VB (snd oc)]) (digest_obj true t)]"
)


def gen_hash(rng, bad=False):
    r = rng.random()
    hexv = "".join(rng.choice(HEX) for _ in range(32))
    if r < 0.72:
        return ["md5", hexv]
    if r < 0.78:
        return ["md5-dos2unix", hexv]
    if r < 0.82:
        return ["md5", hexv + ".dir"]
    if r < 0.86:
        return ["sha256", "".join(rng.choice(HEX) for _ in range(40))]
    if r < 0.90:
        return ["etag", rng.choice(['"abc"', "é-1", "\U0001F600", "5d41\\x"])]
    if r < 0.93:
        return None
    if r < 0.95:
        return ["md5", ""]
    if r < 0.97:
        return ["", hexv]
    if bad:
        return [rng.choice(["relpath", "size", "md5"]), rng.choice(["\U0001F600", "v"])]
    return ["checksum", "c" + hexv[:6]]


def gen_meta(rng):
    r = rng.random()
    if r < 0.45:
        return None
    m = {}
    if rng.random() < 0.8:
        m["size"] = rng.choice([0, 1, 7, 1024, 2 ** 40 + 3, 123456789])
    if rng.random() < 0.3:
        m["isexec"] = True
    if rng.random() < 0.1:
        m["isdir"] = True
    if rng.random() < 0.15:
        m["nfiles"] = rng.choice([0, 3])
    for f, vals in (("version_id", ["v1", ""]), ("etag", ['e"1', ""]), ("checksum", ["ck"]),
                    ("md5", ["0" * 32, ""]), ("remote", ["origin", "é"])):
        if rng.random() < 0.12:
            m[f] = rng.choice(vals)
    return m


def gen_tree_case(rng, bad=False, max_entries=7):
    n = rng.choice([0, 1, 2, 2, 3, 3, 4, 4, 5, 6, max_entries])
    pool = rng.sample(PARTS, 5)
    if rng.random() < 0.2:
        pool[:2] = rng.choice(SIBLINGS)
    if rng.random() < 0.15:
        pool[2:4] = rng.choice(TWINS)
    if bad:
        pool += rng.sample(BAD_PARTS, 3)
    keys = []
    tries = 0
    while len(keys) < n and tries < 50:
        tries += 1
        depth = rng.choice([1, 1, 2, 2, 3])
        if keys and rng.random() < 0.45:
            base = list(rng.choice(keys))
            cut = rng.randint(0, len(base))  # shares a prefix; may make a file/dir name clash
            k = base[:cut] + [rng.choice(pool) for _ in range(max(1, depth - cut))]
        else:
            k = [rng.choice(pool) for _ in range(depth)]
        if bad and rng.random() < 0.08:
            k = []
        if k not in keys:
            keys.append(k)
    adds = [{"key": k, "hash": gen_hash(rng, bad), "meta": gen_meta(rng)} for k in keys]
    # overwriting re-insertions
    if adds and rng.random() < 0.25:
        for _ in range(rng.choice([1, 2])):
            e = rng.choice(adds)
            adds.append({"key": e["key"], "hash": gen_hash(rng, bad), "meta": gen_meta(rng)})
    rng.shuffle(adds)
    perms = []
    for _ in range(3):
        p = list(range(len(adds)))
        rng.shuffle(p)
        perms.append(p)
    absent = [[rng.choice(pool)], (list(keys[0]) + ["zz"]) if keys else ["zz"]]
    hn = rng.choice([None, "md5", "md5", "md5-dos2unix", "etag", "sha256", "checksum"])
    return {"kind": "tree", "adds": adds, "perms": perms, "absent": absent, "hash_name": hn, "bad": bad}


def shrink_tree(case, sig):
    """drop entries while the same oracle failure persists"""
    cur = case
    changed = True
    while changed and len(cur["adds"]) > 1:
        changed = False
        for i in range(len(cur["adds"])):
            adds = cur["adds"][:i] + cur["adds"][i + 1:]
            cand = {**cur, "adds": adds,
                    "perms": [list(range(len(adds)))[::-1], list(range(len(adds)))]}
            try:
                if any(s == sig for s, _ in tree_oracle(cand)):
                    cur = cand
                    changed = True
                    break
            except Exception:  # noqa: BLE001, S112
                continue
    return cur


def run_tree_stream(ctx, cases):
    items = []
    for case in cases:
        try:
            problems = tree_oracle(case)
        except Exception as exc:  # noqa: BLE001
            problems = [(f"C03:unexpected-exception:{type(exc).__name__}", f"Tree operation raised {exc!r}")]
        inp, exp, b0, odd = tree_item(case)
        if odd:
            ctx.count("tree:with-meta-reparse-not-compared(non-text hash value)")
        fd = final_dict(case["adds"])
        wf = all(key_ok(k) for k in fd) and all(hash_ok(e.get("hash")) for e in fd.values())
        if wf:
            obs = frozenset((k, emitted(e.get("hash"))) for k, e in fd.items())
            problems += injectivity_oracle(case, b0, obs)
        for sig, what in problems:
            small = shrink_tree(case, sig) if sig != "C03:collision" else case
            ctx.oracle_fail(sig, what, small)
        ctx.case(case, nontrivial=len(fd) >= 2)
        name_dims([list(k) for k in fd], "tree-name")
        DIM["tree:entries=%s" % ("0" if not fd else "1" if len(fd) == 1 else "2-7" if len(fd) <= 7 else "8-99" if len(fd) < 100 else "100+")] += 1
        if any(e.get("obj_name") for e in case["adds"]):
            DIM["tree:HashInfo-with-obj_name-label"] += 1
        if any(e.get("hash") and e["hash"][1] == EMPTY_LISTING_OID for e in case["adds"]):
            DIM["tree:value-equal-to-the-empty-listing-oid"] += 1
        if len({tuple(e["hash"]) for e in fd.values() if e.get("hash")}) < sum(1 for e in fd.values() if e.get("hash")):
            DIM["tree:two-entries-with-identical-digest"] += 1
        for alg in {e["hash"][0] for e in fd.values() if e.get("hash")}:
            DIM[f"tree:hash-name={alg or '(empty)'}"] += 1
        if () in fd:
            DIM["tree:entry-at-root-key-()"] += 1
        if 1 < len(case["adds"]) <= 4:
            DIM["tree:every-insertion-order-tried"] += 1
        ctx.count("tree:" + ("malformed" if case.get("bad") else "valid"))
        ctx.count(f"tree:entries={min(len(fd), 7)}")
        if len(fd) != len(case["adds"]):
            ctx.count("tree:with-overwrite")
        if any(any(ord(c) > 0xFFFF for p in k for c in p) for k in fd):
            ctx.count("tree:non-bmp-name")
        if any(any(ord(c) < 0x20 or c in '"\\' for p in k for c in p) for k in fd):
            ctx.count("tree:escaped-name")
        items.append((case, inp, exp))
    return items


def near_collision_cases(rng):
    """pairs of entry sets that differ minimally; all must print differently (fed to the
    injectivity oracle through the ordinary stream)"""
    h1 = "1" * 32
    h2 = "2" * 32
    base = [
        [(["a", "b"], h1)], [(["a"], h1), (["b"], h1)], [(["ab"], h1)], [(["a", "b"], h2)],
        [(["a b"], h1)], [(["a", " b"], h1)], [(["a ", "b"], h1)],
        [(['a"', "b"], h1)], [(["a", '"b'], h1)], [(["a\\", "b"], h1)], [(["a", "\\b"], h1)],
        [(["a\\u00e9"], h1)], [(["aé"], h1)], [(["\U0001F600"], h1)], [(["\\ud83d\\ude00"], h1)],
        [(["a", "b"], h1), (["a", "c"], h2)], [(["a", "b"], h2), (["a", "c"], h1)],
        [(["a", "b", "c"], h1)], [(["a", "b"], h1), (["c"], h1)],
        [(["a\n"], h1)], [(["a\\n"], h1)], [(["\x7f"], h1)], [(["\\u007f"], h1)],
        [(['", "md5": "' + h2], h1)],
    ]
    h3 = "3" * 32
    for lo, hi in SIBLINGS:  # given in ascending tuple order; the listing order is the opposite
        base.append([([lo, "x"], h1), ([hi, "y"], h2)])
        base.append([([lo, "x"], h1), ([lo, "z"], h3), ([hi, "y"], h2)])
        base.append([(["p", lo, "x"], h1), (["p", hi, "y"], h2)])
    for dec, comp in TWINS:  # same directory content up to the spelling of one name: different sets
        base.append([(["docs", dec], h1)])
        base.append([(["docs", comp], h1)])
        base.append([(["docs", dec], h1), (["docs", comp], h2)])
        base.append([([dec, "f"], h1)])
        base.append([([comp, "f"], h1)])
    out = []
    for ents in base:
        adds = [{"key": k, "hash": ["md5", h], "meta": None} for k, h in ents]
        out.append({"kind": "tree", "adds": adds, "perms": [list(range(len(adds)))[::-1]], "absent": [["q"]],
                    "hash_name": None, "bad": False})
    return out


def audit_tree_cases():
    """fixed cases for the dimensions of tools/COVERAGE_AUDIT.md that concern Tree objects"""
    h = ["%032x" % (0x1111 * (i + 1) + i) for i in range(20)]

    def case(ents, bad=False, hn=None):
        adds = [{"key": k, "hash": hv, "meta": m, **({"obj_name": on} if on else {})} for k, hv, m, on in ents]
        n = len(adds)
        return {"kind": "tree", "adds": adds, "perms": [list(range(n))[::-1]], "absent": [["nope"]],
                "hash_name": hn, "bad": bad, "audit": True}

    out = []
    # names
    out.append(case([(["we\\ird.txt"], ["md5", h[0]], None, None), ([".hidden", "sp ace"], ["md5", h[1]], None, None),
                     (["\u0444\u0430\u0439\u043b.txt"], ["md5", h[2]], None, None), (["L" * 200], ["md5", h[3]], None, None),
                     (["L" * 200 + "x", "y"], ["md5", h[4]], None, None), (["\\u00e9"], ["md5", h[5]], None, None),
                     (["\u00e9"], ["md5", h[6]], None, None)]))
    out.append(case([(["imgs", "a"], ["md5", h[0]], None, None), (["imgs_raw", "a"], ["md5", h[1]], None, None),
                     (["imgs.bak", "a"], ["md5", h[2]], None, None), (["imgs-2", "a"], ["md5", h[3]], None, None)]))
    out.append(case([(["Readme"], ["md5", h[0]], None, None), (["readme", "x"], ["md5", h[1]], None, None),
                     (["README.md"], ["md5", h[2]], None, None)]))
    out.append(case([(["B"], ["md5", h[0]], None, None), (["a"], ["md5", h[1]], None, None), (["Z"], ["md5", h[2]], None, None),
                     (["z"], ["md5", h[3]], None, None), (["\uffff"], ["md5", h[4]], None, None),
                     (["\U00010000"], ["md5", h[5]], None, None), (["\u00e9"], ["md5", h[6]], None, None)]))
    out.append(case([(["a", "b", "c", "d", "e", "f.txt"], ["md5", h[0]], None, None),
                     (["a", "b", "c", "d", "g.txt"], ["md5", h[0]], None, None), (["a", "dup"], ["md5", h[1]], None, None),
                     (["dup"], ["md5", h[1]], None, None)]))
    # identifiers: obj_name labels on file ids and on a nested directory id; the same value under three
    # algorithm names; values ending in every hex digit; a value equal to the empty listing's identifier
    out.append(case([(["f"], ["md5", h[0]], {"size": 3}, "data/f"), (["sub"], ["md5", h[1] + ".dir"], {"isdir": True}, "data/sub"),
                     (["g"], ["md5", h[2]], None, None)]))
    for alg in ("md5", "md5-dos2unix", "sha256"):
        out.append(case([(["same"], [alg, h[7]], None, None)]))
    out.append(case([([c], ["md5", ("%032x" % (i * 0x1111111))[:31] + c], None, None) for i, c in enumerate(HEX)]))
    out.append(case([(["sub"], ["md5", EMPTY_LISTING_OID], {"isdir": True}, None), (["f"], ["md5", EMPTY_LISTING_OID[:32]], None, None)]))
    # shapes: one entry; an entry at the ROOT key ()
    out.append(case([(["only"], ["md5", h[0]], {"size": 0}, None)]))
    out.append(case([([], ["md5", h[0]], None, None), (["x"], ["md5", h[1]], None, None)], bad=True))
    return out


def surrogate_observation(ctx):
    """the hypothesis 'names are scalar values' is necessary: reproduce the collision on the real code"""
    from dvc_data.hashfile.hash_info import HashInfo
    from dvc_data.hashfile.tree import Tree

    a, b = Tree(), Tree()
    a.add(("\U0001F600",), None, HashInfo("md5", "1" * 32))
    b.add(("\ud83d\ude00",), None, HashInfo("md5", "1" * 32))
    same = a.as_bytes() == b.as_bytes()
    ctx.extra["surrogate_collision_reproduced"] = same
    ctx.obligation("observation:surrogate-collision", True,
                   "U+1F600 and the lone pair U+D83D U+DE00 print identically: " + str(same)
                   + " (outside the quantifier: not a valid file name; C03_inj_surrogates_refuted)")


# ----------------------------------------------------------------------------------------------
# stream 1b: histories on ONE Tree object (add interleaved with the queries served from the cached trie)


HIST_MODEL = "fun ops : list hop => enc_hist (run_hist ops [])"


def _op_term(op):
    if op["op"] == "add":
        return f"(HAdd {_entry_term(op)})"
    if op["op"] == "get_obj":
        return f"(HGetObj {_key_term(op['prefix'])})"
    if op["op"] == "filter":
        return f"(HFilter {_key_term(op['prefix'])})"
    return "HItems"


def _in_dict_order(tree, entries):
    """the trie enumerates in its own order; list the (key, meta, hi) triples in the order of the dict"""
    pos = {k: i for i, (k, _, _) in enumerate(tree)}
    return sorted(entries, key=lambda e: pos.get(e[0], len(pos)))


def _pairs_of(entries):
    return {(k, emitted((hi.name, hi.value)) if hi is not None else None) for k, _, hi in entries}


def run_history(ops):
    """execute the operations on one real Tree; returns (answers, tree, problems).  Every answer is also
    judged against the sub-directory / listing computed directly from the current dict content."""
    from dvc_data.hashfile.hash_info import HashInfo
    from dvc_data.hashfile.meta import Meta
    from dvc_data.hashfile.tree import Tree

    t = Tree()
    odb = _DummyOdb()
    cur = {}
    answers = []
    problems = []
    for i, op in enumerate(ops):
        if op["op"] == "add":
            meta = None if op.get("meta") is None else Meta(**op["meta"])
            hi = None if op.get("hash") is None else HashInfo(op["hash"][0], op["hash"][1])
            t.add(tuple(op["key"]), meta, hi)
            cur[tuple(op["key"])] = op
            continue
        p = tuple(op.get("prefix", ()))
        under = {k: e for k, e in cur.items() if k[:len(p)] == p}
        if op["op"] == "get":
            got = t.get(p)
            e = cur.get(p)
            want_g = None if e is None else emitted(e.get("hash"))
            got_g = None if got is None else (emitted((got[1].name, got[1].value)) if got[1] is not None else None)
            if (got is None) != (e is None) or got_g != want_g:
                problems.append(("C03:history-get", f"after operation {i} get({p!r}) = {got!r}, the tree holds {want_g!r}"))
            continue
        if op["op"] == "ls":
            want_ls = sorted({k[len(p)] for k in under if len(k) > len(p)})
            try:
                got_ls = sorted(t.ls(p))  # NB: the default ls() / ls(None) raises TypeError in pygtrie (reported)
            except KeyError:
                got_ls = None
            if got_ls != (want_ls if (under or not p) else None):
                problems.append(("C03:history-ls", f"after operation {i} ls({p!r}) = {got_ls}, the names directly below it "
                                                   f"in the tree's current entries are {want_ls}"))
            continue
        want_pairs = {(k, emitted(e.get("hash"))) for k, e in under.items()}
        if op["op"] == "get_obj":
            o = t.get_obj(odb, p)
            got = None if o is None else o.oid
            answers.append(vL([vN(0), vopt(got, vB)]))
            e = cur.get(p)
            if e is not None and e.get("hash") and e["hash"][1]:
                want = e["hash"][1]
            elif not under and p != ():
                want = None
            else:
                want = ref_oid([("/".join(k[len(p):]), emitted(x.get("hash"))) for k, x in under.items()])
            if got != want:
                problems.append(("C03:history-subtree",
                                 f"after operation {i} get_obj({p!r}).oid = {got}, but the sub-directory built from "
                                 f"the tree's current entries has {want}"))
        elif op["op"] == "filter":
            ents = list(t.filter(p))
            answers.append(vL([vN(1), _py_tree_val(_in_dict_order(t, ents))]))
            if _pairs_of(ents) != want_pairs:
                problems.append(("C03:history-filter",
                                 f"after operation {i} filter({p!r}) lists {sorted(_pairs_of(ents), key=repr)}, the "
                                 f"tree's current entries below it are {sorted(want_pairs, key=repr)}"))
        else:
            ents = [(k, m, h) for k, (m, h) in t.iteritems()]
            answers.append(vL([vN(1), _py_tree_val(_in_dict_order(t, ents))]))
            if _pairs_of(ents) != want_pairs:
                problems.append(("C03:history-items",
                                 f"after operation {i} iteritems() yields {sorted(_pairs_of(ents), key=repr)}, the "
                                 f"tree holds {sorted(want_pairs, key=repr)}"))
    t.digest()
    pairs = [("/".join(k), emitted(e.get("hash"))) for k, e in cur.items()]
    if t.oid != ref_oid(pairs):
        problems.append(("C03:history-oid", f"oid {t.oid} is not the identifier of the final entries"))
    return answers, t, problems


def gen_history(rng):
    pool = rng.sample(["a", "b", "c", "d", "e f", "\u00e9", 'q"', "x.dir", "\U0001F600"], 4)
    if rng.random() < 0.3:
        pool[:2] = rng.choice(SIBLINGS)
    if rng.random() < 0.2:
        pool[2:4] = rng.choice(TWINS)
    keys = []
    while len(keys) < rng.choice([2, 3, 3, 4, 5]):
        if keys and rng.random() < 0.6:
            base = rng.choice(keys)
            k = base[:rng.randint(1, len(base))][:2] + [rng.choice(pool)]
        else:
            k = [rng.choice(pool) for _ in range(rng.choice([1, 2, 2, 3]))]
        # a path is a file or a directory, not both (as in a real directory)
        if k in keys or any(k[:len(o)] == o or o[:len(k)] == k for o in keys):
            continue
        keys.append(k)

    def hv():
        r = rng.random()
        if r < 0.85:
            return ["md5", "".join(rng.choice(HEX) for _ in range(32))]
        if r < 0.93:
            return ["md5-dos2unix", "".join(rng.choice(HEX) for _ in range(32))]
        return None

    def add(k):
        return {"op": "add", "key": k, "hash": hv(), "meta": gen_meta(rng)}

    def query():
        k = rng.choice(present) if present else [pool[0]]
        p = k[:rng.randint(0, len(k))] if rng.random() < 0.9 else [rng.choice(pool), "zz"]
        r = rng.random()
        if r < 0.4:
            return {"op": "get_obj", "prefix": p}
        if r < 0.65:
            return {"op": "filter", "prefix": p}
        if r < 0.78:
            return {"op": "items"}
        if r < 0.9:
            # ls of a directory prefix (or the root)
            return {"op": "ls", "prefix": k[:rng.randint(0, len(k) - 1)]}
        return {"op": "get", "prefix": k if rng.random() < 0.7 else p}

    present = []
    ops = []
    first = keys[:max(1, len(keys) - rng.choice([0, 0, 1]))]
    for k in first:
        ops.append(add(k))
        present.append(k)
    for _ in range(rng.choice([3, 4, 5, 6, 8])):
        r = rng.random()
        if r < 0.45:
            ops.append(query())
        elif r < 0.85:
            ops.append(add(rng.choice(present)))  # a file was edited: same key, new digest
        else:
            rest = [k for k in keys if k not in present]
            k = rest[0] if rest else rng.choice(present)
            ops.append(add(k))
            if k not in present:
                present.append(k)
    ops.append(query())
    return {"kind": "history", "ops": ops}


def _stale_window(ops):
    """is some query preceded by a replacement of an existing key that is itself preceded by a query?"""
    seen, queried, armed = set(), False, False
    for op in ops:
        if op["op"] == "add":
            k = tuple(op["key"])
            if k in seen and queried:
                armed = True
            seen.add(k)
        else:
            if armed:
                return True
            queried = True
    return False


def shrink_history(case, sig):
    cur = case
    changed = True
    while changed and len(cur["ops"]) > 1:
        changed = False
        for i in range(len(cur["ops"])):
            cand = {"kind": "history", "ops": cur["ops"][:i] + cur["ops"][i + 1:]}
            try:
                if any(s == sig for s, _ in run_history(cand["ops"])[2]):
                    cur = cand
                    changed = True
                    break
            except Exception:  # noqa: BLE001, S112
                continue
    return cur


def fixed_histories():
    h = ["1" * 32, "2" * 32, "3" * 32, "4" * 32]

    def a(k, v):
        return {"op": "add", "key": k, "hash": ["md5", v], "meta": None}

    return [
        # build, query the directory (trie materialised), replace a file of it, query again
        {"kind": "history", "ops": [a(["d", "x"], h[0]), a(["d", "y"], h[1]), a(["t"], h[2]),
                                    {"op": "get_obj", "prefix": ["d"]}, a(["d", "x"], h[3]),
                                    {"op": "get_obj", "prefix": ["d"]}, {"op": "filter", "prefix": ["d"]},
                                    {"op": "items"}, {"op": "get_obj", "prefix": []}]},
        {"kind": "history", "ops": [a(["s", "e", "c"], h[0]), a(["s", "a"], h[1]), {"op": "filter", "prefix": ["s"]},
                                    a(["s", "e", "c"], h[2]), a(["s", "a"], h[3]),
                                    {"op": "get_obj", "prefix": ["s", "e"]}, {"op": "get_obj", "prefix": ["s"]},
                                    {"op": "filter", "prefix": ["s", "e"]}]},
        # sibling names added in ascending tuple order (= descending path order), and in the other order
        {"kind": "history", "ops": [a(["d", "x"], h[0]), a(["d.e", "y"], h[1]), {"op": "get_obj", "prefix": []},
                                    a(["d.e", "y"], h[2]), {"op": "get_obj", "prefix": []}]},
        {"kind": "history", "ops": [a(["a-b", "y"], h[1]), a(["a", "x"], h[0]), {"op": "get_obj", "prefix": []},
                                    {"op": "items"}]},
        {"kind": "history", "ops": [a(["docs", "cafe\u0301.txt"], h[0]), a(["docs", "caf\u00e9.txt"], h[1]),
                                    {"op": "get_obj", "prefix": ["docs"]}, {"op": "filter", "prefix": ["docs"]}]},
        {"kind": "history", "ops": [a(["d", "x"], h[0]), a(["d", "s", "y"], h[1]), a(["t"], h[2]), {"op": "ls", "prefix": []},
                                    {"op": "ls", "prefix": ["d"]}, {"op": "get", "prefix": ["d", "x"]}, a(["d", "x"], h[3]),
                                    a(["d", "z"], h[0]), {"op": "get", "prefix": ["d", "x"]}, {"op": "ls", "prefix": ["d"]},
                                    {"op": "get", "prefix": ["nope"]}, {"op": "get_obj", "prefix": ["d"]}]},
        {"kind": "history", "ops": [a(["we\\ird.txt"], h[0]), a([".hidden", "sp ace"], h[1]), a(["Readme"], h[2]),
                                    a(["readme", "x"], h[3]), a(["L" * 200], h[0]), a(["\u0444\u0430\u0439\u043b", "\\u00e9"], h[1]),
                                    {"op": "ls", "prefix": []}, {"op": "get_obj", "prefix": ["readme"]},
                                    a(["readme", "x"], h[0]), {"op": "get_obj", "prefix": ["readme"]},
                                    {"op": "filter", "prefix": [".hidden"]}, {"op": "get", "prefix": ["Readme"]},
                                    {"op": "get_obj", "prefix": []}]},
        {"kind": "history", "ops": [a(["x"], h[0]), {"op": "items"}, a(["x"], h[1]), {"op": "items"},
                                    {"op": "get_obj", "prefix": []}, {"op": "get_obj", "prefix": ["x"]}]},
    ]


def run_history_stream(ctx, cases):
    items = []
    for case in cases:
        ops = case["ops"]
        try:
            answers, t, problems = run_history(ops)
        except Exception as exc:  # noqa: BLE001
            ctx.oracle_fail(f"C03:history-exception:{type(exc).__name__}", f"Tree operation raised {exc!r}", case)
            continue
        for sig, what in problems:
            ctx.oracle_fail(sig, what, shrink_history(case, sig))
        stale = _stale_window(ops)
        ctx.case(case, nontrivial=stale)
        ctx.count("history:" + ("query-after-replace-after-query" if stale else "other"))
        ctx.count(f"history:ops={min(len(ops), 12)}")
        exp = vL([vL(answers), _py_tree_val(t), vB(t.oid)])
        for op in ops:
            DIM["history:op=" + op["op"]] += 1
        name_dims([op["key"] for op in ops if op["op"] == "add"], "history-name")
        items.append((case, clist([_op_term(op) for op in ops if op["op"] not in ("ls", "get")]), exp))
    return items


# ----------------------------------------------------------------------------------------------
# stream 2: build


class _Rec:
    def __init__(self):
        self.dirs = []
        self.cur = None


def _content(spec):
    return bytes.fromhex(spec)


def run_build(ctx, files, cfg, workdir, delays):
    """one real build(); returns observation dict"""
    from dvc_objects.fs.local import localfs

    from dvc_data.hashfile import build as bmod
    from dvc_data.hashfile.hash_info import HashInfo
    from dvc_data.hashfile.state import State, StateNoop

    src = os.path.join(workdir, "src")
    spelled = src + cfg.get("spell", "")  # the staged directory as the caller writes it: "<dir>", "<dir>/", "<dir>//"
    rec = _Rec()
    o_bf, o_gh, o_hf, o_hash = bmod._build_files, bmod._get_hashes, bmod._hash_files, bmod.hash_file
    o_wf = bmod._walk_files

    def p_walk_files(fs, path, ignore=None):
        """the order in which a file system lists directories and files is arbitrary: impose the ascending /
        descending order of the key tuples when the configuration asks for it (otherwise the real one)"""
        items = list(o_wf(fs, path, ignore=ignore))
        mode = cfg.get("walk")
        if mode:
            rev = mode == "desc"
            items.sort(key=lambda it: tuple(it[0][len(path):].split(os.sep)), reverse=rev)
            items = [(root, dict(sorted(fi.items(), reverse=rev))) for root, fi in items]
        yield from items

    def p_build_files(root, file_infos, fs, name, **kw):
        kw["large_file_threshold"] = cfg["threshold"]
        rec.cur = {"root": root, "fnames": list(file_infos),
                   "sizes": {f: (i.get("size") or 0) for f, i in file_infos.items()},
                   "state": {}, "yield": [], "result": []}
        rec.dirs.append(rec.cur)
        return o_bf(root, file_infos, fs, name, **kw)

    def p_get_hashes(paths, fs, name, infos, state=None, **kw):
        st = state if state is not None else StateNoop()
        root = rec.cur["root"]
        for path, meta, hi in st.get_many(list(paths), fs, infos):
            fname = path[len(root) + 1:]
            rec.cur["state"][fname] = None if (meta is None or hi is None) else [hi.name or "", hi.value or ""]
        res = o_gh(paths, fs, name, infos, state=state, **kw)
        rec.cur["result"] = [[p[len(root) + 1:], hi.name or "", hi.value or ""] for p, (_, hi, _) in res.items()]
        return res

    def p_hash_files(small, large, fs, name, jobs=None):
        root = rec.cur["root"]
        cur = rec.cur
        for p, r in o_hf(small, large, fs, name, jobs=jobs):
            cur["yield"].append(p[len(root) + 1:])
            yield p, r

    def p_hash_file(path, *a, **kw):
        d = delays.get(os.path.basename(path), 0)
        if d:
            time.sleep(d)
        return o_hash(path, *a, **kw)

    st = None
    state_mode = cfg["state"]
    try:
        if state_mode != "none":
            st = State(root_dir=workdir, tmp_dir=os.path.join(workdir, "st-" + os.urandom(4).hex()))
        odb = impl.local_odb(os.path.join(workdir, "cache"), **({"state": st} if st else {}))
        if state_mode == "warm":
            bmod.build(odb, src, localfs, "md5", checksum_jobs=cfg["jobs"])
        elif state_mode == "raced":
            # an earlier build during which a writer replaced one file right after it had been hashed (and
            # before the state was saved); the directory is quiescent again when the observed build runs.
            # The replaced file had another size, so that the outcome cannot depend on timestamp granularity.
            victim = os.path.join(src, *cfg["victim"].split("/"))
            final = _content(files[cfg["victim"]])
            with open(victim, "wb") as f:
                f.write(final + b"!")

            def racing_hash_file(path, *a, **kw):
                res = o_hash(path, *a, **kw)
                if path == victim:
                    with open(victim, "wb") as f:
                        f.write(final)
                return res

            bmod.hash_file = racing_hash_file
            try:
                bmod.build(odb, src, localfs, "md5", checksum_jobs=cfg["jobs"])
            finally:
                bmod.hash_file = o_hash
        elif state_mode in ("foreign", "poisoned"):
            items = []
            for rel in files:
                p = os.path.join(src, *rel.split("/"))
                if state_mode == "foreign":
                    items.append((p, HashInfo("md5-dos2unix", "f" * 32), None))
                elif rel in cfg.get("poison", []):
                    items.append((p, HashInfo("md5", "0" * 32), None))
            st.save_many(items, localfs)
        bmod._build_files, bmod._get_hashes, bmod._hash_files, bmod.hash_file = (
            p_build_files, p_get_hashes, p_hash_files, p_hash_file)
        bmod._walk_files = p_walk_files
        try:
            flag = cfg.get("flag")
            kw = {}
            alg = "md5"
            if flag == "dry_run":
                kw["dry_run"] = True
            elif flag == "upload":
                kw["upload"] = True
            elif flag == "callback":
                from fsspec.callbacks import Callback

                kw["callback"] = Callback()
            elif flag == "name=md5-dos2unix":
                alg = "md5-dos2unix"
            elif flag == "ignore":
                drop = {os.path.join(src, *r.split("/")) for r in cfg["ignored"]}

                class _Ignore:
                    def walk(self, fs, path, **kwargs):
                        for root, dirs, fnames in fs.walk(path, **kwargs):
                            yield root, dirs, [f for f in fnames if os.path.join(root, f) not in drop]

                    def find(self, fs, path):
                        for root, _, fnames in self.walk(fs, path):
                            for f in fnames:
                                yield os.path.join(root, f)

                kw["ignore"] = _Ignore()
            _, meta, obj = bmod.build(odb, spelled, localfs, alg, checksum_jobs=cfg["jobs"], **kw)
        finally:
            bmod._build_files, bmod._get_hashes, bmod._hash_files, bmod.hash_file = o_bf, o_gh, o_hf, o_hash
            bmod._walk_files = o_wf
    finally:
        if st is not None:
            st.close()
    walk = []
    for d in rec.dirs:
        rel = os.path.relpath(d["root"], src)
        relkey = [] if rel == "." else rel.split(os.sep)
        walk.append({"rel": relkey, "root": d["root"], "fnames": d["fnames"], "sizes": d["sizes"], "state": d["state"],
                     "yield": d["yield"], "result": d["result"]})
    return {"oid": obj.oid, "nfiles": meta.nfiles, "walk": walk, "listing": obj.as_bytes(), "spelled": spelled}


def build_item(files, cfg, obs):
    """correspondence item for one build observation"""
    truth = {rel: impl.md5hex(_content(c)) for rel, c in files.items()}
    walk_t = []
    dones_t = []
    for d in obs["walk"]:
        fs_t = []
        for fn in d["fnames"]:
            rel = "/".join(d["rel"] + [fn])
            fs_t.append("{| f_name := %s; f_size := %s; f_state := %s; f_true := %s |}" % (
                cbytes(fn), cN(d["sizes"][fn]), _hash_term(d["state"].get(fn)), cbytes(truth[rel])))
        # the key of the walked directory is derived by the model from the raw strings the code saw
        walk_t.append(cpair(f"(rel_key_of {cbytes(obs['spelled'])} {cbytes(d['root'])})", clist(fs_t)))
        dones_t.append(clist([cbytes(x) for x in d["yield"]]))
    conf = "{| c_name := %s; c_threshold := %s; c_jobs := %s |}" % (
        cbytes("md5-dos2unix" if cfg.get("flag") == "name=md5-dos2unix" else "md5"), cN(cfg["threshold"]), copt(cfg["jobs"], cN))
    inp = cpair(conf, cpair(clist(dones_t), clist(walk_t)))
    exp = vL([
        vL([vB(obs["oid"])]),
        vL([vL([vL([vB(a), vB(b), vB(c)]) for a, b, c in d["result"]]) for d in obs["walk"]]),
    ])
    return inp, exp


BUILD_MODEL = (
    "fun i : hconf * (list (list (list N)) * list (key * list hfile)) =>"
    " let c := fst i in let dones := fst (snd i) in let walk := snd (snd i) in"
    " VL [enc_option VB (build_oid c dones walk);"
    " enc_list (fun dw => enc_hdict (get_hashes c (fst dw) (snd (snd dw)))) (combine dones walk)]"
)


def gen_dir(rng, max_files=9):
    n = rng.choice([0, 1, 2, 3, 4, 5, 6, max_files])
    pool = [p for p in rng.sample(PARTS, 8)]
    if rng.random() < 0.3:
        pool[:2] = rng.choice(SIBLINGS)
    if rng.random() < 0.25:
        pool[2:4] = rng.choice(TWINS)
    files = {}
    dirs = set()
    tries = 0
    while len(files) < n and tries < 60:
        tries += 1
        depth = rng.choice([1, 1, 1, 2, 2, 3])
        parts = [rng.choice(pool) for _ in range(depth)]
        rel = "/".join(parts)
        # a path cannot be both a file and a directory on a real file system
        if rel in files or rel in dirs or any("/".join(parts[:i]) in files for i in range(1, depth)):
            continue
        if any(f.startswith(rel + "/") for f in files):
            continue
        for i in range(1, depth):
            dirs.add("/".join(parts[:i]))
        size = rng.choice([0, 1, 5, 9, 10, 11, 20, 33, 48])
        files[rel] = (rng.randbytes(size) if rng.random() < 0.8 else b"same" * (size // 4)).hex()
    return files


def all_configs():
    return [{"jobs": j, "threshold": t, "state": s}
            for j in (None, 1, 2, 4) for t in (2 ** 20, 10, 0)
            for s in ("none", "cold", "warm", "foreign")]


def run_build_stream(ctx, dirs, per_dir, all_flags=False):
    items = []
    for files in dirs:
        name_dims([r.split("/") for r in files], "build-name")
        contents = list(files.values())
        if len(set(contents)) < len(contents):
            DIM["build:two-files-with-identical-content"] += 1
        if "" in contents:
            DIM["build:zero-length-file"] += 1
        DIM["build:files=%s" % ("0" if not files else "1" if len(files) == 1 else "2-9" if len(files) < 10 else "10-99" if len(files) < 100 else "100+")] += 1
        work = ctx.fresh("build")
        tree = {rel: _content(c) for rel, c in files.items()}
        order = list(tree.items())
        ctx.rng.shuffle(order)  # creation order influences os.listdir order on some file systems
        impl.mk_tree(os.path.join(work, "src"), dict(order))
        want = impl.dir_oid([(rel, impl.md5hex(b)) for rel, b in tree.items()])
        cfgs = all_configs()
        chosen = cfgs if per_dir is None else ctx.rng.sample(cfgs, min(per_dir, len(cfgs)))
        # always one config that sends everything non-empty to the pool with several workers
        if not any(c["threshold"] == 0 and c["jobs"] in (2, 4) and c["state"] in ("none", "cold", "foreign") for c in chosen):
            chosen.append({"jobs": 4, "threshold": 0, "state": "cold"})
        # ... walked in ascending (always) and in descending order of the key tuples
        for walk in (("asc", "desc") if per_dir is None or ctx.rng.random() < 0.5 else ("asc",)):
            base = dict(ctx.rng.choice(cfgs))
            base["walk"] = walk
            chosen.append(base)
        # the same directory spelled with trailing separators must get the same identifier
        for spell in (("/", "//") if per_dir is None else (ctx.rng.choice(["/", "//"]),)):
            base = dict(ctx.rng.choice(cfgs))
            base["spell"] = spell
            chosen.append(base)
        # every other flag of build(): dry_run, upload, a non-default callback, the legacy algorithm name
        # (only for contents without CR LF, where md5-dos2unix and md5 coincide), an ignore filter
        flags = ["dry_run", "upload", "callback"]
        if not any(b"\r\n" in b for b in tree.values()):
            flags.append("name=md5-dos2unix")
        if len(files) >= 2:
            flags.append("ignore")
        for flag in (flags if per_dir is None or all_flags else [ctx.rng.choice(flags)]):
            base = dict(ctx.rng.choice([c for c in cfgs if c["state"] in ("none", "cold")]))
            base["flag"] = flag
            if flag == "name=md5-dos2unix":
                base["state"] = ctx.rng.choice(["none", "cold"])  # cold: a real State attached to the store
            if flag == "ignore":
                base["ignored"] = sorted(ctx.rng.sample(sorted(files), max(1, len(files) // 3)))
            chosen.append(base)
        if files:
            # a cache warmed by a build that raced with a writer
            chosen.append({"jobs": ctx.rng.choice([None, 1, 2]), "threshold": ctx.rng.choice([2 ** 20, 10, 0]),
                           "state": "raced", "victim": ctx.rng.choice(sorted(files))})
            poison = ctx.rng.sample(sorted(files), max(1, len(files) // 3))
            chosen.append({"jobs": ctx.rng.choice([None, 2]), "threshold": ctx.rng.choice([0, 10]),
                           "state": "poisoned", "poison": poison})
        oids = {}
        for cfg in chosen:
            delays = {os.path.basename(rel): ctx.rng.choice([0, 0, 0.001, 0.003, 0.006]) for rel in files} \
                if cfg["threshold"] < 2 ** 20 and cfg["jobs"] != 1 else {}
            case = {"kind": "build", "files": files, "cfg": cfg}
            try:
                obs = run_build(ctx, files, cfg, work, delays)
            except Exception as exc:  # noqa: BLE001
                ctx.oracle_fail(f"C03:build-exception:{type(exc).__name__}", f"build raised {exc!r}", case)
                continue
            n_par = sum(1 for d in obs["walk"] if _par_count(d, cfg) >= 2)
            n_hit = sum(1 for d in obs["walk"] for v in d["state"].values() if v and v[0] == "md5")
            out_of_order = any(_out_of_order(d, cfg) for d in obs["walk"])
            ctx.case(case, nontrivial=bool(files))
            ctx.count("build:state=" + cfg["state"])
            ctx.count("build:path-spelling=<dir>" + cfg.get("spell", ""))
            ctx.count("build:walk-order=" + (cfg.get("walk") or "as-listed-by-the-file-system"))
            keys_in_order = [tuple(d["rel"] + [fn]) for d in obs["walk"] for fn in d["fnames"]]
            rps = ["/".join(k) for k in keys_in_order]
            if len(keys_in_order) > 1 and keys_in_order == sorted(keys_in_order) and rps != sorted(rps):
                ctx.count("build:walk-ascending-in-tuples-but-not-in-paths")
            if cfg.get("spell") and any(d["rel"] for d in obs["walk"]):
                ctx.count("build:trailing-separator-with-nested-directories")
            ctx.count(f"build:jobs={cfg['jobs']}")
            ctx.count(f"build:threshold={cfg['threshold']}")
            ctx.count("build:dirs-on-parallel-path=" + ("0" if n_par == 0 else "1" if n_par == 1 else "2+"))
            ctx.count("build:files=" + str(min(len(files), 9)))
            if out_of_order:
                ctx.count("build:pool-delivered-out-of-order")
            if n_hit:
                ctx.count("build:served-by-state")
            # do the hypotheses of C03_schedule (WalkOk: distinct names, sound state answers, every file
            # handed to the pool delivered) hold on this real run?  recorded, so that the theorem is
            # known to be instantiated by real executions and not only by the Coq Examples
            ctx.count("build:hypotheses-of-C03_schedule-" + ("hold" if _walk_ok(files, cfg, obs) else "violated")
                      + ("(poisoned on purpose)" if cfg["state"] == "poisoned" else ""))
            DIM["build:flag=" + (cfg.get("flag") or "(defaults)")] += 1
            DIM["build:state=" + cfg["state"]] += 1
            DIM[f"build:jobs={cfg['jobs']}"] += 1
            DIM[f"build:large_file_threshold={cfg['threshold']}"] += 1
            if cfg.get("spell"):
                DIM["build:path-with-trailing-separator"] += 1
            if cfg.get("walk"):
                DIM["build:walk-order-imposed=" + cfg["walk"]] += 1
            want_all = want
            kept = files
            if cfg.get("flag") == "ignore":
                kept = {r: c for r, c in files.items() if r not in cfg["ignored"]}
                want = impl.dir_oid([(r, impl.md5hex(_content(c))) for r, c in kept.items()])
            if cfg["state"] != "poisoned":  # poisoned: hypothesis StateSound violated on purpose, correspondence only
                if cfg.get("flag") != "ignore":
                    oids[json.dumps(cfg, sort_keys=True)] = obs["oid"]
                if obs["oid"] != want:
                    ctx.oracle_fail("C03:build-oid-depends-on-configuration",
                                    f"build under {cfg} gives {obs['oid']}, the canonical identifier of the directory is {want}; "
                                    f"listing {obs['listing']!r}", shrink_build(ctx, files, cfg, want))
                if obs["nfiles"] != len(kept):
                    ctx.oracle_fail("C03:build-nfiles", f"nfiles {obs['nfiles']} for {len(kept)} files under {cfg}", case)
            want = want_all
            inp, exp = build_item(files, cfg, obs)
            items.append((case, inp, exp))
        if len(set(oids.values())) > 1:
            ctx.oracle_fail("C03:build-oid-depends-on-configuration",
                            f"the same directory got different identifiers: {oids}", {"kind": "build", "files": files})
        impl.rm_rf(work)
    return items


def _walk_ok(files, cfg, obs):
    truth = {rel: impl.md5hex(_content(c)) for rel, c in files.items()}
    for d in obs["walk"]:
        if len(set(d["fnames"])) != len(d["fnames"]):
            return False
        for fn in d["fnames"]:
            st = d["state"].get(fn)
            if st and st[0] == "md5" and st[1] != truth["/".join(d["rel"] + [fn])]:
                return False
        if _par_count(d, cfg) >= 2:
            large = [fn for fn in d["fnames"]
                     if not (d["state"].get(fn) and d["state"][fn][0] == "md5") and d["sizes"][fn] > cfg["threshold"]]
            if not set(large) <= set(d["yield"]):
                return False
    return True


def _par_count(d, cfg):
    n = 0
    for fn in d["fnames"]:
        st = d["state"].get(fn)
        if st and st[0] == "md5":
            continue
        if d["sizes"][fn] and d["sizes"][fn] > cfg["threshold"]:
            n += 1
    return n


def _out_of_order(d, cfg):
    if _par_count(d, cfg) < 2:
        return False
    large = [fn for fn in d["fnames"]
             if not (d["state"].get(fn) and d["state"][fn][0] == "md5") and d["sizes"][fn] > cfg["threshold"]]
    got = [fn for fn in d["yield"] if fn in large]
    return got != large


def shrink_build(ctx, files, cfg, want):
    """drop files while build under cfg still disagrees with the canonical identifier"""
    cur = dict(files)
    changed = True
    while changed and len(cur) > 1:
        changed = False
        for rel in sorted(cur):
            cand = {k: v for k, v in cur.items() if k != rel}
            work = ctx.fresh("shrink")
            try:
                impl.mk_tree(os.path.join(work, "src"), {r: _content(c) for r, c in cand.items()})
                obs = run_build(ctx, cand, cfg, work, {})
                w = impl.dir_oid([(r, impl.md5hex(_content(c))) for r, c in cand.items()
                                  if not (cfg.get("flag") == "ignore" and r in cfg.get("ignored", []))])
                bad = obs["oid"] != w
            except Exception:  # noqa: BLE001
                bad = False
            impl.rm_rf(work)
            if bad:
                cur = cand
                changed = True
                break
    return {"kind": "build", "files": cur, "cfg": cfg}


# ----------------------------------------------------------------------------------------------
# stream 2b: the other routes to the identifier of a real directory - through the object store
# (build -> odb -> Tree.load / load) and through the data index (index build -> save -> save again ->
# build_tree for every prefix).  Every route must give the canonical identifier of the (path, digest)
# pairs on disk, and the stored listing must re-load to the same pairs.


def store_routes(ctx, files, empty_dirs=()):
    """returns the list of (signature, what) problems for one directory content"""
    from dvc_objects.fs.local import localfs

    from dvc_data.hashfile import load as hload
    from dvc_data.hashfile.build import build as hbuild
    from dvc_data.hashfile.transfer import transfer
    from dvc_data.hashfile.tree import Tree
    from dvc_data.index import build as ibuild
    from dvc_data.index import md5 as imd5
    from dvc_data.index import save as isave
    from dvc_data.index.save import build_tree

    work = ctx.fresh("routes")
    problems = []
    try:
        ws = os.path.join(work, "ws")
        src = os.path.join(ws, "src")
        impl.mk_tree(src, {rel: _content(c) for rel, c in files.items()})
        for d in empty_dirs:
            os.makedirs(os.path.join(src, *d.split("/")), exist_ok=True)
        digests = {rel: impl.md5hex(_content(c)) for rel, c in files.items()}

        def below(prefix):  # prefix: tuple of parts below src
            n = len(prefix)
            return [("/".join(k[n:]), h) for k, h in ((tuple(r.split("/")), h) for r, h in digests.items())
                    if k[:n] == prefix and len(k) > n]

        def canon(prefix):
            return impl.dir_oid(below(prefix))

        # ---- (1) object store: build, store, re-load
        odb = impl.local_odb(os.path.join(work, "cache"))
        staging, _, obj = hbuild(odb, src, localfs, "md5")
        try:
            res = transfer(staging, odb, {obj.hash_info}, hardlink=False, shallow=False)
            if res.failed:
                problems.append(("C03:store-reload", f"transfer of {obj.oid} from staging to the store failed: {res.failed}"))
        except Exception as exc:  # noqa: BLE001  (transfer re-loads the listing it moves)
            problems.append(("C03:store-transfer", f"transfer of the listing {obj.oid} ({len(digests)} entries) from staging "
                                                f"to the store raised {exc!r}"))
            odb.add(obj.path, obj.fs, obj.oid, hardlink=False)
        if obj.oid != canon(()):
            problems.append(("C03:build-oid-depends-on-configuration",
                             f"build() gives {obj.oid}, the canonical identifier of the directory is {canon(())}"))
        for name, loader in (("Tree.load", lambda: Tree.load(odb, obj.hash_info)), ("load", lambda: hload(odb, obj.hash_info))):
            try:
                t2 = loader()
            except Exception as exc:  # noqa: BLE001
                problems.append(("C03:store-reload", f"{name}() of the stored listing {obj.oid} "
                                                    f"({len(digests)} entries) raised {exc!r}"))
                continue
            got = sorted(("/".join(k), hi.value if hi else None) for k, _, hi in t2)
            if got != sorted(below(())):
                problems.append(("C03:store-reload", f"{name}() of the stored listing {obj.oid} holds {got}, "
                                                    f"the directory holds {sorted(below(()))}"))
                continue
            t2.digest()
            if t2.oid != obj.oid:
                problems.append(("C03:store-reload", f"the listing re-loaded by {name}() digests to {t2.oid}, "
                                                    f"it was stored as {obj.oid}"))

        # ---- (1b) checkout -> rebuild: through the file system with every link type; one State object is
        # shared by the stores of all three rounds
        from dvc_data.hashfile.checkout import checkout
        from dvc_data.hashfile.state import State

        # names that are not valid UTF-8 (lone surrogates after os.fsdecode) are refused, loudly, by the SQLite
        # State (recorded in undecodable_name_observation): those directories go through the StateNoop routes
        utf8_ok = all(is_scalar_text(r) for r in files)
        st = State(root_dir=work, tmp_dir=os.path.join(work, "state")) if utf8_ok else None
        try:
            for link in ("copy", "hardlink", "symlink"):
                odb_l = impl.local_odb(os.path.join(work, "cache"), type=[link], **({"state": st} if st else {}))
                out = os.path.join(work, "out-" + link)
                try:
                    checkout(out, localfs, hload(odb_l, obj.hash_info), odb_l, **({"state": st} if st else {}))
                    if not os.path.isdir(out):
                        if digests:
                            problems.append(("C03:checkout-rebuild", f"checkout ({link}) of {obj.oid} created no directory"))
                        continue
                    _, _, again = hbuild(odb_l, out, localfs, "md5")
                except Exception as exc:  # noqa: BLE001
                    problems.append(("C03:checkout-rebuild", f"checkout ({link}) of {obj.oid} and re-build raised {exc!r}"))
                    continue
                DIM[f"routes:checkout-{link}-then-rebuild" + ("(State-shared-by-the-three-stores)" if st else "(no State)")] += 1
                if again.oid != canon(()):
                    problems.append(("C03:checkout-rebuild",
                                     f"the directory checked out from {obj.oid} with link type {link} re-builds to {again.oid}; "
                                     f"canonical identifier {canon(())}"))
        finally:
            if st is not None:
                st.close()

        # ---- (2) data index: save, save again, build_tree for every prefix
        dirs = {()}
        for rel in list(digests) + [d + "/." for d in empty_dirs]:
            k = tuple(rel.split("/"))
            for i in range(1, len(k)):
                dirs.add(k[:i])
        prefixes = sorted(dirs)
        idx = imd5(ibuild(ws, localfs))
        odb2 = impl.local_odb(os.path.join(work, "cache2"))
        for rnd in (1, 2):
            isave(idx, odb=odb2)
            for p in prefixes:
                hi = idx[("src", *p)].hash_info
                got = hi.value if hi else None
                if got != canon(p):
                    problems.append(("C03:index-route",
                                     f"after index save() number {rnd} the directory entry {'/'.join(('src', *p))} has "
                                     f"identifier {got}; the canonical identifier of its (path, digest) pairs "
                                     f"{sorted(below(p))} is {canon(p)}"))
                    break
        for p in prefixes:
            _, t = build_tree(idx, ("src", *p))
            got = sorted(("/".join(k), hi.value if hi else None) for k, _, hi in t)
            if t.oid != canon(p) or got != sorted(below(p)):
                problems.append(("C03:index-route",
                                 f"build_tree(index, {'/'.join(('src', *p))}) after save() gives {t.oid} with entries {got}; "
                                 f"the directory holds {sorted(below(p))}, canonical identifier {canon(p)}"))
                break
    finally:
        impl.rm_rf(work)
    return problems


def run_routes_stream(ctx, specs):
    for files, empty_dirs in specs:
        case = {"kind": "routes", "files": files, "empty_dirs": list(empty_dirs)}
        try:
            problems = store_routes(ctx, files, empty_dirs)
        except Exception as exc:  # noqa: BLE001
            problems = [(f"C03:routes-exception:{type(exc).__name__}", f"store / index route raised {exc!r}")]
        nested = any("/" in r for r in files) or bool(empty_dirs)
        ctx.case(case, nontrivial=nested or not files)
        ctx.count("routes:" + ("empty-listing" if not files else "nested" if nested else "flat"))
        if not all(is_scalar_text(r) for r in files):
            DIM["routes:file-name-not-valid-UTF-8(surrogate-escaped)-through-store-and-index"] += 1
        DIM["routes:" + ("empty-directory" if not files and not empty_dirs else "only-empty-sub-directories" if not files
                         else "nested" if nested else "flat")] += 1
        DIM["routes:store-reload+index-save-twice+build_tree-per-prefix"] += 1
        for sig in dict.fromkeys(s for s, _ in problems):
            what = next(w for s, w in problems if s == sig)
            small = dict(files)
            changed = True
            while changed and len(small) > 1:
                changed = False
                for rel in sorted(small):
                    cand = {k: v for k, v in small.items() if k != rel}
                    try:
                        if any(s == sig for s, _ in store_routes(ctx, cand, empty_dirs)):
                            small, changed = cand, True
                            break
                    except Exception:  # noqa: BLE001, S112
                        continue
            ctx.oracle_fail(sig, what, {"kind": "routes", "files": small, "empty_dirs": list(empty_dirs)})


def external_name_state_modes(ctx, files):
    """build() of a directory under a non-md5 hash name goes through _build_external_tree_info, which re-hashes the
    stored listing THROUGH odb.state.  The identifier must not depend on whether the store has no State, a cold one,
    a warm one, or is built a second time; for the md5 family (md5-dos2unix on CR-LF-free contents) it must be the
    canonical identifier; the returned object must load from the store."""
    from dvc_objects.fs.local import localfs

    from dvc_data.hashfile.build import build as hbuild
    from dvc_data.hashfile.state import State
    from dvc_data.hashfile.tree import Tree

    work = ctx.fresh("extname")
    problems = []
    try:
        src = os.path.join(work, "src")
        impl.mk_tree(src, {r: _content(c) for r, c in files.items()})
        canonical = impl.dir_oid([(r, impl.md5hex(_content(c))) for r, c in files.items()])
        crlf_free = not any(b"\r\n" in _content(c) for c in files.values())
        for alg in ("md5-dos2unix", "sha256"):
            ids = {}
            st = State(root_dir=work, tmp_dir=os.path.join(work, "state-" + alg))
            try:
                stores = [("no State", impl.local_odb(os.path.join(work, f"cache-{alg}-noop"))),
                          ("cold State", impl.local_odb(os.path.join(work, f"cache-{alg}-st"), state=st)),
                          ("warm State (second build into the same store)", None),
                          ("a second store sharing the State", impl.local_odb(os.path.join(work, f"cache-{alg}-st2"), state=st))]
                prev = None
                for label, odb in stores:
                    odb = odb or prev
                    prev = odb
                    try:
                        _, _, obj = hbuild(odb, src, localfs, alg)
                        ids[label] = f"{obj.hash_info.name}:{obj.hash_info.value}"
                        loaded = Tree.load(odb, obj.hash_info)
                        if len(loaded) != len(files):
                            problems.append(("C03:external-name-state-dependent",
                                             f"build(name={alg!r}) with {label}: the returned {obj.hash_info.value} loads "
                                             f"{len(loaded)} entries, the directory has {len(files)}"))
                    except Exception as exc:  # noqa: BLE001
                        ids[label] = f"raised {type(exc).__name__}: {str(exc)[:100]}"
                DIM[f"build:name={alg}-into-stores-with-no/cold/warm/shared-State"] += 1
            finally:
                st.close()
            if len(set(ids.values())) != 1 or any(v.startswith("raised") for v in ids.values()):
                problems.append(("C03:external-name-state-dependent",
                                 f"build(name={alg!r}) of the same directory gives different identifiers depending on the "
                                 f"hash-state cache of the store: {ids}"))
            elif alg == "md5-dos2unix" and crlf_free and {v.split(":", 1)[1] for v in ids.values()} != {canonical}:
                problems.append(("C03:external-name-state-dependent",
                                 f"build(name='md5-dos2unix') gives {ids}, the canonical identifier is {canonical}"))
    finally:
        impl.rm_rf(work)
    return problems


def run_external_name_stream(ctx, dirs):
    for files in dirs:
        case = {"kind": "external-name", "files": files}
        try:
            problems = external_name_state_modes(ctx, files)
        except Exception as exc:  # noqa: BLE001
            problems = [(f"C03:external-name-exception:{type(exc).__name__}", f"raised {exc!r}")]
        ctx.case(case, nontrivial=bool(files))
        ctx.count("external-name:dirs")
        for sig in dict.fromkeys(s for s, _ in problems):
            small = dict(files)
            changed = True
            while changed and len(small) > 1:
                changed = False
                for rel in sorted(small):
                    cand = {k: v for k, v in small.items() if k != rel}
                    try:
                        if any(s == sig for s, _ in external_name_state_modes(ctx, cand)):
                            small, changed = cand, True
                            break
                    except Exception:  # noqa: BLE001, S112
                        continue
            what = next(w for s, w in (external_name_state_modes(ctx, small) or problems) if s == sig)
            ctx.oracle_fail(sig, what, {"kind": "external-name", "files": small})


def undecodable_name_observation(ctx):
    """a file whose name is not valid UTF-8: os.fsdecode hands the code a str with lone surrogates (surrogateescape).
    Outside the property's quantifier (Wf: Unicode scalar values); what the code does is recorded, not judged."""
    from dvc_objects.fs.local import localfs

    from dvc_data.hashfile.build import build as hbuild
    from dvc_data.hashfile.state import State

    work = ctx.fresh("undecodable")
    note = {}
    try:
        src = os.path.join(work, "src")
        os.makedirs(os.path.join(src, "d"))
        raw = os.path.join(os.fsencode(src), b"d", b"\xff\xfe.bin")
        with open(raw, "wb") as f:
            f.write(b"x")
        with open(os.path.join(src, "ok.txt"), "wb") as f:
            f.write(b"y")
        name = os.fsdecode(b"\xff\xfe.bin")
        want = ref_oid([("d/" + name, ("md5", impl.md5hex(b"x"))), ("ok.txt", ("md5", impl.md5hex(b"y")))])
        for label, mk_state in (("no-state", lambda: None), ("sqlite-state", lambda: State(root_dir=work, tmp_dir=os.path.join(work, "st")))):
            st = mk_state()
            try:
                odb = impl.local_odb(os.path.join(work, "cache-" + label), **({"state": st} if st else {}))
                _, _, obj = hbuild(odb, src, localfs, "md5")
                listing = obj.as_bytes().decode("ascii")
                note[label] = {"oid": obj.oid, "equals_canonical_encoding_of_the_surrogate_name": obj.oid == want,
                               "relpath_as_written": json.loads(listing)[0]["relpath"].encode("unicode_escape").decode()}
            except Exception as exc:  # noqa: BLE001
                note[label] = {"raised": type(exc).__name__ + ": " + str(exc)[:120]}
            finally:
                if st is not None:
                    st.close()
    finally:
        impl.rm_rf(work)
    DIM["build-name:undecodable-bytes(lone-surrogates-from-os.fsdecode)"] += 1
    ctx.extra["undecodable_name_observation"] = note
    ctx.obligation("observation:undecodable-file-name", True, json.dumps(note)[:600])


def foreign_algorithm_observation(ctx):
    """build(name=sha256 / blake3) of a directory goes through the legacy external-tree path; recorded: does it
    succeed, is the identifier stable across thread counts, and is it the md5-named canonical one"""
    from dvc_objects.fs.local import localfs

    from dvc_data.hashfile.build import build as hbuild

    work = ctx.fresh("foreign-alg")
    note = {}
    try:
        src = os.path.join(work, "src")
        impl.mk_tree(src, {"a": b"1" * 20, "s/b": b"2" * 20, "s/c": b""})
        for alg in ("sha256", "blake3"):
            oids = []
            for jobs in (1, 4):
                try:
                    odb = impl.local_odb(os.path.join(work, f"cache-{alg}-{jobs}"))
                    _, _, obj = hbuild(odb, src, localfs, alg, checksum_jobs=jobs, large_file_threshold=0)
                    oids.append(f"{obj.hash_info.name}:{obj.hash_info.value}")
                except Exception as exc:  # noqa: BLE001
                    oids.append("raised " + type(exc).__name__ + ": " + str(exc)[:80])
            note[alg] = {"jobs=1": oids[0], "jobs=4": oids[1], "stable": oids[0] == oids[1]}
    finally:
        impl.rm_rf(work)
    ctx.extra["foreign_algorithm_observation"] = note
    ctx.obligation("observation:build-with-sha256-or-blake3", True, json.dumps(note)[:600])
    DIM["build:hash-name=sha256/blake3(observed-only)"] += 1


# ----------------------------------------------------------------------------------------------
# stream 3: base library


def run_base_stream(ctx, n_md5, n_json):
    md5_items = []
    lens = [0, 1, 55, 56, 57, 63, 64, 65, 119, 120, 128]
    for i in range(n_md5):
        ln = lens[i] if i < len(lens) else ctx.rng.randint(0, 200)
        data = ctx.rng.randbytes(ln)
        case = {"kind": "md5", "data": data.hex()}
        ctx.case(case, nontrivial=ln > 0)
        ctx.count("base:md5")
        md5_items.append((case, cbytes(data), vB(hashlib.md5(data).hexdigest())))  # noqa: S324
    json_items = []
    chars = ["a", "Z", "0", " ", '"', "\\", "/", "\b", "\f", "\n", "\r", "\t", "\x00", "\x1f", "\x7f", "\x80",
             "\u00e9", "\u07ff", "\u0800", "\ud7ff", "\ue000", "\uffff", "\U00010000", "\U0001F600", "\U0010ffff", "~", "}"]
    for _ in range(n_json):
        doc = []
        for _ in range(ctx.rng.choice([0, 1, 2, 3])):
            d = {}
            for _ in range(ctx.rng.choice([0, 1, 2, 4])):
                k = "".join(ctx.rng.choice(chars) for _ in range(ctx.rng.choice([0, 1, 2, 3])))
                r = ctx.rng.random()
                if r < 0.5:
                    v = "".join(ctx.rng.choice(chars) for _ in range(ctx.rng.choice([0, 1, 3, 6])))
                elif r < 0.8:
                    v = ctx.rng.choice([0, 1, 9, 10, 99, 100, 2 ** 31, 2 ** 64 + 1, 1234567890])
                else:
                    v = ctx.rng.random() < 0.5
                d[k] = v
            doc.append(d)
        text = json.dumps(doc, sort_keys=True)
        back = json.loads(text)
        case = {"kind": "json", "doc": doc}
        ctx.case(case, nontrivial=bool(doc))
        ctx.count("base:json")
        if back != doc:
            ctx.oracle_fail("C03:json-roundtrip", f"json.loads(json.dumps(d)) != d for {doc!r}", case)
        term = clist([clist([cpair(cbytes(k), _jval_term(v)) for k, v in d.items()]) for d in doc])
        exp = vL([vB(text), vL([vL([_jobj_val(d, sort=True) for d in back])])])
        json_items.append((case, term, exp))
    return md5_items, json_items


JSON_MODEL = ("fun d : jdoc => let b := json_dumps d in"
              " VL [VB b; enc_option enc_jdoc (parse_doc b)]")


# ----------------------------------------------------------------------------------------------


def load_corpus():
    d = os.path.join(os.path.dirname(os.path.dirname(os.path.dirname(os.path.abspath(__file__)))), "corpus", "C03")
    out = []
    if os.path.isdir(d):
        for n in sorted(os.listdir(d)):
            if n.endswith(".json"):
                with open(os.path.join(d, n)) as f:
                    out.append(json.load(f))
    return out


def run(ctx):
    _seen_bytes.clear()
    DIM.clear()
    cpu0 = time.process_time()
    wall0 = time.time()
    corpus = load_corpus()
    tree_cases = [c for c in corpus if c.get("kind") == "tree"]
    tree_cases += near_collision_cases(ctx.rng)
    tree_cases += audit_tree_cases()
    n_valid = ctx.n(85, 650)
    n_bad = ctx.n(22, 180)
    tree_cases += [gen_tree_case(ctx.rng) for _ in range(n_valid)]
    tree_cases += [gen_tree_case(ctx.rng, bad=True) for _ in range(n_bad)]
    t_items = run_tree_stream(ctx, tree_cases)
    surrogate_observation(ctx)
    if ctx.tier == "thorough":
        # 1000+ entries: the oracle alone (a Coq literal of this size is out of budget); permutations, metadata
        # blindness, round trip, from_list in other orders, every sub-directory
        big = {"kind": "tree", "bad": False, "hash_name": None, "absent": [["nope"]],
               "adds": [{"key": [f"d{i % 37}", f"s{i % 5}", f"f{i:04d}.bin"] if i % 3 else [f"top{i:04d}"],
                         "hash": ["md5", "%032x" % (i * 2654435761 % 2 ** 128)],
                         "meta": {"size": i} if i % 2 else None} for i in range(1200)]}
        order = list(range(1200))
        ctx.rng.shuffle(order)
        big["perms"] = [order]
        ctx.rng.shuffle(big["adds"])
        for sig, what in tree_oracle(big):
            ctx.oracle_fail(sig, what, shrink_tree(big, sig))
        ctx.case({"kind": "tree", "adds": "1200 generated entries (see harness/props/c03.py)"}, nontrivial=True)
        DIM["tree:entries=1000+(oracle-only)"] += 1

    hist_cases = [c for c in corpus if c.get("kind") == "history"] + fixed_histories()
    hist_cases += [gen_history(ctx.rng) for _ in range(ctx.n(45, 350))]
    h_items = run_history_stream(ctx, hist_cases)

    corpus_dirs = [c["files"] for c in corpus if c.get("kind") == "build"]
    fixed_dirs = [
        {},
        {"a": "61"},
        {"a": "61" * 20, "b": "62" * 20},
        {"d/x": "01" * 12, "d/y": "02" * 12, "d/z": "03" * 30, "e/w": "04" * 11, "top": ""},
    ]
    special_dirs = [
        # sibling directories whose tuple order differs from the order of their paths
        {"d/x": "01" * 3, "d.e/y": "02" * 3},
        {"a/f": "03" * 3, "a-b/g": "04" * 3, "a b/h": "05" * 3},
        {"p/data/1": "06", "p/data.v2/1": "07", "p/data/2": ""},
        # a directory holding a name in decomposed and in composed (NFC) form: two different files
        {"docs/cafe\u0301.txt": "08" * 4, "docs/caf\u00e9.txt": "09" * 4},
        {"e\u0301/f": "0a", "\u00e9/f": "0b", "\u1112\u1161\u11ab": "0c", "\ud55c": "0d"},
    ]
    n_dirs = ctx.n(5, 13)
    dirs = corpus_dirs + fixed_dirs + [gen_dir(ctx.rng) for _ in range(n_dirs)]
    b_items = run_build_stream(ctx, dirs, per_dir=ctx.n(5, 48) if ctx.tier == "quick" else None)
    b_items += run_build_stream(ctx, special_dirs, per_dir=ctx.n(1, 6))

    # the empty listing (an empty directory, and one holding only empty sub-directories) goes through the
    # store / index routes in EVERY run, then nested directories, then the generated ones
    audit_dirs = [
        # names (tools/COVERAGE_AUDIT.md 1)
        {"we\\ird.txt": "01", "sp ace": "02", ".hidden": "03", "\u0444\u0430\u0439\u043b.txt": "04",
         "\u65e5\u672c/\u8a9e.txt": "05", "\U0001F600.bin": "06", "x.dir": "07", "y.dir/z": "08", "imgs/a": "09",
         "imgs_raw/a": "0a", "imgs.bak/a": "0b", "L" * 200: "0c", 'q"uote': "0d", "\\u00e9": "0e", "\x01ctl": "0f",
         "\x7f": "10", "tab\there": "11", "cafe\u0301.txt": "12", "caf\u00e9.txt": "13"},
        {"Readme": "01", "readme/x": "02", "README.md": "03", "B": "04", "a": "05", "Z": "06", "z": "07",
         "\uffff": "08", "\U00010000": "09", "\u00e9": "0a"},
        # shapes (2): depth 6 through directories that hold only sub-directories, identical contents within one
        # directory and across directories, zero-length files, a directory with one file
        {"a/b/c/d/e/f.txt": "aa", "a/b/c/d/g.txt": "aa", "a/b/c/d/h.txt": "aa", "a/dup": "bb", "dup": "bb",
         "zero": "", "a/b/zero2": "", "one/only": "cc"},
    ]
    b_items += run_build_stream(ctx, audit_dirs, per_dir=ctx.n(1, 6), all_flags=True)
    if ctx.tier == "thorough":
        # a real directory with 1000+ files: two builds (sequential, pool) and the store / index routes
        big_dir = {f"d{i % 23}/s{i % 4}/f{i:04d}": "%04x" % i if i % 50 else "" for i in range(1050)}
        b_items += run_build_stream(ctx, [big_dir], per_dir=1)
        audit_dirs.append(big_dir)
    route_specs = [({}, ()), ({}, ("e", "f/g")),
                   ({"a": "610a", "z": "", "sub/b": "620a", "sub/c": "630a", "sub/deep/d": "640a"}, ()),
                   ({"d/x": "01", "d.e/y": "02", "top": "03"}, ("d/empty",))]
    route_specs += [(c["files"], tuple(c.get("empty_dirs", ()))) for c in corpus if c.get("kind") == "routes"]
    # file names that are not valid UTF-8 (legal on POSIX): judged through the StateNoop routes
    route_specs += [({"d/" + os.fsdecode(b"caf\xe9.txt"): "78", "ok.txt": "79", os.fsdecode(b"\xff\xfe.bin"): "7a"}, ()),
                    ({os.fsdecode(b"caf\xe9.txt"): "7b"}, ())]
    route_specs += [(f, ()) for f in audit_dirs + dirs[4:]]
    run_routes_stream(ctx, route_specs)

    undecodable_name_observation(ctx)
    foreign_algorithm_observation(ctx)
    run_external_name_stream(ctx, [{"a": "610a", "s/b": "620a", "s/t/c": ""}, {"only": "01"}, {}]
                             + [f for f in dirs[4:] if f and not any(b"\r\n" in _content(c) for c in f.values())][:ctx.n(2, 8)])

    md5_items, json_items = run_base_stream(ctx, ctx.n(24, 150), ctx.n(40, 400))

    ctx.obligation("oracle:listing", not any(v.kind == "oracle" for v in ctx.violations),
                   f"{len(t_items)} tree cases, {len(h_items)} operation histories on one Tree object and {len(b_items)} real builds judged by the independent canonical encoder "
                   "(permutation, metadata, round trip, sub-directory, configuration independence, pairwise injectivity)")
    ctx.extra["python_phase"] = {"cpu_s": round(time.process_time() - cpu0, 1), "wall_s": round(time.time() - wall0, 1)}
    ctx.correspond("tree", IMPORTS, TREE_INPUT, TREE_MODEL, t_items, shard=16)
    ctx.correspond("history", IMPORTS, "list hop", HIST_MODEL, h_items, shard=20)
    ctx.correspond("build", IMPORTS, "hconf * (list (list (list N)) * list (key * list hfile))", BUILD_MODEL,
                   b_items, shard=12)
    ctx.correspond("md5", IMPORTS, "list N", "fun b => VB (md5_hex b)", md5_items, shard=40)
    ctx.correspond("json", IMPORTS, "jdoc", JSON_MODEL, json_items, shard=100)
    ctx.extra["exhaustive"] = False
    ctx.extra["input_dimensions"] = dict(sorted(DIM.items()))


def replay_case(ctx, case):
    kind = case.get("kind")
    if kind == "tree":
        problems = tree_oracle(case)
        return {"problems": problems, "violates": bool(problems)}
    if kind == "history":
        problems = run_history(case["ops"])[2]
        return {"problems": problems, "violates": bool(problems)}
    if kind == "external-name":
        problems = external_name_state_modes(ctx, case["files"])
        return {"problems": problems, "violates": bool(problems)}
    if kind == "routes":
        problems = store_routes(ctx, case["files"], tuple(case.get("empty_dirs", ())))
        return {"problems": problems, "violates": bool(problems)}
    if kind == "build":
        files = case["files"]
        want = impl.dir_oid([(r, impl.md5hex(_content(c))) for r, c in files.items()])
        cfgs = [case["cfg"]] if "cfg" in case else all_configs()
        res = {}
        for cfg in cfgs:
            work = ctx.fresh("replay")
            impl.mk_tree(os.path.join(work, "src"), {r: _content(c) for r, c in files.items()})
            obs = run_build(ctx, files, cfg, work, {})
            w = want if cfg.get("flag") != "ignore" else impl.dir_oid(
                [(r, impl.md5hex(_content(c))) for r, c in files.items() if r not in cfg.get("ignored", [])])
            res[json.dumps(cfg, sort_keys=True)] = obs["oid"] if obs["oid"] != w else want
        bad = {k: v for k, v in res.items() if v != want}
        return {"canonical": want, "disagreeing": bad, "violates": bool(bad)}
    return {"violates": False}
