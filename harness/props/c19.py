"""C19 - three-way directory merge never silently loses or overrides an entry.

Real code: dvc_data.hashfile.tree._diff / _merge / merge and the library dictdiffer (diff, patch).
Gen:       translator unit "merge" (translator/mergeunit.py) regenerates coq/theories/Gen/Merge.v from the current
           _diff / _merge / merge (statement by statement, fail-closed); Proofs/MergeGen.v proves the model equal
           to it (theorem C19_model_is_generated) - the streams below double as translation validation.
Model:     coq/theories/Model/Merge.v (dd_diff, dd_patch, diff_, merge_, merge_obj, merge3),
           coq/theories/Proofs/MergeDigest.v (merge_tree = merge_obj with the executable Tree.digest).

Streams (each one a correspondence obligation; every real run is also judged by the oracle):
  diff   dictdiffer.diff on flat dicts with tuple keys          vs dd_diff
  patch  dictdiffer.patch on ARBITRARY operation lists          vs dd_patch
  merge  _merge(a, o, t, allowed) in BOTH argument orders       vs merge_ (+ merge3 vs the oracle's merge)
  sweep  _merge on every their-listing of a small universe      vs merge_   (exhaustive in thorough)
  tree   merge(odb, ancestor_info, our_info, their_info, allowed) on planted directory objects
                                                                vs merge_tree (listing AND identifier)
"""

import copy
import itertools
import json
import os

from lib import impl
from lib.core import cN, cbytes, clist, copt, cpair, vB, vL, vN

PROPERTY = "C19"
GEN: list = ["merge"]
RULE = (
    "listings are assignments of ==-classes of (Meta, HashInfo) values (incl. a meta-only difference, a None meta, "
    "a None hash, a .dir entry) to a key universe of 1-5 keys drawn from nested / non-ASCII / empty-part / "
    "file-vs-directory keys, inserted in shuffled dict order; triples are biased towards one- or two-sided edits "
    "of the ancestor (add / remove / change per key) so that successes, conflicts, double removals and policy "
    "refusals all occur; policies: None, [] and every non-empty sublist of add/remove/change, some reordered. "
    "the merge() stream draws its universe mostly from directory/sibling pairs whose name is the directory name "
    "continued by a character below '/' (data/x with data.csv, p/raw/2021/f with p/raw-2020/f, a/f with 'a b', ...), on "
    "which key-tuple order and canonical relpath-string order differ, and from names on which a careless relpath<->key "
    "conversion collapses entries (hidden .gitkeep / .config/settings / ..data, .env next to env, leading or trailing "
    "blanks and dots, case and Unicode-normalisation twins). "
    "Fixed in every run (tools/COVERAGE_AUDIT.md; counts in coverage.input_dimensions): names with backslash, Cyrillic, "
    "CJK, emoji, non-NFC next to its NFC twin, surrogate-escaped undecodable bytes, a .dir suffix, 1 and 200 "
    "characters, prefix siblings, case twins; the empty listing on each position; fast-forwards both ways, ours == "
    "theirs, all equal; the policies None / [add] / [add,remove] / [add,remove,change] / [] x {none, add, remove, "
    "change} on ours x the same on theirs + the same-path combinations, on _merge and on merge(); entries differing "
    "only in metadata, only in the hash name, only in the obj_name label; a file that is a directory prefix on the "
    "other side; an input identifier ending in hex d and the empty listing's identifier; stores with verify on / "
    "read-only; listings planted as bytes (sorted or shuffled records) vs built with Tree.add + digest + "
    "add_update_tree, dictionaries built directly vs through Tree.add + as_dict; missing and corrupt objects. "
    "quick: seeded samples of all streams + a sample of sweep rows; thorough: additionally on _merge ALL triples "
    "over 3 keys x (absent + 3 values) under add+remove+change (+ 2000 sampled rows under the other policies), ALL "
    "triples over 3 keys x (absent + 2 values) x 9 policies, ALL triples over 2 keys x (absent + 3 real values) x 9 "
    "policies, and "
    "all triples over 2 keys x (absent + 2 values) x 4 policies through merge() on a real object store. A case is non-trivial "
    "when both sides differ from the ancestor (the code reaches the double patch) or the call raised."
)
ASSUMPTIONS = [
    "values are compared with Python == only (dictdiffer does not descend into tuples); the ==-classes of the "
    "generated (Meta, HashInfo) values are checked against the real __eq__ on every run; Meta.remote (eq=False) is "
    "never generated",
    "keys are tuples of str (Tree keys); the empty tuple () cannot occur in a listing loaded from a store "
    "(relpath.split('/') is never empty) - with it _merge raises TypeError while formatting the conflict message "
    "(modelled: stream merge/raw-empty-key, theorem C19_total_err_empty_key_refuted; not judged by the oracle)",
    "the control flow of _diff/_merge/merge is translated from the source (unit merge: fixed statement shapes, "
    "fail-closed); the translator's reading of each shape (e.g. `if not V: return copy.deepcopy(D)` = list emptiness, "
    "`except KeyError` = exactly KeyError among the modelled classes) is validated by the merge / sweep / tree streams",
    "dictdiffer.diff/patch are environment: modelled for flat dicts with tuple keys and validated here against "
    "the installed library (0.10.x) on every run",
    "a value that differs from another only in HashInfo.obj_name (eq=False, a label) is the SAME value: merging never "
    "treats it as a change and may return either label",
    "mixed-algorithm listings: in an md5 or sha256 store every entry keeps its OWN hash name (HashInfo.from_dict), so an "
    "md5-named .dir may list sha256 / etag entries and two entries may differ in the hash name only - generated and "
    "judged; in a legacy md5-dos2unix store Tree.load forces hash_name='md5-dos2unix' and reads the value from the "
    "record's md5 field, so a sha256/etag record loads with value None (clean-code behaviour of the legacy loader, "
    "C20/C03 ground): such records are not generated for that store",
    "merge(): listings are planted as directory objects; an md5 store loads only {md5, relpath} records "
    "(HashInfo.from_dict rejects extra fields - ValueError, C20's subject), records with size/isexec are exercised "
    "through an md5-dos2unix store; a missing object is FileNotFoundError (model: LoadError), not judged",
    "Tree.digest = md5 of the canonical JSON + '.dir' is Model/Listing.v (C03, sorts by the relpath string); the model's "
    "identifier is compared byte for byte with merge()'s on every merged listing, and the oracle re-computes the "
    "identifier and the object bytes with the independent encoder lib.impl.canon_listing/dir_oid (sort by relpath "
    "string, json.dumps, hashlib.md5) - never with Tree.digest of a rebuilt tree",
]

IMPORTS = ("From Coq Require Import NArith List.\nFrom stdpp Require Import gmap.\n"
           "From DvcData Require Import Model.Merge Proofs.MergeDigest.")

KEY_POOL = [("a",), ("d", "b"), ("d", "c"), ("d", "e", "f"), ("é",), ("d",), ("b c",), ("",), ("x", ""),
            ("\U0001f600", "z"), ("d.c",), ("d", "e-f"),
            (".gitkeep",), ("Readme",), ("readme",), ("we\\ird",)]
KIND = {"add": "KAdd", "remove": "KRemove", "change": "KChange"}
POLS = [None, [], ["add"], ["remove"], ["change"], ["add", "remove"], ["add", "change"], ["remove", "change"],
        ["add", "remove", "change"]]
POLS_EXTRA = [["change", "add"], ["remove", "add", "change"], ["add", "add"], ["change", "remove"]]


# ---------------------------------------------------------------------------------------------
# Coq terms


def ckey(k):
    return clist([cbytes(p) for p in k])


def ckeys(ks):
    return clist([ckey(k) for k in ks])


def ccells(cells):
    return "[" + ";".join(str(c) for c in cells) + "]"


def cpol(p):
    if p is None:
        return "None"
    return "(Some [" + "; ".join(KIND[x] for x in p) + "])"


def enc_dict(ks, d):
    """d: key -> class number (or None entries absent); mirrors Merge.enc_dict"""
    return vL([vN(len(d)), vL([vN(0 if d.get(k) is None else d[k] + 1) for k in ks])])


def enc_res(ks, r):
    if r[0] == "ok":
        return vL([vN(1), enc_dict(ks, r[1])])
    return vL([vN(0), vN(r[1])])


def enc_opt(ks, d):
    return vL([vN(0)]) if d is None else vL([vN(1), enc_dict(ks, d)])


def dict_of(ks, cells):
    return {k: c - 1 for k, c in zip(ks, cells) if c}


# ---------------------------------------------------------------------------------------------
# input dimensions actually exercised by this run (tools/COVERAGE_AUDIT.md) -> evidence

DIMS: dict = {}


def dim(name, k=1):
    DIMS[name] = DIMS.get(name, 0) + k


def name_dims(keys):
    """dimensions of the NAMES of the entries present in a case"""
    import unicodedata

    out = set()
    rel = {"/".join(k) for k in keys}
    for k in keys:
        for part in k:
            if "\\" in part:
                out.add("name:backslash")
            if " " in part:
                out.add("name:space")
            if part.startswith("."):
                out.add("name:leading-dot")
            if part.endswith(".dir"):
                out.add("name:ends-with-.dir")
            if any(0xDC80 <= ord(c) <= 0xDCFF for c in part):
                out.add("name:surrogate-escaped-undecodable")
            elif any(ord(c) > 0xFFFF for c in part):
                out.add("name:non-BMP(emoji)")
            if any(0x400 <= ord(c) < 0x500 for c in part):
                out.add("name:cyrillic")
            if any(0x4E00 <= ord(c) < 0xA000 for c in part):
                out.add("name:CJK")
            if any(0x80 <= ord(c) < 0x400 or 0x300 <= ord(c) < 0x370 for c in part):
                out.add("name:non-ASCII")
            try:
                if unicodedata.normalize("NFC", part) != part:
                    out.add("name:not-NFC")
                    if any(unicodedata.normalize("NFC", q) == unicodedata.normalize("NFC", part) and q != part
                           for k2 in keys for q in k2):
                        out.add("name:not-NFC-next-to-NFC-twin")
            except Exception:  # noqa: BLE001
                pass
            if len(part) >= 200:
                out.add("name:200-chars")
            if len(part) == 1:
                out.add("name:1-char")
            if part == "":
                out.add("name:empty-part")
            if any(q != part and q.lower() == part.lower() for k2 in keys for q in k2):
                out.add("name:case-twins")
            if any(q != part and q.startswith(part) and len(q) > len(part) for k2 in keys for q in k2):
                out.add("name:sibling-is-string-prefix")
        if len(k) >= 3:
            out.add("shape:depth>=3")
        if len(k) == 0:
            out.add("shape:root-key-()")
        if any(len(k2) > len(k) and tuple(k2[:len(k)]) == tuple(k) for k2 in keys) and len(k) > 0:
            out.add("shape:file-is-directory-prefix-of-another-entry")
    dirs = {"/".join(k[:i]) for k in keys for i in range(1, len(k))}
    if any(n != d and n.startswith(d) and len(n) > len(d) and n[len(d)] < "/" for d in dirs for n in dirs | rel):
        out.add("name:dir-next-to-sibling-sorting-before-slash")
    return out


def case_dims(stream, keys, a, o, t, pol, extra=()):
    """record the dimensions of one (ancestor, ours, theirs, policy) case; a/o/t: key -> class dicts"""
    ds = set(extra)
    present = [k for k in keys if k in a or k in o or k in t]
    ds |= name_dims(present)
    for nm, d in (("ancestor", a), ("ours", o), ("theirs", t)):
        if not d:
            ds.add(f"shape:empty-listing:{nm}")
        if len(d) == 1:
            ds.add("shape:one-entry-listing")
    if a == o:
        ds.add("shape:ancestor==ours(fast-forward-to-theirs)")
    if a == t:
        ds.add("shape:ancestor==theirs(fast-forward-to-ours)")
    if o == t:
        ds.add("shape:ours==theirs")
    if a == o == t:
        ds.add("shape:all-three-equal")
    for d in (a, o, t):
        if len(set(d.values())) < len(d):
            ds.add("shape:same-value-under-two-paths")
    pn = "None" if pol is None else "[" + ",".join(pol) + "]"
    ds.add("policy:" + pn)
    ko = sorted(kinds_of([a.get(k, -1) + 1 for k in keys], [o.get(k, -1) + 1 for k in keys]))
    kt = sorted(kinds_of([a.get(k, -1) + 1 for k in keys], [t.get(k, -1) + 1 for k in keys]))
    side = "both" if ko and kt else "ours" if ko else "theirs" if kt else "none"
    ds.add(f"edits:{side}")
    if pn in ("None", "[]", "[add]", "[add,remove]", "[add,remove,change]"):
        for kd in set(ko) | set(kt):
            w = "both" if kd in ko and kd in kt else "ours" if kd in ko else "theirs"
            ds.add(f"policy x edit:{pn} x {kd} on {w}")
    for d in ds:
        dim(f"{stream}|{d}")


# ---------------------------------------------------------------------------------------------
# values


def value_pool():
    from dvc_data.hashfile.hash_info import HashInfo
    from dvc_data.hashfile.meta import Meta

    h = [impl.md5hex(bytes([48 + i])) for i in range(6)]
    return [
        (Meta(size=1), HashInfo("md5", h[1])),
        (Meta(size=1, isexec=True), HashInfo("md5", h[1])),  # differs from class 0 by metadata only
        (Meta(size=2), HashInfo("md5", h[2])),
        (None, HashInfo("md5", h[3])),
        (Meta(isdir=True, nfiles=2), HashInfo("md5", h[4] + ".dir")),
        (Meta(size=1), None),
        (Meta(size=1), HashInfo("md5-dos2unix", h[1])),  # differs from class 0 by the hash NAME only
    ]


def ident(v):
    """identity of a value by its fields, independent of __eq__"""
    if isinstance(v, (str, int)):
        return v
    m, hi = v
    return (
        None if m is None else (m.isdir, m.size, m.nfiles, m.isexec, m.md5),
        None if hi is None else (hi.name, hi.value),
    )


class Values:
    """a pool of real values; class number = index"""

    def __init__(self, pool):
        self.pool = pool
        self.by_ident = {ident(v): i for i, v in enumerate(pool)}
        assert len(self.by_ident) == len(pool)

    def mk(self, i, rng=None):
        v = copy.deepcopy(self.pool[i])
        if rng is not None and isinstance(v, tuple) and v[1] is not None and rng.random() < 0.3:
            # HashInfo.obj_name is a label (eq=False): a value that differs only in it is the SAME value
            v[1].obj_name = rng.choice(["data/x.csv", "lbl", ""])
            dim("value:obj_name-label")
        return v

    def cls(self, v):
        return self.by_ident.get(ident(v), 777)

    def build(self, d, rng=None):
        """class dict -> real dict, in shuffled insertion order"""
        ks = list(d)
        if rng is not None:
            rng.shuffle(ks)
        if rng is not None and isinstance(self.pool[0], tuple) and rng.random() < 0.3:
            # construction route: a Tree built in memory with Tree.add, handed over as Tree.as_dict()
            from dvc_data.hashfile.tree import Tree

            tr = Tree()
            for k in ks:
                tr.add(k, *self.mk(d[k], rng))
            dim("route:_merge(Tree.add + as_dict)")
            return tr.as_dict()
        return {k: self.mk(d[k], rng) for k in ks}

    def read(self, real):
        return {k: self.cls(v) for k, v in real.items()}

    def check_classes(self, ctx):
        ok = True
        for i, x in enumerate(self.pool):
            for j, y in enumerate(self.pool):
                eq = copy.deepcopy(x) == y
                ne = copy.deepcopy(x) != y
                if eq != (i == j) or ne == eq:
                    ok = False
            if isinstance(x, tuple) and x[1] is not None:
                lab = copy.deepcopy(x)
                lab[1].obj_name = "label"
                if lab != x or not (lab == x) or ident(lab) != ident(x):
                    ok = False
        ctx.obligation("oracle:value-classes", ok,
                       f"{len(self.pool)} generated values: real ==/!= agree with the field identity used by the oracle")
        if not ok:
            ctx.broken("correspondence", "oracle:value-classes",
                       "__eq__ of (Meta, HashInfo) values no longer matches the field identity assumed by the model")


# ---------------------------------------------------------------------------------------------
# the oracle: an independent per-key three-way merge


def merge3(a, o, t):
    out = {}
    for k in set(a) | set(o) | set(t):
        av, ov, tv = a.get(k), o.get(k), t.get(k)
        if ov == tv:
            r = ov
        elif ov == av:
            r = tv
        elif tv == av:
            r = ov
        else:
            return None
        if r is not None:
            out[k] = r
    return out


def is_default(pol):
    return not pol or list(pol) == ["add"] or set(pol) == {"add"}


def judge(a, o, t, pol, r1, r2=None, mutated=False):
    """a, o, t: key -> class; r1 = outcome of (a, o, t), r2 = outcome of (a, t, o) or None.
    outcome: ("ok", dict) | ("err", code, exception name).  Returns [(signature, what)]."""
    problems = []
    ref = merge3(a, o, t)
    raw = () in o or () in t or () in a
    for tag, r in (("", r1), ("(swapped) ", r2)):
        if r is None:
            continue
        if r[0] == "ok":
            if ref is None:
                ck = sorted(k for k in set(a) | set(o) | set(t)
                            if o.get(k) != t.get(k) and o.get(k) != a.get(k) and t.get(k) != a.get(k))
                problems.append(("C19:ok-on-conflict",
                                 f"{tag}merge succeeded although path(s) {ck} were changed differently by both sides; "
                                 f"result {show(r[1])}"))
            elif r[1] != ref:
                bad = sorted(k for k in set(ref) | set(r[1]) if ref.get(k) != r[1].get(k))
                kinds = []
                for k in bad:
                    if k not in r[1]:
                        kinds.append("dropped")
                    elif k not in ref:
                        kinds.append("resurrected")
                    else:
                        kinds.append("overridden")
                problems.append((f"C19:wrong-merge:{kinds[0]}",
                                 f"{tag}merge result differs from the three-way merge at {bad} ({', '.join(kinds)}): "
                                 f"got {show(r[1])}, three-way merge {show(ref)}"))
            if is_default(pol) and o != a and t != a:
                if not (all(o.get(k) == v for k, v in a.items()) and all(t.get(k) == v for k, v in a.items())):
                    problems.append(("C19:default-accepts-non-add",
                                     f"{tag}default policy accepted a two-sided merge in which a side removed or "
                                     "changed an ancestor entry"))
        elif r[1] != 6 and not raw:
            problems.append((f"C19:non-merge-error:{r[2]}", f"{tag}_merge raised {r[2]} instead of MergeError"))
    if r2 is not None and r1[0] == "ok" and r2[0] == "ok" and r1[1] != r2[1]:
        problems.append(("C19:asymmetric", f"both orders succeed with different results: {show(r1[1])} vs {show(r2[1])}"))
    if mutated:
        problems.append(("C19:input-mutated", "_merge modified one of its argument dictionaries"))
    return problems


def show(d):
    return {"/".join(k) if k else "()": v for k, v in sorted(d.items())}


def call_merge(vals, A, O, T, pol):
    from dvc_data.hashfile.tree import MergeError, _merge

    try:
        r = _merge(A, O, T, allowed=None if pol is None else list(pol))
        return ("ok", vals.read(r))
    except MergeError:
        return ("err", 6, "MergeError")
    except Exception as exc:  # noqa: BLE001
        return ("err", impl.err_code(exc), type(exc).__name__)


def run_merge_case(ctx, vals, case, shuffle=True):
    """one (keys, a, o, t, pol) on the real _merge, both orders. returns (r1, r2, problems, classes)"""
    ks = [tuple(k) for k in case["keys"]]
    a, o, t = (dict_of(ks, case[x]) for x in ("a", "o", "t"))
    pol = case["pol"]
    rng = ctx.rng if shuffle else None
    A, O, T = vals.build(a, rng), vals.build(o, rng), vals.build(t, rng)
    r1 = call_merge(vals, A, O, T, pol)
    mutated = (vals.read(A), vals.read(O), vals.read(T)) != (a, o, t)
    r2 = call_merge(vals, A, T, O, pol)
    mutated = mutated or (vals.read(A), vals.read(O), vals.read(T)) != (a, o, t)
    return r1, r2, judge(a, o, t, pol, r1, r2, mutated), (a, o, t)


def shrink_merge(ctx, vals, case, sig):
    """drop keys while the same oracle failure persists"""
    cur = case
    changed = True
    while changed and len(cur["keys"]) > 1:
        changed = False
        for i in range(len(cur["keys"])):
            c2 = dict(cur)
            for f in ("keys", "a", "o", "t"):
                c2[f] = cur[f][:i] + cur[f][i + 1:]
            _, _, probs, _ = run_merge_case(ctx, vals, c2, shuffle=False)
            if any(s == sig for s, _ in probs):
                cur = c2
                changed = True
                break
    return cur


# ---------------------------------------------------------------------------------------------
# generators


def gen_universe(rng, lo=1, hi=5, raw=False):
    n = rng.randint(lo, hi)
    ks = rng.sample(KEY_POOL, n)
    if raw:
        ks[rng.randrange(n)] = ()
    return ks


def gen_listing(rng, n, nvals, density=0.7):
    return [rng.randint(1, nvals) if rng.random() < density else 0 for _ in range(n)]


def edit(rng, base, nvals, p):
    """a side: per key keep / add / remove / change"""
    out = []
    for c in base:
        if rng.random() >= p:
            out.append(c)
        elif c == 0:
            out.append(rng.randint(1, nvals))
        elif rng.random() < 0.4:
            out.append(0)
        else:
            out.append(rng.choice([x for x in range(1, nvals + 1) if x != c]))
    return out


def gen_triple(rng, n, nvals):
    for _ in range(4):
        a, o, t = gen_triple1(rng, n, nvals)
        if (a != o and a != t) or rng.random() < 0.25:
            break
    return a, o, t


def gen_triple1(rng, n, nvals):
    mode = rng.random()
    a = gen_listing(rng, n, nvals, rng.choice([0.0, 0.5, 0.8, 1.0]))
    if mode < 0.12:
        return a, gen_listing(rng, n, nvals), gen_listing(rng, n, nvals)
    if mode < 0.22:
        o = edit(rng, a, nvals, 0.5)
        return (a, o, list(a)) if rng.random() < 0.5 else (a, list(a), o)
    if mode < 0.4:
        # additions only (what the default policy accepts), on mostly disjoint keys
        o = [c if c else (rng.randint(1, nvals) if rng.random() < 0.4 else 0) for c in a]
        t = [c if c else (oc if oc and rng.random() < 0.3 else (rng.randint(1, nvals) if rng.random() < 0.4 else 0))
             for c, oc in zip(a, o)]
        return a, o, t
    if mode < 0.7:
        # disjoint edits: each key is touched by at most one side
        o, t = list(a), list(a)
        for i in range(n):
            r = rng.random()
            if r < 0.35:
                o[i] = edit(rng, [a[i]], nvals, 1.0)[0]
            elif r < 0.7:
                t[i] = edit(rng, [a[i]], nvals, 1.0)[0]
            elif r < 0.8:
                o[i] = t[i] = edit(rng, [a[i]], nvals, 1.0)[0]  # the same edit on both sides
        return a, o, t
    return a, edit(rng, a, nvals, 0.45), edit(rng, a, nvals, 0.45)


def kinds_of(a, b):
    out = set()
    for x, y in zip(a, b):
        if x == y:
            continue
        out.add("add" if not x else "remove" if not y else "change")
    return out


def gen_pol(rng, a=None, o=None, t=None):
    r = rng.random()
    if a is not None and r < 0.45:
        # a policy that admits what both sides did (so that the double patch is reached)
        need = sorted(kinds_of(a, o) | kinds_of(a, t))
        if need:
            pol = need + [k for k in ("add", "remove", "change") if k not in need and rng.random() < 0.3]
            rng.shuffle(pol)
            if pol == ["add"] and rng.random() < 0.5:
                return rng.choice([None, []])
            return pol
    if r < 0.6:
        return rng.choice([None, None, [], ["add"]])
    if r < 0.93:
        return rng.choice(POLS)
    return rng.choice(POLS_EXTRA)


# ---------------------------------------------------------------------------------------------
# stream: dictdiffer.diff


def stream_diff(ctx, vals, n):
    from dictdiffer import diff

    items = []
    nv = len(vals.pool)
    for _ in range(n):
        ks = gen_universe(ctx.rng, 1, 5, raw=ctx.rng.random() < 0.1)
        a = gen_listing(ctx.rng, len(ks), nv, ctx.rng.choice([0.3, 0.7, 1.0]))
        r = ctx.rng.random()
        b = list(a) if r < 0.08 else gen_listing(ctx.rng, len(ks), nv) if r < 0.3 else edit(ctx.rng, a, nv, 0.5)
        da, db = dict_of(ks, a), dict_of(ks, b)
        A, B = vals.build(da, ctx.rng), vals.build(db, ctx.rng)
        ops = list(diff(A, B))
        case = {"stream": "diff", "keys": ks, "a": a, "b": b}
        shape_ok = True
        olds, news, rest, leading, seen_other = {}, {}, [], 0, False
        for typ, node, ch in ops:
            if typ == "change" and isinstance(node, list) and len(node) == 1 and isinstance(ch, tuple) and len(ch) == 2:
                olds[node[0]] = vals.cls(ch[0])
                news[node[0]] = vals.cls(ch[1])
                if not seen_other:
                    leading += 1
            elif typ in ("add", "remove") and node == "" and isinstance(ch, list):
                seen_other = True
                d = {k: vals.cls(v) for k, v in ch}
                rest.append(vL([vN(0 if typ == "add" else 1), enc_dict(ks, d), vN(len(ch))]))
            else:
                shape_ok = False
        if not shape_ok:
            ctx.broken("correspondence", "correspondence:dictdiffer-shape",
                       "dictdiffer.diff produced a record outside the modelled shapes", detail=repr(ops)[:500], case=case)
            continue
        exp = vL([vN(len(olds)), enc_dict(ks, olds), enc_dict(ks, news), vN(leading), vL(rest)])
        ctx.case(case, bool(ops))
        ctx.count("diff:" + "+".join(sorted({o[0] for o in ops})) if ops else "diff:empty")
        # the diff replayed on the first dict gives the second (what _merge relies on)
        items.append((case, f"({ckeys(ks)}, {ccells(a)}, {ccells(b)})", exp))
    return items


# ---------------------------------------------------------------------------------------------
# stream: dictdiffer.patch on arbitrary operation lists


def stream_patch(ctx, vals, n):
    from dictdiffer import diff, patch

    items = []
    nv = len(vals.pool)
    for _ in range(n):
        ks = gen_universe(ctx.rng, 1, 4)
        dcells = gen_listing(ctx.rng, len(ks), nv)
        d = dict_of(ks, dcells)
        D = vals.build(d, ctx.rng)
        ops_py, ops_coq = [], []
        if ctx.rng.random() < 0.4:
            # two real diffs of other listings, concatenated (the way _merge uses patch)
            a, o, t = gen_triple(ctx.rng, len(ks), nv)
            raw_ops = list(diff(vals.build(dict_of(ks, a)), vals.build(dict_of(ks, o)))) + \
                list(diff(vals.build(dict_of(ks, a)), vals.build(dict_of(ks, t))))
            for typ, node, ch in raw_ops:
                if typ == "change":
                    ops_py.append((typ, node, ch))
                    ops_coq.append(f"(DChange {ckey(node[0])} {vals.cls(ch[0])} {vals.cls(ch[1])})")
                else:
                    ops_py.append((typ, node, ch))
                    pairs = clist([cpair(ckey(k), cN(vals.cls(v))) for k, v in ch])
                    ops_coq.append(f"({'DAdd' if typ == 'add' else 'DRemove'} {pairs})")
        else:
            for _j in range(ctx.rng.randint(0, 4)):
                typ = ctx.rng.choice(["change", "add", "remove", "remove"])
                if typ == "change":
                    k = ctx.rng.choice(ks)
                    x, y = ctx.rng.randrange(nv), ctx.rng.randrange(nv)
                    ops_py.append(("change", [k], (vals.mk(x), vals.mk(y))))
                    ops_coq.append(f"(DChange {ckey(k)} {x} {y})")
                else:
                    pairs = [(ctx.rng.choice(ks), ctx.rng.randrange(nv)) for _x in range(ctx.rng.randint(0, 3))]
                    if typ == "remove" and ctx.rng.random() < 0.6:
                        pairs = [(k, v) for k, v in pairs if k in d] or pairs
                    ops_py.append((typ, "", [(k, vals.mk(v)) for k, v in pairs]))
                    ops_coq.append(f"({'DAdd' if typ == 'add' else 'DRemove'} "
                                   f"{clist([cpair(ckey(k), cN(v)) for k, v in pairs])})")
        try:
            r = ("ok", vals.read(patch(ops_py, D)))
        except KeyError:
            r = ("err", 8)
        except Exception as exc:  # noqa: BLE001
            r = ("err", impl.err_code(exc))
        untouched = vals.read(D) == d
        if not untouched:
            ctx.oracle_fail("C19:patch-mutates", "dictdiffer.patch modified its destination argument",
                            {"stream": "patch", "keys": ks, "d": dcells})
        case = {"stream": "patch", "keys": ks, "d": dcells, "ops": [repr(o)[:120] for o in ops_py]}
        ctx.case(case, bool(ops_py))
        ctx.count("patch:" + ("ok" if r[0] == "ok" else f"err{r[1]}"))
        items.append((case, f"({ckeys(ks)}, {clist(ops_coq) if ops_coq else '[]'}, {ccells(dcells)})", enc_res(ks, r)))
    return items


# ---------------------------------------------------------------------------------------------
# stream: _merge, both orders


def merge_item(ctx, vals, case, corpus=False):
    r1, r2, problems, (a, o, t) = run_merge_case(ctx, vals, case)
    ks = [tuple(k) for k in case["keys"]]
    for sig, what in problems:
        small = shrink_merge(ctx, vals, case, sig)
        _, _, p2, _ = run_merge_case(ctx, vals, small, shuffle=False)
        ctx.oracle_fail(sig, next((w for s, w in p2 if s == sig), what), small)
    both = a != o and a != t
    ctx.case(case, both or r1[0] != "ok")
    vd = set()
    for k in ks:
        cl = {d[k] for d in (a, o, t) if k in d}
        if {0, 1} <= cl:
            vd.add("value:entries-differ-in-meta-only")
        if {0, 6} <= cl:
            vd.add("value:entries-differ-in-hash-name-only(md5 vs md5-dos2unix)")
        if 3 in cl:
            vd.add("value:meta-None")
        if 5 in cl:
            vd.add("value:hash-None")
        if 4 in cl:
            vd.add("value:.dir-entry")
    case_dims("_merge", ks, a, o, t, case["pol"], vd | {"outcome:" + ("ok" if r1[0] == "ok" else r1[2])})
    ctx.count("merge:" + ("ok" if r1[0] == "ok" else f"err{r1[1]}") + ("/two-sided" if both else "/one-sided"))
    ctx.count("policy:" + ("None" if case["pol"] is None else "+".join(case["pol"]) or "[]"))
    if () in ks:
        ctx.count("merge:raw-empty-key")
    ref = merge3(a, o, t)
    exp = vL([enc_res(ks, r1), enc_res(ks, r2), enc_opt(ks, ref)])
    term = f"({ckeys(ks)}, {ccells(case['a'])}, {ccells(case['o'])}, {ccells(case['t'])}, {cpol(case['pol'])})"
    return (case, term, exp)


CORPUS = [
    # DESIGN 7.4 (repaired by f9f9b8c): ours removes a path that theirs changes -> was KeyError
    {"stream": "merge", "keys": [("a",), ("d", "b")], "a": [1, 3], "o": [0, 3], "t": [2, 3], "pol": ["remove", "change"]},
    {"stream": "merge", "keys": [("a",), ("d", "b")], "a": [1, 3], "o": [2, 3], "t": [0, 3], "pol": ["remove", "change"]},
    # both sides remove the same path ("todo" in the source): MergeError
    {"stream": "merge", "keys": [("a",), ("d", "b")], "a": [1, 3], "o": [0, 3], "t": [0, 0], "pol": ["remove"]},
    # default policy: both add different paths / the same path equally / the same path differently
    {"stream": "merge", "keys": [("a",), ("d", "b"), ("d", "c")], "a": [1, 0, 0], "o": [1, 3, 0], "t": [1, 0, 4], "pol": None},
    {"stream": "merge", "keys": [("a",), ("d", "b")], "a": [1, 0], "o": [1, 3], "t": [1, 3], "pol": []},
    {"stream": "merge", "keys": [("a",), ("d", "b")], "a": [1, 0], "o": [1, 3], "t": [1, 4], "pol": None},
    # ours untouched: theirs is returned unfiltered even under the default policy
    {"stream": "merge", "keys": [("a",), ("d", "b")], "a": [1, 3], "o": [1, 3], "t": [0, 4], "pol": None},
    # metadata-only change on one side, removal on the other
    {"stream": "merge", "keys": [("a",), ("é",)], "a": [1, 3], "o": [2, 3], "t": [1, 0], "pol": ["add", "remove", "change"]},
    # raw dictionaries with the key (): TypeError while the conflict message is built (not a listing)
    {"stream": "merge", "keys": [(), ("a",)], "a": [1, 1], "o": [2, 1], "t": [3, 1], "pol": ["add", "change"]},
]


AUDIT_POLS = [None, ["add"], ["add", "remove"], ["add", "remove", "change"], []]


def grid_cases(stream, v2=2, v3=3):
    """every audited policy value x {no edit, add, remove, change} on ours x the same on theirs (own keys),
    and the same-path combinations (equal edit, conflicting edit, remove vs change) - fixed, in every run"""
    def cell(kind):  # (ancestor, side)
        return {"none": (1, 1), "add": (0, v2), "remove": (1, 0), "change": (1, v2)}[kind]

    out = []
    ks = [("g", "ours"), ("g", "theirs"), ("keep",)]
    for pol in AUDIT_POLS:
        for ko in ("none", "add", "remove", "change"):
            for kt in ("none", "add", "remove", "change"):
                (a1, o1), (a2, t2) = cell(ko), cell(kt)
                out.append({"stream": stream, "keys": ks, "a": [a1, a2, 1], "o": [o1, a2, 1], "t": [a1, t2, 1],
                            "pol": pol})
        for a1, o1, t1 in ((0, v2, v2), (0, v2, v3), (1, 0, 0), (1, v2, v2), (1, v2, v3), (1, 0, v2), (1, v2, 0)):
            out.append({"stream": stream, "keys": [("same", "path"), ("keep",)], "a": [a1, 1], "o": [o1, 1],
                        "t": [t1, 1], "pol": pol})
    return out


AUDIT_MERGE = [
    # empty dictionaries on each position, and everywhere
    {"stream": "merge", "keys": [("a",), ("d", "b")], "a": [0, 0], "o": [1, 0], "t": [0, 3], "pol": None},
    {"stream": "merge", "keys": [("a",), ("d", "b")], "a": [1, 3], "o": [0, 0], "t": [1, 3], "pol": ["remove"]},
    {"stream": "merge", "keys": [("a",), ("d", "b")], "a": [1, 3], "o": [1, 3], "t": [0, 0], "pol": None},
    {"stream": "merge", "keys": [("a",)], "a": [0], "o": [0], "t": [0], "pol": []},
    # ours == theirs (both made the same edits), all three equal
    {"stream": "merge", "keys": [("a",), ("d", "b")], "a": [1, 0], "o": [2, 3], "t": [2, 3], "pol": ["add", "change"]},
    {"stream": "merge", "keys": [("a",), ("d", "b")], "a": [1, 3], "o": [1, 3], "t": [1, 3], "pol": None},
    # entries differing only in the hash name (class 1 = md5, class 7 = md5-dos2unix, same value): a change
    {"stream": "merge", "keys": [("a",), ("k",)], "a": [1, 1], "o": [7, 1], "t": [1, 1], "pol": ["change"]},
    {"stream": "merge", "keys": [("a",), ("k",)], "a": [1, 1], "o": [7, 1], "t": [2, 1], "pol": ["add", "change"]},
    {"stream": "merge", "keys": [("a",), ("k",)], "a": [1, 0], "o": [7, 0], "t": [1, 4], "pol": None},
    # a file on one side that is a directory prefix on the other: both entries survive (per-path rule)
    {"stream": "merge", "keys": [("d",), ("d", "b"), ("k",)], "a": [0, 0, 1], "o": [1, 0, 1], "t": [0, 3, 1], "pol": None},
    {"stream": "merge", "keys": [("d",), ("d", "b")], "a": [1, 0], "o": [0, 3], "t": [2, 0], "pol": ["add", "remove", "change"]},
    # names
    {"stream": "merge", "keys": [("we\\ird.txt",), ("caf\u00e9.txt",), ("cafe\u0301.txt",), ("bad\udcff.bin",)],
     "a": [1, 2, 0, 0], "o": [1, 2, 3, 0], "t": [1, 2, 0, 4], "pol": None},
    {"stream": "merge", "keys": [("\u0434\u0430\u043d\u043d\u044b\u0435", "\u0444.txt"), ("\u6570\u636e", "\u6587\u4ef6"),
                                 ("\U0001f600.png",), ("L" * 200,), ("sub.dir", "x")],
     "a": [1, 2, 3, 1, 0], "o": [1, 0, 3, 2, 0], "t": [2, 2, 3, 1, 5], "pol": ["add", "remove", "change"]},
]


def stream_merge(ctx, vals, n):
    items = [merge_item(ctx, vals, c, corpus=True) for c in load_corpus() + CORPUS + AUDIT_MERGE + grid_cases("merge")]
    nv = len(vals.pool)
    for _ in range(n):
        ks = gen_universe(ctx.rng, 1, 5, raw=ctx.rng.random() < 0.04)
        a, o, t = gen_triple(ctx.rng, len(ks), nv)
        case = {"stream": "merge", "keys": ks, "a": a, "o": o, "t": t, "pol": gen_pol(ctx.rng, a, o, t)}
        items.append(merge_item(ctx, vals, case))
    return items


def load_corpus():
    d = os.path.join(os.path.dirname(os.path.dirname(os.path.dirname(os.path.abspath(__file__)))), "corpus", "C19")
    out = []
    if os.path.isdir(d):
        for fn in sorted(os.listdir(d)):
            if fn.endswith(".json"):
                with open(os.path.join(d, fn)) as f:
                    c = json.load(f)
                c = c.get("case", c)
                if c.get("stream") == "merge":
                    c["keys"] = [tuple(k) for k in c["keys"]]
                    out.append(c)
    return out


# ---------------------------------------------------------------------------------------------
# stream: sweep - every their-listing for a given (ancestor, ours, policy)


def sweep_rows(ctx, vals, ks, nopt, rows, tag):
    """rows: iterable of (a_cells, o_cells, pol). nopt = 1 + number of values (cell range).
    Every row runs _merge against ALL nopt^len(ks) their-listings."""
    from dvc_data.hashfile.tree import MergeError, _merge

    all_t = list(itertools.product(range(nopt), repeat=len(ks)))
    t_dicts = [dict_of(ks, tc) for tc in all_t]
    items = []
    n_eval = 0
    n_nontrivial = 0
    for a_c, o_c, pol in rows:
        a, o = dict_of(ks, a_c), dict_of(ks, o_c)
        A, O = vals.build(a), vals.build(o)
        codes = []
        for tc, t in zip(all_t, t_dicts):
            T = vals.build(t)
            try:
                R = _merge(A, O, T, allowed=None if pol is None else list(pol))
                r = ("ok", vals.read(R))
            except MergeError:
                r = ("err", 6, "MergeError")
            except Exception as exc:  # noqa: BLE001
                r = ("err", impl.err_code(exc), type(exc).__name__)
            problems = judge(a, o, t, pol, r)
            for sig, what in problems:
                case = {"stream": "merge", "keys": ks, "a": list(a_c), "o": list(o_c), "t": list(tc), "pol": pol,
                        "values": tag}
                ctx.oracle_fail(sig, what, case)
            if r[0] == "ok":
                base = 0
                for k in ks:
                    base = base * nopt + (0 if r[1].get(k) is None else r[1][k] + 1)
                codes.append(1000 + 100 * len(r[1]) + base)
            else:
                codes.append(r[1])
            n_eval += 1
            if (a != o and a != t) or r[0] != "ok":
                n_nontrivial += 1
                ctx.nontrivial.add(f"sw:{tag}:{a_c}:{o_c}:{tc}:{pol}")
            ctx.count(f"sweep:{'ok' if r[0] == 'ok' else 'err' + str(r[1])}")
        case = {"stream": "sweep", "values": tag, "keys": ks, "nopt": nopt, "a": list(a_c), "o": list(o_c), "pol": pol}
        if len(ctx.samples) < 3 and a != o:
            ctx.case(case, True)
            n_eval -= 1
        term = f"({ckeys(ks)}, {nopt}, {ccells(a_c)}, {ccells(o_c)}, {cpol(pol)})"
        items.append((case, term, vL([vN(c) for c in codes])))
    ctx.evaluations += n_eval
    return items


# ---------------------------------------------------------------------------------------------
# stream: merge() on directory objects


TREE_KEYS = [("a",), ("d", "b"), ("d", "c"), ("é", "f g"), ("d",), ("x", "")]
# A directory next to a sibling whose name is the directory's name continued by a character below '/'
# (space ! " # $ % & ' ( ) * + , - .): the order of the KEY TUPLES and the order of the joined relpath
# strings differ on such pairs, and only the latter is the canonical order of a listing.
TREE_SIBLINGS = [
    (("data", "x"), ("data.csv",)),
    (("p", "raw", "2021", "f"), ("p", "raw-2020", "f")),
    (("a", "f"), ("a b",)),
    (("img", "1.png"), ("img+meta.json",)),
    (("d", "b"), ("d-e", "z")),
    (("s", "t", "u"), ("s", "t!", "u")),
    (("q", "r"), ("q#1",)),
    (("é", "z"), ("é,", "y")),
]


# Names on which a careless relpath <-> key conversion (strip / lstrip / normpath / case or Unicode
# folding) loses or merges entries: hidden files and directories, leading / trailing dots and blanks,
# names that differ only by such a prefix, by case or by Unicode normalisation form.  Each group is
# drawn as a whole, so that the colliding partner is part of the same listing.
TREE_EDGE = [
    [(".gitkeep",)],
    [(".config", "settings")],
    [("..data",)],
    [(".env",), ("env",)],
    [(".d", ".e"), ("d", "e")],
    [("...",), ("d", ".hidden")],
    [(" lead",), ("lead",)],
    [("trail ",), ("trail.",), ("trail",)],
    [("Readme",), ("readme",)],
    [("\u00e9x",), ("e\u0301x",)],
    [("", "rooted"), ("rooted",)],
    [("~tmp",), ("#x#",), ("-opt",)],
    # tools/COVERAGE_AUDIT.md, dimension 1
    [("we\\ird.txt",), ("dir\\sub", "f")],
    [("\u0434\u0430\u043d\u043d\u044b\u0435", "\u0444\u0430\u0439\u043b.txt")],
    [("\u6570\u636e", "\u6587\u4ef6")],
    [("\U0001f600.png",), ("\U0001f4c1", "\U0001f600")],
    [("caf\u00e9.txt",), ("cafe\u0301.txt",)],
    [("sub.dir",), ("x.dir", "y")],
    [("imgs", "a"), ("imgs_raw", "a"), ("imgs.bak",)],
    [("L" * 200,), ("l",)],
    [("bad\udcff.bin",), ("\udce9t\udce9", "f")],
    [("Data", "f"), ("data",)],
]


def gen_tree_universe(rng):
    r = rng.random()
    if r < 0.25:
        return rng.sample(TREE_KEYS, rng.randint(1, 4))
    if r < 0.6:
        groups = [list(pr) for pr in rng.sample(TREE_SIBLINGS, 1 if r < 0.5 else 2)]
    elif r < 0.9:
        groups = rng.sample(TREE_EDGE, rng.randint(1, 2))
    else:
        groups = [list(rng.choice(TREE_SIBLINGS))] + rng.sample(TREE_EDGE, 1)
    ks = []
    for g in groups:
        ks += [k for k in g if k not in ks]
    extra = [k for k in TREE_KEYS if k not in ks and k not in (("a",), ("d",))]
    if len(ks) < 5:
        ks += rng.sample(extra, rng.randint(0, min(len(extra), 5 - len(ks))))
    rng.shuffle(ks)
    return ks


def tree_tables(mode, table=None):
    """class -> (hash value, size, isexec, hash name) of the entries of a listing"""
    h = [impl.md5hex(bytes([65 + i])) for i in range(4)]
    if table == "mixed":
        # a listing named by an md5 identifier whose entries are hashed otherwise (what build(..., name="sha256")
        # or a cloud import with etags produces), next to md5 entries; class 3 differs from class 0 by the NAME only
        import hashlib

        s = [hashlib.sha256(bytes([65 + i])).hexdigest() for i in range(2)]
        return [(h[0], None, False, "md5"), (s[0], None, False, "sha256"), (s[1], None, False, "sha256"),
                (h[0], None, False, "sha256"), ("etag-1-" + h[1][:8], None, False, "etag"),
                ("etag-2-" + h[2][:8], None, False, "etag")]
    if mode != "md5-dos2unix":
        return [(h[0], None, False, "md5"), (h[1], None, False, "md5"), (h[2], None, False, "md5")]
    return [(h[0], 1, False, "md5"), (h[0], 1, True, "md5"), (h[1], 2, False, "md5"), (h[2], None, False, "md5")]


def canon_named(entries):
    """independent canonical encoder of a listing with per-entry hash names: entries = [(relpath, name, value)];
    records sorted by the relpath string, json.dumps(sort_keys), nothing of Tree involved"""
    lst = sorted(({name: value, "relpath": rp} for rp, name, value in entries), key=lambda d: d["relpath"])
    return json.dumps(lst, sort_keys=True).encode("utf-8")


def oid_named(entries):
    return impl.md5hex(canon_named(entries)) + ".dir"


def listing_bytes(ks, cells, table, rng=None):
    recs = []
    for k, c in zip(ks, cells):
        if not c:
            continue
        hx, size, isexec, hname = table[c - 1]
        rec = {hname: hx, "relpath": "/".join(k)}
        if size is not None:
            rec["size"] = size
        if isexec:
            rec["isexec"] = True
        recs.append(rec)
    if rng is not None:
        rng.shuffle(recs)  # load() must not depend on the order of the records
    else:
        recs.sort(key=lambda r: r["relpath"])
    return json.dumps(recs, sort_keys=True).encode()


def run_tree_case(ctx, case):
    from dvc_data.hashfile.hash_info import HashInfo
    from dvc_data.hashfile.tree import MergeError, merge

    ks = [tuple(k) for k in case["keys"]]
    mode = case["mode"]
    table = tree_tables(mode, case.get("table"))
    # one store per mode for the whole run: objects are named by content, every case (re)plants the
    # objects it uses, the identifiers of "missing" objects are never planted
    store = os.path.join(ctx.tmpdir(), "c19-store-" + mode)
    os.makedirs(store, exist_ok=True)
    writer = impl.local_odb(store, hash_name=mode)
    flags = {k: True for k in ("verify", "read_only") if case.get(k)}
    # the store merge() reads from: optionally verifying, optionally read-only (merge only reads)
    odb = impl.local_odb(store, hash_name=mode, **flags)
    names = {}
    objs = {}  # identifier -> cells of the planted object
    for who in ("a", "o", "t"):
        cells = case[who]
        if cells is None:
            names[who] = None
            continue
        data = listing_bytes(ks, cells, table, ctx.rng if case.get("shuffle") else None)
        oid = oid_named([("/".join(k), table[c - 1][3], table[c - 1][0]) for k, c in zip(ks, cells) if c])
        if who in case.get("missing", []):
            oid = impl.md5hex(b"missing-" + who.encode()) + ".dir"  # an identifier nothing is stored under
        elif oid in objs and objs[oid] != list(cells):
            # same hashes, different metadata: the identifier does not cover metadata; store the
            # object under another name (load does not verify names)
            oid = impl.md5hex(data + who.encode()) + ".dir"
        names[who] = oid
        if who not in case.get("missing", []):
            if who in case.get("corrupt", {}):
                impl.plant(store, oid, case["corrupt"][who].encode())
            elif case.get("route") == "save" and oid == oid_named(
                    [("/".join(k), table[c - 1][3], table[c - 1][0]) for k, c in zip(ks, cells) if c]):
                # construction route: the listing is built in memory (Tree.add), digested and saved the way
                # DVC saves a tree (add_update_tree), instead of planting canonical bytes
                from dvc_data.hashfile.db import add_update_tree
                from dvc_data.hashfile.meta import Meta
                from dvc_data.hashfile.tree import Tree

                pth = os.path.join(store, oid[:2], oid[2:])
                if os.path.lexists(pth):  # an object of an earlier case (same hashes, other metadata)
                    os.chmod(pth, 0o644)
                    os.unlink(pth)
                try:
                    tr = Tree()
                    for k, c in zip(ks, cells):
                        if c:
                            hx, size, isexec, hname = table[c - 1]
                            tr.add(k, Meta(size=size, isexec=isexec),
                                   HashInfo(mode if hname == "md5" and mode == "md5-dos2unix" else hname, hx))
                    tr.digest(with_meta=mode != "md5")
                    tr.oid = oid
                    add_update_tree(writer, tr)
                except Exception as exc:  # noqa: BLE001
                    # the input could not be built this way (not merge's doing): plant it, keep the case
                    ctx.count(f"tree:save-route-failed:{type(exc).__name__}")
                    impl.plant(store, oid, data)
            else:
                impl.plant(store, oid, data)
            objs[oid] = list(cells)
    anc = None if names["a"] is None else HashInfo("md5", names["a"])
    if names["a"] is None and case.get("empty_info"):
        anc = HashInfo()
    pol = case["pol"]
    try:
        m = merge(odb, anc, HashInfo("md5", names["o"]), HashInfo("md5", names["t"]),
                  allowed=None if pol is None else list(pol))
        got = {}
        bad_val = False
        for key, meta, hi in m:
            hname = None if hi is None else ("md5" if hi.name == "md5-dos2unix" and mode == "md5-dos2unix" else hi.name)
            idt = (None if hi is None else hi.value, None if meta is None else meta.size,
                   False if meta is None else meta.isexec, hname)
            got[key] = table.index(idt) if idt in table else 777
            bad_val = bad_val or idt not in table
        try:
            with m.fs.open(m.path, "rb") as fobj:  # what a caller adds to the object store under m.oid
                blob = fobj.read()
        except Exception as exc:  # noqa: BLE001
            blob = repr(exc).encode()
        res = ("ok", got, m.hash_info.value if m.hash_info else None, m.oid, m.hash_info.name if m.hash_info else None,
               blob)
    except MergeError:
        res = ("err", 6, "MergeError")
    except Exception as exc:  # noqa: BLE001
        res = ("err", impl.err_code(exc), type(exc).__name__)
    # ---- oracle
    problems = []
    a = dict_of(ks, case["a"]) if case["a"] is not None else {}
    o, t = dict_of(ks, case["o"]), dict_of(ks, case["t"])
    if case.get("missing"):
        if res[0] != "err" or res[2] != "FileNotFoundError":
            problems.append(("C19:missing-object-not-reported", f"a listing object is absent but merge() gave {res[:3]}"))
    elif case.get("corrupt"):
        if res[0] != "err" or res[2] != "ObjectFormatError":
            problems.append(("C19:corrupt-object-not-reported",
                             f"a listing object is not a JSON list but merge() gave {res[:3]}"))
    else:
        problems += judge(a, o, t, pol, res[:3] if res[0] == "err" else ("ok", res[1]))
        if res[0] == "ok":
            ref = merge3(a, o, t)
            if ref is not None:
                # independent canonical encoder (lib.impl: records sorted by the relpath STRING, json.dumps,
                # md5) - nothing of Tree is used to compute what the identifier must be
                entries = [("/".join(k), table[c][3], table[c][0]) for k, c in ref.items()]
                want = oid_named(entries)
                if res[2] != want or res[3] != want or res[4] != "md5":
                    problems.append(("C19:wrong-identifier",
                                     f"merged listing has identifier {res[4]}:{res[2]} (oid {res[3]}), the canonical "
                                     f"identifier of the three-way merge is md5:{want}"))
                if res[5] != canon_named(entries):
                    problems.append(("C19:non-canonical-object",
                                     "the serialised object that comes with the merged tree (tree.fs/tree.path) is not the "
                                     f"canonical listing of its content: {res[5][:300]!r}"))
                # a merge whose result IS one of the stored inputs must return that object's identifier
                for who in ("o", "t", "a"):
                    if case[who] is not None and dict_of(ks, case[who]) == ref and names[who] == want \
                            and res[3] != names[who]:
                        problems.append(("C19:fast-forward-renamed",
                                         f"the merged listing equals the stored listing {names[who]} but is returned as "
                                         f"{res[3]}"))
                        break
    # ---- model input
    hexs = clist([cpair(cN(i), cpair(cbytes(table[i][3]), cbytes(table[i][0]))) for i in range(len(table))])
    objs_t = clist([cpair(cbytes(oid), ccells(cells)) for oid, cells in objs.items()])
    term = (f"({ckeys(ks)}, {hexs}, {objs_t}, {copt(names['a'], cbytes)}, {cbytes(names['o'])}, "
            f"{cbytes(names['t'])}, {cpol(pol)})")
    if res[0] == "ok":
        exp = vL([vN(1), vB(res[2] or ""), enc_dict(ks, res[1])])
    else:
        exp = vL([vN(0), vN(res[1])])
    return term, exp, problems, res, (a, o, t)


def shrink_tree(ctx, case, sig, what):
    """drop keys while the same oracle failure persists"""
    cur = dict(case, shuffle=False)
    changed = True
    while changed and len(cur["keys"]) > 1:
        changed = False
        for i in range(len(cur["keys"])):
            c2 = dict(cur)
            for f in ("keys", "a", "o", "t"):
                if cur[f] is not None:
                    c2[f] = list(cur[f][:i]) + list(cur[f][i + 1:])
            probs = run_tree_case(ctx, c2)[2]
            w2 = next((w for s, w in probs if s == sig), None)
            if w2 is not None:
                cur, what, changed = c2, w2, True
                break
    return cur, what


def tree_item(ctx, case):
    term, exp, problems, res, (a, o, t) = run_tree_case(ctx, case)
    for sig, what in problems:
        small, what = shrink_tree(ctx, case, sig, what)
        ctx.oracle_fail(sig, what, small)
    both = a != o and a != t
    ctx.case(case, both or res[0] != "ok")
    ks = [tuple(k) for k in case["keys"]]
    table = tree_tables(case["mode"], case.get("table"))
    if case.get("table") == "mixed":
        dim("merge()|value:listing-with-sha256/etag-entries-next-to-md5(md5-named .dir)")
    ex = {"store:" + case["mode"], "route:" + ("Tree.add+digest+add_update_tree" if case.get("route") == "save"
                                                else "planted-bytes" + ("-shuffled-records" if case.get("shuffle") else "")),
          "outcome:" + ("ok" if res[0] == "ok" else res[2])}
    for fl in ("verify", "read_only", "missing", "corrupt", "empty_info"):
        if case.get(fl):
            ex.add(f"flag:{fl}")
    if case["a"] is None:
        ex.add("flag:ancestor_info=None")
    for k in ks:
        cl = {d[k] for d in (a, o, t) if k in d}
        if len(cl) > 1 and len({(table[c][0], table[c][3]) for c in cl}) == 1:
            ex.add("value:entries-differ-in-meta-only")
        if any(table[c1][0] == table[c2][0] and table[c1][3] != table[c2][3] for c1 in cl for c2 in cl):
            ex.add("value:entries-differ-in-hash-name-only(md5 vs sha256)")
    for nm in ("a", "o", "t"):
        if case[nm] is not None and not any(case[nm]):
            ex.add("id:input-oid-is-the-empty-listing's")
        if case.get("oid_tail_d") and nm == "t":
            ex.add("id:input-oid-ends-in-hex-d")
    case_dims("merge()", ks, a, o, t, case["pol"], ex)
    ctx.count("tree:" + ("ok" if res[0] == "ok" else f"err{res[1]}") + ("/two-sided" if both else "/one-sided"))
    ctx.count("tree-store:" + case["mode"])
    return (case, term, exp)


TREE_CORPUS = [
    # both sides add; the merged listing holds a directory and a sibling "<dir>." / "<dir>-" / "<dir> " / "<dir>+"
    {"stream": "tree", "mode": "md5", "keys": [("data", "x"), ("data.csv",), ("a",)], "a": [0, 0, 1], "o": [1, 0, 1],
     "t": [0, 2, 1], "pol": None},
    {"stream": "tree", "mode": "md5", "keys": [("p", "raw", "2021", "f"), ("p", "raw-2020", "f")], "a": [0, 0],
     "o": [1, 0], "t": [0, 2], "pol": []},
    # fast-forward: ours untouched, the result is theirs and must keep their identifier
    {"stream": "tree", "mode": "md5", "keys": [("a", "f"), ("a b",)], "a": [1, 0], "o": [1, 0], "t": [1, 3],
     "pol": None},
    {"stream": "tree", "mode": "md5-dos2unix", "keys": [("img", "1.png"), ("img+meta.json",), ("d", "c")],
     "a": [1, 3, 4], "o": [2, 3, 4], "t": [1, 3, 0], "pol": ["change", "remove"]},
    # no ancestor
    {"stream": "tree", "mode": "md5", "keys": [("s", "t", "u"), ("s", "t!", "u")], "a": None, "o": [1, 0], "t": [0, 2],
     "pol": ["add"]},
    # hidden entries: a relpath starting with '.', alone and next to the same name without the dot
    {"stream": "tree", "mode": "md5", "keys": [(".gitkeep",), ("a",)], "a": [1, 0], "o": [1, 0], "t": [1, 2],
     "pol": None},
    {"stream": "tree", "mode": "md5", "keys": [(".env",), ("env",), (".config", "settings")], "a": [1, 2, 0],
     "o": [1, 2, 3], "t": [1, 0, 0], "pol": ["add", "remove"]},
    {"stream": "tree", "mode": "md5-dos2unix", "keys": [("..data",), ("d", ".hidden"), ("data",)], "a": [1, 0, 3],
     "o": [2, 0, 3], "t": [1, 4, 3], "pol": ["add", "change"]},
    {"stream": "tree", "mode": "md5", "keys": [("trail ",), ("trail.",), ("trail",), (" lead",)], "a": [1, 2, 3, 0],
     "o": [1, 2, 3, 1], "t": [0, 2, 3, 0], "pol": ["add", "remove"]},
]


AUDIT_TREE = [
    # the empty listing [] (identifier d751713988987e9331980363e24189ce.dir) on each position / everywhere
    {"mode": "md5", "keys": [("a",), ("d", "b")], "a": [0, 0], "o": [1, 0], "t": [0, 3], "pol": None},
    {"mode": "md5", "keys": [("a",), ("d", "b")], "a": [1, 3], "o": [0, 0], "t": [1, 3], "pol": ["remove"], "route": "save"},
    {"mode": "md5", "keys": [("a",), ("d", "b")], "a": [1, 3], "o": [1, 3], "t": [0, 0], "pol": None, "verify": True},
    {"mode": "md5-dos2unix", "keys": [("a",)], "a": [0], "o": [0], "t": [0], "pol": [], "read_only": True},
    # fast-forwards both ways, ours == theirs, all equal
    {"mode": "md5", "keys": [("a",), ("d", "b", "c")], "a": [1, 0], "o": [1, 0], "t": [2, 3], "pol": None, "route": "save"},
    {"mode": "md5", "keys": [("a",), ("d", "b", "c")], "a": [1, 0], "o": [2, 3], "t": [1, 0], "pol": ["add", "change"]},
    {"mode": "md5-dos2unix", "keys": [("a",), ("d", "b")], "a": [1, 0], "o": [3, 4], "t": [3, 4], "pol": ["add", "change"],
     "verify": True, "read_only": True},
    {"mode": "md5", "keys": [("a",), ("d", "b")], "a": [1, 3], "o": [1, 3], "t": [1, 3], "pol": None},
    # entries that differ in metadata only (md5-dos2unix store keeps size / isexec): a change like any other
    {"mode": "md5-dos2unix", "keys": [("a",), ("k",)], "a": [1, 3], "o": [2, 3], "t": [1, 3], "pol": ["change"]},
    {"mode": "md5-dos2unix", "keys": [("a",), ("k",)], "a": [1, 3], "o": [2, 3], "t": [1, 0], "pol": ["change", "remove"],
     "route": "save"},
    {"mode": "md5-dos2unix", "keys": [("a",), ("k",)], "a": [1, 3], "o": [2, 3], "t": [3, 3], "pol": ["change"]},
    # a file on one side, a directory of that name on the other: both entries survive (per-path rule)
    {"mode": "md5", "keys": [("d",), ("d", "b"), ("k",)], "a": [0, 0, 1], "o": [1, 0, 1], "t": [0, 3, 1], "pol": None},
    {"mode": "md5", "keys": [("d",), ("d", "b")], "a": [1, 0], "o": [0, 3], "t": [2, 0], "pol": ["add", "remove", "change"],
     "route": "save"},
    # names
    {"mode": "md5", "keys": [("we\\ird.txt",), ("caf\u00e9.txt",), ("cafe\u0301.txt",), ("bad\udcff.bin",)],
     "a": [1, 2, 0, 0], "o": [1, 2, 3, 0], "t": [1, 2, 0, 1], "pol": None, "route": "save", "verify": True},
    {"mode": "md5", "keys": [("\u0434\u0430\u043d\u043d\u044b\u0435", "\u0444.txt"), ("\u6570\u636e", "\u6587\u4ef6"),
                             ("\U0001f600.png",), ("L" * 200,), ("sub.dir", "x")],
     "a": [1, 2, 3, 1, 0], "o": [1, 0, 3, 2, 0], "t": [2, 2, 3, 1, 3], "pol": ["add", "remove", "change"]},
    {"mode": "md5-dos2unix", "keys": [("imgs", "a"), ("imgs_raw", "a"), ("imgs.bak",), ("Data", "f"), ("data",)],
     "a": [1, 0, 3, 4, 0], "o": [1, 2, 3, 4, 0], "t": [1, 0, 3, 4, 1], "pol": [], "route": "save"},
    # mixed-algorithm listings (md5-named .dir, entries keyed sha256 / etag next to md5; cells: 1 md5, 2-3 sha256,
    # 4 sha256 with the VALUE of cell 1, 5-6 etag): lost change, conflict, both add, hash-name-only change
    {"mode": "md5", "table": "mixed", "keys": [("data", "a.bin"), ("data", "b.bin"), ("readme",), ("data", "sub", "c.bin")],
     "a": [2, 2, 1, 0], "o": [3, 2, 1, 0], "t": [2, 2, 1, 3], "pol": ["add", "remove", "change"]},
    {"mode": "md5", "table": "mixed", "keys": [("data", "a.bin"), ("readme",), ("extra",)],
     "a": [2, 1, 0], "o": [3, 1, 0], "t": [4, 1, 5], "pol": ["add", "remove", "change"]},
    {"mode": "sha256", "table": "mixed", "keys": [("data", "a.bin"), ("data", "d.bin"), ("data", "sub", "c.bin"), ("e",)],
     "a": [2, 0, 0, 5], "o": [2, 3, 0, 5], "t": [2, 0, 2, 5], "pol": None, "route": "save"},
    {"mode": "sha256", "table": "mixed", "keys": [("e",), ("k",)], "a": [5, 2], "o": [6, 2], "t": [5, 3],
     "pol": ["change"], "verify": True},
    {"mode": "md5", "table": "mixed", "keys": [("e",), ("k",)], "a": [5, 2], "o": [6, 2], "t": [0, 2],
     "pol": ["change", "remove"]},
    {"mode": "md5", "table": "mixed", "keys": [("f",), ("k",)], "a": [1, 2], "o": [4, 2], "t": [1, 2], "pol": ["change"]},
    {"mode": "md5", "table": "mixed", "keys": [("f",), ("k",)], "a": [1, 2], "o": [4, 2], "t": [2, 2], "pol": ["change"],
     "route": "save"},
    # no ancestor_info at all / a falsy HashInfo(), against an empty side
    {"mode": "md5", "keys": [("a",), ("b",)], "a": None, "o": [1, 0], "t": [0, 0], "pol": None},
    {"mode": "md5", "keys": [("a",), ("b",)], "a": None, "o": [1, 0], "t": [0, 2], "pol": ["add"], "empty_info": True,
     "route": "save", "read_only": True},
    # faults: an absent object, an object that is not a JSON list / not JSON
    {"mode": "md5", "keys": [("a",)], "a": [1], "o": [2], "t": [1], "pol": None, "missing": ["t"]},
    {"mode": "md5", "keys": [("a",)], "a": [1], "o": [2], "t": [1], "pol": None, "corrupt": {"o": "{\"a\": 1}"}},
    {"mode": "md5", "keys": [("a",)], "a": [1], "o": [2], "t": [3], "pol": None, "corrupt": {"a": "[{\"md5\": "}},
]


def audit_tree_cases():
    out = [dict(c, stream="tree") for c in AUDIT_TREE]
    # a listing whose identifier ends in the hex digit d (".dir" is a SUFFIX, not a character set to strip)
    h = tree_tables("md5")
    for i in range(4000):
        if oid_named([(f"f{i}", "md5", h[0][0])])[:-4].endswith("dd"):
            out.append({"stream": "tree", "mode": "md5", "keys": [(f"f{i}",), ("g",)], "a": [0, 2], "o": [0, 2],
                        "t": [1, 0], "pol": ["add", "remove"], "oid_tail_d": True})
            break
    return out


def stream_tree(ctx, n):
    items = []
    for c in TREE_CORPUS:
        items.append(tree_item(ctx, dict(c)))
        items.append(tree_item(ctx, dict(c, o=c["t"], t=c["o"])))
    for c in audit_tree_cases():
        if c.get("corrupt"):
            tree_item(ctx, dict(c))  # ObjectFormatError is outside the model's error kinds: oracle only
            continue
        items.append(tree_item(ctx, dict(c)))
        if not c.get("missing"):
            items.append(tree_item(ctx, dict(c, o=c["t"], t=c["o"])))
    for c in grid_cases("tree"):
        items.append(tree_item(ctx, dict(c, mode="md5", route="save" if len(items) % 3 == 0 else "plant")))
    for _ in range(n):
        mode = ctx.rng.choice(["md5", "md5", "md5-dos2unix", "md5-dos2unix", "sha256"])
        tbl = "mixed" if mode != "md5-dos2unix" and (mode == "sha256" or ctx.rng.random() < 0.4) else None
        nv = len(tree_tables(mode, tbl))
        ks = gen_tree_universe(ctx.rng)
        a, o, t = gen_triple(ctx.rng, len(ks), nv)
        case = {"stream": "tree", "mode": mode, "keys": ks, "a": a, "o": o, "t": t, "pol": gen_pol(ctx.rng, a, o, t),
                "shuffle": ctx.rng.random() < 0.5}
        if tbl:
            case["table"] = tbl
        if ctx.rng.random() < 0.3:
            case["route"] = "save"
        if ctx.rng.random() < 0.25:
            case["verify"] = True
        if ctx.rng.random() < 0.2:
            case["read_only"] = True
        r = ctx.rng.random()
        if r < 0.12:
            case["a"] = None  # no ancestor: merge against the empty listing
            case["empty_info"] = ctx.rng.random() < 0.5
        elif r < 0.2:
            case["missing"] = [ctx.rng.choice(["a", "o", "t"])]
        items.append(tree_item(ctx, case))
        if "missing" not in case and ctx.rng.random() < 0.5:
            sw = dict(case, o=case["t"], t=case["o"])
            items.append(tree_item(ctx, sw))
    return items


def tree_exhaustive(ctx):
    ks = [("d", "b"), ("d.c",)]  # tuple order d/b < d.c, canonical (relpath string) order d.c < d/b
    items = []
    cells = list(itertools.product(range(3), repeat=2))
    for a in cells:
        for o in cells:
            for t in cells:
                for pol in (None, ["add", "remove"], ["remove", "change"], ["add", "remove", "change"]):
                    items.append(tree_item(ctx, {"stream": "tree", "mode": "md5", "keys": ks, "a": list(a),
                                                 "o": list(o), "t": list(t), "pol": pol}))
    return items


# ---------------------------------------------------------------------------------------------


def oracle_ok(ctx):
    return not any(v.kind == "oracle" for v in ctx.violations)


def run(ctx):
    DIMS.clear()
    vals = Values(value_pool())
    vals.check_classes(ctx)
    svals = Values(["x", "y", "z"])
    thorough = ctx.tier != "quick"

    import time
    tm = {}
    t0 = time.time()
    m_items = stream_merge(ctx, vals, ctx.n(500, 6000))
    n_merge_eval = ctx.evaluations
    ctx.obligation("oracle:_merge", oracle_ok(ctx),
                   f"{len(m_items)} triples x both orders on the real _merge judged by the independent per-key "
                   "three-way merge (result, error kind, symmetry, default policy, arguments untouched)")
    d_items = stream_diff(ctx, vals, ctx.n(200, 1500))
    p_items = stream_patch(ctx, vals, ctx.n(200, 1500))
    tm["py_merge_diff_patch"] = round(time.time() - t0, 2)
    t0 = time.time()

    ks3 = [("a",), ("d", "b"), ("d", "c")]
    cells3 = list(itertools.product(range(4), repeat=3))
    ALL = ["add", "remove", "change"]
    s3_items, s2_items = [], []
    if thorough:
        # (i) ALL 64^3 triples over 3 keys x (absent + 3 values) under the policy that admits every edit
        #     (the whole three-way logic: double patch, KeyError mapping, conflict detection) ...
        rows = [(a, o, ALL) for a in cells3 for o in cells3]
        # ... and sampled rows of that universe under the other policies
        rows += [(ctx.rng.choice(cells3), ctx.rng.choice(cells3), ctx.rng.choice(POLS[:-1])) for _ in range(2000)]
    else:
        rows = [(ctx.rng.choice(cells3), ctx.rng.choice(cells3), ctx.rng.choice(POLS)) for _ in range(ctx.n(120, 0))]
    s_items = sweep_rows(ctx, svals, ks3, 4, rows, "str")
    if thorough:
        # (ii) ALL 27^3 triples over 3 keys x (absent + 2 values) x all 9 policies
        cells3b = list(itertools.product(range(3), repeat=3))
        rows3 = [(a, o, pol) for pol in POLS for a in cells3b for o in cells3b]
        s3_items = sweep_rows(ctx, Values(["x", "y"]), ks3, 3, rows3, "str")
        # (iii) ALL 16^3 triples over 2 keys x (absent + 3 real (Meta, HashInfo) values) x all 9 policies
        ks2 = [("é",), ("d", "b")]
        cells2 = list(itertools.product(range(4), repeat=2))
        rows2 = [(a, o, pol) for pol in POLS for a in cells2 for o in cells2]
        s2_items = sweep_rows(ctx, Values(value_pool()[:3]), ks2, 4, rows2, "pool")
    n_sweep = len(s_items) * 64 + len(s3_items) * 27 + len(s2_items) * 16
    ctx.obligation("oracle:_merge-sweep", oracle_ok(ctx),
                   f"{n_sweep} real _merge runs over complete their-listing ranges "
                   + ("(ALL 262144 triples over 3 keys x 4 cells under add+remove+change, 2000 sampled rows under the "
                      "other policies; ALL triples over 3 keys x 3 cells x 9 policies; ALL triples over 2 keys x 4 cells "
                      "x 9 policies with real values)" if thorough else "(sampled rows)"))
    ctx.extra["exhaustive"] = thorough
    tm["py_sweep"] = round(time.time() - t0, 2)
    t0 = time.time()

    t_items = stream_tree(ctx, ctx.n(90, 1000))
    if thorough:
        t_items += tree_exhaustive(ctx)
    ctx.obligation("oracle:merge-objects", oracle_ok(ctx),
                   f"{len(t_items)} real merge() runs on planted directory objects: listing = three-way merge, "
                   "identifier = independently recomputed md5 of the canonical listing")

    tm["py_tree"] = round(time.time() - t0, 2)
    t0 = time.time()
    streams = [
        ("merge", "merge_in", "run_merge", m_items),
        ("dictdiffer_diff", "diff_in", "run_diff", d_items),
        ("dictdiffer_patch", "patch_in", "run_patch", p_items),
        ("sweep", "sweep_in", "run_sweep", s_items),
        ("sweep_small", "sweep_in", "run_sweep", s3_items),
        ("sweep_values", "sweep_in", "run_sweep", s2_items),
        ("tree", "tree_in", "run_tree", t_items),
    ]
    streams = [x for x in streams if x[3]]
    n_obl, n_vio = len(ctx.obligations), len(ctx.violations)

    def one(x):
        name, ty, fn, items = x
        t1 = time.time()
        ctx.correspond(name, IMPORTS, ty, fn, items, shard={"tree": 120 if thorough else 40, "merge": 150}.get(name, 250))
        tm["coq_" + name] = round(time.time() - t1, 2)

    if thorough:
        for x in streams:  # each stream already saturates the workers
            one(x)
    else:
        from concurrent.futures import ThreadPoolExecutor

        with ThreadPoolExecutor(max_workers=len(streams)) as ex:
            list(ex.map(one, streams))
        # the streams finished in any order: restore a fixed order of what they recorded
        rank = {"correspondence:" + x[0]: i for i, x in enumerate(streams)}
        ctx.obligations[n_obl:] = sorted(ctx.obligations[n_obl:], key=lambda o: rank.get(o[0], 99))
        ctx.violations[n_vio:] = sorted(ctx.violations[n_vio:], key=lambda v: rank.get(v.signature, 99))
    tm["coq"] = round(time.time() - t0, 2)
    ctx.extra["timing_s"] = tm
    ctx.extra["input_dimensions"] = dict(sorted(DIMS.items()))
    ctx.extra["streams"] = {"diff": len(d_items), "patch": len(p_items), "merge": len(m_items),
                            "sweep_rows": len(s_items) + len(s3_items) + len(s2_items), "sweep_merges": n_sweep, "tree": len(t_items),
                            "merge_evaluations_before_sweep": n_merge_eval}


def replay_case(ctx, case):
    stream = case.get("stream", "merge")
    if stream == "tree":
        case = dict(case, keys=[tuple(k) for k in case["keys"]])
        term, exp, problems, res, _ = run_tree_case(ctx, case)
        model = ctx.coq_eval_val("replay", IMPORTS, f"run_tree {term}")
        return {"result": res, "model [ok, oid, [size, cells]] | [0, error]": model, "problems": problems,
                "violates": bool(problems)}
    if stream != "merge":
        return {"violates": False, "note": f"stream {stream} has no oracle of its own"}
    case = dict(case, keys=[tuple(k) for k in case["keys"]])
    if case.get("values") == "str":
        vals = Values(["x", "y", "z"])
    else:
        vals = Values(value_pool())
    r1, r2, problems, _ = run_merge_case(ctx, vals, case, shuffle=False)
    term = f"({ckeys(case['keys'])}, {ccells(case['a'])}, {ccells(case['o'])}, {ccells(case['t'])}, {cpol(case['pol'])})"
    model = ctx.coq_eval_val("replay", IMPORTS, f"run_merge {term}")
    return {"result": r1, "swapped": r2, "model [_merge a o t, _merge a t o, merge3]": model, "problems": problems,
            "violates": bool(problems)}
