"""C20 - index and entry serialisation round-trips.

Real code driven: Meta.to_dict/from_dict, HashInfo.to_dict/from_dict, DataIndexEntry.to_dict/from_dict,
write_json/read_json, write_db/read_db (dvc_data.index.serialize), DataIndex.open + add + commit + close +
reopen (SQLite-backed DataIndexTrie), Tree.as_list(with_meta=True) -> JSON text -> Tree.from_list(.., hash_name).

Every case is judged twice: by the *oracle* (the round-trip property itself, on the real objects only) and by the
*correspondence* (the dictionaries / records the real code produced vs the Gallina model, evaluated with vm_compute
inside coqc).  The model's to_dict / from_dict ARE the translator's output (units "types" -> Gen/PyTypes.v and
"serdict" -> Gen/SerDict.v, regenerated from the current source on every run), so the same run is the translation
validation of those six functions; containers, the SQLite-backed trie and the listing are hand-modelled in
Model/Serialize.v.  Ill-formed inputs (key parts with "/" or empty, colliding joined keys,
dicts that make from_dict raise, listings without usable hash) form a separate malformed stream on which only
model == implementation is required.
"""

from __future__ import annotations

import glob
import json
import os

from lib import impl
from lib.core import VERIF, cN, cbool, cbytes, clist, copt, vB, vL, vN, vbool

PROPERTY = "C20"
GEN: list = ["types", "serdict"]
RULE = (
    "Meta: dense enumeration of the 8748 presence/absence x false-y combinations of the nine serialisable fields "
    "(bool F/T; int None/0/n; str None/''/s) with random non-serialised fields (quick: seeded sample, thorough: all); "
    "HashInfo: all 56 name x value combinations (None, '', md5, md5-dos2unix, sha256, non-ASCII; '.dir' values); "
    "entries: meta x hash x loaded(None/True/False) x key; typed dictionaries fed to from_dict (any field of "
    "Meta.fields, unknown names, null values, {} and false-y sub-dicts, multi-item hash dicts, missing 'loaded'); "
    "indexes of 1-7 entries over keys with non-ASCII, non-BMP, quote/backslash/newline parts written and re-read "
    "through JSON file, diskcache db and the SQLite-backed index (root key, overwrites, uncommitted writes); "
    "listings with metadata for md5 and md5-dos2unix. Malformed stream: parts containing '/', empty parts, the "
    "empty key in joined forms, colliding joined keys, listings with absent/foreign hashes or no hash name. "
    "corpus/C20/regression.json (the documented corners: all-default meta, zero sizes next to empty strings, "
    "nameless hash, obj_name, root key + overwrite after reopen, md5 slot of a listing, '/' in a part) runs first. "
    "Oracle failures on containers are shrunk by dropping entries/operations. "
    "Audited input dimensions (tools/COVERAGE_AUDIT.md) are reached in EVERY run by fixed cases (dim_cases): names "
    "with backslash / space / leading dot / Cyrillic+CJK+emoji / non-NFC next to its composed twin / '.dir' suffix / "
    "prefix siblings / 1 and 200 characters / case twins; root key, depth >= 3, parent and child both entries; every "
    "(hash x meta) pair of the audit list ('.dir' hash with isdir False or without meta, meta without hash, value "
    "without name, name without value, obj_name on file and directory ids, the empty listing's id, ids ending in "
    "every hex digit, one value under md5 / md5-dos2unix / sha256) x loaded None/True/False; each through to_dict/"
    "from_dict, JSON file, diskcache, SQLite (session view, commit-close-reopen, a second save, removals, another "
    "process), listings with and without metadata per hash-name family, empty index / empty listing, every route "
    "twice (idempotence) and chained across routes. ctx.extra['input_dimensions'] counts the cases per dimension. "
    "A case is non-trivial when at least one optional field is emitted and at least one is suppressed "
    "(dict families) or the container holds >= 2 entries with metadata and hash (container families)."
)
ASSUMPTIONS = [
    "json.dump/json.load, diskcache.Cache (pickle) and sqltrie.SQLiteTrie + orjson are faithful stores of "
    "str -> nested dict of bool/int/str/None (modelled as association lists); exercised, not proved",
    "SQLite-backed form: integers < 2**64 (orjson raises TypeError beyond) and no NUL character in key parts "
    "(sqltrie builds an SQL script from the joined key); JSON file and diskcache forms have neither limit",
    "text is a sequence of Unicode scalar values (no lone surrogates); mtime is an opaque token (never serialised)",
    "from_dict inputs are typed: a dictionary holding a value of another Python type yields an ill-typed object "
    "in the implementation and is outside the model (model answer: error kind 100, never generated)",
    "listing with metadata: stated for the md5 family (md5, md5-dos2unix); the md5 slot of the metadata read back "
    "holds the entry's hash (the flat listing stores the hash there) - an observation recorded in the input "
    "distribution, not an alarm; for a hash name without a Meta attribute from_list raises (malformed stream)",
    "SQLite-backed form: closing with uncommitted rows is unspecified (sqlite3 rollback vs sqltrie's implicit "
    "commits) - generated histories reopen only directly after a commit; the theorem carries the same hypothesis",
]

SHARD_BYTES = 45_000

IMPORTS = ("From Coq Require Import NArith List.\n"
           "From DvcData Require Import Base.PyBase Gen.PyTypes Gen.SerDict Model.Serialize.")

SER_BOOL = ("isdir", "isexec")
SER_INT = ("size", "nfiles")
SER_STR = ("version_id", "etag", "checksum", "md5", "remote")
SERIALISED = ("isdir", "size", "nfiles", "isexec", "version_id", "etag", "checksum", "md5", "remote")
FIELDS = ("isdir", "size", "nfiles", "isexec", "version_id", "etag", "checksum", "md5", "inode", "mtime",
          "remote", "is_link", "destination", "nlink")

PARTS_OK = ["a", "b", "dir", "file.txt", "ü", "日本", "\U0001f600", "sp ace", 'q"uote', "back\\slash",
            "n\nl", "..", ".", "it's", "\x01", "%41", "x.dir", "é", "\U00010348ß", "A" * 40]
PARTS_BAD = ["a/b", "", "/", "x/", "/y", "ü/\U0001f600"]
STRS = ["v1", 'e"t', "ü", "\U0001f600", "0", "abc.dir", " ", "False", "d41d8cd98f00b204e9800998ecf8427e",
        "d41d8cd98f00b204e9800998ecf8427e.dir", "\\u0041"]
INTS = [1, 7, 2 ** 31, 2 ** 53 + 1, 10 ** 12, 2 ** 63, 2 ** 64 - 1]
BIG_INTS = [2 ** 64, 10 ** 30]  # JSON file / diskcache only
HASH_NAMES = [None, "", "md5", "md5-dos2unix", "sha256", "etag", "ü"]
HASH_VALUES = [None, "", "d41d8cd98f00b204e9800998ecf8427e", "0cc175b9c0f1b6a831c399e269772661.dir", "ü",
               ".dir", "0", " "]


# ----------------------------------------------------------------------------------------------
# Coq terms / val literals


def ctext(s):
    return cbytes(s)


def cotext(s):
    return copt(s, ctext)


def coN(n):
    return copt(n, cN)


def mtime_token(x):
    return None if x is None else int(round(float(x) * 1000))


def cmeta(m):
    if m is None:
        return "None"
    return "(Some %s)" % cmeta1(m)


def cmeta1(m):
    return ("(mk_meta %s %s %s %s %s %s %s %s %s %s %s %s %s %s)" % (
        cbool(m["isdir"]), coN(m["size"]), coN(m["nfiles"]), cbool(m["isexec"]), cotext(m["version_id"]),
        cotext(m["etag"]), cotext(m["checksum"]), cotext(m["md5"]), coN(m["inode"]), coN(mtime_token(m["mtime"])),
        cotext(m["remote"]), cbool(m["is_link"]), cotext(m["destination"]), cN(m["nlink"])))


def chi1(h):
    return "(mk_hashinfo %s %s %s)" % (cotext(h["name"]), cotext(h["value"]), cotext(h.get("obj_name")))


def chi(h):
    return "None" if h is None else "(Some %s)" % chi1(h)


def ckey(k):
    return clist([ctext(p) for p in k])


def centry(e):
    return "(mk_ientry %s %s %s %s)" % (copt(e["key"], ckey), cmeta(e["meta"]), chi(e["hi"]),
                                      copt(e["loaded"], cbool))


def cjv(x):
    if x is None:
        return "PVNone"
    if isinstance(x, bool):
        return f"(PVBool {cbool(x)})"
    if isinstance(x, int):
        return f"(PVInt {cN(x)})"
    if isinstance(x, str):
        return f"(PVStr {ctext(x)})"
    if isinstance(x, dict):
        return f"(PVDict {cjdict(x)})"
    raise TypeError(type(x))


def cjdict(d):
    return clist([f"({ctext(k)}, {cjv(v)})" for k, v in d.items()])


def vjv(x):
    """mirror of enc_pyv (Base/PyBase.v); dict order = insertion order"""
    if x is None:
        return vL([])
    if isinstance(x, bool):
        return vL([vN(1), vbool(x)])
    if isinstance(x, int):
        return vL([vN(2), vN(x)])
    if isinstance(x, str):
        return vL([vN(3), vB(x)])
    if isinstance(x, dict):
        return vL([vN(4), vL([vL([vB(k), vjv(v)]) for k, v in x.items()])])
    raise TypeError(type(x))


def vo(x, f):
    return vL([]) if x is None else vL([f(x)])


class IllTyped(Exception):
    """the implementation built an object whose field holds a value of another Python type than declared:
    outside the typed model (ASSUMPTIONS); the case is skipped and counted, never judged"""


def _str(x):
    if not isinstance(x, str):
        raise IllTyped(f"expected str, got {type(x).__name__}")
    return vB(x)


def _int(x):
    if isinstance(x, bool) or not isinstance(x, int):
        raise IllTyped(f"expected int, got {type(x).__name__}")
    return vN(x)


def _bool(x):
    if not isinstance(x, bool):
        raise IllTyped(f"expected bool, got {type(x).__name__}")
    return vbool(x)


def vmeta(m):
    """a real Meta object -> mirror of enc_meta"""
    mt = m.mtime
    return vL([_bool(m.isdir), vo(m.size, _int), vo(m.nfiles, _int), _bool(m.isexec), vo(m.version_id, _str),
               vo(m.etag, _str), vo(m.checksum, _str), vo(m.md5, _str), vo(m.inode, _int),
               vo(mt if mt is None or isinstance(mt, int) else mtime_token(mt), _int), vo(m.remote, _str),
               _bool(m.is_link), vo(m.destination, _str), _int(m.nlink)])


def vhi(h):
    return vL([vo(h.name, _str), vo(h.value, _str), vo(h.obj_name, _str)])


def vkey(k):
    return vL([vB(p) for p in k])


def ventry(e):
    return vL([vo(e.key, vkey), vo(e.meta, vmeta), vo(e.hash_info, vhi), vo(e.loaded, _bool)])


def ok(v):
    return vL([vN(1), v])


def err(exc):
    return vL([vN(0), vN(impl.err_code(exc))])


def keysort(k):
    return tuple(tuple(ord(c) for c in p) for p in k)


def strsort(s):
    return tuple(ord(c) for c in s)


# ----------------------------------------------------------------------------------------------
# building real objects from JSON-able cases


def mk_meta(d):
    from dvc_data.hashfile.meta import Meta

    return None if d is None else Meta(**d)


def mk_hi(d):
    from dvc_data.hashfile.hash_info import HashInfo

    return None if d is None else HashInfo(d["name"], d["value"], d.get("obj_name"))


def mk_entry(d):
    from dvc_data.index import DataIndexEntry

    return DataIndexEntry(key=None if d["key"] is None else tuple(d["key"]), meta=mk_meta(d["meta"]),
                          hash_info=mk_hi(d["hi"]), loaded=d["loaded"])


# ----------------------------------------------------------------------------------------------
# generators (ctx.rng only)


def meta_from_index(rng, i, ints=INTS):
    """i in range(8748): mixed radix over (isdir, size, nfiles, isexec, 5 str fields)"""
    m = {}
    i, r = divmod(i, 2)
    m["isdir"] = bool(r)
    for f in SER_INT:
        i, r = divmod(i, 3)
        m[f] = None if r == 0 else 0 if r == 1 else rng.choice(ints)
    i, r = divmod(i, 2)
    m["isexec"] = bool(r)
    for f in SER_STR:
        i, r = divmod(i, 3)
        m[f] = None if r == 0 else "" if r == 1 else rng.choice(STRS)
    m["inode"] = rng.choice([None, 0, 5, 2 ** 40])
    m["mtime"] = rng.choice([None, 0.0, 1.5, 1700000000.123])
    m["is_link"] = rng.random() < 0.3
    m["destination"] = rng.choice([None, "", "dest/ü"])
    m["nlink"] = rng.choice([1, 1, 2, 0])
    return {f: m[f] for f in FIELDS}


N_META = 2 * 3 * 3 * 2 * 3 ** 5


def gen_meta(rng, ints=INTS):
    r = rng.random()
    if r < 0.08:
        i = 0
    elif r < 0.16:
        i = N_META - 1
    else:
        i = rng.randrange(N_META)
    return meta_from_index(rng, i, ints)


def gen_hi(rng):
    return _obj_name(rng, {"name": rng.choice(HASH_NAMES), "value": rng.choice(HASH_VALUES)})


def gen_good_hi(rng):
    return _obj_name(rng, {"name": rng.choice(["md5", "md5", "md5-dos2unix", "sha256", "etag"]),
                           "value": rng.choice([v for v in HASH_VALUES if v])})


def _obj_name(rng, h):
    # eq=False, never serialised: must come back as None
    if rng.random() < 0.15:
        h["obj_name"] = rng.choice(["dir/ü", "", "o"])
    return h


def gen_key(rng, lo=1, hi=3, parts=PARTS_OK):
    return [rng.choice(parts) for _ in range(rng.randint(lo, hi))]


def gen_entry(rng, key, ints=INTS):
    r = rng.random()
    meta = None if r < 0.12 else gen_meta(rng, ints)
    r = rng.random()
    hi = None if r < 0.15 else gen_hi(rng) if r < 0.5 else gen_good_hi(rng)
    r = rng.random()
    ekey = key if r < 0.8 else None if r < 0.9 else ["other"]
    return {"key": ekey, "meta": meta, "hi": hi, "loaded": rng.choice([None, True, False])}


def gen_meta_dict(rng):
    d = {}
    names = list(FIELDS) + ["bogus", "relpath", "loaded", "fields", "obj_name"]
    rng.shuffle(names)
    for f in names[: rng.randint(0, 9)]:
        if f in ("isdir", "isexec", "is_link"):
            d[f] = rng.choice([True, False])
        elif f in ("size", "nfiles", "inode", "mtime"):
            d[f] = rng.choice([None, 0, 3, 2 ** 40])
        elif f == "nlink":
            d[f] = rng.choice([0, 1, 2])
        else:
            d[f] = rng.choice([None, "", "s", "ü"])
    return d


def gen_hash_dict(rng):
    r = rng.random()
    if r < 0.15:
        return {}
    n = 1 if r < 0.75 else rng.randint(2, 3)
    d = {}
    for _ in range(n):
        d[rng.choice(["md5", "md5-dos2unix", "sha256", "", "ü", "etag"])] = rng.choice([None, "", "abc", "abc.dir"])
    return d


def gen_entry_dict(rng):
    d = {}
    r = rng.random()
    if r < 0.75:
        d["meta"] = rng.choice([None, {}, 0, "", False]) if rng.random() < 0.35 else gen_meta_dict(rng)
    r = rng.random()
    if r < 0.75:
        d["hash_info"] = rng.choice([None, {}, 0, ""]) if rng.random() < 0.3 else gen_hash_dict(rng)
    if rng.random() < 0.88:
        d["loaded"] = rng.choice([None, True, False])
    if rng.random() < 0.15:
        d["key"] = "ignored"
    items = list(d.items())
    rng.shuffle(items)
    return dict(items)


def gen_index(rng, n_lo=1, n_hi=7, ints=INTS, root=False, bad=False):
    ents = []
    seen = set()
    for _ in range(rng.randint(n_lo, n_hi)):
        if bad and rng.random() < 0.5:
            k = gen_key(rng, 1, 3, PARTS_OK[:4] + PARTS_BAD)
        else:
            k = gen_key(rng, 1, 3)
        if tuple(k) in seen:
            continue
        seen.add(tuple(k))
        ents.append([k, gen_entry(rng, k, ints)])
    if bad and rng.random() < 0.5:
        # force a collision of joined keys / the empty key
        choice = rng.random()
        extra = [["a/b"], ["a", "b"]] if choice < 0.4 else [[], [""]] if choice < 0.7 else [["x", ""], ["x/"]]
        for k in extra:
            if tuple(k) not in seen:
                seen.add(tuple(k))
                ents.append([k, gen_entry(rng, k, ints)])
    if root and rng.random() < 0.6:
        e = gen_entry(rng, [], ints)
        ents.insert(rng.randint(0, len(ents)), [[], e])
    return ents


def _copy(x):
    return json.loads(json.dumps(x))


def vary_entry(rng, e, mode):
    """a successor of entry description e.
    mode "serialised": changes the loaded flag and/or serialised fields (what an in-place update does);
    mode "eq-false": equal under == (attrs eq) but different in serialised-or-not eq=False fields (Meta.remote,
    nlink, is_link, destination, HashInfo.obj_name)"""
    e = _copy(e)
    if mode == "eq-false":
        if e["meta"] is None:
            e["meta"] = meta_from_index(rng, 0)
            e["meta"]["remote"] = "origin"  # no meta before: at least differs
            return e
        m = e["meta"]
        m["remote"] = rng.choice([x for x in ("origin", "backup", None, "") if x != m["remote"]])
        if rng.random() < 0.4:
            m["nlink"] = m["nlink"] + 1
            m["is_link"] = not m["is_link"]
            m["destination"] = "elsewhere"
        if e["hi"] is not None and rng.random() < 0.4:
            e["hi"]["obj_name"] = rng.choice(["o1", "o2"])
        return e
    what = rng.sample(["loaded", "size", "nfiles", "isexec", "md5", "hash", "meta-none", "remote"], rng.randint(1, 3))
    for w in what:
        if w == "loaded":
            e["loaded"] = rng.choice([x for x in (None, True, False) if x is not e["loaded"]])
        elif w == "meta-none":
            if rng.random() < 0.2:
                e["meta"] = None if e["meta"] is not None else meta_from_index(rng, rng.randrange(N_META))
        elif w == "hash":
            if e["hi"] is None:
                e["hi"] = gen_good_hi(rng)
            else:
                e["hi"]["value"] = rng.choice([v for v in HASH_VALUES if v and v != e["hi"]["value"]])
        elif e["meta"] is not None:
            m = e["meta"]
            if w in ("size", "nfiles"):
                m[w] = rng.choice([x for x in (None, 0, 2, 7) if x != m[w]])
            elif w == "isexec":
                m[w] = not m[w]
            else:
                m[w] = rng.choice([x for x in (None, "", "x1", "ü") if x != m[w]])
    return e


def gen_alias_history(rng):
    keys = []
    for _ in range(rng.randint(1, 3)):
        k = gen_key(rng, 0 if rng.random() < 0.15 else 1, 2)
        if k not in keys:
            keys.append(k)
    last = {}
    ops = []
    present = set()
    for k in keys:
        e = gen_entry(rng, k)
        e["key"] = k
        last[tuple(k)] = e
        present.add(tuple(k))
        ops.append(["set", k, e])
    for _ in range(rng.randint(1, 4)):
        r = rng.random()
        if r < 0.15:
            ops.append(["commit"])
            continue
        if r < 0.25:
            ops += [["commit"], ["reopen"]]
            continue
        k = rng.choice(keys)
        if tuple(k) not in present:
            e = gen_entry(rng, k)
            e["key"] = k
            ops.append(["set", k, e])
            present.add(tuple(k))
        elif r < 0.45:
            ops.append(gen_del(rng, k, keys))
            present.discard(tuple(k))
            continue
        elif r < 0.75:
            e = vary_entry(rng, last[tuple(k)], "serialised")
            ops.append(["mutset", k, e])
        else:
            e = vary_entry(rng, last[tuple(k)], "eq-false")
            ops.append([rng.choice(["set", "mutset"]), k, e])
        last[tuple(k)] = e
    if present and rng.random() < 0.4:
        # the history ENDS with removals: commit, remove, commit (nothing stored after the last removal)
        ops.append(["commit"])
        for k in rng.sample(sorted(present), rng.randint(1, min(2, len(present)))):
            ops.append(gen_del(rng, list(k), keys))
    ops.append(["commit"])
    return ops


def gen_del(rng, k, keys):
    """a removal of key k; delete_node only for a non-root key that is no proper prefix of another key in play"""
    has_desc = any(len(o) > len(k) and list(o[:len(k)]) == list(k) for o in keys)
    hows = ["del", "pop"] + (["node"] if k and not has_desc else [])
    return ["del", k, rng.choice(hows)]


def gen_load_case(rng):
    files = [("a", impl.md5hex(b"a")), ("sub/b", impl.md5hex(b"b")), ("ü", impl.md5hex(b"")),
             ("sub/deep/c", impl.md5hex(b"c")), ("z.txt", impl.md5hex(b"zz"))]
    store = {}
    ops = []
    used = set()
    for _ in range(rng.randint(1, 2)):
        listing = sorted(rng.sample(files, rng.randint(1, 3)))
        oid = impl.dir_oid(listing)
        store[oid] = [list(x) for x in listing]
        k = gen_key(rng, 1, 2, PARTS_OK[:6])
        if tuple(k) in used or any(tuple(k)[:len(u)] == u or u[:len(k)] == tuple(k) for u in used):
            continue
        used.add(tuple(k))
        m = meta_from_index(rng, 0)
        m.update({"isdir": True, "nfiles": rng.choice([None, len(listing)]), "size": rng.choice([None, 0, 5])})
        ops.append(["set", k, {"key": k, "meta": m, "hi": {"name": "md5", "value": oid},
                               "loaded": rng.choice([None, False])}])
    # a plain file entry next to them
    fk = ["plain", "f"]
    fm = meta_from_index(rng, 0)
    fm.update({"size": 3})
    ops.append(["set", fk, {"key": fk, "meta": fm, "hi": {"name": "md5", "value": impl.md5hex(b"f")}, "loaded": None}])
    r = rng.random()
    if r < 0.35:
        ops += [["commit"], ["reopen"]]      # the directory entry is re-read from its row before _load marks it
    elif r < 0.6:
        ops += [["commit"]]
    ops += [["load"], ["commit"]]
    if rng.random() < 0.4:
        # remove the plain entry, or a (now loaded) directory entry whose children stay: ends with a removal
        victim = fk if rng.random() < 0.5 or not used else list(sorted(used)[0])
        ops += [["del", victim, rng.choice(["del", "pop"])], ["commit"]]
    return {"family": "sqlite", "store": store, "ops": ops}


# ----------------------------------------------------------------------------------------------
# audited input dimensions (tools/COVERAGE_AUDIT.md): fixed cases, reached in EVERY run, and the bookkeeping

NFC_NAME, NFD_NAME = "caf\u00e9.txt", "cafe\u0301.txt"
DIM_NAMES = {
    "name:backslash": ["we\\ird.txt"], "name:space": [" lead", "sp ace"], "name:leading-dot": [".hidden"],
    "name:non-ascii(cyrillic,cjk,emoji)": ["\u041f\u0440\u0438\u0432\u0435\u0442", "\u65e5\u672c", "\U0001f600"],
    "name:non-NFC+composed-twin": [NFC_NAME, NFD_NAME], "name:.dir-suffix": ["x.dir"],
    "name:prefix-siblings": ["imgs", "imgs_raw", "imgs.bak"], "name:1-char": ["a"], "name:200-chars": ["L" * 200],
    "name:case-twins": ["Readme", "README"],
}
EMPTY_LISTING_OID = "d751713988987e9331980363e24189ce.dir"
HEX32 = "0cc175b9c0f1b6a831c399e26977266"  # 31 digits + one varying


def M(**kw):
    m = {"isdir": False, "size": None, "nfiles": None, "isexec": False, "version_id": None, "etag": None,
         "checksum": None, "md5": None, "inode": None, "mtime": None, "remote": None, "is_link": False,
         "destination": None, "nlink": 1}
    m.update(kw)
    return {f: m[f] for f in FIELDS}


def H(name, value, obj_name=None):
    return {"name": name, "value": value, "obj_name": obj_name}


M_FULL = dict(isdir=True, size=5, nfiles=2, isexec=True, version_id="v1", etag='e"t', checksum="c", md5="m5", inode=7,
              mtime=1.5, remote="origin", is_link=True, destination="dest/\u00fc", nlink=2)
M_EMPTY_STR = dict(size=0, nfiles=0, version_id="", etag="", checksum="", md5="", remote="", destination="")
DIR_OID = "0cc175b9c0f1b6a831c399e269772661.dir"
FILE_OID = "d41d8cd98f00b204e9800998ecf8427e"
# (meta, hash) combinations, legal but partly inconsistent
DIM_COMBOS = [
    (M(size=0), H("md5", DIR_OID)),                              # .dir hash, isdir False, size 0
    (None, H("md5", DIR_OID, "data/dir")),                        # .dir hash, no meta, obj_name on a directory id
    (M(size=3, isexec=True), None),                               # meta without hash
    (M(), H("md5", FILE_OID, "data/file")),                       # all-default meta, obj_name on a file id
    (None, None),                                                 # nothing at all
    (M(**M_FULL), H("md5-dos2unix", FILE_OID)),                   # every field set
    (M(**M_EMPTY_STR), H("sha256", FILE_OID)),                    # zero / empty-string values everywhere
    (M(isdir=True, nfiles=0, size=0), H("md5", EMPTY_LISTING_OID)),  # the empty listing's id
    (M(nfiles=0), H(None, "abc")),                                # value without a name
    (M(isexec=True), H("md5", "")),                               # name without a value
]


def _dim_entries(keys, shift=0):
    out = []
    for i, k in enumerate(keys):
        m, h = DIM_COMBOS[(i + shift) % len(DIM_COMBOS)]
        out.append([k, {"key": k, "meta": _copy(m), "hi": _copy(h), "loaded": (None, True, False)[(i + shift) % 3]}])
    return out


def dim_cases():
    """deterministic (no rng): every audited dimension, through every route, in every run"""
    fam: dict = {}

    def add(f, c):
        c["family"] = f
        c["dim"] = True
        fam.setdefault(f, []).append(c)

    name_keys = [[n] for ns in DIM_NAMES.values() for n in ns if n != "sp ace"]
    name_keys += [["imgs", "a"], ["\u041f\u0440\u0438\u0432\u0435\u0442", "\u65e5\u672c", "\U0001f600"],
                  ["d1", "d2", "d3", "f"], ["d1", "d2"]]
    A = _dim_entries(name_keys)
    A2 = _dim_entries(name_keys, shift=4)
    # identifiers: one value under three algorithm names, ids ending in every hex digit (file and .dir)
    B = [[["same", n], {"key": ["same", n], "meta": M(size=1), "hi": H(n, FILE_OID), "loaded": None}]
         for n in ("md5", "md5-dos2unix", "sha256")]
    for c in "0123456789abcdef":
        B.append([["h", c], {"key": ["h", c], "meta": M(size=1), "hi": H("md5", HEX32 + c), "loaded": None}])
        B.append([["hd", c], {"key": ["hd", c], "meta": M(isdir=True, nfiles=1), "hi": H("md5", HEX32 + c + ".dir"),
                              "loaded": True}])
    # to_dict / from_dict: every (hash x meta x loaded) combination of the audit list
    hashes = [None, H("md5", FILE_OID), H("md5", DIR_OID), H("md5-dos2unix", DIR_OID), H("sha256", FILE_OID),
              H(None, "abc"), H("md5", ""), H("md5", FILE_OID, "data/file"), H("md5", EMPTY_LISTING_OID, "data")]
    metas = [None, M(), M(isdir=True), M(size=0), M(nfiles=0), M(isexec=True), M(**M_EMPTY_STR), M(**M_FULL),
             M(version_id=""), M(etag=""), M(remote="r", nlink=0), M(md5=FILE_OID)]
    for i, h in enumerate(hashes):
        for j, m in enumerate(metas):
            # every hash x meta pair; the loaded flag cycles so that each hash and each meta meets all three values
            add("entry", {"entry": {"key": ["a"], "meta": _copy(m), "hi": _copy(h), "loaded": (None, True, False)[(i + j) % 3]}})
    for m in metas[1:]:
        add("meta", {"meta": _copy(m)})
    for form in ("json", "db"):
        add(form, {"form": form, "entries": _copy(A)})
        add(form, {"form": form, "entries": _copy(B)})
        add(form, {"form": form, "entries": []})
    sets = lambda ents: [["set", k, e] for k, e in _copy(ents)]  # noqa: E731
    root = [[], {"key": [], "meta": M(isdir=True, nfiles=0), "hi": H("md5", EMPTY_LISTING_OID, "data"), "loaded": False}]
    add("sqlite", {"xproc": True, "ops": sets(A) + [["commit"]]})
    add("sqlite", {"xproc": True, "ops": sets(B) + sets([root]) + [["commit"]]})
    # second save of the same index, in the same session and after a reopen; child stored before its parent
    add("sqlite", {"xproc": True, "ops": sets(list(reversed(A2))) + sets([root]) + [["commit"], ["resave"], ["commit"],
                                                                                    ["reopen"], ["resave"], ["commit"]]})
    add("sqlite", {"xproc": True, "ops": [["commit"]]})                      # the empty index
    add("sqlite", {"ops": sets(A[:6]) + [["commit"], ["del", A[0][0], "del"], ["del", A[1][0], "node"],
                                         ["del", A[2][0], "pop"], ["commit"]]})
    # parts with "/" and empty parts are legal for the SQLite form as long as entries are only stored and listed
    odd = [[["a/b"], A[0][1]], [["a", "b"], A[1][1]], [["x", ""], A[2][1]], [["x"], A[3][1]], [[""], A[5][1]]]
    add("sqlite", {"xproc": True, "ops": [["set", k, dict(_copy(e), key=k)] for k, e in odd] + [["commit"]]})
    # across routes (keys non-empty: the joined forms are on the way)
    add("chain", {"entries": _copy(A), "routes": ["json", "db", "sqlite", "json"]})
    add("chain", {"entries": _copy(B), "routes": ["sqlite", "db", "json", "sqlite"]})
    add("chain", {"entries": _copy(A2), "routes": ["db", "sqlite", "sqlite", "db"]})
    # listings: with and without metadata, per hash-name family
    tmetas = [M(size=0), M(**M_FULL), M(), M(**M_EMPTY_STR), M(isdir=True, nfiles=0), M(size=3, isexec=True)]
    for hn in ("md5", "md5-dos2unix"):
        ents = [[k, _copy(tmetas[i % len(tmetas)]), H(hn, (HEX32 + "0123456789abcdef"[i % 16]) + (".dir" if i % 4 == 0 else ""),
                                                      "o" if i % 5 == 0 else None)] for i, k in enumerate(name_keys)]
        add("listing", {"hash_name": hn, "with_meta": True, "entries": _copy(ents)})
        add("listing", {"hash_name": hn, "with_meta": False, "entries": [[k, None if i % 2 else m, h] for i, (k, m, h) in enumerate(_copy(ents))]})
        add("listing", {"hash_name": hn, "with_meta": True, "entries": []})
        add("listing", {"hash_name": hn, "with_meta": False, "entries": []})
    for name in ("md5", "sha256"):
        # the route Tree.load takes for a store of the default algorithm: no hash name given
        add("listing", {"hash_name": None, "with_meta": False,
                        "entries": [[k, None, H(name, HEX32 + "0123456789abcdef"[i % 16])] for i, k in enumerate(name_keys[:8])]})
    # a sha256 listing GIVEN its hash name: from_list has no Meta attribute to read (model agrees; reported)
    add("listing", {"hash_name": "sha256", "with_meta": False, "malformed": True, "entries": [[["a"], None, H("sha256", FILE_OID)]]})
    for k in name_keys:
        add("key", {"key": k})
    return fam


def _case_keys(case):
    f = case["family"]
    if f == "key":
        return [case["key"]]
    if f in ("json", "db", "chain"):
        return [k for k, _ in case["entries"]]
    if f == "listing":
        return [k for k, _, _ in case["entries"]]
    if f == "sqlite":
        return [op[1] for op in case["ops"] if op[0] in ("set", "mutset", "del")]
    if f == "entry":
        return [case["entry"]["key"]] if case["entry"]["key"] is not None else []
    return []


def _case_mh(case):
    """[(meta desc or None, hash desc or None, loaded or "n/a")]"""
    f = case["family"]
    if f in ("json", "db", "chain"):
        return [(e["meta"], e["hi"], e["loaded"]) for _, e in case["entries"]]
    if f == "listing":
        return [(m, h, "n/a") for _, m, h in case["entries"]]
    if f == "sqlite":
        return [(op[2]["meta"], op[2]["hi"], op[2]["loaded"]) for op in case["ops"] if op[0] in ("set", "mutset")]
    if f == "entry":
        e = case["entry"]
        return [(e["meta"], e["hi"], e["loaded"])]
    if f == "meta":
        return [(case["meta"], None, "n/a")]
    if f == "hash":
        return [(None, case["hi"], "n/a")]
    return []


def dims_of(case):
    import unicodedata

    out = set()
    f = case["family"]
    keys = _case_keys(case)
    parts = {p for k in keys for p in k}
    for dim, names in DIM_NAMES.items():
        need = names if dim in ("name:non-NFC+composed-twin", "name:prefix-siblings", "name:case-twins",
                                "name:non-ascii(cyrillic,cjk,emoji)") else names[:1]
        if all(n in parts for n in need):
            out.add(dim)
    if any(unicodedata.normalize("NFC", p) != p for p in parts):
        out.add("name:non-NFC")
    if any(len(k) == 0 for k in keys):
        out.add("key:root ()")
    if any(len(k) >= 3 for k in keys):
        out.add("key:depth>=3")
    tk = {tuple(k) for k in keys}
    if any(k[:i] in tk for k in tk for i in range(1, len(k))):
        out.add("key:parent-and-child-both-entries")
    if f == "sqlite" and any("/" in p or p == "" for p in parts):
        out.add("key:part-with-slash-or-empty(sqlite,store+list)")
    mh = _case_mh(case)
    vals = {}
    ends = {False: set(), True: set()}
    for m, h, loaded in mh:
        out.add("meta:" + ("absent" if m is None else "present"))
        out.add("hash:" + ("absent" if h is None else "present"))
        if loaded != "n/a":
            out.add(f"loaded:{loaded}")
        if m is not None:
            if m == M():
                out.add("meta:all-default")
            if m["size"] == 0:
                out.add("meta:size-0")
            if m["nfiles"] == 0:
                out.add("meta:nfiles-0")
            if any(m[x] == "" for x in SER_STR):
                out.add("meta:empty-string-field")
            if all(m[x] not in (None, False, "") for x in FIELDS):
                out.add("meta:every-field-set")
            if h is None:
                out.add("meta-without-hash")
        if h is not None:
            v, n = h.get("value"), h.get("name")
            if h.get("obj_name") is not None:
                out.add("hash:obj_name-on-" + ("dir-id" if v and v.endswith(".dir") else "file-id"))
            if v and v.endswith(".dir"):
                out.add("hash:.dir")
                if m is None:
                    out.add("hash:.dir+no-meta")
                elif not m["isdir"]:
                    out.add("hash:.dir+isdir-False")
            if v == EMPTY_LISTING_OID:
                out.add("hash:empty-listing-oid")
            if v and not n:
                out.add("hash:value-without-name")
            if n and not v:
                out.add("hash:name-without-value")
            if n in ("md5", "md5-dos2unix", "sha256"):
                out.add("hash-name:" + n)
            if v and n:
                vals.setdefault(v, set()).add(n)
                raw = v[:-4] if v.endswith(".dir") else v
                if len(raw) == 32 and raw[-1] in "0123456789abcdef":
                    ends[v.endswith(".dir")].add(raw[-1])
    if any(len(ns) >= 3 for ns in vals.values()):
        out.add("hash:same-value-under-3-algorithm-names")
    if len(ends[False]) == 16:
        out.add("hash:ids-ending-in-every-hex-digit(file)")
    if len(ends[True]) == 16:
        out.add("hash:ids-ending-in-every-hex-digit(.dir)")
    # routes
    if f in ("meta", "hash", "entry"):
        out.add("route:to_dict/from_dict(+twice)")
    if f in ("json", "db"):
        out.add(f"route:{f}(+twice)")
        if not case["entries"]:
            out.add(f"shape:empty-index:{f}")
    if f == "chain":
        out.add("route:across-routes(chain)")
    if f == "sqlite":
        kinds = {op[0] for op in case["ops"]}
        out.add("route:sqlite:session-view+commit-close-reopen")
        if case.get("xproc"):
            out.add("route:sqlite:another-process")
        if "resave" in kinds:
            out.add("route:sqlite:second-save")
        if "del" in kinds:
            out.add("route:sqlite:removal")
        if "mutset" in kinds:
            out.add("route:sqlite:in-place-update")
        if "load" in kinds:
            out.add("route:sqlite:DataIndex._load")
        if not (kinds & {"set", "mutset"}):
            out.add("shape:empty-index:sqlite")
    if f == "listing":
        wm = case.get("with_meta", True)
        out.add(f"route:listing:{'with_meta' if wm else 'plain'}:hash_name={case['hash_name']}")
        if not case["entries"]:
            out.add("shape:empty-listing:" + ("with_meta" if wm else "plain"))
    return out


DIMENSIONS = (
    list(DIM_NAMES) + ["name:non-NFC", "key:root ()", "key:depth>=3", "key:parent-and-child-both-entries",
                       "key:part-with-slash-or-empty(sqlite,store+list)",
                       "meta:absent", "meta:all-default", "meta:size-0", "meta:nfiles-0", "meta:empty-string-field",
                       "meta:every-field-set", "meta-without-hash", "hash:absent", "hash:obj_name-on-dir-id",
                       "hash:obj_name-on-file-id", "hash:.dir", "hash:.dir+no-meta", "hash:.dir+isdir-False",
                       "hash:empty-listing-oid", "hash:value-without-name", "hash:name-without-value",
                       "hash-name:md5", "hash-name:md5-dos2unix", "hash-name:sha256",
                       "hash:same-value-under-3-algorithm-names", "hash:ids-ending-in-every-hex-digit(file)",
                       "hash:ids-ending-in-every-hex-digit(.dir)", "loaded:None", "loaded:True", "loaded:False",
                       "route:to_dict/from_dict(+twice)", "route:json(+twice)", "route:db(+twice)",
                       "route:across-routes(chain)", "route:sqlite:session-view+commit-close-reopen",
                       "route:sqlite:another-process", "route:sqlite:second-save", "route:sqlite:removal",
                       "route:sqlite:in-place-update", "route:sqlite:DataIndex._load",
                       "shape:empty-index:json", "shape:empty-index:db", "shape:empty-index:sqlite",
                       "shape:empty-listing:with_meta", "shape:empty-listing:plain",
                       "route:listing:with_meta:hash_name=md5", "route:listing:with_meta:hash_name=md5-dos2unix",
                       "route:listing:plain:hash_name=md5", "route:listing:plain:hash_name=md5-dos2unix",
                       "route:listing:plain:hash_name=None"])


def key_is_wf(k):
    return len(k) > 0 and all(p and "/" not in p for p in k)


# ----------------------------------------------------------------------------------------------
# oracles (the property, on real objects only)


def meta_field_problems(before, after, where):
    """before/after: real Meta objects (before serialisation / after the round trip)"""
    out = []
    if before is None:
        return out
    if after is None:
        # admissible only if nothing of `before` is serialised (from_dict maps "meta": {} to None)
        lost = [f for f in SERIALISED if _emitted(f, getattr(before, f))]
        if lost:
            out.append((f"C20:{where}:meta-lost", f"metadata with serialisable fields {lost} came back as None"))
        return out
    for f in SER_BOOL:
        a, b = getattr(before, f), getattr(after, f)
        if bool(a) != bool(b) or not isinstance(b, bool):
            out.append((f"C20:{where}:field-lost:{f}", f"{f}: {a!r} came back as {b!r}"))
    for f in SER_INT:
        a, b = getattr(before, f), getattr(after, f)
        if a != b or (a is None) != (b is None) or isinstance(b, bool):
            out.append((f"C20:{where}:field-lost:{f}", f"{f}: {a!r} came back as {b!r}"))
    for f in SER_STR:
        a, b = getattr(before, f), getattr(after, f)
        if (a and a != b) or (not a and b):
            out.append((f"C20:{where}:field-lost:{f}", f"{f}: {a!r} came back as {b!r}"))
    return out


def _emitted(f, v):
    if f in SER_INT:
        return v is not None
    return bool(v)


def proj(e):
    return ((e.meta.to_dict() if e.meta is not None else {}),
            (e.hash_info.to_dict() if e.hash_info is not None else {}), e.loaded)


def entry_problems(before, after, where):
    out = []
    pb, pa = proj(before), proj(after)
    if pb[0] != pa[0]:
        out.append((f"C20:{where}:meta-dict-differs", f"serialised metadata {pb[0]!r} came back as {pa[0]!r}"))
    if pb[1] != pa[1]:
        out.append((f"C20:{where}:hash-differs", f"hash {pb[1]!r} came back as {pa[1]!r}"))
    if pb[2] is not pa[2]:
        out.append((f"C20:{where}:loaded-differs", f"loaded {pb[2]!r} came back as {pa[2]!r}"))
    out += meta_field_problems(before.meta, after.meta, where)
    hb = before.hash_info
    if hb is not None and hb.name and hb.value:
        ha = after.hash_info
        if ha is None or (ha.name, ha.value) != (hb.name, hb.value):
            out.append((f"C20:{where}:hash-differs", f"hash {hb!r} came back as {ha!r}"))
    return out


def index_problems(before, after, where):
    """before/after: lists of (key, real entry)"""
    out = []
    kb, ka = [tuple(k) for k, _ in before], [tuple(k) for k, _ in after]
    if sorted(kb, key=keysort) != sorted(ka, key=keysort):
        missing = [k for k in kb if k not in ka]
        extra = [k for k in ka if k not in kb]
        out.append((f"C20:{where}:keys-differ", f"keys lost {missing!r}, keys invented {extra!r}"))
        return out
    amap = {tuple(k): e for k, e in after}
    for k, e in before:
        a = amap[tuple(k)]
        if a.key != tuple(k):
            out.append((f"C20:{where}:entry-key", f"entry under {k!r} carries key {a.key!r}"))
        out += entry_problems(e, a, where)
    return out


# ----------------------------------------------------------------------------------------------
# drivers: case -> (coq input term, expected val, problems, nontrivial)


def run_meta(ctx, case):
    from dvc_data.hashfile.meta import Meta

    m = mk_meta(case["meta"])
    d = m.to_dict()
    m2 = Meta.from_dict(json.loads(json.dumps(d)))
    problems = []
    if m2.to_dict() != d:
        problems.append(("C20:meta:to-from-to", f"to_dict {d!r} -> from_dict -> to_dict {m2.to_dict()!r}"))
    problems += meta_field_problems(m, m2, "meta")
    for f in ("inode", "mtime", "is_link", "destination", "nlink"):
        if f in d:
            problems.append(("C20:meta:unexpected-field", f"{f} was serialised"))
    exp = vL([vjv(d), ok(vmeta(m2))])
    em = [f for f in SERIALISED if f in d]
    return f"InMeta {cmeta1(case['meta'])}", exp, problems, 0 < len(em) < len(SERIALISED)


def run_meta_dict(ctx, case):
    from dvc_data.hashfile.meta import Meta

    d = case["dict"]
    m = Meta.from_dict(d)
    d2 = m.to_dict()
    exp = vL([ok(vmeta(m)), ok(vjv(d2))])
    problems = []
    m3 = Meta.from_dict(d2)
    if m3.to_dict() != d2:
        problems.append(("C20:meta:to-from-to", f"{d2!r} -> from_dict -> to_dict {m3.to_dict()!r}"))
    return f"InMetaDict {cjdict(d)}", exp, problems, len(d) > 1


def run_hash(ctx, case):
    from dvc_data.hashfile.hash_info import HashInfo

    h = mk_hi(case["hi"])
    d = h.to_dict()
    h2 = HashInfo.from_dict(json.loads(json.dumps(d)))
    problems = []
    if h2.to_dict() != d:
        problems.append(("C20:hash:to-from-to", f"{d!r} -> from_dict -> to_dict {h2.to_dict()!r}"))
    if h.name and h.value:
        if (h2.name, h2.value) != (h.name, h.value):
            problems.append(("C20:hash:hash-differs", f"{h!r} came back as {h2!r}"))
    elif h2.name is not None or h2.value is not None:
        problems.append(("C20:hash:hash-invented", f"{h!r} (serialised as {{}}) came back as {h2!r}"))
    exp = vL([vbool(bool(h)), vjv(d), ok(vhi(h2))])
    return f"InHash {chi1(case['hi'])}", exp, problems, bool(h.name and h.value)


def run_hash_dict(ctx, case):
    from dvc_data.hashfile.hash_info import HashInfo

    d = case["dict"]
    try:
        exp = vL([ok(vhi(HashInfo.from_dict(d)))])
    except Exception as exc:  # noqa: BLE001
        exp = vL([err(exc)])
    return f"InHashDict {cjdict(d)}", exp, [], len(d) >= 1


def run_entry(ctx, case):
    from dvc_data.index import DataIndexEntry

    e = mk_entry(case["entry"])
    d = e.to_dict()
    e2 = DataIndexEntry.from_dict(json.loads(json.dumps(d)))
    problems = entry_problems(e, e2, "entry")
    # twice: the entry that came back is a fixed point of the round trip (every field, eq=False ones included)
    e3 = DataIndexEntry.from_dict(json.loads(json.dumps(e2.to_dict())))
    if desc_of(e3) != desc_of(e2):
        problems.append(("C20:entry:twice:not-idempotent", f"{desc_of(e2)!r} came back as {desc_of(e3)!r}"))
    if "loaded" not in d:
        problems.append(("C20:entry:loaded-not-emitted", "to_dict has no 'loaded'"))
    exp = vL([vjv(d), ok(ventry(e2))])
    if e.meta is not None and not e.meta.to_dict():
        ctx.count("observation:empty-meta->None" if e2.meta is None else "observation:empty-meta-kept")
    return f"InEntry {centry(case['entry'])}", exp, problems, ("meta" in d and "hash_info" in d)


def run_entry_dict(ctx, case):
    from dvc_data.index import DataIndexEntry

    d = case["dict"]
    try:
        exp = vL([ok(ventry(DataIndexEntry.from_dict(d)))])
    except Exception as exc:  # noqa: BLE001
        exp = vL([err(exc)])
    return f"InEntryDict {cjdict(d)}", exp, [], len(d) >= 2


def run_key(ctx, case):
    k = case["key"]
    s = "/".join(k)
    k2 = list(s.split("/"))
    problems = []
    if key_is_wf(k) and k2 != k:
        problems.append(("C20:key:split-join", f"{k!r} -> {s!r} -> {k2!r}"))
    return f"InKey {ckey(k)}", vL([vB(s), vkey(k2)]), problems, len(k) >= 2


def _build_index(ents):
    from dvc_data.index import DataIndex

    idx = DataIndex()
    for k, e in ents:
        idx[tuple(k)] = mk_entry(e)
    return idx


def run_joined(ctx, case):
    """JSON file or diskcache db"""
    from dvc_data.hashfile.cache import Cache
    from dvc_data.index import read_db, read_json, write_db, write_json

    form = case["form"]
    ents = case["entries"]
    idx = _build_index(ents)
    # iteration order of the trie is what the writers see: observed, handed to the model
    order = [(list(k), e) for k, e in idx.iteritems()]
    byk = {tuple(k): e for k, e in ents}
    d = ctx.fresh("c20-" + form)
    path = os.path.join(d, "index." + form)
    if form == "json":
        write_json(idx, path)
        with open(path, encoding="utf-8") as f:
            raw = json.load(f)
        idx2 = read_json(path)
    else:
        write_db(idx, path)
        cache = Cache(path)
        try:
            raw = {k: cache.get(k) for k in cache}
        finally:
            cache.close()
        idx2 = read_db(path)
    after = [(list(k), e) for k, e in idx2.iteritems()]
    problems = []
    wf = all(key_is_wf(k) for k, _ in order)
    if wf:
        problems = index_problems(order, after, form)
        # twice: the index read back, written and read again through the same form, is unchanged in every field
        path2 = os.path.join(d, "again." + form)
        (write_json if form == "json" else write_db)(idx2, path2)
        idx3 = (read_json if form == "json" else read_db)(path2)
        after2 = [(list(k), e) for k, e in idx3.iteritems()]
        problems += index_problems(after, after2, form + ":twice")
        a1 = sorted(([k, desc_of(e)] for k, e in after), key=lambda x: keysort(x[0]))
        a2 = sorted(([k, desc_of(e)] for k, e in after2), key=lambda x: keysort(x[0]))
        if a1 != a2 and not problems:
            bad = next((x, y) for x, y in zip(a1, a2) if x != y)
            problems.append((f"C20:{form}:twice:not-idempotent", f"{bad[0]!r} came back as {bad[1]!r}"))
    impl.rm_rf(d)
    inp = "InJoined " + clist([f"({ckey(k)}, {centry(byk[tuple(k)])})" for k, _ in order])
    cont = vL([vL([vB(k), vjv(v)]) for k, v in sorted(raw.items(), key=lambda kv: strsort(kv[0]))])
    rd = vL([vL([vkey(k), ventry(e)]) for k, e in sorted(after, key=lambda ke: keysort(ke[0]))])
    exp = vL([cont, ok(rd)])
    rich = sum(1 for _, e in order if e.meta is not None and e.hash_info) >= 2
    return inp, exp, problems, wf, rich


XPROC = {"on": False, "cases": []}

XPROC_SCRIPT = r"""
import json, sys
from dvc_data.index import DataIndex
out = []
for path in json.load(sys.stdin):
    idx = DataIndex.open(path)
    try:
        out.append([[list(k), [e.meta.to_dict() if e.meta is not None else {},
                               e.hash_info.to_dict() if e.hash_info is not None else {}, e.loaded,
                               None if e.key is None else list(e.key)]] for k, e in idx.iteritems()])
    finally:
        idx.close()
json.dump(out, sys.stdout)
"""


def _jproj(e):
    p = proj(e)
    return p[0], p[1], p[2], None if e.key is None else list(e.key)


def check_other_process(ctx):
    """every kept SQLite index file is opened by a fresh interpreter; it must list what this process listed after
    its own commit + close + reopen"""
    import subprocess

    from lib.core import PY, REPO

    cases = XPROC["cases"]
    if not cases:
        return
    env = dict(os.environ, PYTHONPATH=os.path.join(REPO, "src"), PYTHONHASHSEED="0")
    p = subprocess.run([PY, "-c", XPROC_SCRIPT], input=json.dumps([c[0] for c in cases]), capture_output=True,
                       text=True, env=env, timeout=300, check=False)
    if p.returncode != 0:
        ctx.oracle_fail("C20:sqlite:other-process:cannot-read", f"another process failed to read the index: {p.stderr[-400:]}",
                        cases[0][1])
        return
    got = json.loads(p.stdout)
    norm = lambda v: sorted(json.loads(json.dumps(v)), key=lambda x: keysort(x[0]))  # noqa: E731
    for (path, case, mine), theirs in zip(cases, got):
        if norm(mine) != norm(theirs):
            ctx.oracle_fail("C20:sqlite:other-process:differs",
                            f"another process reads {norm(theirs)!r}, this process read {norm(mine)!r}", case)
    ctx.count("sqlite:read back by another process", len(cases))
    XPROC["cases"] = []


def desc_of(e):
    """a real DataIndexEntry -> the JSON description mk_entry / centry understand"""
    m, h = e.meta, e.hash_info
    return {"key": None if e.key is None else list(e.key),
            "meta": None if m is None else {f: getattr(m, f) for f in FIELDS},
            "hi": None if h is None else {"name": h.name, "value": h.value, "obj_name": h.obj_name},
            "loaded": e.loaded}


def mutate_to(obj, desc):
    """update a live entry object IN PLACE (attribute by attribute where the sub-object exists) to `desc`"""
    obj.loaded = desc["loaded"]
    if obj.meta is not None and desc["meta"] is not None:
        for f in FIELDS:
            setattr(obj.meta, f, desc["meta"][f])
    else:
        obj.meta = mk_meta(desc["meta"])
    if obj.hash_info is not None and desc["hi"] is not None:
        obj.hash_info.name = desc["hi"]["name"]
        obj.hash_info.value = desc["hi"]["value"]
        obj.hash_info.obj_name = desc["hi"].get("obj_name")
    else:
        obj.hash_info = mk_hi(desc["hi"])


def run_sqlite(ctx, case):
    """ops: ["set", key, entry]            index[key] = a fresh entry object
            ["mutset", key, entry]         the entry object last stored under key IN THIS SESSION is updated in place
                                           to `entry` and stored again (aliasing with the identity cache); without
                                           such an object: like "set"
            ["del", key, how]              how = "del": del index[key]; "pop": index.pop(key); "node":
                                           index.delete_node(key) (generated only for keys without descendants:
                                           sqltrie orphans the rows below a deleted node)
            ["commit"], ["reopen"]         index.commit() ; index.close() + DataIndex.open(path)
            ["load"]                       the public path: iterate the index with an object storage attached, so
                                           that DataIndex._load fills unloaded directories, marks them loaded,
                                           stores them again and commits
    Every DataIndexTrie.__setitem__ / __delitem__ / delete_node call is recorded (key + snapshot of the value at
    that moment): the recorded calls are the model's SqSet / SqDel operations and the oracle's "last operation per
    key" (present with the last written entry, or absent)."""
    import copy

    from dvc_data.index import DataIndex
    from dvc_data.index.index import DataIndexTrie, ObjectStorage

    d = ctx.fresh("c20-sqlite")
    path = os.path.join(d, "index.sqlite")
    odb = None
    if case.get("store"):
        store = os.path.join(d, "store")
        for oid, listing in case["store"].items():
            impl.plant(store, oid, impl.canon_listing([tuple(x) for x in listing]))
        odb = impl.local_odb(store)
    committed: dict = {}
    pending: dict = {}
    live: dict = {}
    terms = []
    writes = []
    orig_setitem = DataIndexTrie.__setitem__

    def recording_setitem(self, key, value):
        writes.append((tuple(key), desc_of(value), copy.deepcopy(value)))
        return orig_setitem(self, key, value)

    state = {"dirty": False}

    orig_delitem = DataIndexTrie.__delitem__
    orig_delete_node = DataIndexTrie.delete_node

    def recording_delitem(self, key):
        writes.append((tuple(key), None, None))
        return orig_delitem(self, key)

    def recording_delete_node(self, key):
        writes.append((tuple(key), None, None))
        return orig_delete_node(self, key)

    def flush():
        n = len(writes)
        for k, desc, snap in writes:
            if desc is None:
                terms.append(f"SqDel {ckey(k)}")
                pending.pop(k, None)
                live.pop(k, None)
                continue
            terms.append(f"SqSet {ckey(k)} {centry(desc)}")
            pending[k] = snap
        del writes[:]
        if n:
            state["dirty"] = True
        return n

    def open_index():
        idx = DataIndex.open(path)
        if odb is not None:
            idx.storage_map.add_cache(ObjectStorage(key=(), odb=odb))
        return idx

    DataIndexTrie.__setitem__ = recording_setitem
    DataIndexTrie.__delitem__ = recording_delitem
    DataIndexTrie.delete_node = recording_delete_node
    si = None
    try:
        si = open_index()
        for op in case["ops"]:
            if op[0] in ("set", "mutset"):
                k = tuple(op[1])
                obj = live.get(k) if op[0] == "mutset" else None
                if obj is None:
                    obj = mk_entry(op[2])
                else:
                    mutate_to(obj, op[2])
                    ctx.count("sqlite:in-place update stored again")
                live[k] = obj
                si[k] = obj
                flush()
            elif op[0] == "del":
                k = tuple(op[1])
                if op[2] == "pop":
                    si.pop(k)
                elif op[2] == "node":
                    si.delete_node(k)
                else:
                    del si[k]
                flush()
                ctx.count("sqlite:removal (" + op[2] + ")")
            elif op[0] == "resave":
                # second save of the same index: every entry as the index shows it is stored again
                for k, e in list(si.iteritems()):
                    si[k] = e
                flush()
                ctx.count("sqlite:resave of every entry")
            elif op[0] == "commit":
                si.commit()
                committed = dict(pending)
                state["dirty"] = False
                terms.append("SqCommit")
            elif op[0] == "load":
                for _ in si.iteritems():
                    pass
                if flush():
                    # DataIndex._load commits after storing the directory entry again
                    committed = dict(pending)
                    state["dirty"] = False
                    terms.append("SqCommit")
                    ctx.count("sqlite:directory loaded through DataIndex._load")
            else:
                si.close()
                si = open_index()
                pending = dict(committed)
                live = {}
                terms.append("SqReopen")
        before = [(list(k), e) for k, e in si.iteritems()]
        if flush():
            committed = dict(pending)
            state["dirty"] = False
            terms.append("SqCommit")
        # independent reference: what the still-open, committed index shows through its public API right before
        # the close (key, metadata, hash, loaded flag of every entry), copied now
        session_view = [(k, copy.deepcopy(e)) for k, e in before] if not state["dirty"] else None
        si.close()
        si = DataIndex.open(path)
        after = [(list(k), e) for k, e in si.iteritems()]
    finally:
        DataIndexTrie.__setitem__ = orig_setitem
        DataIndexTrie.__delitem__ = orig_delitem
        DataIndexTrie.delete_node = orig_delete_node
        if si is not None:
            si.close()
    if case.get("xproc") and XPROC["on"]:
        # read by ANOTHER PROCESS after the run (one subprocess for all such cases): keep the file
        XPROC["cases"].append((path, case, [[list(k), list(_jproj(e))] for k, e in after]))
    else:
        impl.rm_rf(d)
    # oracle: the last write per key that was committed is what is read back
    problems = index_problems([(list(k), e) for k, e in committed.items()], after, "sqlite")
    # oracle 2: the reopened index gives exactly what the committed index showed before the close
    if session_view is not None:
        problems += index_problems(session_view, after, "sqlite:session-view")
    enc = lambda items: ok(vL([vL([vkey(k), ventry(e)]) for k, e in sorted(items, key=lambda ke: keysort(ke[0]))]))  # noqa: E731
    exp = vL([enc(before), enc(after)])
    rich = sum(1 for e in committed.values() if e.meta is not None and e.hash_info) >= 2
    return "InSqlite " + clist(terms), exp, problems, rich


def run_listing(ctx, case):
    from dvc_data.hashfile.tree import Tree

    hn = case["hash_name"]
    with_meta = case.get("with_meta", True)
    t = Tree()
    for k, m, h in case["entries"]:
        t.add(tuple(k), mk_meta(m), mk_hi(h))
    order = list(t)  # (key, meta, hi) in _dict order, keys unique
    byk = {tuple(k): (m, h) for k, m, h in case["entries"]}
    inp = "%s %s %s" % ("InListing" if with_meta else "InListingPlain", cotext(hn), clist(
        [f"({ckey(k)}, ({cmeta(byk[k][0])}, {chi(byk[k][1])}))" for k, _, _ in order]))
    problems = []
    # the quantifier of the listing part (Properties/C20.v, tree_wf): md5 family, well-formed keys, metadata
    # present, hash of that name with a value.  Inside it an exception is a violation.
    # Plain listing (with_meta=False): metadata may be absent; besides the md5 family given by name, the route
    # Tree.load takes for the default algorithm (hash_name=None: the name is read from the entry) for md5/sha256.
    names = {h.name if h is not None else None for _, _, h in order}
    tree_name = next(iter(names)) if len(names) == 1 else (hn or "md5") if not order else None
    keys_ok = all(key_is_wf(k) for k, _, _ in order) and all(h is not None and h.value for _, _, h in order)
    if with_meta:
        wf = (hn in ("md5", "md5-dos2unix") and keys_ok and tree_name == hn
              and all(m is not None for _, m, _ in order))
    else:
        wf = keys_ok and tree_name is not None and (
            (hn in ("md5", "md5-dos2unix") and tree_name == hn) or (hn is None and tree_name in ("md5", "sha256")))
    try:
        lst = t.as_list(with_meta=with_meta)
        e1 = ok(vL([vjv(d) for d in lst]))
    except Exception as exc:  # noqa: BLE001
        if wf:
            problems.append((f"C20:listing:unexpected-exception:as_list:{type(exc).__name__}",
                             f"as_list(with_meta={with_meta}) raised {exc!r} on a well-formed tree"))
        return inp, vL([err(exc), err(exc)]), problems, wf, False
    raw = json.loads(t.as_bytes(with_meta=with_meta).decode("utf-8"))
    if not hn:
        # without a hash name from_list reads the hash with HashInfo.from_dict(entry): a single remaining item
        # whose value is not a string makes an ill-typed HashInfo (silently), before any later entry can raise
        for ent in lst:
            rest = [v for k, v in ent.items() if k != "relpath"]
            if len(rest) >= 2:
                break  # ValueError here, in the implementation and in the model
            if len(rest) == 1 and rest[0] is not None and not isinstance(rest[0], str):
                raise IllTyped("HashInfo value of a non-string type")
    try:
        t2 = Tree.from_list(raw, hash_name=hn)
        after = list(t2)
        e2 = ok(vL([vL([vkey(k), vo(m, vmeta), vo(h, vhi)]) for k, m, h in after]))
    except Exception as exc:  # noqa: BLE001
        if wf:
            problems.append((f"C20:listing:unexpected-exception:from_list:{type(exc).__name__}",
                             f"from_list(.., hash_name={hn!r}) raised {exc!r} on the listing of a well-formed tree"))
        return inp, vL([e1, err(exc)]), problems, wf, False
    if wf:
        amap = {k: (m, h) for k, m, h in after}
        if sorted(amap, key=keysort) != sorted((k for k, _, _ in order), key=keysort):
            problems.append(("C20:listing:keys-differ", f"{[k for k, _, _ in order]!r} -> {list(amap)!r}"))
        else:
            for k, m, h in order:
                m2, h2 = amap[k]
                if h2 is None or (h2.name, h2.value) != (h.name, h.value):
                    problems.append(("C20:listing:hash-differs", f"{k!r}: {h!r} came back as {h2!r}"))
                if with_meta:
                    # the flat listing stores the hash in the slot of Meta.md5: every other serialised field must
                    # come back unchanged, md5 comes back as the hash value (observation, see Properties/C20.v)
                    want = dict(m.to_dict())
                    if want.get("md5") != h.value:
                        ctx.count("observation:listing-md5-slot-" + ("overwritten" if m.md5 else "filled"))
                    want["md5"] = h.value
                else:
                    # nothing but the hash is written; it sits in the md5 slot for the md5 family
                    want = {"md5": h.value} if h.name in ("md5", "md5-dos2unix") else {}
                if m2 is None or m2.to_dict() != want:
                    problems.append(("C20:listing:meta-differs",
                                     f"{k!r}: expected {want!r} (serialised metadata with the hash in its md5 slot), "
                                     f"came back as {None if m2 is None else m2.to_dict()!r}"))
                if with_meta:
                    for sig, what in meta_field_problems(_without_md5(m), _without_md5(m2), "listing"):
                        problems.append((sig, f"{k!r}: {what}"))
            # the listing is a fixed point of the round trip
            if t2.as_list(with_meta=with_meta) != lst:
                problems.append(("C20:listing:not-a-fixpoint", "as_list(from_list(as_list(t))) != as_list(t)"))
            # twice: the tree that came back is a fixed point (every field of every entry)
            t3 = Tree.from_list(json.loads(t2.as_bytes(with_meta=with_meta).decode("utf-8")), hash_name=hn)
            d2 = [(k, desc_of_tm(m, h)) for k, m, h in t2]
            d3 = [(k, desc_of_tm(m, h)) for k, m, h in t3]
            if d2 != d3:
                problems.append(("C20:listing:twice:not-idempotent", f"{d2!r} came back as {d3!r}"))
    return inp, vL([e1, e2]), problems, wf, len(order) >= 2


def desc_of_tm(m, h):
    return (None if m is None else {f: getattr(m, f) for f in FIELDS},
            None if h is None else (h.name, h.value, h.obj_name))


def _without_md5(m):
    import attrs

    return None if m is None else attrs.evolve(m, md5=None)


# ----------------------------------------------------------------------------------------------


def gen_all(ctx):
    """-> {family: [case]}"""
    rng = ctx.rng
    fam: dict = {k: [] for k in ("meta", "meta_dict", "hash", "hash_dict", "entry", "entry_dict", "key",
                                 "json", "db", "sqlite", "listing", "chain")}
    # Meta: dense enumeration
    n_meta = ctx.n(300, N_META)
    if n_meta >= N_META:
        idxs = list(range(N_META))
    else:
        idxs = sorted({0, N_META - 1} | set(rng.sample(range(N_META), n_meta)))
    for i in idxs:
        ints = INTS + BIG_INTS if rng.random() < 0.1 else INTS
        fam["meta"].append({"family": "meta", "meta": meta_from_index(rng, i, ints)})
    for _ in range(ctx.n(100, 1200)):
        fam["meta_dict"].append({"family": "meta_dict", "dict": gen_meta_dict(rng)})
    for n in HASH_NAMES:
        for v in HASH_VALUES:
            fam["hash"].append({"family": "hash", "hi": {"name": n, "value": v}})
    for _ in range(ctx.n(40, 400)):
        fam["hash_dict"].append({"family": "hash_dict", "dict": gen_hash_dict(rng)})
    for _ in range(ctx.n(120, 2000)):
        k = gen_key(rng)
        fam["entry"].append({"family": "entry", "entry": gen_entry(rng, k, INTS + BIG_INTS)})
    # the documented corner: a present but all-default meta
    for hi in (None, {"name": "md5", "value": "abc"}):
        for loaded in (None, False):
            m = meta_from_index(rng, 0)
            fam["entry"].append({"family": "entry", "entry": {"key": ["a"], "meta": m, "hi": hi, "loaded": loaded}})
    for _ in range(ctx.n(120, 1500)):
        fam["entry_dict"].append({"family": "entry_dict", "dict": gen_entry_dict(rng)})
    for _ in range(ctx.n(60, 600)):
        bad = rng.random() < 0.5
        fam["key"].append({"family": "key", "key": gen_key(rng, 0 if bad else 1, 4, PARTS_OK + (PARTS_BAD if bad else []))})
    for form in ("json", "db"):
        # the diskcache form costs ~35 ms per case (much more under disk contention): fewer of them in quick
        for _ in range(ctx.n(35 if form == "json" else 25, 300)):
            fam[form].append({"family": form, "form": form, "entries": gen_index(rng, ints=INTS + BIG_INTS)})
        for _ in range(ctx.n(15, 120)):
            fam[form].append({"family": form, "form": form, "malformed": True,
                              "entries": gen_index(rng, ints=INTS + BIG_INTS, bad=True)})
    for _ in range(ctx.n(30, 300)):
        ents = gen_index(rng, root=True)
        ops = [["set", k, e] for k, e in ents]
        if rng.random() >= 0.45:
            # overwrites, several commits, intermediate close/reopen
            for _ in range(rng.randint(1, 4)):
                k = rng.choice(ents)[0] if ents and rng.random() < 0.7 else gen_key(rng)
                ops.insert(rng.randint(0, len(ops)), ["set", k, gen_entry(rng, k)])
            for _ in range(rng.randint(0, 2)):
                ops.insert(rng.randint(0, len(ops)), ["commit"])
            if rng.random() < 0.5:
                # closing with uncommitted rows is unspecified (sqlite3 rollback vs sqltrie's implicit commits):
                # a reopen always directly follows a commit
                at = rng.randint(0, len(ops))
                ops[at:at] = [["commit"], ["reopen"]]
        ops.append(["commit"])
        fam["sqlite"].append({"family": "sqlite", "ops": ops})
    # two or more writes to one key within one session (aliasing with the identity cache)
    for _ in range(ctx.n(30, 200)):
        fam["sqlite"].append({"family": "sqlite", "ops": gen_alias_history(rng)})
    # the public path: unloaded directory entries filled by DataIndex._load from an object storage
    for _ in range(ctx.n(10, 60)):
        fam["sqlite"].append(gen_load_case(rng))
    for _ in range(ctx.n(45, 400)):
        hn = rng.choice(["md5", "md5-dos2unix"])
        ents = []
        seen = set()
        for _ in range(rng.randint(1, 6)):
            k = gen_key(rng)
            if tuple(k) in seen:
                continue
            seen.add(tuple(k))
            m = gen_meta(rng, INTS + BIG_INTS)
            v = rng.choice([v for v in HASH_VALUES if v])
            r = rng.random()
            if r < 0.3:
                m["md5"] = v  # a tree as from_list itself builds it
            ents.append([k, m, {"name": hn, "value": v}])
        fam["listing"].append({"family": "listing", "hash_name": hn, "entries": ents})
    for _ in range(ctx.n(30, 250)):
        hn = rng.choice(["md5", "md5-dos2unix", None, "", "sha256", "etag", "checksum"])
        ents = []
        for _ in range(rng.randint(1, 4)):
            k = gen_key(rng, 1, 3, PARTS_OK[:5] + PARTS_BAD)
            r = rng.random()
            m = None if r < 0.08 else gen_meta(rng)
            r = rng.random()
            h = None if r < 0.25 else gen_hi(rng)
            ents.append([k, m, h])
        fam["listing"].append({"family": "listing", "malformed": True, "hash_name": hn, "entries": ents})
    # random routes across forms
    for _ in range(ctx.n(6, 80)):
        routes = [rng.choice(["json", "db", "sqlite"]) for _ in range(rng.randint(2, 4))]
        fam["chain"].append({"family": "chain", "entries": gen_index(rng, n_lo=2, n_hi=5), "routes": routes})
    # the audited dimensions: fixed cases first
    for f, cases in dim_cases().items():
        fam[f][0:0] = cases
    return fam


def run_chain(ctx, case):
    """across routes: the index goes through the routes one after the other, each time written from what the
    previous route read back.  Judged by the oracle only (every single hop has its own correspondence family)."""
    from dvc_data.index import DataIndex, read_db, read_json, write_db, write_json

    idx = _build_index(case["entries"])
    first = [(list(k), e) for k, e in idx.iteritems()]
    d = ctx.fresh("c20-chain")
    problems = []
    prev = None
    for i, route in enumerate(case["routes"]):
        path = os.path.join(d, f"hop{i}.{route}")
        if route == "json":
            write_json(idx, path)
            idx = read_json(path)
        elif route == "db":
            write_db(idx, path)
            idx = read_db(path)
        else:
            si = DataIndex.open(path)
            try:
                for k, e in idx.iteritems():
                    si[k] = e
                si.commit()
            finally:
                si.close()
            si = DataIndex.open(path)
            try:
                items = list(si.iteritems())
            finally:
                si.close()
            idx = DataIndex()
            for k, e in items:
                idx[k] = e
        cur = [(list(k), e) for k, e in idx.iteritems()]
        problems += index_problems(first, cur, f"chain:{'>'.join(case['routes'][:i + 1])}")
        snap = sorted(([k, desc_of(e)] for k, e in cur), key=lambda x: keysort(x[0]))
        if prev is not None and snap != prev and not problems:
            bad = next((x, y) for x, y in zip(prev, snap) if x != y)
            problems.append((f"C20:chain:not-idempotent:{route}", f"{bad[0]!r} came back as {bad[1]!r} after {route}"))
        prev = snap
    impl.rm_rf(d)
    ctx.count("chain:" + ">".join(case["routes"]))
    return None, None, problems, len(first) >= 2


RUNNERS = {
    "meta": run_meta, "meta_dict": run_meta_dict, "hash": run_hash, "hash_dict": run_hash_dict,
    "entry": run_entry, "entry_dict": run_entry_dict, "key": run_key,
}


def run_one(ctx, case):
    """-> (input term, expected val, problems, nontrivial)"""
    f = case["family"]
    if f in RUNNERS:
        return RUNNERS[f](ctx, case)
    if f in ("json", "db"):
        inp, exp, problems, wf, rich = run_joined(ctx, case)
        ctx.count(f"{f}:" + ("well-formed" if wf else "malformed"))
        return inp, exp, problems, rich
    if f == "sqlite":
        inp, exp, problems, rich = run_sqlite(ctx, case)
        return inp, exp, problems, rich
    if f == "chain":
        return run_chain(ctx, case)
    if f == "listing":
        inp, exp, problems, wf, rich = run_listing(ctx, case)
        ctx.count("listing:" + ("well-formed" if wf else "malformed"))
        return inp, exp, problems, rich and wf
    raise ValueError(f)


def _parts(case):
    """the list a container case can be shrunk over"""
    f = case["family"]
    if f in ("json", "db", "listing", "chain"):
        return "entries"
    if f == "sqlite":
        return "ops"
    return None


def shrink(ctx, case, sig, budget=60):
    """drop entries / operations one at a time while the same oracle signature persists"""
    field = _parts(case)
    if field is None:
        return case, None
    cur, what = case, None
    progress = True
    while progress and budget > 0:
        progress = False
        for i in range(len(cur[field]) - 1, -1, -1):
            if budget <= 0:
                break
            if cur["family"] == "sqlite" and i == len(cur[field]) - 1:
                continue  # keep the final commit
            cand = dict(cur)
            cand[field] = cur[field][:i] + cur[field][i + 1:]
            if not cand[field]:
                continue
            budget -= 1
            try:
                probs = run_one(ctx, cand)[2]
            except Exception as exc:  # noqa: BLE001
                probs = [(f"C20:{cur['family']}:unexpected-exception:{type(exc).__name__}", repr(exc))]
            hit = [w for sg, w in probs if sg == sig]
            if hit:
                cur, what, progress = cand, hit[0], True
                break
    return cur, what


GROUPS = {
    "dicts": ("meta", "meta_dict", "hash", "hash_dict", "entry", "entry_dict", "key"),
    "json": ("json",), "db": ("db",), "sqlite": ("sqlite",), "listing": ("listing",), "chain": ("chain",),
}


def load_corpus():
    out = []
    for p in sorted(glob.glob(os.path.join(VERIF, "corpus", "C20", "*.json"))):
        with open(p, encoding="utf-8") as f:
            body = json.load(f)
        for c in body if isinstance(body, list) else [body]:
            out.append(c)
    return out


def run(ctx):
    fam = gen_all(ctx)
    corpus = load_corpus()
    for c in corpus:
        fam.setdefault(c["family"], []).insert(0, c)
    ctx.count("corpus", len(corpus))
    items_by_group: dict = {g: [] for g in GROUPS}
    XPROC["on"], XPROC["cases"] = True, []
    dims: dict = {}
    fam2group = {f: g for g, fs in GROUPS.items() for f in fs}
    judged = 0
    for f, cases in fam.items():
        for case in cases:
            try:
                inp, exp, problems, nontrivial = run_one(ctx, case)
            except IllTyped:
                ctx.count("skipped:ill-typed object (outside the typed model)")
                continue
            except Exception as exc:  # noqa: BLE001
                # the real code raised where no exception is part of the behaviour
                sig = f"C20:{f}:unexpected-exception:{type(exc).__name__}"
                if not any(v.signature == sig for v in ctx.violations):
                    small, what2 = shrink(ctx, case, sig)
                    ctx.oracle_fail(sig, f"{f}: the implementation raised {what2 or repr(exc)}", small)
                continue
            ctx.case(case, nontrivial)
            ctx.count("family:" + f)
            for dim in dims_of(case):
                dims[dim] = dims.get(dim, 0) + 1
            judged += 1
            for sig, what in problems:
                if any(v.signature == sig for v in ctx.violations):
                    continue
                small, what2 = shrink(ctx, case, sig)
                ctx.oracle_fail(sig, what2 or what, small)
            if inp is not None:
                items_by_group[fam2group[f]].append((case, inp, exp))
    XPROC["on"] = False
    check_other_process(ctx)
    ctx.extra["input_dimensions"] = {k: dims.get(k, 0) for k in sorted(set(DIMENSIONS) | set(dims))}
    missing = [k for k in DIMENSIONS if not dims.get(k)]
    ctx.obligation("coverage:input-dimensions", not missing,
                   f"{len(DIMENSIONS)} audited input dimensions reached by this run" if not missing
                   else "dimensions not reached: " + ", ".join(missing))
    ctx.obligation("oracle:round-trips", not any(v.kind == "oracle" for v in ctx.violations),
                   f"{judged} real round trips judged (field-wise and projection-wise) on the implementation's objects")
    # coqc spends its time elaborating the case literals (vm_compute itself takes milliseconds): shard by
    # text size so that the parallel coqc runs each get about SHARD_BYTES of literals
    for g, items in items_by_group.items():
        if items:
            size = sum(len(inp) + len(exp) for _, inp, exp in items)
            shard = max(1, min(250, (len(items) * SHARD_BYTES) // max(size, 1)))
            ctx.correspond(g, IMPORTS, "c20_in", "run_c20", items, shard=shard)
    ctx.extra["exhaustive_families"] = {"meta_field_combinations": ctx.tier != "quick", "hash_name_value_combinations": True}


def replay_case(ctx, case):
    inp, exp, problems, nontrivial = run_one(ctx, case)
    return {"problems": problems, "violates": bool(problems), "implementation": exp[:3000]}
