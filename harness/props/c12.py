"""C12 - status is exact and the remote index never invents objects.

Three correspondence streams against Model/Status.v (all evaluated by vm_compute inside coqc):
  status   one status() call on a real store (local class / base class over a wrapped
           LocalFileSystem, all three lookup strategies of dvc_objects), with and without a
           real on-disk ObjectDBIndex (possibly stale), shallow / expanded, separate cache_odb
  compare  one compare_status() call (indexes on either side, check_deleted on/off)
  history  histories of Push (with injected upload failures) / Fetch / external deletion /
           status queries sharing ONE on-disk ObjectDBIndex; after every operation the
           returned sets, the store listing, the index contents are compared with the model
and the property oracle evaluated on the real observations of every case.
"""

import errno
import json
import os

from lib import impl
from lib.core import cbool, cbytes, clist, cpair, vL, vN, vset

PROPERTY = "C12"
GEN: list = ["status"]  # translator/statusunit.py -> Gen/StatusPy.v, tied by Proofs/StatusTie.v
RULE = (
    "tools/COVERAGE_AUDIT.md carried out (counts of every run in coverage.input_dimensions): FIXED in every run - a "
    "listing holding all unusual entry names (backslash, space, leading dot, Cyrillic, CJK, emoji, NFC next to its NFD "
    "twin, a name ending in .dir, string-prefix siblings, 1 and 200 characters, case twins), the EMPTY listing's oid, a "
    "one-file and a depth-3 directory with identical contents, x {local, base} x {shallow, expanded} x {no index, empty "
    "index, stale pre-filled index}; the batch boundary of the per-id existence query (jobs=2, 1..5 ids); all 16 "
    "combinations check_deleted x src_index x dest_index x shallow of compare_status; the last-hex-digit sweep; a "
    "push / delete / re-push history in which every operation uses a NEW ObjectDBIndex instance; and an oracle-only "
    "AUDIT stream outside the model's assumptions (protected / unprotected / corrupt-unprotected / corrupt-protected "
    "objects, unparsable .dir objects (not JSON, not a list, bad entry) shallow / expanded / through an index, read-only "
    "stores, ObjectDBIndexNoop, the same value under two algorithm names, a .dir object unparsable or missing on one "
    "side of compare_status, EIO inside the existence query at the first / middle / last id). RANDOM per case - "
    "obj_name labels on file and directory ids, jobs in {None,1,2,16}, name in {None,'md5'}, unusual names in 30% of "
    "the worlds, re-opened index instance before 20% of the history operations. "
    "worlds: 6 file objects (per case a content variant of each is chosen so that its md5 ends with a "
    "chosen hex digit; the first 32 status cases sweep a VALID UNPROTECTED object of a local store over "
    "all 16 last digits, for file ids and for .dir ids), 2-4 random directory objects over them (shared files, duplicate entries, "
    "an empty directory), absent file/dir ids. status/compare: random store contents (protected and "
    "unprotected objects; optionally 12 planted objects named 00.. so that the base class takes the "
    "per-id branch for >1 ids; _ALWAYS_TRAVERSE; default = traverse), random queries of >=2 ids (plus a "
    "few 0/1-id ones), shallow/expanded, cache_odb = the store itself or a separate one, no index / "
    "fresh index / pre-filled index incl. stale directories and stale files; 35% of the stores are queried "
    "through a LONG-LIVED handle: it has written >=1 of the objects itself (odb.add), then another writer "
    "(second handle on the same directory, or a plain file drop) delivered further objects, mostly under "
    "new 2-character prefix directories. history: <=10 (quick) / "
    "<=30 (thorough) operations Push(req, fails) / Fetch(local contents, req, fails) / ExtDelete / "
    "Query over one remote (base or local class) and ONE on-disk ObjectDBIndex; a push reads from a "
    "LocalHashFileDB with protected (0o444) objects; every failing upload (files and - in at least 1 push "
    "of 5 - a .dir object whose files arrived) raises OSError(EIO), PermissionError(EACCES) or "
    "FileNotFoundError, chosen per upload; 'closed' stream = closed initial remote and "
    "closed requests (directories with their files, or expanded), 'open' stream = arbitrary. A case is "
    "non-trivial when both answers are non-empty or the index changed (status/compare), resp. when the "
    "index became non-empty and at least one of: a failed upload, a cleared index, an external deletion "
    "that hit (history)."
)
ASSUMPTIONS = [
    "odb.oids_exist / list_oids_exists answer ids & contents (dvc_objects; all three strategies and the "
    "local per-id check are exercised and compared with an independent os.listdir walk on every case)",
    "directory objects in play are parseable canonical listings of file ids (no nested .dir ids); "
    "unparseable ones are C07's subject; objects are intact (their bytes hash to their name)",
    "uploads go through the destination file system's put_file (reflink is disabled in the wrapper so "
    "that injected failures hit every upload); an upload is atomic (C04/C15 validate that); single "
    "writer: the PermissionError exemption of transfer._add (destination object already there and "
    "protected) never applies, so every injected fault is a failure in the model",
    "the MEMORY-protocol shortcut of status() is not modelled",
    "real ids are renamed to short aliases (files [i], directories [j].dir) before the model is "
    "evaluated - the model only tests ids for equality and for the .dir suffix; the first 16 cases of "
    "the status and compare streams use the real 32-character ids",
    "set iteration order inside _indexed_dir_hashes/_do_transfer is not imposed: the model folds in a "
    "canonical order and StatusProofs.indexed_loop_perm shows the order is irrelevant for flat listings",
]

IMPORTS = ("From stdpp Require Import gmap.\nFrom Coq Require Import NArith.\n"
           "From DvcData Require Import Model.Status.")

FILES = [b"alpha", b"beta", b"", b"gamma\n", b"delta\r\n", b"epsilon " * 40]
NF = len(FILES)
ABSENT = [b"absent-0", b"absent-1"]
RELPATHS = ["a", "b/c", "d/e/f", "g h", "é", "z.dir/x"]
# tools/COVERAGE_AUDIT.md, dimension 1: names inside listings (backslash, space, leading dot, Cyrillic,
# CJK, emoji, NFC next to its NFD twin, a name ending in .dir, string-prefix siblings, 1 and 200
# characters, a file and a directory differing only in case)
ODD_RELPATHS = ["we\\ird.txt", "sp ace.txt", ".hidden", "кириллица.txt", "中文/文件", "\U0001f600.bin",
                "caf\u00e9.txt", "cafe\u0301.txt", "sub.dir", "imgs", "imgs_raw", "imgs.bak", "x", "L" * 200,
                "Data/x", "data"]
DIMS: dict = {}


def dim(name, k=1):
    DIMS[name] = DIMS.get(name, 0) + k



def _zz():
    out, i = [], 0
    while len(out) < 12:
        b = b"z%d" % i
        i += 1
        if impl.md5hex(b).startswith("00"):
            out.append(b)
    return out


ZZ = _zz()

HEX = "0123456789abcdef"


def _variants():
    """VARIANTS[i][x] = a content of file F<i> whose md5 ends with the hex digit x (the original
    content of FILES[i] for its own digit, otherwise the content with a searched '#<k>' suffix):
    a case chooses the last digit of every file id ("ends"), so that every run sees identifiers
    ending in each hex digit - string operations on ids (suffix stripping) depend on it"""
    table = []
    for b in FILES:
        row = {impl.md5hex(b)[-1]: b}
        k = 0
        while len(row) < 16:
            c = b + b"#%d" % k
            k += 1
            row.setdefault(impl.md5hex(c)[-1], c)
        table.append(row)
    return table


VARIANTS = _variants()


class World:
    """names -> oids / bytes.  F<i> files, A<i> absent file ids, D<i> directories given by
    spec {Dname: [[relpath, file name], ...]}, Z<i> the 00-objects."""

    def __init__(self, dirs, ends=None):
        self.oid, self.data, self.listing = {}, {}, {}
        for i, b in enumerate(FILES):
            if ends is not None:
                b = VARIANTS[i][ends[i]]
            self.oid[f"F{i}"] = impl.md5hex(b)
            self.data[f"F{i}"] = b
        for i, b in enumerate(ABSENT):
            self.oid[f"A{i}"] = impl.md5hex(b)
            self.data[f"A{i}"] = b
        for i, b in enumerate(ZZ):
            self.oid[f"Z{i}"] = impl.md5hex(b)
            self.data[f"Z{i}"] = b
        for dn, ents in dirs.items():
            lst = [(rp, self.oid[fn]) for rp, fn in ents]
            self.oid[dn] = impl.dir_oid(lst)
            self.data[dn] = impl.canon_listing(lst)
            # listing order of Tree.load = order of the canonical (relpath-sorted) json
            self.listing[dn] = [fn for rp, fn in sorted(ents, key=lambda e: e[0])]
        self.name = {o: n for n, o in self.oid.items()}
        self.dirs = dirs

    def plant(self, path, names, unprot=()):
        os.makedirs(path, exist_ok=True)
        for n in names:
            impl.plant(path, self.oid[n], self.data[n], mode=None if n in unprot else 0o444)


def gen_dirs(rng):
    nd = rng.choice([2, 3, 3, 4])
    dirs = {}
    for j in range(nd):
        k = rng.choice([0, 1, 2, 2, 3, 3, 4]) if j else rng.choice([2, 3])
        rps = rng.sample(RELPATHS + ODD_RELPATHS if rng.random() < 0.3 else RELPATHS, k)
        dirs[f"D{j}"] = [[rp, f"F{rng.randrange(NF)}"] for rp in rps]
    # distinct listings only (equal listings are the same object)
    seen, out = set(), {}
    for dn, ents in dirs.items():
        key = tuple(sorted(map(tuple, ents)))
        if key not in seen:
            seen.add(key)
            out[dn] = ents
    return out


def parse_listing(data: bytes):
    """independent reading of a directory object: the md5 fields of its json list"""
    return [d["md5"] for d in json.loads(data.decode("utf-8"))]


# --------------------------------------------------------------------------------------
# real stores


FAULT_KINDS = ("eio", "eacces", "enoent")


def fault(kind, path):
    """the exception an injected upload failure raises.  'eacces' is the kind transfer._add exempts
    when the DESTINATION already holds the protected object (a concurrent writer) - never the
    case for a single writer, so every injected fault is a failure of that upload"""
    if kind == "eacces":
        return PermissionError(errno.EACCES, "Permission denied (injected upload failure)", path)
    if kind == "enoent":
        return FileNotFoundError(errno.ENOENT, "No such file or directory (injected upload failure)", path)
    return OSError(errno.EIO, "injected upload failure")


class Injector:
    """a LocalFileSystem instance whose uploads fail for chosen oids (oid -> fault kind)"""

    def __init__(self):
        from dvc_objects.fs.local import FsspecLocalFileSystem, LocalFileSystem

        # fsspec caches file system instances: a plain LocalFileSystem() would share ONE
        # FsspecLocalFileSystem with every other store of the process, so that a patched
        # put_file (and its set of failing ids) leaks into all later operations and cases.
        self.fs = LocalFileSystem(fs=FsspecLocalFileSystem(skip_instance_cache=True))
        self.failing = {}
        self.attempted = []
        orig = self.fs.fs.put_file

        def put_file(lpath, rpath, **kw):
            oid = "".join(str(rpath).split(os.sep)[-2:])
            self.attempted.append(oid)
            if oid in self.failing:
                raise fault(self.failing[oid], str(rpath))
            return orig(lpath, rpath, **kw)

        def reflink(p1, p2):
            raise OSError(errno.ENOTSUP, "reflink disabled by the harness")

        self.fs.fs.put_file = put_file
        self.fs.reflink = reflink


def make_store(cls, path, inj=None, **cfg):
    from dvc_objects.fs.local import LocalFileSystem

    from dvc_data.hashfile.db import HashFileDB
    from dvc_data.hashfile.db.local import LocalHashFileDB

    fs = inj.fs if inj else LocalFileSystem()
    os.makedirs(path, exist_ok=True)
    if cls == "local":
        return LocalHashFileDB(fs, os.path.abspath(path), **cfg)
    return HashFileDB(fs, os.path.abspath(path), **cfg)


def spy(odb, ctx):
    """count which lookup strategy ran (coverage only)"""
    o1, o2 = odb.list_oids_exists, odb._list_oids_traverse

    def loe(oids, jobs=None):
        oids = list(oids)
        ctx.count("lookup:per-id-exists")
        return o1(oids, jobs=jobs)

    def trav(*a, **k):
        ctx.count("lookup:traverse")
        return o2(*a, **k)

    odb.list_oids_exists = loe
    odb._list_oids_traverse = trav


def his(names, W, labels=None):
    """the queried identifiers; labels: position -> obj_name (HashInfo equality ignores obj_name,
    DVC sets it on file and directory ids alike)"""
    from dvc_data.hashfile.hash_info import HashInfo

    labels = labels or {}
    return [HashInfo("md5", W.oid[n], obj_name=labels.get(str(i))) for i, n in enumerate(names)]


def gen_labels(rng, q):
    return {str(i): f"data/{n.lower()}{'' if n.startswith('D') else '.bin'}" for i, n in enumerate(q)
            if rng.random() < 0.5}


def label_problems(requested, result_sets):
    """every HashInfo handed back for a requested value carries the algorithm name it was queried
    under (partition membership by value + name; obj_name is a label that HashInfo equality ignores:
    in expanding mode the entry of a listing - without label - may replace the labelled request)"""
    want = {}
    for h in requested:
        want.setdefault(h.value, set()).add(h.name)
    bad = []
    for rs in result_sets:
        for h in rs:
            if h.value in want and h.name not in want[h.value]:
                bad.append((h.name, h.value))
    if bad:
        return [("C12:result-id-not-the-queried-one",
                 f"identifiers handed back differ from the queried ones in their algorithm name: {sorted(bad)[:4]}")]
    return []


def vals(s):
    return sorted(h.value for h in s)


def fill_index(index, W, entries):
    for n, flag in entries:
        if flag:
            index.update([W.oid[n]], [])
        else:
            index.update([], [W.oid[n]])


def read_index(index):
    return sorted(index.hashes()), sorted(index.dir_hashes())


def c_oids(oids):
    return clist([cbytes(o) for o in oids])


def make_alias(W):
    """short stand-ins for the real ids (files [i+1], absent ids [i+50], directories [j+100].dir,
    00-objects [i+200, 0]): the model only tests ids for equality and for the .dir suffix, and
    32-character gmap keys make its evaluation inside coqc an order of magnitude slower"""
    alias = {}
    for n, o in W.oid.items():
        if n.startswith("D"):
            alias[o] = bytes([int(n[1:]) + 100]) + b".dir"
        elif n.startswith("F"):
            alias[o] = bytes([int(n[1:]) + 1])
        elif n.startswith("A"):
            alias[o] = bytes([int(n[1:]) + 50])
        else:
            alias[o] = bytes([int(n[1:]) + 200, 0])
    return alias


def c_trees(W, dnames, ren=lambda o: o):
    return clist([cpair(cbytes(ren(W.oid[d])), c_oids([ren(W.oid[f]) for f in W.listing[d]]))
                  for d in dnames])


def c_ix(W, entries, ren=lambda o: o):
    if entries is None:
        return "None"
    return "(Some " + clist([cpair(cbytes(ren(W.oid[n])), cbool(f)) for n, f in entries]) + ")"


def v_ix(ix, ren=lambda o: o):
    if ix is None:
        return vL([])
    return vL([vL([vset([ren(o) for o in ix[0]]), vset([ren(o) for o in ix[1]])])])


# --------------------------------------------------------------------------------------
# stream 1: status


def gen_status_case(rng):
    dirs = gen_dirs(rng)
    dn = list(dirs)
    universe = [f"F{i}" for i in range(NF)] + dn
    store = [n for n in universe if rng.random() < 0.55]
    if rng.random() < 0.3:  # a closed part
        for d in dn:
            if d in store:
                store = sorted(set(store) | {f for _, f in dirs[d]})
    unprot = [n for n in store if rng.random() < 0.3]
    r = rng.random()
    nq = 0 if r < 0.03 else 1 if r < 0.1 else rng.randint(2, 7)
    q = rng.sample(universe + ["A0", "A1"], min(nq, len(universe) + 2))
    if q and rng.random() < 0.6 and not any(x.startswith("D") for x in q):
        q[0] = rng.choice(dn)
    if rng.random() < 0.15 and q:
        q.append(q[0])  # duplicate id in the request
    case = {"kind": "status", "dirs": dirs, "store": store, "unprot": unprot, "q": q,
            "shallow": rng.random() < 0.5, "cls": rng.choice(["local", "base", "base"]),
            "strategy": rng.choice(["default", "zz", "always-traverse"])}
    if rng.random() < 0.35:
        case["cache"] = [d for d in dn if rng.random() < 0.7]
    case["lived"] = gen_lived(rng, store)
    case["ends"] = [rng.choice(HEX) for _ in range(NF)]
    case["labels"] = gen_labels(rng, q)
    case["jobs"] = rng.choice([None, 1, 2, 16])
    case["name"] = rng.choice([None, "md5"])
    r = rng.random()
    if r < 0.35:
        case["index"] = None
    elif r < 0.5:
        case["index"] = []
    else:
        ents = []
        for d in dn:
            if rng.random() < 0.6:
                ents.append([d, True])
                for _, f in dirs[d]:
                    if rng.random() < 0.85 and [f, False] not in ents:
                        ents.append([f, False])
        if rng.random() < 0.3:
            ents.append([rng.choice(["A0", "A1", "F0", "F5"]), False])
        if rng.random() < 0.04:
            ents.append(["F1", True])  # ill-flagged entry (malformed stream)
        seen, out = set(), []
        for n, f in ents:
            if n not in seen:
                seen.add(n)
                out.append([n, f])
        case["index"] = out
    return case


def gen_lived(rng, names):
    """a long-lived handle (35% of the stores with >= 2 objects): which of the store's objects the
    handle H1 that will be queried has written itself (odb.add, >= 1: ObjectDB._init then caches the
    prefix directories it has seen), and which arrive afterwards from ANOTHER writer - a second
    handle H2 on the same directory or a plain file drop - mostly under new prefix directories"""
    names = list(names)
    if len(names) < 2 or rng.random() >= 0.35:
        return None
    rng.shuffle(names)
    k1 = rng.randint(1, max(1, len(names) // 3))
    k2 = rng.randint(1, len(names) - k1)
    return {"h1": sorted(names[:k1]), "late": sorted(names[k1:k1 + k2]),
            "via": rng.choice(["handle", "plant"])}


def setup_store(ctx, W, root, sub, names, unprot, cls, strategy, inj=None, tmp=True, lived=None):
    """the store handle the query goes through, and the store directory.  Without [lived] the
    objects are planted and a fresh handle is returned; with it the handle has a write history and
    the store has a second writer (see gen_lived).  The final content is [names] either way."""
    path = os.path.join(root, sub)
    later = set(lived["h1"]) | set(lived["late"]) if lived else set()
    W.plant(path, [n for n in names if n not in later], unprot)
    if strategy == "zz":
        W.plant(path, [f"Z{i}" for i in range(len(ZZ))])
    cfg = {"tmp_dir": os.path.join(root, sub + "-tmp")} if tmp else {}
    odb = make_store(cls, path, inj, **cfg)
    if strategy == "always-traverse":
        odb.fs._ALWAYS_TRAVERSE = True
    if lived:
        from dvc_objects.fs.local import LocalFileSystem

        work = os.path.join(root, sub + "-work")
        os.makedirs(work, exist_ok=True)

        def add_through(handle, ns):
            paths = []
            for n in ns:
                fp = os.path.join(work, n)
                with open(fp, "wb") as f:
                    f.write(W.data[n])
                paths.append(fp)
            handle.add(paths, LocalFileSystem(), [W.oid[n] for n in ns])

        add_through(odb, lived["h1"])
        if lived["via"] == "handle":
            add_through(make_store(cls, path, inj, **cfg), lived["late"])
        else:
            W.plant(path, lived["late"], unprot)
        ctx.count(f"lived-handle:{sub}/{cls}/{lived['via']}")
    spy(odb, ctx)
    return odb, path


def loadable(W, case, store_names):
    if case.get("cache") is not None:
        return [d for d in case["cache"]]
    return [d for d in store_names if d.startswith("D")]


def expected_ids(W, q, shallow, loadable_dirs):
    """the queried identifiers, computed from the planted bytes; None = a requested directory
    cannot be loaded in expanding mode"""
    ids = set()
    for n in q:
        ids.add(W.oid[n])
        if n.startswith("D") and not shallow:
            if n not in loadable_dirs:
                return None
            ids.update(parse_listing(W.data[n]))
    return ids


def run_status_case(ctx, case, real_ids=False):
    from dvc_data.hashfile.db import get_index
    from dvc_data.hashfile.status import status

    W = World(case["dirs"], case.get("ends"))
    root = ctx.fresh("st")
    odb, path = setup_store(ctx, W, root, "store", case["store"], case["unprot"], case["cls"],
                            case["strategy"], lived=case.get("lived"))
    cache_odb = None
    if case.get("cache") is not None:
        cpath = os.path.join(root, "cache")
        W.plant(cpath, case["cache"])
        cache_odb = impl.local_odb(cpath)
    index = None
    ix_before = None
    if case.get("index") is not None:
        index = get_index(odb)
        fill_index(index, W, case["index"])
        ix_before = read_index(index)
    before = impl.walk_store(path)
    req = his(case["q"], W, case.get("labels"))
    lab = []
    try:
        r = status(odb, req, name=case.get("name"), index=index, cache_odb=cache_odb,
                   shallow=case["shallow"], jobs=case.get("jobs", 1))
        res = ("ok", vals(r.exists), vals(r.missing))
        lab = label_problems(req, [r.exists, r.missing])
    except FileNotFoundError:
        res = ("err", 2)
    except Exception as exc:  # noqa: BLE001
        res = ("exc", type(exc).__name__)
    after = impl.walk_store(path)
    ix_after = read_index(index) if index is not None else None
    if index is not None:
        index.close()

    ld = loadable(W, case, case["store"])
    alias = make_alias(W)
    ren = (lambda o: o) if real_ids else (lambda o: alias[o])
    inp = ("{| sc_store := %s; sc_trees := %s; sc_q := %s; sc_shallow := %s; sc_ix := %s |}"
           % (c_oids([ren(o) for o in sorted(before)]), c_trees(W, ld, ren),
              c_oids([ren(W.oid[n]) for n in case["q"]]),
              cbool(case["shallow"]), c_ix(W, case.get("index"), ren)))
    if res[0] == "ok":
        exp = vL([vN(1), vset([ren(o) for o in res[1]]), vset([ren(o) for o in res[2]]),
                  v_ix(ix_after, ren)])
    else:
        exp = vL([vN(0), vN(res[1] if res[0] == "err" else 99)])

    # ---- oracle
    problems = list(lab)
    ids = expected_ids(W, case["q"], case["shallow"], ld)
    present = set(before)
    if set(after) != present:
        problems.append(("C12:status-modified-store", "status() added or removed objects"))
    if res[0] == "exc":
        problems.append((f"C12:unexpected-exception:{res[1]}", f"status raised {res[1]}"))
    elif ids is None:
        if res != ("err", 2):
            problems.append(("C12:unloadable-dir-not-reported",
                             f"a requested directory cannot be loaded, status returned {res[0]}"))
    elif res[0] == "err":
        problems.append(("C12:spurious-error", "status raised FileNotFoundError although every "
                                               "requested directory loads"))
    else:
        ex, mi = set(res[1]), set(res[2])
        if ex | mi != ids or ex & mi:
            problems.append(("C12:status-not-a-partition",
                             f"exists+missing != queried ids: extra {sorted((ex | mi) - ids)}, "
                             f"lost {sorted(ids - (ex | mi))}, both {sorted(ex & mi)}"))
        if index is None:
            if ex != ids & present or mi != ids - present:
                problems.append(("C12:status-inexact",
                                 f"no index: wrongly existing {sorted(ex - present)}, wrongly "
                                 f"missing {sorted(mi & present)}"))
        else:
            stale = [o for o in ex if o.endswith(".dir") and o not in present]
            if stale:
                problems.append(("C12:stale-dir-reported-existing",
                                 f"directory object(s) {stale} reported existing but not in the store"))
            if any(n.startswith("D") for n in case["q"]):
                left = [o for o in ix_after[1] if o not in present]
                if left:
                    problems.append(("C12:stale-index-not-cleared",
                                     f"indexed directories {left} are not in the store after a "
                                     f"status query with directories"))
            new_ids = set(ix_after[0]) - set(ix_before[0])
            listed = set()
            for o in present:
                if o.endswith(".dir") and W.name.get(o) in ld:
                    listed.update(parse_listing(before[o][0]))
            inv = [o for o in new_ids if o not in present and o not in listed]
            if inv:
                problems.append(("C12:index-invented", f"status indexed {inv}: neither in the store "
                                                       f"nor listed by a directory object there"))
    nontrivial = (res[0] == "ok" and bool(res[1]) and bool(res[2])) or (ix_after != ix_before)
    ctx.count("status:" + ("err" if res[0] != "ok" else "ok")
              + ("/index" if index is not None else "/plain")
              + ("/shallow" if case["shallow"] else "/expanded"))
    ctx.count(f"status:class={case['cls']}/{case['strategy']}")
    if index is not None and ix_before[0] and not set(ix_before[0]) <= set(ix_after[0]):
        ctx.count("status:index-cleared")
    impl.rm_rf(root)
    return inp, exp, problems, nontrivial, res


# --------------------------------------------------------------------------------------
# stream 2: compare_status


def gen_compare_case(rng):
    dirs = gen_dirs(rng)
    dn = list(dirs)
    universe = [f"F{i}" for i in range(NF)] + dn
    src = [n for n in universe if rng.random() < 0.7]
    dst = [n for n in universe if rng.random() < 0.5]
    q = rng.sample(universe + ["A0", "A1"], rng.randint(1, 7))
    if rng.random() < 0.25:
        dst = sorted(set(dst) | {n for n in q if not n.startswith("A")})  # dest has everything
        q = [n for n in q if not n.startswith("A")] or ["F0"]
        dst = sorted(set(dst) | set(q))

    def some_index(side):
        r = rng.random()
        if r < 0.5:
            return None
        ents = []
        for d in dn:
            if rng.random() < 0.5:
                ents.append([d, True])
                ents += [[f, False] for _, f in dirs[d] if [f, False] not in ents]
        return ents

    case = {"kind": "compare", "dirs": dirs, "src": src, "dst": dst, "q": q,
            "shallow": rng.random() < 0.5, "check_deleted": rng.random() < 0.5,
            "cls": rng.choice(["local", "base"]), "strategy": rng.choice(["default", "zz", "always-traverse"]),
            "six": some_index("s"), "dix": some_index("d")}
    if rng.random() < 0.3:
        case["cache"] = [d for d in dn if rng.random() < 0.8]
    case["lived_src"] = gen_lived(rng, src)
    case["lived_dst"] = gen_lived(rng, dst)
    case["ends"] = [rng.choice(HEX) for _ in range(NF)]
    case["labels"] = gen_labels(rng, q)
    case["jobs"] = rng.choice([None, 1, 2, 16])
    case["unprot_src"] = [n for n in src if rng.random() < 0.3]
    case["unprot_dst"] = [n for n in dst if rng.random() < 0.3]
    return case


def force_dir_digit(case, dname, digit):
    """give directory [dname] an id whose md5 ends with [digit]: add one searched filler entry"""
    ents = [e for e in case["dirs"][dname] if not e[0].startswith("n")]
    for k in range(4000):
        case["dirs"][dname] = ents + [[f"n{k}", "F0"]]
        if World(case["dirs"], case.get("ends")).oid[dname].endswith(digit + ".dir"):
            return
    raise RuntimeError("no filler found")


def digit_sweep(cases):
    """the first 32 generated status cases become a sweep over the last hex digit of an id: a
    LocalHashFileDB (no index, fresh handle) holds a VALID, NOT write-protected object - file id
    (cases 0-15) or directory id (16-31) - ending with each digit, and the query asks for it;
    unprotected objects are re-hashed and compared with their name by HashFileDB.check"""
    for k, c in enumerate(cases[:32]):
        digit = HEX[k % 16]
        if k < 16:
            name = f"F{k % NF}"
            c["ends"][k % NF] = digit
        else:
            name = sorted(c["dirs"])[0]
            force_dir_digit(c, name, digit)
        c["cls"] = "local"
        c["lived"] = None
        c["index"] = None
        c.pop("cache", None)
        c["store"] = sorted(set(c["store"]) | {name})
        c["unprot"] = sorted(set(c["unprot"]) | {name})
        if name not in c["q"]:
            c["q"].append(name)
        c["sweep"] = f"{'file' if k < 16 else 'dir'}-id-ends-{digit}"


def run_compare_case(ctx, case, real_ids=False):
    from dvc_data.hashfile.db import get_index
    from dvc_data.hashfile.status import compare_status

    W = World(case["dirs"], case.get("ends"))
    root = ctx.fresh("cmp")
    src, spath = setup_store(ctx, W, root, "src", case["src"], case.get("unprot_src", ()), "local",
                             "default", lived=case.get("lived_src"))
    dst, dpath = setup_store(ctx, W, root, "dst", case["dst"], case.get("unprot_dst", ()), case["cls"],
                             case["strategy"], lived=case.get("lived_dst"))
    cache_odb = None
    if case.get("cache") is not None:
        cpath = os.path.join(root, "cache")
        W.plant(cpath, case["cache"])
        cache_odb = impl.local_odb(cpath)
    six = dix = None
    if case["six"] is not None:
        six = get_index(src)
        fill_index(six, W, case["six"])
    if case["dix"] is not None:
        dix = get_index(dst)
        fill_index(dix, W, case["dix"])
    sb, db = impl.walk_store(spath), impl.walk_store(dpath)
    req = his(case["q"], W, case.get("labels"))
    lab = []
    try:
        r = compare_status(src, dst, req, check_deleted=case["check_deleted"],
                           src_index=six, dest_index=dix, cache_odb=cache_odb, jobs=case.get("jobs", 1),
                           shallow=case["shallow"])
        res = ("ok", vals(r.ok), vals(r.missing), vals(r.new), vals(r.deleted))
        lab = label_problems(req, [r.ok, r.missing, r.new, r.deleted])
    except FileNotFoundError:
        res = ("err", 2)
    except Exception as exc:  # noqa: BLE001
        res = ("exc", type(exc).__name__)
    six_a = read_index(six) if six is not None else None
    dix_a = read_index(dix) if dix is not None else None
    for i in (six, dix):
        if i is not None:
            i.close()
    src_dirs = [d for d in case["src"] if d.startswith("D")]
    ld_d = case["cache"] if case.get("cache") is not None else src_dirs
    alias = make_alias(W)
    ren = (lambda o: o) if real_ids else (lambda o: alias[o])
    inp = ("{| cc_src := %s; cc_dst := %s; cc_trees_s := %s; cc_trees_d := %s; cc_q := %s; "
           "cc_shallow := %s; cc_check_deleted := %s; cc_six := %s; cc_dix := %s |}"
           % (c_oids([ren(o) for o in sorted(sb)]), c_oids([ren(o) for o in sorted(db)]),
              c_trees(W, src_dirs, ren), c_trees(W, ld_d, ren),
              c_oids([ren(W.oid[n]) for n in case["q"]]), cbool(case["shallow"]),
              cbool(case["check_deleted"]), c_ix(W, case["six"], ren), c_ix(W, case["dix"], ren)))
    if res[0] == "ok":
        exp = vL([vN(1), vL([vset([ren(o) for o in x]) for x in res[1:]]), v_ix(six_a, ren),
                  v_ix(dix_a, ren)])
    else:
        exp = vL([vN(0), vN(res[1] if res[0] == "err" else 99)])

    problems = list(lab)
    ids_d = expected_ids(W, case["q"], case["shallow"], ld_d)
    ids_s = expected_ids(W, case["q"], case["shallow"], src_dirs)
    S, D = set(sb), set(db)
    if res[0] == "exc":
        problems.append((f"C12:unexpected-exception:{res[1]}", f"compare_status raised {res[1]}"))
    elif res[0] == "ok" and ids_d is not None:
        ok, mi, new, de = (set(x) for x in res[1:])
        parts = [ok, mi, new, de]
        if any(parts[i] & parts[j] for i in range(4) for j in range(i)):
            problems.append(("C12:compare-overlap", "ok/missing/new/deleted are not disjoint"))
        if not (ok | mi | new | de) <= ids_d:
            problems.append(("C12:compare-invented", "compare_status reports ids that were not queried"))
        shortcut = (not case["check_deleted"]) and ids_d <= D and case["dix"] is None
        if case["six"] is None and case["dix"] is None and (ids_s == ids_d or shortcut):
            if shortcut:
                want = (ids_d, set(), set(), set())
            else:
                want = (ids_d & S & D, ids_d - S - D, (ids_d & S) - D, (ids_d & D) - S)
            if (ok, mi, new, de) != want:
                problems.append(("C12:compare-inexact",
                                 "ok/missing/new/deleted differ from the four Boolean combinations of "
                                 f"membership in the two stores: got {[sorted(x) for x in parts]}"))
        # consistency with the two individual answers whenever a directory is reported on dest
        stale = [o for o in (ok | de) if o.endswith(".dir") and o not in D] if case["dix"] is not None else []
        stale += [o for o in (ok | new) if o.endswith(".dir") and o not in S] if case["six"] is not None and (
            case["check_deleted"] or mi or new) else []
        if stale:
            problems.append(("C12:stale-dir-reported-existing",
                             f"directory object(s) {stale} reported existing but absent"))
    ctx.count("compare:" + res[0] + ("/check_deleted" if case["check_deleted"] else "/transfer-mode"))
    nontrivial = res[0] == "ok" and sum(1 for x in res[1:] if x) >= 2
    impl.rm_rf(root)
    return inp, exp, problems, nontrivial, res


# --------------------------------------------------------------------------------------
# stream 3: histories


def close_names(dirs, names):
    out = set(names)
    for n in names:
        if n in dirs:
            out.update(f for _, f in dirs[n])
    return sorted(out)


def gen_history_case(rng, max_ops, closed=True):
    dirs = gen_dirs(rng)
    dn = list(dirs)
    files = [f"F{i}" for i in range(NF)]
    universe = files + dn
    # local cache: mostly everything; sometimes a file or a directory object is absent
    src = [n for n in universe if rng.random() < 0.93]
    remote = [n for n in universe if rng.random() < 0.3]
    if closed:
        remote = close_names(dirs, remote)

    def request():
        k = rng.randint(1, len(dn))
        req = rng.sample(dn, k) + [f for f in files if rng.random() < 0.25]
        if rng.random() < 0.15:
            req.append(rng.choice(["A0", "A1"]))
        shallow = rng.random() < 0.6
        if closed and shallow:
            req = close_names(dirs, req)
        elif not closed and rng.random() < 0.5:
            shallow = True  # directories without their files, not expanded
        rng.shuffle(req)
        return req, shallow

    ops = []
    for _ in range(rng.randint(3, max_ops)):
        r = rng.random()
        if r < 0.38:
            req, sh = request()
            fails = [n for n in close_names(dirs, req) if rng.random() < 0.22] if rng.random() < 0.55 else []
            if rng.random() < 0.2:
                # the .dir upload itself is refused (after the files arrived)
                fails = sorted(set(fails) | {rng.choice([n for n in req if n in dirs])})
            ops.append({"op": "push", "req": req, "shallow": sh, "fails": fails,
                        "kinds": {n: rng.choice(FAULT_KINDS) for n in fails}})
        elif r < 0.5:
            req, sh = request()
            loc = [n for n in universe if rng.random() < 0.35]
            fails = [n for n in close_names(dirs, req) if rng.random() < 0.25] if rng.random() < 0.4 else []
            ops.append({"op": "fetch", "loc": loc, "req": req, "shallow": sh, "fails": fails,
                        "kinds": {n: rng.choice(FAULT_KINDS) for n in fails}})
        elif r < 0.72:
            ops.append({"op": "delete", "n": rng.randint(1, 3), "pick": rng.random(),
                        "prefer_dir": rng.random() < 0.45})
        else:
            q = rng.sample(universe + ["A0"], rng.randint(1, 6))
            ops.append({"op": "query", "q": q, "shallow": rng.random() < 0.6})
    for o in ops:
        if rng.random() < 0.2:
            o["reopen"] = True  # the operation runs with a NEW ObjectDBIndex instance on the same directory
    return {"kind": "history", "dirs": dirs, "src": src, "remote": remote, "ops": ops,
            "closed": closed, "cls": rng.choice(["base", "local"]),
            "strategy": rng.choice(["default", "default", "zz", "always-traverse"])}


def resolve_delete(op, listing_names):
    """external deletion picks among what is in the remote now (deterministic from the case);
    a resolved op carries explicit names"""
    if "names" in op:
        return op["names"]
    import random

    r = random.Random(int(op["pick"] * 1e9))
    cand = sorted(listing_names)
    dirs = [n for n in cand if n.startswith("D")]
    out = []
    if op["prefer_dir"] and dirs:
        out.append(r.choice(dirs))
    while cand and len(out) < op["n"]:
        x = r.choice(cand)
        if x not in out:
            out.append(x)
        if len(out) >= len(cand):
            break
    return out


def run_history_case(ctx, case):
    """runs the history on the real code; returns (input term, expected val, problems,
    nontrivial, resolved case, stats)"""
    from dvc_data.hashfile.db import get_index
    from dvc_data.hashfile.status import status
    from dvc_data.hashfile.transfer import transfer

    W = World(case["dirs"], case.get("ends"))
    root = ctx.fresh("h")
    src, spath = setup_store(ctx, W, root, "src", case["src"], (), "local", "default", tmp=False)
    inj = Injector()
    remote, rpath = setup_store(ctx, W, root, "remote", case["remote"], (), case["cls"],
                                case["strategy"], inj=inj)
    index = get_index(remote)
    closed = case.get("closed", True)

    alias = make_alias(W)  # aliases for the model

    def ren(o):
        return alias[o]

    def rset(oids):
        return vset([ren(o) for o in oids])

    listing = impl.walk_store(rpath)
    ever = dict(listing)  # oid -> bytes of everything the remote ever held
    init_listing = sorted(listing)
    problems = []
    steps_exp = []
    ops_terms = []
    resolved_ops = []
    stats = {"failed_uploads": 0, "cleared": 0, "deleted": 0, "indexed": 0, "errs": 0}
    deleted_any = False

    def names(ns):
        return c_oids([ren(W.oid[n]) for n in ns])

    for k, op in enumerate(case["ops"]):
        if op.get("reopen"):
            index.close()
            index = get_index(remote)
            dim("history: operation through a re-opened index instance")
        before = listing
        ix_b = read_index(index)
        kind = op["op"]
        out = None
        dest_dirs_reported = set()
        if kind == "query":
            try:
                r = status(remote, his(op["q"], W), index=index, cache_odb=src,
                           shallow=op["shallow"], jobs=1)
                out = vL([vN(1), rset(vals(r.exists)), rset(vals(r.missing))])
                dest_dirs_reported = {o for o in vals(r.exists) if o.endswith(".dir")}
            except FileNotFoundError:
                out = vL([vN(0), vN(2)])
                stats["errs"] += 1
            ops_terms.append(f"Query {names(op['q'])} {cbool(op['shallow'])}")
            resolved_ops.append(op)
        elif kind == "delete":
            dn = resolve_delete(op, [W.name[o] for o in before])
            for n in dn:
                p = os.path.join(rpath, W.oid[n][:2], W.oid[n][2:])
                if os.path.exists(p):
                    os.chmod(os.path.dirname(p), 0o755)
                    os.unlink(p)
                    stats["deleted"] += 1
                    deleted_any = True
            out = vL([vN(3)])
            ops_terms.append(f"ExtDelete {names(dn)}")
            resolved_ops.append(dict({"op": "delete", "names": dn}, **({"reopen": True} if op.get("reopen") else {})))
        else:
            cap = {}
            push = kind == "push"
            kinds = op.get("kinds", {})
            for n in op["fails"]:
                ctx.count("history-fault:" + kinds.get(n, "eio") + ("/dir" if n.startswith("D") else "/file"))
            if push:
                inj.failing = {W.oid[n]: kinds.get(n, "eio") for n in op["fails"]}
                a, b, kw = src, remote, {"dest_index": index}
                linj = None
            else:
                linj = Injector()
                linj.failing = {W.oid[n]: kinds.get(n, "eio") for n in op["fails"]}
                lpath = os.path.join(root, f"loc{k}")
                W.plant(lpath, op["loc"])
                loc = make_store("local", lpath, linj)
                a, b, kw = remote, loc, {"src_index": index}
            try:
                res = transfer(a, b, set(his(op["req"], W)), jobs=1, shallow=op["shallow"],
                               validate_status=lambda st: cap.setdefault("c", st), **kw)
                c = cap["c"]
                out = vL([vN(2), vL([rset(vals(c.ok)), rset(vals(c.missing)), rset(vals(c.new)),
                                     rset(vals(c.deleted))]),
                          rset(vals(res.transferred)), rset(vals(res.failed))])
                if res.failed:
                    stats["failed_uploads"] += 1
                if push:
                    dest_dirs_reported = {o for o in vals(c.ok) + vals(c.deleted) if o.endswith(".dir")}
                elif c.missing or c.new:
                    dest_dirs_reported = {o for o in vals(c.ok) + vals(c.new) if o.endswith(".dir")}
            except FileNotFoundError:
                out = vL([vN(0), vN(2)])
                stats["errs"] += 1
            except AssertionError:
                out = vL([vN(0), vN(10)])
                stats["errs"] += 1
            inj.failing = {}
            if push:
                ops_terms.append(f"Push {names(op['req'])} {cbool(op['shallow'])} {names(op['fails'])}")
            else:
                ops_terms.append(f"Fetch {names(op['loc'])} {names(op['req'])} {cbool(op['shallow'])} "
                                 f"{names(op['fails'])}")
            resolved_ops.append(op)
        listing = impl.walk_store(rpath)
        for o, v in listing.items():
            ever.setdefault(o, v)
        ix_a = read_index(index)
        if ix_b[0] and not set(ix_b[0]) <= set(ix_a[0]):
            stats["cleared"] += 1
        if ix_a[0]:
            stats["indexed"] += 1
        steps_exp.append(vL([out, vL([rset(listing), vL([rset(ix_a[0]), rset(ix_a[1])]), rset(ever)])]))

        # ---- oracle on the real observations, after every operation
        where = f"after op {k} ({kind})"
        stale = [o for o in dest_dirs_reported if o not in before]
        if stale:
            problems.append(("C12:stale-dir-reported-existing",
                             f"{where}: directory object(s) {[W.name[o] for o in stale]} reported "
                             f"existing but not in the remote at query time"))
        now_listed, ever_listed = set(), set()
        for o, (data, _) in listing.items():
            if o.endswith(".dir"):
                now_listed.update(parse_listing(data))
        for o, (data, _) in ever.items():
            if o.endswith(".dir"):
                ever_listed.update(parse_listing(data))
        if closed:
            bad = [o for o in ix_a[0] if o not in ever and o not in now_listed]
            if bad:
                problems.append(("C12:index-invented",
                                 f"{where}: the index holds {[W.name.get(o, o) for o in bad]}: never "
                                 f"in the remote and not listed by a directory object that is there"))
        bad = [o for o in ix_a[0] if o not in ever and o not in ever_listed]
        if bad:
            problems.append(("C12:index-invented:never-listed",
                             f"{where}: the index holds {[W.name.get(o, o) for o in bad]}: never in "
                             f"the remote and not listed by any directory object that ever was there"))
        if kind != "delete" and set(before) - set(listing):
            problems.append(("C12:operation-removed-objects", f"{where}: objects vanished from the remote"))
        if kind in ("query", "fetch") and set(listing) != set(before):
            problems.append(("C12:status-modified-store", f"{where}: the remote changed"))
        if closed and not deleted_any:
            opened = [W.name[o] for o, (data, _) in listing.items() if o.endswith(".dir")
                      and any(f not in listing for f in parse_listing(data))]
            if opened:
                problems.append(("C12:closure-lost-by-transfer",
                                 f"{where}: directory object(s) {opened} in the remote without all "
                                 f"their files (no external deletion happened)"))
    index.close()

    src_dirs = [d for d in case["src"] if d.startswith("D")]
    all_dirs = list(case["dirs"])
    inp = ("{| hc_src := %s; hc_trees := %s; hc_remote := %s; hc_ops := %s |}"
           % (names(case["src"]), c_trees(W, all_dirs, ren),
              c_oids([ren(o) for o in init_listing]), clist(ops_terms)))
    exp = vL(steps_exp)
    nontrivial = stats["indexed"] > 0 and (stats["failed_uploads"] or stats["cleared"] or stats["deleted"])
    rcase = dict(case, ops=resolved_ops)
    impl.rm_rf(root)
    del src_dirs
    return inp, exp, problems, bool(nontrivial), rcase, stats


def shrink_history(ctx, case, signature):
    """greedy: drop operations while the same oracle signature still fails"""
    cur = case
    changed = True
    while changed and len(cur["ops"]) > 1:
        changed = False
        for i in range(len(cur["ops"])):
            cand = dict(cur, ops=cur["ops"][:i] + cur["ops"][i + 1:])
            try:
                _, _, problems, _, rc, _ = run_history_case(ctx, cand)
            except Exception:  # noqa: BLE001
                continue
            if any(s == signature for s, _ in problems):
                cur = rc
                changed = True
                break
    return cur


# --------------------------------------------------------------------------------------


# --------------------------------------------------------------------------------------
# fixed cases of every run (tools/COVERAGE_AUDIT.md) - inside the model: they go through the same
# runners, oracles and Coq correspondence as the generated ones


def fixed_status_cases():
    odd = {"D0": [[rp, f"F{i % NF}"] for i, rp in enumerate(ODD_RELPATHS)],   # every unusual name in one listing
           "D1": [],                                                        # the EMPTY listing's oid
           "D2": [["only", "F2"]],                                          # one file (zero-length for ends[2] = e)
           "D3": [["p/q/r/one", "F1"], ["p/q/r/two", "F1"], ["twin", "F1"]]}  # depth >= 3, identical contents
    ends = ["9", "2", "e", "5", "1", "8"]
    out = []
    for cls in ("local", "base"):
        for shallow in (True, False):
            for index in (None, [], [["D1", True], ["D0", True], ["F0", False]]):
                out.append({"kind": "status", "fixed": "names-shapes", "dirs": odd, "ends": ends,
                            "store": ["D0", "D1", "D2", "F0", "F1", "F2", "F3"], "unprot": ["D0", "F1"],
                            "q": ["D0", "D1", "D2", "D3", "F2", "F5", "A0"], "shallow": shallow, "cls": cls,
                            "strategy": "zz" if shallow else "default", "index": index,
                            "cache": ["D0", "D1", "D2", "D3"], "jobs": 2, "name": "md5",
                            "labels": {"0": "data/odd", "1": "data/empty", "4": "data/zero.bin"}})
    # batch boundary of the per-id existence query: jobs = 2 with 1..5 queried ids (per-id strategy: zz)
    for n in range(1, 6):
        out.append({"kind": "status", "fixed": "batch-boundary", "dirs": {"D0": [["a", "F0"]]}, "ends": ends,
                    "store": ["F0", "F2", "F4"], "unprot": [], "q": [f"F{i}" for i in range(n)], "shallow": True,
                    "cls": "base", "strategy": "zz", "index": None, "jobs": 2, "name": None})
    return out


def compare_flag_sweep():
    """every combination of check_deleted x src_index x dest_index x shallow on one fixed pair of stores
    (a directory that is new, the empty directory on both sides, deleted / missing / new files)"""
    dirs = {"D0": [["a", "F0"], ["b/c", "F1"]], "D1": [], "D2": [["k", "F2"], ["we\\ird.txt", "F4"]]}
    ix_s = [["D0", True], ["F0", False], ["F1", False]]
    ix_d = [["D2", True], ["F2", False], ["F4", False], ["D1", True]]   # D2 is NOT in dst: stale
    out = []
    for cd in (False, True):
        for six in (None, ix_s):
            for dix in (None, ix_d):
                for shallow in (True, False):
                    out.append({"kind": "compare", "fixed": "flag-sweep", "dirs": dirs,
                                "ends": ["0", "d", "e", "7", "a", "c"],
                                "src": ["D0", "D1", "D2", "F0", "F1", "F2", "F4"], "dst": ["D0", "D1", "F0", "F3", "F4"],
                                "q": ["D0", "D1", "D2", "F3", "F5", "A0"], "shallow": shallow, "check_deleted": cd,
                                "cls": "local" if shallow else "base", "strategy": "default", "six": six, "dix": dix,
                                "labels": {"0": "data/d0", "3": "data/f3.bin"}, "jobs": 4,
                                "unprot_src": ["F1", "D2"], "unprot_dst": ["F3"]})
    return out


# --------------------------------------------------------------------------------------
# audit stream (tools/COVERAGE_AUDIT.md): fixed scenarios OUTSIDE the model's assumptions (corrupt and
# unparsable objects, read-only stores, ids of another algorithm, the no-op index, a fault inside the
# existence query).  Judged by the oracle only, in the form the property supports there:
#   - if the call returns, exists/missing (ok/new/deleted/missing) partition the queried VALUES,
#     every queried id of an INTACT object that is in the store is reported existing, every id that is
#     in no form in the store is reported missing, and no intact object has vanished from the store;
#   - a call that cannot load / parse a directory object it needs, or whose existence query fails,
#     may raise instead (the exception class is recorded).


def _audit_world():
    from dvc_data.hashfile.hash_info import HashInfo

    fa, fb, fg, fd = b"alpha", b"beta", b"gamma\n", b"delta\r\n"
    o = {n: impl.md5hex(b) for n, b in (("a", fa), ("b", fb), ("g", fg), ("d", fd), ("absent", b"absent-0"))}
    data = {"a": fa, "b": fb, "g": fg, "d": fd}
    lst = [("x", o["a"]), ("we\\ird/\u043a\u0438\u0440.txt", o["b"])]
    o["D"] = impl.dir_oid(lst)
    data["D"] = impl.canon_listing(lst)
    o["E"] = impl.dir_oid([])
    data["E"] = impl.canon_listing([])
    for tag, raw in (("Unotjson", b"{{{"), ("Unotlist", b'{"a": 1}'), ("Ubadentry", b'[{"x": 1}]')):
        o[tag] = impl.md5hex(raw) + ".dir"      # hash-consistent, but not a listing
        data[tag] = raw
    return o, data, (lambda n, alg="md5", label=None: HashInfo(alg, o[n], obj_name=label))


def _audit_store(ctx, cls, root, sub, planted, fs=None, **kw):
    """planted: name -> (bytes, mode)"""
    from dvc_objects.fs.local import LocalFileSystem

    from dvc_data.hashfile.db import HashFileDB
    from dvc_data.hashfile.db.local import LocalHashFileDB

    path = os.path.join(root, sub)
    os.makedirs(path, exist_ok=True)
    for oid, (raw, mode) in planted.items():
        impl.plant(path, oid, raw, mode=mode)
    k = LocalHashFileDB if cls == "local" else HashFileDB
    return k(fs or LocalFileSystem(), os.path.abspath(path), tmp_dir=os.path.join(root, sub + "-tmp"), **kw), path


def run_audit(ctx):  # noqa: C901, PLR0912, PLR0915
    from dvc_objects.fs.local import FsspecLocalFileSystem, LocalFileSystem

    from dvc_data.hashfile.db import get_index
    from dvc_data.hashfile.db.index import ObjectDBIndexNoop
    from dvc_data.hashfile.status import compare_status, status

    from dvc_data.hashfile.hash_info import HashInfo
    from dvc_data.hashfile.transfer import transfer

    o, data, hi = _audit_world()
    n_cases = 0
    observations = ctx.extra.setdefault("observations", {})

    def judge(tag, case, res, queried, intact_present, absent, store_path, must_keep):
        """res: ("ok", exists, missing) | ("exc", class)"""
        nonlocal n_cases
        n_cases += 1
        ctx.case(dict(case, kind="audit", scenario=tag), True)
        dim("audit: " + tag.split("/")[0])
        if res[0] == "exc":
            dim(f"audit: raised {res[1]}")
            if not case.get("may_raise"):
                ctx.oracle_fail(f"C12:audit:unexpected-exception:{res[1]}",
                                f"{tag}: status raised {res[1]} although every object it needs is loadable", case)
            return
        ex, mi = set(res[1]), set(res[2])
        what = []
        if ex & mi or (ex | mi) != set(queried):
            what.append(f"exists/missing do not partition the queried values (both {sorted(ex & mi)}, "
                        f"lost {sorted(set(queried) - ex - mi)}, extra {sorted((ex | mi) - set(queried))})")
        if not set(intact_present) <= ex:
            what.append(f"intact objects that are in the store reported missing: {sorted(set(intact_present) - ex)}")
        if set(absent) & ex:
            what.append(f"ids that are not in the store reported existing: {sorted(set(absent) & ex)}")
        now = set(impl.walk_store(store_path))
        if not set(must_keep) <= now:
            what.append(f"intact objects vanished from the store: {sorted(set(must_keep) - now)}")
        if what:
            ctx.oracle_fail("C12:audit:" + tag.split("/")[0], f"{tag}: " + "; ".join(what), case)

    def call_status(odb, ids, **kw):
        try:
            r = status(odb, ids, **kw)
            return ("ok", [h.value for h in r.exists], [h.value for h in r.missing]), r
        except Exception as exc:  # noqa: BLE001
            return ("exc", type(exc).__name__), None

    for cls in ("local", "base"):
        # ---- 5. pre-existing state: protected / unprotected / corrupt-unprotected / corrupt-protected
        root = ctx.fresh("au")
        planted = {o["a"]: (data["a"], 0o444), o["b"]: (data["b"], None), o["g"]: (b"NOT gamma", None),
                   o["d"]: (b"NOT delta", 0o444), o["D"]: (data["D"], None), o["E"]: (data["E"], 0o444)}
        odb, path = _audit_store(ctx, cls, root, "s", planted)
        q = ["a", "b", "g", "d", "D", "E", "absent"]
        case = {"cls": cls, "store": {k: "intact/prot" if k in "aE" else "intact/unprot" if k in "bD" else
                                      "corrupt/unprot" if k == "g" else "corrupt/prot" for k in "abgdDE"}, "q": q}
        res, _ = call_status(odb, [hi(n) for n in q], jobs=2)
        judge("object-states/shallow", case, res, [o[n] for n in q], [o[n] for n in ("a", "b", "D", "E")],
              [o["absent"]], path, [o[n] for n in ("a", "b", "D", "E")])
        impl.rm_rf(root)

        # ---- damaged objects by file mode.  The library's own notion of "protected" is mode == 0o444 exactly
        # (LocalHashFileDB.is_protected / check): a LOCAL store trusts a damaged object only at that mode;
        # at any other mode - with or without write bits - it re-hashes, drops it and answers "missing".
        # A base-class store only looks at the name.
        root = ctx.fresh("au")
        modes = [0o400, 0o544, 0o555, 0o600, 0o644, 0o444]
        dmg = {m: impl.md5hex(b"damaged-%o" % m) for m in modes}
        planted = {dmg[m]: (b"these bytes do not hash to the name", m) for m in modes}
        planted[o["a"]] = (data["a"], 0o400)      # intact objects at odd modes stay, whatever the class
        planted[o["b"]] = (data["b"], 0o555)
        odb, path = _audit_store(ctx, cls, root, "s", planted)
        case = {"cls": cls, "damaged_objects_at_modes": [oct(m) for m in modes], "intact_at": ["0o400", "0o555"]}
        res, _ = call_status(odb, [hi("a"), hi("b")] + [HashInfo("md5", dmg[m]) for m in modes] + [hi("absent")])
        judge("damaged-object-modes/partition", case, res, [o["a"], o["b"], o["absent"]] + list(dmg.values()),
              [o["a"], o["b"]], [o["absent"]], path, [o["a"], o["b"]])
        if res[0] == "ok":
            ex = set(res[1])
            trusted = [oct(m) for m in modes if dmg[m] in ex]
            want = [oct(0o444)] if cls == "local" else [oct(m) for m in modes]
            if sorted(trusted) != sorted(want):
                ctx.oracle_fail("C12:audit:damaged-object-trusted-by-mode",
                                f"{cls} store: damaged objects reported existing at modes {trusted}; a damaged "
                                f"object is only trusted at {want} (is_protected: exactly 0o444)", case)
        impl.rm_rf(root)

        # ---- unparsable directory objects: existence only (shallow, no index); needed (expanded / index)
        for u in ("Unotjson", "Unotlist", "Ubadentry"):
            for mode in ("shallow", "expanded", "shallow+index"):
                root = ctx.fresh("au")
                odb, path = _audit_store(ctx, cls, root, "s", {o[u]: (data[u], 0o444), o["a"]: (data["a"], 0o444)})
                ix = get_index(odb) if mode == "shallow+index" else None
                case = {"cls": cls, "dir_object": u[1:], "mode": mode, "may_raise": mode != "shallow"}
                res, _ = call_status(odb, [hi(u), hi("a"), hi("absent")], shallow=mode != "expanded", index=ix)
                if ix is not None:
                    ix.close()
                judge(f"unparsable-dir/{u[1:]}/{mode}", case, res, [o[u], o["a"], o["absent"]], [o[u], o["a"]],
                      [o["absent"]], path, [o[u], o["a"]])
                impl.rm_rf(root)

        # ---- read-only store (consumer side)
        root = ctx.fresh("au")
        odb, path = _audit_store(ctx, cls, root, "s", {o["a"]: (data["a"], None), o["D"]: (data["D"], 0o444),
                                                       o["b"]: (data["b"], 0o444)}, read_only=True)
        for shallow in (True, False):
            res, _ = call_status(odb, [hi("a"), hi("D"), hi("g")], shallow=shallow)
            want = [o["a"], o["D"], o["g"]] + ([] if shallow else [o["b"]])
            judge("read-only-store/" + ("shallow" if shallow else "expanded"), {"cls": cls, "read_only": True}, res,
                  sorted(set(want)), [o["a"], o["D"]] + ([] if shallow else [o["b"]]), [o["g"]], path,
                  [o["a"], o["D"], o["b"]])
        impl.rm_rf(root)

        # ---- the no-op index class (a remote that is not indexed).  With ANY index object status assumes
        # that a directory object which is present has its files (the store is closed: b is there)
        root = ctx.fresh("au")
        odb, path = _audit_store(ctx, cls, root, "s", {o["a"]: (data["a"], 0o444), o["D"]: (data["D"], 0o444),
                                                       o["b"]: (data["b"], None)})
        for shallow in (True, False):
            res, _ = call_status(odb, [hi("D"), hi("b"), hi("a"), hi("g")], shallow=shallow,
                                 index=ObjectDBIndexNoop("x", "y"))
            judge("noop-index/" + ("shallow" if shallow else "expanded"), {"cls": cls, "index": "ObjectDBIndexNoop"},
                  res, [o["D"], o["b"], o["a"], o["g"]], [o["D"], o["a"], o["b"]], [o["g"]], path,
                  [o["a"], o["D"], o["b"]])
        impl.rm_rf(root)

        # ---- 3. identifiers: the same value under two algorithm names; a foreign algorithm name
        root = ctx.fresh("au")
        odb, path = _audit_store(ctx, cls, root, "s", {o["a"]: (data["a"], 0o444)})
        ids = [hi("a", "md5", "x"), hi("a", "md5-dos2unix", "x"), hi("b", "sha256")]
        res, r = call_status(odb, ids)
        case = {"cls": cls, "q": [[h.name, h.value, h.obj_name] for h in ids], "store": [o["a"]]}
        judge("two-algorithm-names/same-value", case, res, [o["a"], o["b"]], [o["a"]], [o["b"]], path, [o["a"]])
        if r is not None:
            got = {(h.name, h.value) for h in r.exists | r.missing}
            lost = sorted({(h.name, h.value) for h in ids} - got)
            if lost:
                # status() keys the queried ids by VALUE: of two ids with one value and different algorithm
                # names only the last is handed back.  Outside the property's reading of "identifier" in one
                # store (one algorithm per store); recorded, and raised only if the lead lists it as known.
                sig = "C12:audit:id-dropped:same-value-two-algorithm-names"
                observations[sig] = {"queried": case["q"], "handed_back": sorted(got), "dropped": lost}
                dim("audit: observed - id dropped when two algorithm names share a value")
                if sig in ctx.known:
                    ctx.oracle_fail(sig, f"queried {case['q']}; {lost} is in neither exists nor missing", case)
        impl.rm_rf(root)

    # ---- one index per store: two remotes whose locations differ only in LETTER CASE, same tmp_dir, indexes
    # from get_index(odb).  A closed push to .../Data must leave the index of .../data without the ids
    for cls in ("local", "base"):
        root = ctx.fresh("au")
        tmpd = os.path.join(root, "tmp")
        cache, _ = _audit_store(ctx, "local", root, "cache", {o[n]: (data[n], 0o444) for n in ("a", "b", "D")})
        r1, p1 = _audit_store(ctx, cls, root, "Data", {})
        r2, p2 = _audit_store(ctx, cls, root, "data", {})
        r1.tmp_dir = r2.tmp_dir = tmpd
        case = {"cls": cls, "remotes": ["<tmp>/Data", "<tmp>/data"], "tmp_dir": "shared",
                "ops": ["push [D, a, b] to Data (dest_index=get_index)", "status [a, b] on data (index=get_index)"]}
        n_cases += 1
        ctx.case(dict(case, kind="audit", scenario="index-per-store-case-twins"), True)
        dim("audit: index-per-store (locations differing in letter case)")
        ix1 = get_index(r1)
        res1 = transfer(cache, r1, {hi("D"), hi("a"), hi("b")}, dest_index=ix1, jobs=1)
        held1 = sorted(ix1.hashes())
        ix1.close()
        ix2 = get_index(r2)
        held2 = sorted(ix2.hashes())
        r = status(r2, [hi("a"), hi("b")], index=ix2, jobs=1)
        ix2.close()
        in2 = set(impl.walk_store(p2))
        what = []
        if res1.failed or not {o["D"], o["a"], o["b"]} <= set(impl.walk_store(p1)) or not held1:
            what.append(f"the closed push to Data did not deliver / index: failed={len(res1.failed)} index={held1}")
        bad = [x for x in held2 if x not in in2]
        if bad:
            what.append(f"the index of <tmp>/data holds {bad}: never delivered to that store and listed by no "
                        "directory object there")
        wrong = sorted(h.value for h in r.exists if h.value not in in2)
        if wrong:
            what.append(f"status through it reports {wrong} existing in <tmp>/data, which is empty")
        if what:
            ctx.oracle_fail("C12:index-invented:shared-between-stores", "; ".join(what), case)
        impl.rm_rf(root)

    # ---- compare_status: a directory object fine on one side, unparsable / missing on the other
    for dst_cls in ("local", "base"):
        for where in ("src", "dst"):
            for how in ("unparsable", "missing"):
                for shallow in (True, False):
                    for cd in (True, False):
                        root = ctx.fresh("au")
                        good = {o["D"]: (data["D"], 0o444), o["a"]: (data["a"], 0o444)}
                        bad = {o["a"]: (data["a"], 0o444)}
                        if how == "unparsable":
                            bad[o["D"]] = (b"{{{ not a listing", 0o444)   # protected: trusted by a local store
                        sp = good if where == "dst" else bad
                        dp = bad if where == "dst" else good
                        src, spath = _audit_store(ctx, "local", root, "src", sp)
                        dst, dpath = _audit_store(ctx, dst_cls, root, "dst", dp)
                        case = {"dst_cls": dst_cls, "directory": f"{how} in {where}", "shallow": shallow,
                                "check_deleted": cd,
                                # trees are loaded from cache_odb = src: expansion needs src's copy
                                "may_raise": (not shallow) and where == "src"}
                        n_cases += 1
                        ctx.case(dict(case, kind="audit", scenario="compare-dir-asymmetric"), True)
                        dim("audit: compare-dir-asymmetric")
                        ids = [hi("D", label="data"), hi("a"), hi("b")]
                        try:
                            r = compare_status(src, dst, ids, check_deleted=cd, shallow=shallow)
                        except Exception as exc:  # noqa: BLE001
                            dim(f"audit: raised {type(exc).__name__}")
                            if not case["may_raise"]:
                                ctx.oracle_fail(f"C12:audit:unexpected-exception:{type(exc).__name__}",
                                                f"compare_status raised {type(exc).__name__}", case)
                            impl.rm_rf(root)
                            continue
                        S, Dd = set(impl.walk_store(spath)) | set(sp), set(dp)
                        qv = {o["D"], o["a"], o["b"]} | (set() if shallow else {o["a"], o["b"]})
                        got = {k: {h.value for h in getattr(r, k)} for k in ("ok", "missing", "new", "deleted")}
                        if (not cd) and qv <= Dd:
                            want = {"ok": qv, "missing": set(), "new": set(), "deleted": set()}
                        else:
                            want = {"ok": qv & S & Dd, "missing": qv - S - Dd, "new": (qv & S) - Dd,
                                    "deleted": (qv & Dd) - S}
                        if got != want:
                            ctx.oracle_fail("C12:audit:compare-dir-asymmetric",
                                            f"got { {k: sorted(v) for k, v in got.items()} }, membership says "
                                            f"{ {k: sorted(v) for k, v in want.items()} }", case)
                        impl.rm_rf(root)

    # ---- 7. a fault inside the existence query of one batch (per-id strategy), at each position
    class FaultyExists(FsspecLocalFileSystem):
        bad = None

        def exists(self, path, **kw):
            if self.bad and self.bad in str(path):
                raise OSError(errno.EIO, "injected fault in the existence query")
            return super().exists(path, **kw)

    zz = {impl.md5hex(b): (b, 0o444) for b in ZZ}
    names = ["a", "b", "g", "absent"]
    for pos, victim in (("first", "a"), ("middle", "b"), ("last", "absent")):
        for jobs in (1, 2):
            root = ctx.fresh("au")
            ffs = FaultyExists(skip_instance_cache=True)
            planted = dict(zz)
            planted.update({o[n]: (data[n], 0o444) for n in ("a", "b", "g")})
            odb, path = _audit_store(ctx, "base", root, "s", planted, fs=LocalFileSystem(fs=ffs))
            ffs.bad = o[victim][2:]
            res, _ = call_status(odb, [hi(n) for n in names], jobs=jobs)
            case = {"cls": "base", "strategy": "per-id exists (00-objects planted)", "fault": f"EIO on the {pos} id",
                    "jobs": jobs, "may_raise": True}
            others = [n for n in names if n != victim]
            n_cases += 1
            ctx.case(dict(case, kind="audit", scenario="fault-in-existence-query"), True)
            dim("audit: fault-in-existence-query")
            if res[0] == "exc":
                dim(f"audit: raised {res[1]}")
            else:
                ex = set(res[1])
                wrong = [n for n in others if (o[n] in ex) != (n != "absent")]
                if wrong:
                    ctx.oracle_fail("C12:audit:fault-in-existence-query",
                                    f"a fault on one id changed the answer for other ids {wrong}", case)
                if victim != "absent" and o[victim] not in ex:
                    observations["C12:audit:fault-swallowed-reported-missing"] = case
            impl.rm_rf(root)
    ctx.obligation("oracle:audit-dimensions", not any(v.signature.startswith("C12:audit") for v in ctx.violations),
                   f"{n_cases} fixed scenarios outside the model's assumptions (COVERAGE_AUDIT.md), judged by the oracle")


def load_corpus():
    d = os.path.join(os.path.dirname(os.path.dirname(os.path.dirname(os.path.abspath(__file__)))),
                     "corpus", PROPERTY)
    out = []
    if os.path.isdir(d):
        for fn in sorted(os.listdir(d)):
            if fn.endswith(".json"):
                with open(os.path.join(d, fn)) as f:
                    out.append(json.load(f))
    return out


RUNNERS = {"status": run_status_case, "compare": run_compare_case}


def record_dimensions(st_cases, cmp_cases, h_cases):
    """tools/COVERAGE_AUDIT.md: dimension -> number of cases of this run that had it"""
    odd = set(ODD_RELPATHS)

    def names_dims(c):
        rps = {e[0] for ents in c["dirs"].values() for e in ents}
        if rps & odd:
            dim("names: unusual entry names inside a listing")
        if {"caf\u00e9.txt", "cafe\u0301.txt"} <= rps:
            dim("names: NFC next to its NFD twin in one listing")
        if any(len(r) >= 200 for r in rps):
            dim("names: 200-character entry name")

    for c in st_cases:
        names_dims(c)
        qd = [n for n in c["q"] if n.startswith("D")]
        if any(c["dirs"].get(n) == [] for n in qd):
            dim("ids: the EMPTY listing's oid queried")
        if any(len({f for _, f in c["dirs"].get(n, [])}) < len(c["dirs"].get(n, [])) for n in c["dirs"]):
            dim("shapes: identical contents twice in one directory")
        if c.get("labels"):
            dim("ids: obj_name labels on queried ids")
            if any(c["q"][int(i)].startswith("D") for i in c["labels"] if int(i) < len(c["q"])):
                dim("ids: obj_name label on a directory id")
        dim(f"status: jobs={c.get('jobs', 1)}")
        dim("status: name=" + ("explicit" if c.get("name") else "None"))
        ix = c.get("index")
        dim("status: index " + ("none" if ix is None else "empty" if not ix else "pre-filled (stale/partial possible)"))
        dim("status: " + ("shallow" if c["shallow"] else "expanded"))
        dim("status: cache_odb " + ("separate" if c.get("cache") is not None else "the store itself"))
        dim(f"stores: class={c['cls']}, lookup={c['strategy']}")
        if c["cls"] == "local" and set(c.get("unprot", ())) & set(c["store"]):
            dim("state: valid UNPROTECTED object in a local store")
        if c.get("lived"):
            dim("route: long-lived handle + second writer")
        if c.get("sweep"):
            dim("ids: last-hex-digit sweep (file and .dir ids)")
        if len(c["q"]) != len(set(c["q"])):
            dim("ids: the same id twice in one request")
        if ix and any(n not in c["store"] for n, f in ix if f):
            dim("index: stale (lists a directory that is not in the store)")
        if ix and any(f and any(fn not in [m for m, _ in ix] for _, fn in c["dirs"].get(n, [])) for n, f in ix):
            dim("index: partial (a directory without all its files)")
    for c in cmp_cases:
        names_dims(c)
        dim("compare: check_deleted=%s src_index=%s dest_index=%s shallow=%s"
            % (c["check_deleted"], c["six"] is not None, c["dix"] is not None, c["shallow"]))
        dim(f"compare: dest class={c['cls']}")
        if c.get("lived_src") or c.get("lived_dst"):
            dim("route: long-lived handle + second writer")
        for d in [n for n in c["q"] if n.startswith("D")]:
            if d in c["src"] and d not in c["dst"]:
                dim("compare: queried directory object only in src")
            if d in c["dst"] and d not in c["src"]:
                dim("compare: queried directory object only in dst")
    for c in h_cases:
        names_dims(c)
        kinds = [o["op"] for o in c["ops"]]
        if "delete" in kinds and "push" in kinds[kinds.index("delete"):]:
            dim("history: push after an external deletion (re-push)")
        for o in c["ops"]:
            for n in o.get("fails", ()):
                dim("faults: upload " + o.get("kinds", {}).get(n, "eio") + (" on a .dir object" if n.startswith("D") else " on a file"))


def run(ctx):
    rng = ctx.rng
    DIMS.clear()
    corpus = load_corpus()
    st_cases = [c for c in corpus if c["kind"] == "status"]
    cmp_cases = [c for c in corpus if c["kind"] == "compare"]
    h_cases = [c for c in corpus if c["kind"] == "history"]
    ctx.count("corpus", len(corpus))
    gen_st = [gen_status_case(rng) for _ in range(ctx.n(195, 1300))]
    digit_sweep(gen_st)
    for c in gen_st:
        if c.get("sweep"):
            ctx.count("status:sweep:" + c["sweep"].split("-")[0] + "-id-last-digit")
    st_cases += fixed_status_cases() + gen_st
    cmp_cases += compare_flag_sweep() + [gen_compare_case(rng) for _ in range(ctx.n(104, 600))]
    max_ops = 10 if ctx.tier == "quick" else 30
    for _ in range(ctx.n(70, 400)):
        h_cases.append(gen_history_case(rng, max_ops, closed=rng.random() < 0.8))

    st_items, cmp_items, h_items = [], [], []
    n_real = 16  # the first cases of each stream are evaluated on the real 32-character ids
    for k, c in enumerate(st_cases):
        inp, exp, problems, nontrivial, _ = run_status_case(ctx, c, real_ids=k < n_real)
        ctx.case(c, nontrivial)
        for sig, what in problems:
            ctx.oracle_fail(sig, what, c)
        st_items.append((c, inp, exp))
    for k, c in enumerate(cmp_cases):
        inp, exp, problems, nontrivial, _ = run_compare_case(ctx, c, real_ids=k < n_real)
        ctx.case(c, nontrivial)
        for sig, what in problems:
            ctx.oracle_fail(sig, what, c)
        cmp_items.append((c, inp, exp))
    agg = {}
    for c in h_cases:
        inp, exp, problems, nontrivial, rc, stats = run_history_case(ctx, c)
        ctx.case(rc, nontrivial)
        ctx.count("history:" + ("closed" if c.get("closed", True) else "open") + f"/{c['cls']}")
        for o in rc["ops"]:
            ctx.count("history-op:" + o["op"])
        for k, v in stats.items():
            agg[k] = agg.get(k, 0) + v
        done = set()
        for sig, what in problems:
            if sig in done:
                continue
            done.add(sig)
            known = ctx.known.get(sig, {}).get("status") == "known"
            small = rc if known else shrink_history(ctx, rc, sig)
            if small is not rc:
                _, _, p2, _, _, _ = run_history_case(ctx, small)
                what = next((w for s, w in p2 if s == sig), what)
            ctx.oracle_fail(sig, what, small)
        h_items.append((rc, inp, exp))
    for k, v in agg.items():
        ctx.count("history-events:" + k, v)

    run_audit(ctx)
    record_dimensions(st_cases, cmp_cases, [it[0] for it in h_items])
    ctx.extra["input_dimensions"] = dict(sorted(DIMS.items()))

    bad = [v for v in ctx.violations if v.kind == "oracle"]
    ctx.obligation("oracle:status-exact-and-partition", not any("status-" in v.signature or "error" in v.signature
                                                                or "unloadable" in v.signature for v in bad),
                   f"{len(st_items)} real status() calls judged against an independent listing")
    ctx.obligation("oracle:compare-four-way", not any("compare-" in v.signature for v in bad),
                   f"{len(cmp_items)} real compare_status() calls judged against the two listings")
    ctx.obligation("oracle:dir-fresh-and-stale-cleared",
                   not any("stale-" in v.signature for v in bad),
                   "every directory reported existing through an index was in the store at query time")
    ctx.obligation("oracle:index-sound-over-histories",
                   not any("index-invented" in v.signature or "closure-lost" in v.signature
                           or "operation-removed" in v.signature for v in bad),
                   f"{len(h_items)} histories, index-soundness clause evaluated after every operation")
    # small shards: the three streams are evaluated by parallel coqc processes (real 32-character
    # ids as gmap keys make one vm_compute of 200 cases take > 20 s in a single process)
    quick = ctx.tier == "quick"
    ctx.correspond("status", IMPORTS, "status_case", "run_status_case", st_items,
                   shard=40 if quick else 250)
    ctx.correspond("compare", IMPORTS, "compare_case", "run_compare_case", cmp_items,
                   shard=30 if quick else 150)
    ctx.correspond("history", IMPORTS, "history_case", "run_history_case", h_items,
                   shard=18 if quick else 60)


def replay_case(ctx, case):
    if case.get("kind") == "history":
        _, _, problems, _, rc, stats = run_history_case(ctx, case)
        return {"problems": problems, "stats": stats, "violates": bool(problems)}
    _, _, problems, _, res = RUNNERS[case["kind"]](ctx, case)
    return {"result": res, "problems": problems, "violates": bool(problems)}
