"""C08 - index diff is exact: every key once, correctly classified, renames paired."""

import collections
import copy
import hashlib
import itertools
import json
import os

from lib import impl
from lib.core import VERIF, cN, cbool, cbytes, clist, copt, cpair, vL, vN

PROPERTY = "C08"
GEN: list = ["types", "idiff"]
RULE = (
    "pairs of in-memory DataIndex objects derived from one random base tree (depth <= 4, names with a "
    "common prefix and a non-ASCII one) by independent perturbations: delete / add / move (same hash -> "
    "rename candidates) / change hash / change or drop metadata / drop or empty the hash / file<->directory "
    "kind change / implicit<->explicit directory entry / hashed<->unhashed directory / a valued root key; "
    "directory hashes are digests of the hashed descendants (hash-consistent by construction); one side "
    "None or empty; each pair x a seeded sample of the 64 option sets (with_renames, with_unchanged, "
    "hash_only, meta_only, meta_cmp_key in {(isdir,isexec), etag only, md5 only - the last two are None for a Meta "
    "without the field, the shape of push._meta_checksum}, shallow); a `disk` stream: sides built through "
    "DataIndex.open on a scratch file by a generated HISTORY (sets in random order, overwritten values, ghost "
    "entries set and removed again by del / pop / delete_node, explicit entries on implicit directories removed "
    "again, reads, commits, close + reopen) whose final map is the case, the model runs on final_map(history); a "
    "`roots` stream; an `audit` stream (tools/COVERAGE_AUDIT.md) that runs in EVERY run: fixed pairs for odd names "
    "(backslash, space, leading dot, Cyrillic/CJK/emoji, NFC next to NFD twin, `.dir`-suffixed file and directory "
    "names, prefix siblings, 1 and 200 characters, case twins), shapes (empty directories, a directory of empty "
    "directories, depth 5, intermediate-only directories, file vs directory-with-children at depth 0 and 2, root "
    "entry on one side / both / a root FILE entry, single-entry and empty indexes, None on either side, duplicate "
    "contents), entries (each optional Meta field absent / zero / value, eq=False fields, obj_name labels, loaded "
    "flags, hash absent vs present, one value under two algorithm names), forced flag pairs, x back ends (memory, "
    "SQLite commit+reopen, view(index, filter) on either side), + oracle-only: with_unknown / a non-default "
    "callback leave the result unchanged, a lazily loaded directory whose object is MISSING; a `lazy` stream: pairs of directory trees stored as tree objects, the index holding only the "
    "unloaded directory entry at () / (data,) / (a,b) on one or both sides (other side: the explicit twin, or "
    "None, or the same tree), diffed with and without with_unchanged, renames, hash_only/meta_only, roots at "
    "or below the mount, and shallow (oracle only); a separate malformed stream (equal "
    "directory hash over different children, file entries with children, directory entries without "
    "isdir metadata) where only model = implementation is required; the three _diff_* deciders on the "
    "full abstract product 31 x 31 entries x 32 flag sets (+ 8 x 8 metas x 4 cmp keys, 6 x 6 hashes), each "
    "also judged by the independent key-by-key classification; info/ls/has_node on every node and some "
    "non-nodes. A diff case is non-trivial when it reports >= 2 changes of >= 2 kinds or a rename."
)
ASSUMPTIONS = [
    "DataIndex in memory (PyGTrie) or SQLite backed (DataIndex.open); lazy loading only in the `lazy` stream: a "
    "directory entry (isdir, .dir hash, not loaded) whose tree object is in an ObjectStorage of the storage map, "
    "mounted at the ROOT key () or below a key, always loadable - so DataIndexDirError/UNKNOWN cannot arise and "
    "`with_unknown` is left out of the proved core; the model and the oracle run on the explicitly built twin "
    "(what index.py:_load_from_object_storage creates); shallow runs of lazy pairs (the directory is never "
    "loaded) are judged by the oracle only; a directory whose object is MISSING: the index knows only the "
    "directory entry, so without with_unknown the result must be the flat reference over the known entries and "
    "with it every key below it is UNKNOWN exactly once (oracle only, with_unknown is outside the model)",
    "view(index, filter): the model runs on the visible twin (entries all of whose non-empty prefixes pass the filter)",
    "an index is its final key -> entry map (C08_history_final_map / _final_only); on-disk sides use entries whose "
    "observable form survives to_dict/from_dict (no mtime, no all-default Meta on an unhashed entry, no falsy "
    "HashInfo object) so that a cached and a re-read entry look the same; delete_node is used on leaves only",
    "the default callback; `roots` other than [()]: modelled (diff_core_roots), tied by correspondence + the "
    "restricted flat-reference oracle, proved for shallow=False (C08_roots_closed / _multi / _exact; overlapping "
    "roots report a sub-tree once per covering root: C08_roots_once_refuted) and for any options incl. shallow "
    "(C08_roots_closed_gen / _keys_once_gen / _shallow)",
    "entry.key equals the key the entry is stored under",
    "Meta / HashInfo equality is attrs equality over the eq=True fields (generated meta_eqb / hashinfo_eqb) with "
    "values that are reflexive under == (no NaN mtime); meta_cmp_key is a pure function of the Meta",
    "C08_refines / C08_keys_once / C08_exact / C08_no_hiding assume well-formed indexes (every strict prefix of a "
    "valued key is value-less or a directory entry) and, where the hash_only shortcut can fire, HashConsistent "
    "(equal directory hashes have hash-equal sub-tries: true when the hash is a collision-free digest of the children)",
    "the theorems about the descent are for shallow=False; shallow=True is covered by C08_refl, C08_range, the "
    "correspondence and the oracle (keys not below a hashed entry equal the flat reference) only",
    "swap is proved for any options incl. shallow and renames (C08_swap_gen / C08_swap_renames_gen)",
    "set iteration order (old_items.keys() | new_items.keys()) is unobservable: outputs are compared as multisets",
    "the translator (translator/units.py units `types`, `idiff`) is trusted as far as the exhaustive decider "
    "correspondence (31 x 31 entries x 32 flag sets against the real functions) does not exercise it; the "
    "decider oracle judges the real functions independently of the translation",
]

IMPORTS = "From Coq Require Import NArith List.\nFrom DvcData Require Import Base.PyBase Gen.PyTypes Gen.IDiff Model.Trie Model.IndexDiff."

ADD, MODIFY, RENAME, DELETE, UNCHANGED, UNKNOWN = "add", "modify", "rename", "delete", "unchanged", "unknown"
TYP_CODE = {ADD: 1, MODIFY: 2, RENAME: 3, DELETE: 4, UNCHANGED: 5, UNKNOWN: 6}
META_FIELDS = ("isdir", "size", "nfiles", "isexec", "md5", "mtime", "etag", "version_id", "checksum", "inode")
META_DEFAULT = {"isdir": False, "size": None, "nfiles": None, "isexec": False, "md5": None, "mtime": None,
                "etag": None, "version_id": None, "checksum": None, "inode": None}
# fields with eq=False: never part of a comparison
META_NOEQ_DEFAULT = {"remote": None, "is_link": False, "destination": None, "nlink": 1}
META_EXTRA = ("version_id", "checksum", "inode", "remote", "is_link", "destination", "nlink")
CMP_KINDS = [None, "ie", "etag", "md5"]      # the cmp selector of Model/IndexDiff.v: cmp_of_sel

NAMES = ["a", "b", "ab", "c", "é", "B"]
CONTENTS = ["h1", "h2", "h3", "h4", "h5", "h6"]

# --------------------------------------------------------------------------------------
# option sets


def opt_flags(code):
    return {
        "with_renames": bool(code & 1),
        "with_unchanged": bool(code & 2),
        "hash_only": bool(code & 4),
        "meta_only": bool(code & 8),
        "cmp": "ie" if code & 16 else "etag" if code & 64 else "md5" if code & 128 else None,
        "shallow": bool(code & 32),
    }


def _cmp_key(m):
    return (m.isdir, m.isexec) if m else None


def _cmp_etag(m):
    # the shape of dvc_data.index.push._meta_checksum: None for a Meta that carries no etag
    return m.etag if m else None


def _cmp_md5(m):
    return m.md5 if m else None


CMP_FN = {None: None, "ie": _cmp_key, "etag": _cmp_etag, "md5": _cmp_md5}


# --------------------------------------------------------------------------------------
# driving the implementation


def mk_meta(m):
    from dvc_data.hashfile.meta import Meta

    if m is None:
        return None
    return Meta(**{k: (float(v) if k == "mtime" and v is not None else v) for k, v in m.items()
                   if not k.startswith("_")})


def mk_hash(h):
    from dvc_data.hashfile.hash_info import HashInfo

    if h is None:
        return None
    return HashInfo(h[0], h[1], *(h[2:3]))      # optional obj_name label (eq=False)


def mk_entry(k, m, h):
    from dvc_data.index import DataIndexEntry

    loaded = m.get("_loaded") if m else None      # the `loaded` flag rides in the meta dict of a case
    return DataIndexEntry(key=tuple(k), meta=mk_meta(m), hash_info=mk_hash(h), loaded=loaded)


def build_index(entries):
    from dvc_data.index import DataIndex

    if entries is None:
        return None
    idx = DataIndex()
    for k, m, h in entries:
        idx[tuple(k)] = mk_entry(k, m, h)
    return idx


def obs_side(e):
    if e is None:
        return None
    hi = e.hash_info
    return {
        "key": tuple(e.key),
        "hash": None if hi is None else (hi.name, hi.value),
        "meta": None if e.meta is None else bool(e.meta.isdir),
    }


# ---- on-disk (SQLite backed) indexes built through a history ----------------------------------------
_DISK = {"dir": None, "n": 0}


def apply_hist(ops):
    """DataIndex.open(<fresh file>) taken through `ops`; the final key -> entry map is the case's entries"""
    from dvc_data.index import DataIndex

    _DISK["n"] += 1
    path = os.path.join(_DISK["dir"], "i%d.db" % _DISK["n"])
    idx = DataIndex.open(path)
    for op in ops:
        what = op[0]
        if what == "set":
            idx[tuple(op[1])] = mk_entry(op[1], op[2], op[3])
        elif what == "del":
            del idx[tuple(op[1])]
        elif what == "pop":
            idx.pop(tuple(op[1]))
        elif what == "delete_node":
            idx.delete_node(tuple(op[1]))
        elif what == "read":
            idx.get(tuple(op[1]))
        elif what == "commit":
            idx.commit()
        elif what == "reopen":
            idx.commit()
            idx.close()
            idx = DataIndex.open(path)
    return idx, path


def get_odb():
    """one scratch object store per run, holding the directory (tree) objects of the lazy stream"""
    from dvc_objects.fs.local import LocalFileSystem

    from dvc_data.hashfile.db import HashFileDB

    if _DISK.get("odb") is None:
        path = os.path.join(_DISK["dir"], "odb")
        os.makedirs(path, exist_ok=True)
        _DISK["odb"] = HashFileDB(LocalFileSystem(), path)
    return _DISK["odb"]


def tree_listing(files):
    """files: [[relkey, oid, size|None, isexec]] -> (raw bytes of the .dir object, its oid)"""
    lst = []
    for rel, oid, size, isexec in sorted(files, key=lambda f: "/".join(f[0])):
        d = {"md5": oid, "relpath": "/".join(rel)}
        if size is not None:
            d["size"] = size
        if isexec:
            d["isexec"] = True
        lst.append(d)
    raw = json.dumps(lst, sort_keys=True).encode()
    return raw, hashlib.md5(raw).hexdigest() + ".dir"  # noqa: S324


def build_lazy(spec):
    """an index whose directory entry at spec["mount"] is NOT loaded: its content is the tree object in the
    object storage of the storage map and appears when diff lists the directory"""
    from dvc_data.hashfile.hash_info import HashInfo
    from dvc_data.hashfile.meta import Meta
    from dvc_data.index import DataIndex, DataIndexEntry, ObjectStorage

    odb = get_odb()
    raw, oid = tree_listing(spec["files"])
    if not spec.get("missing") and not odb.exists(oid):
        odb.add_bytes(oid, raw)
    mount = tuple(spec["mount"])
    idx = DataIndex()
    idx[mount] = DataIndexEntry(key=mount, meta=Meta(isdir=True), hash_info=HashInfo("md5", oid))
    for k, m, h in spec.get("extra", []):
        idx[tuple(k)] = mk_entry(k, m, h)
    idx.storage_map.add_cache(ObjectStorage((), odb))
    return idx


def lazy_twin(spec):
    """the explicitly built twin: what the lazy index holds once the directory has been loaded
    (index.py:_load_from_object_storage)"""
    mount = list(spec["mount"])
    _, oid = tree_listing(spec["files"])
    out = [[mount, {"isdir": True}, ["md5", oid]]]
    dirs = set()
    for rel, foid, size, isexec in spec["files"]:
        m = {"md5": foid}
        if size is not None:
            m["size"] = size
        if isexec:
            m["isexec"] = True
        out.append([mount + list(rel), m, ["md5", foid]])
        for i in range(1, len(rel)):
            dirs.add(tuple(rel[:i]))
    for d in sorted(dirs):
        out.append([mount + list(d), {"isdir": True}, None])
    return out + [list(e) for e in spec.get("extra", [])]


def view_pass(hide, k):
    return not any(n in hide for n in k)


def build_view(spec):
    """view(index, filter_fn) over the FULL index spec["full"]; the case's entries are the visible twin"""
    from dvc_data.index import view

    hide = set(spec["view"])
    return view(build_index(spec["full"]), lambda k: view_pass(hide, k))


def view_twin(full, hide):
    hide = set(hide)
    return [e for e in full if not e[0] or view_pass(hide, e[0])]


def build_side(entries, hist):
    if entries is None or hist is None:
        return build_index(entries), None
    if isinstance(hist, dict) and "view" in hist:
        return build_view(hist), None
    if isinstance(hist, dict):
        if hist.get("view_all"):
            # an all-pass view over the LAZY index: the diff (view.ls with detail) is the first access of the directory
            from dvc_data.index import view

            return view(build_lazy(hist), lambda k: True), None
        return build_lazy(hist), None
    return apply_hist(hist)


def real_diff(old_entries, new_entries, code, roots=None, hist=None, extra=None):
    """-> ("ok", [ (typ, old side, new side) ]) | ("err", code); hist = {"old": ops|None, "new": ops|None}"""
    from dvc_data.index.diff import diff

    f = opt_flags(code)
    hist = hist or {}
    old = new = None
    po = pn = None
    try:
        old, po = build_side(old_entries, hist.get("old"))
        new, pn = build_side(new_entries, hist.get("new"))
        out = list(diff(old, new, with_renames=f["with_renames"], with_unchanged=f["with_unchanged"],
                        hash_only=f["hash_only"], meta_only=f["meta_only"],
                        meta_cmp_key=CMP_FN[f["cmp"]], shallow=f["shallow"], **(extra or {}),
                        **({} if roots is None else {"roots": [tuple(r) for r in roots]})))
        res = ("ok", [(c.typ, obs_side(c.old), obs_side(c.new)) for c in out])
    except Exception as exc:  # noqa: BLE001
        res = ("err", impl.err_code(exc), type(exc).__name__)
    for ix, pth in ((old, po), (new, pn)):
        if pth is not None:
            try:
                ix.close()
            except Exception:  # noqa: BLE001, S110
                pass
            for suffix in ("", "-wal", "-shm", "-journal"):
                try:
                    os.remove(pth + suffix)
                except OSError:
                    pass
    return res


def swap_hist(hist):
    return None if hist is None else {"old": hist.get("new"), "new": hist.get("old")}


# flat encodings, mirrored by flat_side / flat_change in Model/IndexDiff.v


def flat_bytes(s):
    return [len(s)] + [ord(c) for c in s]


def flat_key(k):
    out = [len(k)]
    for n in k:
        out += flat_bytes(n)
    return out


def flat_side(s):
    if s is None:
        return [0]
    out = [1] + flat_key(s["key"])
    if s["hash"] is None:
        out += [0]
    else:
        v = s["hash"][1]
        out += [1] + ([0] if v is None else [1] + flat_bytes(v))
    out += [0] if s["meta"] is None else [1, 1 if s["meta"] else 0]
    return out


def flat_change(c):
    return [TYP_CODE[c[0]]] + flat_side(c[1]) + flat_side(c[2])


def val_changes(changes):
    rows = sorted(flat_change(c) for c in changes)
    return vL(["VB [" + ";".join(map(str, r)) + "]" for r in rows])


def val_result(res):
    if res[0] == "ok":
        return vL([vN(1), val_changes(res[1])])
    return vL([vN(0), vN(res[1])])


# Coq input terms


def c_optbytes(s):
    return copt(s, cbytes)


def c_meta(m):
    if m is None:
        return "None"
    d = {**META_DEFAULT, **META_NOEQ_DEFAULT, **m}
    if any(f in m for f in META_EXTRA):
        return "(Some (MF %s %s %s %s %s %s %s %s %s %s %s %s %s %s))" % (
            cbool(d["isdir"]), copt(d["size"], cN), copt(d["nfiles"], cN), cbool(d["isexec"]),
            c_optbytes(d["version_id"]), c_optbytes(d["etag"]), c_optbytes(d["checksum"]), c_optbytes(d["md5"]),
            copt(d["inode"], cN), copt(d["mtime"], cN), c_optbytes(d["remote"]), cbool(d["is_link"]),
            c_optbytes(d["destination"]), cN(d["nlink"]))
    return "(Some (M %s %s %s %s %s %s %s))" % (cbool(d["isdir"]), copt(d["size"], cN), copt(d["nfiles"], cN),
                                               cbool(d["isexec"]), c_optbytes(d["md5"]), copt(d["mtime"], cN),
                                               c_optbytes(d["etag"]))


def c_hash(h):
    if h is None:
        return "None"
    if len(h) > 2:
        return "(Some (H3 %s %s %s))" % (c_optbytes(h[0]), c_optbytes(h[1]), c_optbytes(h[2]))
    return "(Some (H %s %s))" % (c_optbytes(h[0]), c_optbytes(h[1]))


def c_key(k):
    return clist([cbytes(n) for n in k])


def c_entry(m, h):
    if m and "_loaded" in m:
        return "(EL %s %s (Some %s))" % (c_meta(m), c_hash(h), cbool(m["_loaded"]))
    return "(E %s %s)" % (c_meta(m), c_hash(h))


def c_index(entries):
    if entries is None:
        return "None"
    return "(Some %s)" % clist([cpair(c_key(k), c_entry(m, h)) for k, m, h in entries])


def c_side(entries, hist):
    """a side of a diff case as a Coq term: the literal map, or [final_map] of its build history"""
    if entries is None or hist is None or isinstance(hist, dict):
        return c_index(entries)
    ops = []
    for op in hist:
        if op[0] == "set":
            ops.append("(HSet %s %s)" % (c_key(op[1]), c_entry(op[2], op[3])))
        elif op[0] in ("del", "pop", "delete_node"):      # delete_node is only used on leaves
            ops.append("(HDel %s)" % c_key(op[1]))
    return "(Some (final_map %s))" % clist(ops)


# --------------------------------------------------------------------------------------
# the oracle: an independent, flat, dictionary based classification (no descent)


def truthy(h):
    return h is not None and bool(h[1])


def norm(entry):
    """(meta dict|None, hash|None) as the index presents it: a hashed entry without metadata
    counts as default metadata"""
    if entry is None:
        return None
    m, h = entry
    if m is None and truthy(h):
        m = {}
    return (None if m is None else {**META_DEFAULT, **m}, h)


def cmp_hash(a, b):
    ta, tb = truthy(a), truthy(b)
    if not ta and not tb:
        return UNCHANGED
    if ta and not tb:
        return DELETE
    if tb and not ta:
        return ADD
    return UNCHANGED if tuple(a[:2]) == tuple(b[:2]) else MODIFY      # (name, value); obj_name is a label


def cmp_meta(a, b, use_cmp):
    """presence first (on the metadata themselves, never on their projections), then the projections"""
    if a is None and b is None:
        return UNCHANGED
    if a is None:
        return ADD
    if b is None:
        return DELETE
    if use_cmp == "ie":
        same = (a["isdir"], a["isexec"]) == (b["isdir"], b["isexec"])
    elif use_cmp in ("etag", "md5"):
        same = a[use_cmp] == b[use_cmp]
    else:
        same = all(a[f] == b[f] for f in META_FIELDS)
    return UNCHANGED if same else MODIFY


def flat_classify(a, b, f):
    """a, b: normalised entries or None (not both)"""
    am, ah = a if a else (None, None)
    bm, bh = b if b else (None, None)
    mc = cmp_meta(am, bm, f["cmp"])
    hc = cmp_hash(ah, bh)
    if f["meta_only"]:
        return mc
    if f["hash_only"]:
        return hc
    if a is None:
        return ADD
    if b is None:
        return DELETE
    # both present
    if not truthy(ah) and not truthy(bh):
        return mc  # no hash on either side: the metadata decide (appeared / vanished / differ)
    if am is None and bm is None:
        return hc  # no metadata on either side: the hashes decide
    return UNCHANGED if (mc == UNCHANGED and hc == UNCHANGED) else MODIFY


def as_dict(entries):
    return {} if entries is None else {tuple(k): (m, h) for k, m, h in entries}


def flat_reference(old_entries, new_entries, f):
    o, n = as_dict(old_entries), as_dict(new_entries)
    out = collections.Counter()
    for k in set(o) | set(n):
        a, b = norm(o.get(k)), norm(n.get(k))
        t = flat_classify(a, b, f)
        if t == UNCHANGED and not f["with_unchanged"]:
            continue
        out[(t, k if a else None, k if b else None)] += 1
    return out


def is_wf(entries):
    d = as_dict(entries)
    if entries is not None and len(d) != len(entries):
        return False
    for k in d:
        for i in range(len(k)):
            p = k[:i]
            if p in d:
                e = norm(d[p])
                if not (e[0] and e[0]["isdir"]):
                    return False
    return True


def is_consistent(old_entries, new_entries):
    o, n = as_dict(old_entries), as_dict(new_entries)
    for d, (m, h) in o.items():
        if d in n and truthy(h) and h[1].endswith(".dir") and tuple((n[d][1] or ())[:2]) == tuple(h[:2]):
            for k in set(o) | set(n):
                if len(k) > len(d) and k[: len(d)] == d:
                    if cmp_hash(o.get(k, (None, None))[1], n.get(k, (None, None))[1]) != UNCHANGED:
                        return False
    return True


def change_key(c):
    typ, old, new = c
    if typ == ADD:
        return new["key"]
    if typ == DELETE:
        return old["key"]
    return (old or new)["key"]


def swap_change(c):
    typ, old, new = c
    t = {ADD: DELETE, DELETE: ADD}.get(typ, typ)
    return (t, new, old)


def canon(changes):
    return collections.Counter(json.dumps(flat_change(c)) for c in changes)


def below_hashed(k, o, n):
    for i in range(len(k)):
        p = k[:i]
        if (p in o and truthy(o[p][1])) or (p in n and truthy(n[p][1])):
            return True
    return False


def oracle(old_entries, new_entries, code, res, hist=None):
    """problems = [(signature, what)] of the property on the real output"""
    f = opt_flags(code)
    both = old_entries is not None and new_entries is not None
    problems = []
    if res[0] == "err":
        if f["with_renames"] and f["meta_only"] and both and res[2] == "AssertionError":
            return problems  # documented: `assert not meta_only`
        return [(f"C08:unexpected-exception:{res[2]}", f"diff raised {res[2]}")]
    changes = res[1]
    renames_on = f["with_renames"] and both
    o, n = as_dict(old_entries), as_dict(new_entries)

    # sides are what the indexes hold
    for typ, old, new in changes:
        if typ == UNKNOWN:
            problems.append(("C08:unknown-reported", "UNKNOWN reported without with_unknown"))
        if old is not None and old["key"] not in o:
            problems.append(("C08:invented-key", f"old side {old['key']} is not a key of the old index"))
        if new is not None and new["key"] not in n:
            problems.append(("C08:invented-key", f"new side {new['key']} is not a key of the new index"))
        if typ != RENAME and old is not None and new is not None and old["key"] != new["key"]:
            problems.append(("C08:mixed-keys", "a non-rename change relates two different keys"))
        if typ == UNCHANGED and not f["with_unchanged"]:
            problems.append(("C08:unchanged-reported", "unchanged entry reported without with_unchanged"))

    # the rename-free run of the same options (for with_renames: what _detect_renames consumed)
    if renames_on:
        pres = real_diff(old_entries, new_entries, code & ~1, hist=hist)
        if pres[0] != "ok":
            return [(f"C08:unexpected-exception:{pres[2]}", f"diff raised {pres[2]}")]
        plain = pres[1]
    else:
        plain = changes

    # every key once
    keys = [change_key(c) for c in plain]
    dup = [k for k, c in collections.Counter(keys).items() if c > 1]
    if dup:
        problems.append(("C08:key-reported-twice", f"keys reported more than once: {sorted(dup, key=repr)}"))

    # exactness against the flat reference
    got = collections.Counter((c[0], c[1] and c[1]["key"], c[2] and c[2]["key"]) for c in plain)
    ref = flat_reference(old_entries, new_entries, f)
    if not f["shallow"]:
        if got != ref:
            missing = ref - got
            extra = got - ref
            mk = {(a if a is not None else b) for _, a, b in missing}
            ek = {(a if a is not None else b) for _, a, b in extra}
            combo = False
            if f["meta_only"] and f["hash_only"] and (mk - ek):
                # the label of /repo bc9d16e is used only when the COMBINATION hides the keys: the same diff with
                # meta_only alone is exact
                r2 = real_diff(old_entries, new_entries, code & ~4 & ~1, hist=hist)
                if r2[0] == "ok":
                    got2 = collections.Counter((c[0], c[1] and c[1]["key"], c[2] and c[2]["key"]) for c in r2[1])
                    combo = got2 == flat_reference(old_entries, new_entries, opt_flags(code & ~4))
            if combo:
                sig = "C08:hidden-change:meta_only+hash_only"
            elif mk - ek:
                sig = "C08:flat-mismatch:key-missing"
            elif ek - mk:
                sig = "C08:flat-mismatch:key-extra"
            else:
                sig = "C08:flat-mismatch:wrong-classification"
            problems.append((sig, f"flat key-by-key reference differs: missing {sorted(missing, key=repr)} extra {sorted(extra, key=repr)}"))
    else:
        # shallow: keys outside hashed entries are reported exactly as the flat reference says
        top_got = collections.Counter(x for x in got.elements() if not below_hashed(x[1] if x[1] is not None else x[2], o, n))
        top_ref = collections.Counter(x for x in ref.elements() if not below_hashed(x[1] if x[1] is not None else x[2], o, n))
        if top_got != top_ref:
            problems.append(("C08:shallow-top-level-mismatch",
                             f"keys not below a hashed entry differ from the flat reference: "
                             f"missing {sorted(top_ref - top_got, key=repr)} extra {sorted(top_got - top_ref, key=repr)}"))

    # self diff shows no change
    # (checked by the dedicated refl cases: old == new)

    # swapping the arguments swaps added and deleted and nothing else
    sres = real_diff(new_entries, old_entries, code, hist=swap_hist(hist))
    if sres[0] != "ok":
        problems.append((f"C08:unexpected-exception:{sres[2]}", "swapped diff raised"))
    elif canon(swap_change(c) for c in sres[1]) != canon(changes):
        problems.append(("C08:swap-asymmetric", "diff(new, old) is not the add/delete swap of diff(old, new)"))

    # skipping unchanged hashed sub-trees never hides a change
    if f["hash_only"] and not f["with_unchanged"] and not f["shallow"]:
        full = real_diff(old_entries, new_entries, (code | 2) & ~1, hist=hist)
        if full[0] == "ok":
            want = canon(c for c in full[1] if c[0] != UNCHANGED)
            if want != canon(plain):
                problems.append(("C08:hidden-change:shortcut",
                                 "the shortcut run differs from the changed part of the with_unchanged run"))

    # renames
    if renames_on:
        adds = [c for c in plain if c[0] == ADD]
        dels = [c for c in plain if c[0] == DELETE]
        rest = [c for c in plain if c[0] not in (ADD, DELETE)]
        r = [c for c in changes if c[0] == RENAME]
        ra = [c for c in changes if c[0] == ADD]
        rd = [c for c in changes if c[0] == DELETE]
        rrest = [c for c in changes if c[0] not in (ADD, DELETE, RENAME)]
        for c in r:
            if not (c[1] and c[2] and truthy(c[1]["hash"]) and c[1]["hash"] == c[2]["hash"]):
                problems.append(("C08:rename-bad-pair", f"rename does not pair equal non-empty hashes: {c}"))
        if collections.Counter(c[2]["key"] for c in adds) != collections.Counter(
                [c[2]["key"] for c in r] + [c[2]["key"] for c in ra]):
            problems.append(("C08:rename-partition", "added keys lost or duplicated by rename detection"))
        if collections.Counter(c[1]["key"] for c in dels) != collections.Counter(
                [c[1]["key"] for c in r] + [c[1]["key"] for c in rd]):
            problems.append(("C08:rename-partition", "deleted keys lost or duplicated by rename detection"))
        if canon(rest) != canon(rrest):
            problems.append(("C08:rename-partition", "rename detection altered other changes"))
        lh = {c[2]["hash"] for c in ra if truthy(c[2]["hash"])}
        dh = {c[1]["hash"] for c in rd if truthy(c[1]["hash"])}
        if lh & dh:
            problems.append(("C08:rename-not-maximal", f"unpaired addition and deletion share hash {sorted(lh & dh, key=repr)}"))
    elif any(c[0] == RENAME for c in changes):
        problems.append(("C08:rename-unrequested", "rename reported without with_renames"))
    return problems


# --------------------------------------------------------------------------------------
# generators


def gen_file(rng):
    hv = rng.choice(CONTENTS + CONTENTS + [None, "", "x.dir"])
    if hv is None:
        h = rng.choice([None, None, [None, None]])
    else:
        h = [rng.choice(["md5"] * 6 + ["sha256"]), hv]
    meta = rng.choice([None, None, {}, {"size": 1}, {"size": 1}, {"size": 2}, {"size": 1, "isexec": True},
                       {"md5": "m"}, {"mtime": 5}, {"isexec": True}, {"etag": "e1"}, {"etag": "e2", "size": 1},
                       {"md5": "n", "size": 1}])
    return {"t": "f", "meta": meta, "hash": h}


def gen_tree(rng, depth):
    n = rng.choice([1, 2, 2, 3, 3, 4]) if depth == 0 else rng.choice([0, 1, 1, 2, 2, 3])
    tree = {}
    for nm in rng.sample(NAMES, n):
        if depth < 3 and rng.random() < (0.5 if depth < 2 else 0.3):
            tree[nm] = gen_dir(rng, depth)
        else:
            tree[nm] = gen_file(rng)
    return tree


def gen_dir(rng, depth):
    return {"t": "d", "ch": gen_tree(rng, depth + 1), "explicit": rng.random() < 0.6,
            "hashed": rng.random() < 0.75,
            # what an UNHASHED directory entry carries: None, or a falsy HashInfo OBJECT (HashInfo() / HashInfo("md5", None))
            "nohash_obj": rng.choice([None, None, None, [None, None], ["md5", None], ["md5", ""]]),
            "meta": rng.choice([{}, {}, {"nfiles": 2}, {"size": 3}, {"isexec": True}])}


def perturb(rng, tree, depth, p):
    out = {}
    for nm, node in tree.items():
        r = rng.random()
        if r < p * 0.25:
            continue  # deleted
        node = copy.deepcopy(node)
        if node["t"] == "f":
            if r < p * 0.45:
                node["hash"] = ["md5", rng.choice(CONTENTS)]
            elif r < p * 0.6:
                node["meta"] = rng.choice([None, {}, {"size": 7}, {"isexec": True}, {"size": 1}, {"etag": "e1"},
                                           {"etag": "e3"}, {"md5": "m"}, {"size": 1, "md5": "m"}])
            elif r < p * 0.7:
                node["hash"] = rng.choice([None, ["md5", ""], [None, None]])
            elif r < p * 0.85:
                # moved: same entry under another name of this directory (rename candidate)
                free = [x for x in NAMES if x not in tree and x not in out]
                if free:
                    out[rng.choice(free)] = node
                    continue
            elif r < p and depth < 3:
                # kind change: the file becomes a directory (maybe holding the old file)
                d = gen_dir(rng, depth)
                if rng.random() < 0.5:
                    d["ch"][rng.choice(NAMES)] = node
                node = d
        else:
            if r < p * 0.35:
                node["explicit"] = not node["explicit"]
            elif r < p * 0.45:
                node["hashed"] = not node["hashed"]
            elif r < p * 0.55:
                node = gen_file(rng)  # kind change: directory becomes a file
            elif r < p * 0.6:
                node["meta"] = rng.choice([{}, {"nfiles": 3}, {"isexec": True}])
            if node["t"] == "d":
                node["ch"] = perturb(rng, node["ch"], depth + 1, p)
        out[nm] = node
    if rng.random() < p * 0.5:
        free = [x for x in NAMES if x not in out]
        if free:
            out[rng.choice(free)] = gen_file(rng)
    return out


def flatten(tree, prefix, out):
    """append [key, meta, hash] entries; return the hashed descendants [(relkey, name, value)]"""
    desc = []
    for nm in sorted(tree):
        node = tree[nm]
        k = prefix + [nm]
        if node["t"] == "f":
            out.append([k, node["meta"], node["hash"]])
            if truthy(node["hash"]):
                desc.append(((nm,), tuple(node["hash"])))
        else:
            pos = len(out)
            sub = flatten(node["ch"], k, out)
            if node["explicit"]:
                dh = node.get("nohash_obj")
                if node["hashed"]:
                    dig = hashlib.md5(repr(sorted(sub)).encode()).hexdigest()[:8]  # noqa: S324
                    dh = ["md5", dig + ".dir"]
                    desc.append(((nm,), tuple(dh)))
                out.insert(pos, [k, {"isdir": True, **node["meta"]}, dh])
            desc += [((nm,) + rk, h) for rk, h in sub]
    return desc


def entries_of(rng, tree, root_entry):
    out = []
    desc = flatten(tree, [], out)
    if root_entry:
        dig = hashlib.md5(repr(sorted(desc)).encode()).hexdigest()[:8]  # noqa: S324
        out.insert(0, [[], {"isdir": True}, ["md5", dig + ".dir"] if root_entry == 2 else None])
    rng.shuffle(out)  # insertion order must not matter
    return out


def gen_pair(ctx):
    rng = ctx.rng
    base = gen_tree(rng, 0)
    p = rng.choice([0.15, 0.3, 0.3, 0.5, 0.8])
    old_t = perturb(rng, base, 0, p)
    new_t = perturb(rng, base, 0, p)
    root_entry = rng.choice([0] * 10 + [1, 2])
    old = entries_of(rng, old_t, root_entry)
    new = entries_of(rng, new_t, root_entry if rng.random() < 0.8 else 0)
    r = rng.random()
    kind = "pair"
    if r < 0.06:
        old, kind = None, "old-none"
    elif r < 0.10:
        new, kind = None, "new-none"
    elif r < 0.12:
        old, kind = [], "old-empty"
    elif r < 0.13:
        old, new, kind = None, None, "both-none"
    elif r < 0.20:
        new, kind = copy.deepcopy(old), "self"
    return old, new, kind


def break_pair(ctx, old, new):
    """malformed stream: leave well-formedness / hash consistency"""
    rng = ctx.rng
    old = copy.deepcopy(old) if old is not None else []
    new = copy.deepcopy(new) if new is not None else []
    how = rng.choice(["inconsistent", "file-with-children", "dir-without-isdir", "dir-meta-none", "dup-hash-dirs"])
    side = rng.choice([old, new])
    if how == "inconsistent":
        # equal directory hash over different children
        od = {tuple(k): h for k, m, h in old if m and m.get("isdir") and truthy(h)}
        cands = [e for e in new if tuple(e[0]) in od and e[1] and e[1].get("isdir")]
        if cands:
            e = rng.choice(cands)
            e[2] = list(od[tuple(e[0])])
        else:
            old.append([["z"], {"isdir": True}, ["md5", "same.dir"]])
            old.append([["z", "f"], {"size": 1}, ["md5", "h1"]])
            new.append([["z"], {"isdir": True}, ["md5", "same.dir"]])
            new.append([["z", "f"], {"size": 1}, ["md5", "h2"]])
            new.append([["z", "g"], None, ["md5", "h3"]])
    elif how == "file-with-children":
        files = [e for e in side if not (e[1] and e[1].get("isdir"))]
        if files:
            e = rng.choice(files)
            side.append([e[0] + [rng.choice(NAMES)], rng.choice([None, {"size": 1}]), ["md5", rng.choice(CONTENTS)]])
            if rng.random() < 0.5:
                side.append([e[0] + ["q", "r"], None, ["md5", rng.choice(CONTENTS)]])
    elif how in ("dir-without-isdir", "dir-meta-none"):
        dirs = [e for e in side if e[1] and e[1].get("isdir")]
        if dirs:
            e = rng.choice(dirs)
            e[1] = None if how == "dir-meta-none" else {"size": 1}
    else:
        for e in old + new:
            if e[1] and e[1].get("isdir") and rng.random() < 0.7:
                e[2] = ["md5", "same.dir"]
    return old, new, how


def sample_codes(ctx, k):
    rng = ctx.rng
    codes = set()
    # always exercise the plain diff and a shortcut run
    codes.add(rng.choice([0, 2]))
    codes.add(rng.choice([4, 5, 4 | 16]))
    while len(codes) < k:
        c = rng.randrange(64)
        if rng.random() < 0.35:
            c = (c & ~16) | rng.choice([64, 128])   # a projection that is None for some existing Meta
        codes.add(c)
    return sorted(codes)


# --------------------------------------------------------------------------------------
# the three deciders, exhaustively over an abstract product


def decider_universe():
    metas = [None, {}, {"size": 1}, {"isexec": True}, {"isdir": True}, {"etag": "e"}, {"etag": "f"}, {"md5": "m"}]
    hashes = [None, [None, None], ["md5", ""], ["md5", "h1"], ["md5", "h2"], ["sha256", "h1"]]
    emetas = [None, {}, {"size": 1}, {"etag": "e"}, {"md5": "m"}]
    entries = [None] + [(m, h) for m in emetas for h in hashes]
    return metas, hashes, entries


def full_meta(m):
    return None if m is None else {**META_DEFAULT, **m}


def run_deciders(ctx):
    """the three deciders on the whole abstract product, against (a) the generated Coq deciders
    (translation validation) and (b) the independent key-by-key classification (oracle)"""
    from dvc_data.index.diff import _diff_entry, _diff_hash_info, _diff_meta

    metas, hashes, entries = decider_universe()
    items_e, items_m, items_h = [], [], []

    def ent(e):
        return None if e is None else mk_entry([], e[0], e[1])

    def c_ent(e):
        return "None" if e is None else "(Some %s)" % c_entry(e[0], e[1])

    for a, b in itertools.product(entries, entries):
        got = []
        case = {"decider": "_diff_entry", "old": a, "new": b}
        for c in range(32):
            kind = CMP_KINDS[(c >> 2) & 3]
            t = _diff_entry(ent(a), ent(b), hash_only=bool(c & 1), meta_only=bool(c & 2),
                            meta_cmp_key=CMP_FN[kind], unknown=bool(c & 16))
            got.append(TYP_CODE[t])
            if not c & 16 and not (a is None and b is None):
                fa = None if a is None else (full_meta(a[0]), a[1])
                fb = None if b is None else (full_meta(b[0]), b[1])
                want = flat_classify(fa, fb, {"meta_only": bool(c & 2), "hash_only": bool(c & 1), "cmp": kind})
                if want != t:
                    ctx.oracle_fail("C08:decider-entry-mismatch",
                                    f"_diff_entry(hash_only={bool(c & 1)}, meta_only={bool(c & 2)}, cmp={kind}) = {t}, "
                                    f"the key-by-key classification says {want}", {**case, "flags": c})
        items_e.append((case, cpair(c_ent(a), c_ent(b)), vL([vN(x) for x in got])))
        ctx.case(case, nontrivial=len(set(got)) > 2)
        # oracle on the table itself: reflexive
        if a == b and any(g not in (TYP_CODE[UNCHANGED], TYP_CODE[UNKNOWN]) for g in got):
            ctx.oracle_fail("C08:decider-not-reflexive", f"_diff_entry(e, e) != unchanged for {a}", case)
    for a, b in itertools.product(metas, metas):
        got = []
        case = {"decider": "_diff_meta", "old": a, "new": b}
        for kind in CMP_KINDS:
            t = _diff_meta(mk_meta(a), mk_meta(b), cmp_key=CMP_FN[kind])
            got.append(TYP_CODE[t])
            want = cmp_meta(full_meta(a), full_meta(b), kind)
            if want != t:
                ctx.oracle_fail("C08:decider-meta-mismatch",
                                f"_diff_meta(cmp={kind}) = {t}, comparing presence then the projections says {want}",
                                {**case, "cmp": kind})
        items_m.append((case, cpair(c_meta(a), c_meta(b)), vL([vN(x) for x in got])))
        ctx.case(case, nontrivial=len(set(got)) > 1)
    for a, b in itertools.product(hashes, hashes):
        got = TYP_CODE[_diff_hash_info(mk_hash(a), mk_hash(b))]
        case = {"decider": "_diff_hash_info", "old": a, "new": b}
        if _diff_hash_info(mk_hash(a), mk_hash(b)) != cmp_hash(a, b):
            ctx.oracle_fail("C08:decider-hash-mismatch", f"_diff_hash_info = {got}, expected {cmp_hash(a, b)}", case)
        items_h.append((case, cpair(c_hash(a), c_hash(b)), vN(got)))
        ctx.case(case, nontrivial=False)
    ctx.count("decider:_diff_entry", len(items_e) * 32)
    ctx.count("decider:_diff_meta", len(items_m) * 4)
    ctx.count("decider:_diff_hash_info", len(items_h))
    ctx.obligation("oracle:deciders", not any(str(v.signature).startswith("C08:decider") for v in ctx.violations),
                   "the three deciders equal the independent key-by-key classification on the abstract product")
    ctx.correspond("diff_entry", IMPORTS, "option ientry * option ientry",
                   "fun c => run_diff_entry (fst c) (snd c)", items_e)
    ctx.correspond("diff_meta", IMPORTS, "option meta * option meta",
                   "fun c => run_diff_meta (fst c) (snd c)", items_m)
    ctx.correspond("diff_hash_info", IMPORTS, "option hashinfo * option hashinfo",
                   "fun c => run_diff_hash_info (fst c) (snd c)", items_h)


# --------------------------------------------------------------------------------------
# on-disk indexes: sanitising (what JSON serialisation keeps) and build histories


def disk_sanitize(entries):
    """entries whose observable form survives DataIndexEntry.to_dict/from_dict (so a cached and a re-read entry
    look the same): no mtime, no all-default Meta on an unhashed entry, no falsy HashInfo object"""
    out = []
    for k, m, h in entries:
        if m is not None:
            # Meta.to_dict keeps neither mtime nor inode nor empty strings (nor the eq=False link fields)
            m = {f: v for f, v in m.items() if f not in ("mtime", "inode", "is_link", "destination", "nlink") and v != ""}
        if not truthy(h):
            h = None
        if m is not None and all(m.get(f, META_DEFAULT[f]) == META_DEFAULT[f] for f in META_FIELDS) and h is None:
            m = {"size": 0}
        out.append([k, m, h])
    return out


def gen_history(rng, entries):
    """a build history whose FINAL key -> entry map is `entries`: sets in random order, overwritten values, ghost
    entries that are set and removed again (del / pop / delete_node), explicit entries on implicit directories
    that are removed again, reads, commits, close + reopen"""
    final = {tuple(k): (m, h) for k, m, h in entries}
    prefixes = sorted({k[:i] for k in final for i in range(len(k))} | {()})
    ops1, ops2, ops3 = [], [], []
    order = list(final)
    rng.shuffle(order)
    early = set(order[: rng.randrange(len(order) + 1)]) if order else set()
    ghosts = []
    for i in range(rng.choice([1, 1, 2, 3])):
        kind = rng.choice(["leaf", "leaf", "implicit", "overwrite"])
        if kind == "leaf":
            par = rng.choice([p for p in prefixes if p not in final or (final[p][0] or {}).get("isdir")] or [()])
            g = (*par, "g%d" % i)
            ghosts.append((g, rng.choice(["del", "pop", "delete_node"])))
            ops1.append(["set", list(g), {"size": 9}, ["md5", rng.choice(CONTENTS)]])
        elif kind == "implicit":
            cands = [p for p in prefixes if p and p not in final]
            if cands:
                g = rng.choice(cands)
                if g not in [x for x, _ in ghosts]:
                    ghosts.append((g, rng.choice(["del", "pop"])))
                    ops1.append(["set", list(g), {"isdir": True}, None])
        elif order:
            k = rng.choice(order)
            ops1.append(["set", list(k), {"size": 8}, ["md5", "old"]])
            early.discard(k)
    for k in order:
        (ops1 if k in early else ops3).append(["set", list(k), final[k][0], final[k][1]])
    rng.shuffle(ops1)
    for g, how in ghosts:
        if rng.random() < 0.4:
            ops2.append(["read", list(g)])
        ops2.append([how, list(g)])
    mid = rng.choice([[], [], ["commit"], ["commit"], ["reopen"]])
    tail = rng.choice([[], ["commit"], ["commit"], ["commit"], ["reopen"]])
    return ops1 + ([mid] if mid else []) + ops2 + ops3 + ([tail] if tail else [])


# --------------------------------------------------------------------------------------
# info / ls / has_node


def run_trie_case(entries, k):
    idx = build_index(entries)
    k = tuple(k)
    has = bool(idx.has_node(k))
    try:
        inf = idx.info(k)
        info_v = vL([vN(1 if inf["type"] == "directory" else 0),
                     "VB [" + ";".join(map(str, flat_side(_side0(inf["entry"])))) + "]"])
    except KeyError:
        info_v = vL([])
    try:
        rows = []
        for ck, ci in idx.ls(k, detail=True):
            rows.append(flat_key(ck) + flat_side(_side0(ci["entry"])) + [1 if ci["type"] == "directory" else 0])
        ls_v = vL([vL(["VB [" + ";".join(map(str, r)) + "]" for r in sorted(rows)])])
    except KeyError:
        ls_v = vL([])
    return vL([vN(1 if has else 0), info_v, ls_v])


def _side0(e):
    s = obs_side(e)
    if s is not None:
        s["key"] = ()
    return s


# --------------------------------------------------------------------------------------


def is_antichain(roots):
    rs = [tuple(r) for r in roots]
    if len(set(rs)) != len(rs):
        return False
    return not any(a != b and b[: len(a)] == a for a in rs for b in rs)


def roots_problems(old, new, roots, code, res, hist=None):
    """oracle for one `roots=` run: for prefix-free roots and shallow=False the output is the flat
    reference restricted to the keys at or below a root"""
    f = opt_flags(code)
    eff = [tuple(r) for r in roots] or [()]
    if res[0] != "ok":
        if f["with_renames"] and f["meta_only"] and old is not None and new is not None:
            return []
        return [(f"C08:unexpected-exception:{res[2]}", f"diff(roots=...) raised {res[2]}")]
    if not is_antichain(eff) or f["shallow"]:
        return []
    plain = res[1]
    if f["with_renames"] and old is not None and new is not None:
        pres = real_diff(old, new, code & ~1, roots=roots, hist=hist)
        plain = pres[1] if pres[0] == "ok" else []
    got = collections.Counter((c[0], c[1] and c[1]["key"], c[2] and c[2]["key"]) for c in plain)
    ref = collections.Counter({x: n for x, n in flat_reference(old, new, f).items()
                               if any((x[1] if x[1] is not None else x[2])[: len(r)] == r for r in eff)})
    if got != ref:
        return [("C08:roots-flat-mismatch",
                 f"diff(roots={eff}) differs from the flat reference at or below the roots: missing "
                 f"{sorted(ref - got, key=repr)} extra {sorted(got - ref, key=repr)}")]
    return []


def judge_roots(ctx, case):
    """`roots=` runs: model = implementation always, plus roots_problems"""
    old, new, roots, codes = case["old"], case["new"], case["roots"], case["codes"]
    hist = case.get("hist")
    expected = []
    eff = [tuple(r) for r in roots] or [()]
    for code in codes:
        res = real_diff(old, new, code, roots=roots, hist=hist)
        expected.append(val_result(res))
        one = {"old": old, "new": new, "roots": roots, "code": code, "stream": "roots"}
        if hist:
            one["hist"] = hist
        ctx.case(one, res[0] == "ok" and len(res[1]) >= 2)
        ctx.count("roots:" + ("antichain" if is_antichain(eff) else "overlapping"))
        ctx.count("roots:n=%d" % len(roots))
        for sig, what in roots_problems(old, new, roots, code, res, hist=hist):
            ctx.oracle_fail(sig, what, one)
    inp = "(%s, %s, %s, %s)" % (c_index(old), c_index(new), clist([c_key(r) for r in roots]),
                                clist([cN(c) for c in codes]))
    return (case, inp, vL(expected))


def gen_lazy_files(rng):
    files = {}
    for _ in range(rng.choice([1, 2, 3, 4, 5, 6])):
        rel = tuple(rng.choice(NAMES) for _ in range(rng.choice([1, 1, 2, 2, 3])))
        if any(rel[: len(k)] == k or k[: len(rel)] == rel for k in files):
            continue
        files[rel] = [hashlib.md5(rng.choice(CONTENTS).encode()).hexdigest(),  # noqa: S324
                      rng.choice([None, None, 1, 2]), rng.random() < 0.2]
    return files


def perturb_lazy(rng, files, p):
    out = {}
    for rel, (oid, size, ex) in files.items():
        r = rng.random()
        if r < p * 0.25:
            continue
        if r < p * 0.5:
            oid = hashlib.md5(rng.choice(CONTENTS).encode()).hexdigest()  # noqa: S324
        elif r < p * 0.65:
            size = rng.choice([None, 1, 2, 3])
        elif r < p * 0.85:
            moved = rel[:-1] + (rng.choice(NAMES),)
            if not any(moved[: len(k)] == k or k[: len(moved)] == moved for k in list(files) + list(out)):
                rel = moved
        out[rel] = [oid, size, ex]
    if rng.random() < p:
        rel = tuple(rng.choice(NAMES) for _ in range(rng.choice([1, 2])))
        if not any(rel[: len(k)] == k or k[: len(rel)] == rel for k in out):
            out[rel] = [hashlib.md5(rng.choice(CONTENTS).encode()).hexdigest(), None, False]  # noqa: S324
    return out


def gen_lazy_bundles(ctx, n_codes):
    """one pair of directory trees -> bundles: the lazily loaded indexes (directory object mounted at the ROOT
    key () or below a key, one or both sides lazy, one side absent) against the explicitly built twins"""
    rng = ctx.rng
    base = gen_lazy_files(rng)
    p = rng.choice([0.0, 0.3, 0.5, 0.8])
    fo, fn = perturb_lazy(rng, base, p), perturb_lazy(rng, base, p)
    mount = rng.choice([[], [], ["data"], ["a", "b"]])
    extra_o, extra_n = [], []
    if mount and rng.random() < 0.5:
        extra_o = [[["x"], {"size": 1}, ["md5", "h1"]]]
        extra_n = [[["x"], {"size": rng.choice([1, 2])}, ["md5", rng.choice(["h1", "h2"])]]] if rng.random() < 0.8 else []

    def spec(files, extra):
        return {"mount": mount, "files": [[list(k), v[0], v[1], v[2]] for k, v in sorted(files.items())],
                "extra": extra}

    so, sn = spec(fo, extra_o), spec(fn, extra_n)
    if mount and rng.random() < 0.4:
        which = rng.choice(["old", "new", "both"])
        if which in ("old", "both"):
            so["view_all"] = True
        if which in ("new", "both"):
            sn["view_all"] = True
        ctx.count("lazy:all-pass-view-over-lazy-index:" + which)
    shape = rng.choice(["both", "both", "both", "old-lazy", "new-lazy", "old-none", "new-none", "self"])
    if shape == "self":
        sn = copy.deepcopy(so)
    old, new = lazy_twin(so), lazy_twin(sn)
    hist = {"old": so if shape != "new-lazy" else None, "new": sn if shape != "old-lazy" else None}
    if shape == "old-none":
        old, hist["old"] = None, None
    if shape == "new-none":
        new, hist["new"] = None, None
    if not (is_wf(old) and is_wf(new) and is_consistent(old, new) and is_consistent(new, old)):
        ctx.count("generator:rejected-lazy")
        return []
    ctx.count("lazy:mount=" + ("root" if not mount else "/".join(mount)))
    ctx.count("lazy:" + shape)
    plain = sorted({c & ~32 for c in sample_codes(ctx, n_codes)} | {2})
    out = [{"old": old, "new": new, "codes": plain, "stream": "lazy", "hist": hist}]
    # shallow: the directory is never loaded; judged by the oracle only (keys not below a hashed entry)
    out.append({"old": old, "new": new, "codes": sorted({32, 34, 32 | rng.randrange(32)}), "stream": "lazy",
                "hist": hist, "no_corr": True})
    return out


def gen_lazy_roots(ctx, bundle):
    rng = ctx.rng
    mount = None
    for side in ("old", "new"):
        h = bundle["hist"].get(side)
        if h:
            mount = h["mount"]
            names = sorted({f[0][0] for f in h["files"]})
    if mount is None:
        return None
    cands = [mount] + [mount + [n] for n in names] + [mount + ["zz"]] + ([[]] if mount else [])
    roots = [rng.choice(cands) for _ in range(rng.choice([1, 1, 2]))]
    return {"old": bundle["old"], "new": bundle["new"], "roots": roots, "hist": bundle["hist"],
            "codes": sorted({c & ~32 for c in sample_codes(ctx, 3)}), "stream": "roots"}


# --------------------------------------------------------------------------------------
# input-space audit (tools/COVERAGE_AUDIT.md): fixed cases that run in EVERY run, judged by the same oracle

AUDIT_CODES = [0, 1, 2, 3, 4, 6, 8, 12, 18, 32, 33, 34, 36, 72, 13]
NFC, NFD = "café.txt", "café.txt"
ODD_NAMES = ["we\\ird.txt", "a b", ".hid", "Ж", "漢", "\U0001f600", NFC, NFD, "x.dir", "imgs_raw", "imgs.bak",
             "q", "L" * 200, "data"]


def _f(size, h, **meta):
    return [{"size": size, **meta}, ["md5", h]]


def _dirh(children):
    """a hash-consistent directory hash: digest of the hashed descendants"""
    return ["md5", hashlib.md5(repr(sorted(children)).encode()).hexdigest()[:8] + ".dir"]  # noqa: S324


def audit_pairs():
    """[(dims, old entries, new entries)] - deterministic"""
    out = []
    D = {"isdir": True}
    # names: odd names, NFC/NFD twins, prefix siblings (one a directory), case twins (directory vs file), .dir suffix
    old = [[["n"], D, None]] + [[["n", nm], *_f(1, "h%d" % (i % 6 + 1))] for i, nm in enumerate(ODD_NAMES)]
    old += [[["n", "imgs"], D, None], [["n", "imgs", "1.png"], *_f(2, "h2")],
            [["n", "Data"], D, None], [["n", "Data", "f"], *_f(2, "h3")],
            [["n", "y.dir"], D, None], [["n", "y.dir", "in"], *_f(2, "h4")]]
    new = [e for e in copy.deepcopy(old) if e[0][-1] not in ("a b", NFD, "imgs.bak", "q")]
    for e in new:
        if e[0][-1] in (NFC, "imgs_raw", "L" * 200, "x.dir", "data"):
            e[2] = ["md5", "h6" if e[2][1] != "h6" else "h5"]
    new += [[["n", "imgs", "2.png"], *_f(2, "h2")], [["n", "Q"], *_f(1, "h4")], [["n", "y.dir", "in2"], *_f(2, "h4")]]
    out.append((["names:odd", "names:nfc-nfd-twins", "names:prefix-siblings", "names:case-twins", "names:dot-dir",
                 "names:len-1-and-200", "shape:dup-content"], old, new))
    # shapes: empty directories, a directory of empty directories, depth 5, intermediate directories only
    old = [[["e"], D, None], [["ee"], D, None], [["ee", "s1"], D, None], [["ee", "s2"], D, None],
           [["p", "q", "r", "s", "t"], *_f(1, "h1")], [["p", "q"], D, None],
           [["one"], D, None], [["one", "f"], *_f(0, "h0")]]
    new = [[["ee"], D, None], [["ee", "s1"], D, None], [["ee", "s3"], D, None],
           [["p", "q", "r", "s", "t"], *_f(1, "h2")], [["p", "q", "r", "s", "u"], *_f(1, "h1")], [["p"], D, None],
           [["one"], D, None], [["one", "f"], *_f(0, "h0")], [["e2"], D, None]]
    out.append((["shape:empty-dir", "shape:dir-of-empty-dirs", "shape:depth>=5", "shape:intermediate-dirs-only",
                 "shape:one-file-dir", "shape:zero-length-file"], old, new))
    # a key that is a file on one side and a directory with children on the other: depth 0 and depth 2
    old = [[["k"], *_f(1, "h1")], [["a", "b"], D, None], [["a", "b", "k"], D, _dirh([("c", "h2")])],
           [["a", "b", "k", "c"], *_f(1, "h2")]]
    new = [[["k"], D, None], [["k", "c"], *_f(1, "h1")], [["k", "d", "e"], *_f(1, "h3")], [["a", "b"], D, None],
           [["a", "b", "k"], *_f(1, "h2")]]
    out.append((["shape:file-vs-dir-depth0", "shape:file-vs-dir-depth2"], old, new))
    # explicit root entry on one side only / on both with different hashes; single-entry indexes; None
    kids = [[["f"], *_f(1, "h1")], [["d", "g"], *_f(1, "h2")]]
    out.append((["shape:root-entry-one-side"], [[[], D, None]] + kids, copy.deepcopy(kids)))
    out.append((["shape:root-entry-one-side"], copy.deepcopy(kids), [[[], D, _dirh([("f", "h1"), ("d/g", "h2")])]] + kids))
    out.append((["shape:root-entry-both"], [[[], D, _dirh([("f", "h1")])], [["f"], *_f(1, "h1")]],
                [[[], D, _dirh([("f", "h2")])], [["f"], *_f(1, "h2")]]))
    out.append((["shape:single-entry"], [[["only"], *_f(1, "h1")]], [[["only"], *_f(2, "h1")]]))
    out.append((["shape:single-entry", "shape:root-file-entry"], [[[], *_f(1, "h1")]], [[[], *_f(1, "h2")]]))
    out.append((["shape:none-old", "shape:single-entry"], None, [[["only"], *_f(1, "h1")]]))
    out.append((["shape:none-new"], [[["d"], D, None], [["d", "x"], *_f(1, "h1")]], None))
    out.append((["shape:empty-index"], [], [[["d", "x"], *_f(1, "h1")]]))
    # identical content in one directory and across directories, moved around (rename candidates with duplicates)
    old = [[["a", "1"], *_f(1, "h1")], [["a", "2"], *_f(1, "h1")], [["b", "3"], *_f(1, "h1")], [["b", "4"], *_f(1, "h2")]]
    new = [[["a", "1"], *_f(1, "h1")], [["c", "2"], *_f(1, "h1")], [["c", "3"], *_f(1, "h1")], [["c", "5"], *_f(1, "h1")],
           [["b", "6"], *_f(1, "h2")]]
    out.append((["shape:dup-content", "renames:duplicate-hashes"], old, new))
    # entries: every optional Meta field present / absent / zero; eq=False fields; hash absent / present; obj_name; loaded
    fields = [("size", 0, 5), ("nfiles", 0, 3), ("version_id", "", "v1"), ("etag", "", "e1"), ("checksum", "", "c1"),
              ("md5", "", "m1"), ("inode", 0, 7), ("mtime", 0, 9)]
    old, new = [], []
    for i, (fld, zero, val) in enumerate(fields):
        old += [[["m", fld, "absent-zero"], {}, ["md5", "h1"]], [["m", fld, "zero-val"], {fld: zero}, ["md5", "h1"]],
                [["m", fld, "same"], {fld: val}, ["md5", "h1"]], [["m", fld, "nohash"], {fld: val}, None]]
        new += [[["m", fld, "absent-zero"], {fld: zero}, ["md5", "h1"]], [["m", fld, "zero-val"], {fld: val}, ["md5", "h1"]],
                [["m", fld, "same"], {fld: val}, ["md5", "h1"]], [["m", fld, "nohash"], {fld: zero}, None]]
    old += [[["m", "isexec"], {"isexec": False}, ["md5", "h1"]], [["m", "noeq"], {"size": 1, "remote": "r1", "nlink": 2}, ["md5", "h1"]],
            [["m", "link"], {"size": 1, "is_link": True, "destination": "x"}, None],
            [["m", "objname"], {"size": 1}, ["md5", "h1", "label-a"]], [["m", "loaded"], {"size": 1, "_loaded": True}, ["md5", "h1"]],
            [["m", "hash-appears"], {"size": 1}, None], [["m", "meta-appears"], None, ["md5", "h1"]],
            [["m", "alg"], {"size": 1}, ["md5", "h1"]]]
    new += [[["m", "isexec"], {"isexec": True}, ["md5", "h1"]], [["m", "noeq"], {"size": 1, "remote": "r2", "nlink": 5}, ["md5", "h1"]],
            [["m", "link"], {"size": 1, "is_link": False, "destination": "y"}, None],
            [["m", "objname"], {"size": 1}, ["md5", "h1", "label-b"]], [["m", "loaded"], {"size": 1, "_loaded": False}, ["md5", "h1"]],
            [["m", "hash-appears"], {"size": 1}, ["md5", "h1"]], [["m", "meta-appears"], {"size": 1}, ["md5", "h1"]],
            [["m", "alg"], {"size": 1}, ["sha256", "h1"]]]
    out.append((["entry:meta-field-absent-zero-value", "entry:eq-false-fields", "entry:obj_name", "entry:loaded-flag",
                 "entry:hash-absent-vs-present", "entry:same-value-two-algorithms"], old, new))
    # hash_info in {None, HashInfo(), HashInfo("md5", None), HashInfo("md5", ""), HashInfo("md5", v)} on directory AND
    # file entries, with changes below the directories (a falsy HashInfo object is "no hash" wherever truthiness is tested:
    # shallow skip, _diff_hash_info, rename detection, hash_only)
    old, new = [], []
    for i, hobj in enumerate([None, [None, None], ["md5", None], ["md5", ""]]):
        d = "hd%d" % i
        old += [[[d], D, hobj], [[d, "same"], *_f(1, "h1")], [[d, "mod"], *_f(1, "h1")], [[d, "del"], *_f(1, "h2")],
                [[d, "sub"], D, hobj], [[d, "sub", "deep"], *_f(1, "h3")]]
        new += [[[d], D, hobj], [[d, "same"], *_f(1, "h1")], [[d, "mod"], *_f(1, "h4")], [[d, "add"], *_f(1, "h2")],
                [[d, "sub"], D, [None, None] if hobj is None else None], [[d, "sub", "deep"], *_f(2, "h3")]]
        old += [[["hf", "f%d" % i], {"size": 1}, hobj], [["hf", "g%d" % i], {"size": 1}, hobj], [["hf", "gone%d" % i], {"size": 1}, hobj]]
        new += [[["hf", "f%d" % i], {"size": 1}, ["md5", "h5"]], [["hf", "g%d" % i], {"size": 1}, [None, None]],
                [["hf", "new%d" % i], {"size": 1}, hobj]]
    out.append((["entry:falsy-hashinfo-object-on-dir", "entry:falsy-hashinfo-object-on-file"], old, new))
    out.append((["entry:falsy-hashinfo-object-on-dir", "side:None"], copy.deepcopy(old), None))
    # an unchanged hashed directory (shortcut) next to changed ones, hashed inside hashed
    sub = [("x", "h1")]
    old = [[["u"], D, _dirh([("s/x", "h1"), ("y", "h2")])], [["u", "s"], D, _dirh(sub)], [["u", "s", "x"], *_f(1, "h1")],
           [["u", "y"], *_f(1, "h2")], [["w"], D, _dirh([("z", "h1")])], [["w", "z"], *_f(1, "h1")]]
    new = [[["u"], D, _dirh([("s/x", "h1"), ("y", "h2")])], [["u", "s"], D, _dirh(sub)], [["u", "s", "x"], *_f(7, "h1")],
           [["u", "y"], *_f(1, "h2", isexec=True)], [["w"], D, _dirh([("z", "h3")])], [["w", "z"], *_f(1, "h3")]]
    out.append((["shape:unchanged-hashed-dir-with-meta-change-below", "shape:nested-hashed-dirs"], old, new))
    return out


def audit_bundles(ctx):
    """the fixed audit cases x back ends (memory / SQLite commit+reopen / view on either side) x AUDIT_CODES"""
    bundles = []
    for i, (dims, old, new) in enumerate(audit_pairs()):
        assert is_wf(old) and is_wf(new) and is_consistent(old, new) and is_consistent(new, old), dims
        bundles.append({"old": old, "new": new, "codes": AUDIT_CODES, "stream": "audit", "dims": dims + ["backend:memory"]})
        # SQLite: old side set + commit + reopen, new side set in reverse order without reopening
        o2 = disk_sanitize(old) if old is not None else None
        n2 = disk_sanitize(new) if new is not None else None
        if is_wf(o2) and is_wf(n2) and is_consistent(o2, n2) and is_consistent(n2, o2):
            hist = {"old": None if o2 is None else [["set", k, m, h] for k, m, h in o2] + [["reopen"]],
                    "new": None if n2 is None else [["set", k, m, h] for k, m, h in reversed(n2)] + [["commit"]]}
            bundles.append({"old": o2, "new": n2, "codes": [2, 5], "stream": "audit", "hist": hist,
                            "dims": dims + ["backend:sqlite-commit-reopen"]})
        # views: hide one top-level name on the old side / a deeper name on the new side
        if old is not None and new is not None and i in (0, 1, 2, 6, 11, 12):
            tops = sorted({e[0][0] for e in old + new if e[0]})
            deep = sorted({e[0][-1] for e in old + new if len(e[0]) >= 2})
            for side, hide in (("old", tops[:1]), ("new", deep[:1])):
                full = old if side == "old" else new
                tw = view_twin(full, hide)
                o3, n3 = (tw, new) if side == "old" else (old, tw)
                if is_wf(o3) and is_wf(n3) and is_consistent(o3, n3) and is_consistent(n3, o3):
                    bundles.append({"old": o3, "new": n3, "codes": [0, 2, 3, 6, 34], "stream": "audit",
                                    "hist": {side: {"view": hide, "full": full}},
                                    "dims": dims + ["backend:view-" + side]})
    return bundles


def audit_extras(ctx):
    """dimensions outside the model, oracle only: with_unknown / a non-default callback do not change the result of
    a loadable pair; a lazily loaded directory whose object is MISSING"""
    from fsspec.callbacks import Callback

    n = 0
    for dims, old, new in audit_pairs()[:6]:
        for code in (0, 2, 5):
            base = real_diff(old, new, code)
            for label, extra in (("with_unknown", {"with_unknown": True}), ("callback", {"callback": Callback()})):
                alt = real_diff(old, new, code, extra=extra)
                n += 1
                ctx.count("flag:" + label)
                if base[0] != alt[0] or (base[0] == "ok" and canon(base[1]) != canon(alt[1])):
                    ctx.oracle_fail(f"C08:{label}-changes-result", f"diff(..., {label}) differs from the plain diff",
                                    {"old": old, "new": new, "code": code, "stream": "audit", "extra": label})
    # the object of a lazily loaded directory is missing: the index KNOWS only the directory entry.  Without
    # with_unknown the result is the flat reference over the known entries; with it every key below the unloadable
    # directory (coming from the other side) is reported exactly once as UNKNOWN, everything else as before
    for mount in ([], ["d"]):
        spec = {"mount": mount, "files": [[["gone"], "0" * 32, None, False]], "extra": [], "missing": True}
        known = [[mount, {"isdir": True}, ["md5", tree_listing(spec["files"])[1]]]]
        other = [[mount, {"isdir": True}, None], [mount + ["f"], *_f(1, "h1")], [mount + ["s", "g"], *_f(1, "h2")]]
        for side in ("old", "new"):
            o, nw = (known, other) if side == "old" else (other, known)
            for code in (0, 2, 4):
                hist = {side: spec}
                res = real_diff(o, nw, code, hist=hist)
                n += 1
                ctx.count("lazy:object-missing")
                case = {"old": o, "new": nw, "code": code, "stream": "audit", "hist": hist}
                ctx.case(case, True)
                for sig, what in oracle(o, nw, code, res, hist=hist):
                    ctx.oracle_fail(sig + ":object-missing", what, case)
                resu = real_diff(o, nw, code, hist=hist, extra={"with_unknown": True})
                if resu[0] != "ok":
                    ctx.oracle_fail("C08:unexpected-exception:" + resu[2], "with_unknown diff raised", case)
                    continue
                below = collections.Counter(tuple(k) for k, _, _ in other if len(k) > len(mount))
                unk = collections.Counter(change_key(c) for c in resu[1] if c[0] == UNKNOWN)
                rest = [c for c in resu[1] if c[0] != UNKNOWN]
                want_rest = [c for c in (res[1] if res[0] == "ok" else []) if tuple(change_key(c)) not in below]
                if unk != below or canon(rest) != canon(want_rest):
                    ctx.oracle_fail("C08:with_unknown:object-missing",
                                    f"keys below the unloadable directory must be UNKNOWN exactly once: got {sorted(unk, key=repr)}"
                                    f" want {sorted(below, key=repr)}", case)
    return n


def input_dimensions(bundles):
    dims = collections.Counter()
    for b in bundles:
        for d in b.get("dims", []):
            dims[d] += 1
        ents = (b["old"] or []) + (b["new"] or [])
        depth = max([len(e[0]) for e in ents] + [0])
        dims["depth:%d" % min(depth, 5)] += 1
        if b["old"] is None or b["new"] is None:
            dims["side:None"] += 1
        if any(not e[0] for e in ents):
            dims["shape:root-key-entry"] += 1
        if len(b["old"] or []) == 1 or len(b["new"] or []) == 1:
            dims["shape:single-entry-side"] += 1
        ok, nk = {tuple(e[0]): e for e in b["old"] or []}, {tuple(e[0]): e for e in b["new"] or []}
        if any(k in nk and bool((ok[k][1] or {}).get("isdir")) != bool((nk[k][1] or {}).get("isdir")) for k in ok):
            dims["shape:file-vs-dir-same-key"] += 1
        h = b.get("hist") or {}
        for side in ("old", "new"):
            v = h.get(side)
            dims["backend:" + ("memory" if v is None else "sqlite-history" if isinstance(v, list)
                               else "view" if "view" in v else "lazy-object-storage")] += 1
        for c in b["codes"]:
            f = opt_flags(c)
            for name in ("with_renames", "with_unchanged", "hash_only", "meta_only", "shallow"):
                if f[name]:
                    dims["flag:" + name] += 1
            dims["flag:meta_cmp_key=" + str(f["cmp"])] += 1
            on = [n for n in ("with_renames", "with_unchanged", "hash_only", "meta_only", "shallow") if f[n]]
            for i, a in enumerate(on):
                for bb in on[i + 1:]:
                    dims["flags:%s+%s" % (a, bb)] += 1
    return dict(sorted(dims.items()))


def corpus_cases():
    d = os.path.join(VERIF, "corpus", "C08")
    out = []
    if os.path.isdir(d):
        for fn in sorted(os.listdir(d)):
            if fn.endswith(".json"):
                with open(os.path.join(d, fn)) as f:
                    c = json.load(f)
                c.setdefault("stream", "wf")
                out.append(c)
    return out


def judge(ctx, case):
    """run one (old, new, codes) bundle on the implementation; oracle; returns the Coq item"""
    old, new, codes = case["old"], case["new"], case["codes"]
    hist = case.get("hist")
    wf = case["stream"] in ("wf", "disk", "lazy", "audit")
    expected = []
    for code in codes:
        res = real_diff(old, new, code, hist=hist)
        expected.append(val_result(res))
        one = {"old": old, "new": new, "code": code, "stream": case["stream"]}
        if hist:
            one["hist"] = hist
        nontrivial = res[0] == "ok" and (
            (len(res[1]) >= 2 and len({c[0] for c in res[1]}) >= 2) or any(c[0] == RENAME for c in res[1]))
        ctx.case(one, nontrivial)
        ctx.count("result:" + ("ok" if res[0] == "ok" else f"err{res[1]}"))
        if res[0] == "ok":
            for t, cnt in collections.Counter(c[0] for c in res[1]).items():
                ctx.count("changes:" + t, cnt)
        if wf:
            for sig, what in oracle(old, new, code, res, hist=hist):
                ctx.oracle_fail(sig, what, one if hist else shrink(ctx, one, sig))
    if case.get("no_corr"):
        return None
    h = hist or {}
    inp = "(%s, %s, %s)" % (c_side(old, h.get("old")), c_side(new, h.get("new")), clist([cN(c) for c in codes]))
    return (case, inp, vL(expected))


def shrink(ctx, one, sig):
    """greedy: drop whole top-level sub-trees (both sides) while the same signature persists"""
    old, new, code = one["old"], one["new"], one["code"]
    tops = sorted({k[0] for k, _, _ in (old or []) + (new or []) if k})
    for t in tops:
        o2 = None if old is None else [e for e in old if not (e[0] and e[0][0] == t)]
        n2 = None if new is None else [e for e in new if not (e[0] and e[0][0] == t)]
        res = real_diff(o2, n2, code)
        if any(s == sig for s, _ in oracle(o2, n2, code, res)):
            old, new = o2, n2
    return {"old": old, "new": new, "code": code, "stream": one["stream"]}


def run(ctx):
    _DISK["dir"] = ctx.fresh("disk")
    run_deciders(ctx)

    bundles = audit_bundles(ctx)
    ctx.count("stream:audit", len(bundles))
    for c in corpus_cases():
        bundles.append(c)
        ctx.count("stream:corpus")
    n_pairs = ctx.n(130, 3000)
    n_codes = ctx.n(5, 12)
    n_bad = ctx.n(40, 700)
    wf_pairs = []
    attempts = 0
    while len(wf_pairs) < n_pairs and attempts < n_pairs * 3:
        attempts += 1
        old, new, kind = gen_pair(ctx)
        if not (is_wf(old) and is_wf(new) and is_consistent(old, new) and is_consistent(new, old)):
            ctx.count("generator:rejected")
            continue
        wf_pairs.append((old, new))
        ctx.count("pair:" + kind)
        depth = max([len(k) for k, _, _ in (old or []) + (new or [])] + [0])
        ctx.count(f"depth:{depth}")
        ctx.count("entries:%s" % min(20, 5 * ((len(old or []) + len(new or [])) // 5)))
        bundles.append({"old": old, "new": new, "codes": sample_codes(ctx, n_codes), "stream": "wf"})
    for _ in range(n_bad):
        old, new = ctx.rng.choice(wf_pairs)
        old, new, how = break_pair(ctx, old, new)
        ctx.count("malformed:" + how)
        bundles.append({"old": old, "new": new, "codes": sample_codes(ctx, max(3, n_codes // 2)), "stream": "malformed"})

    # SQLite-backed sides built through histories (the model index is the FINAL key -> entry map)
    n_disk = ctx.n(24, 300)
    for old, new in wf_pairs[:n_disk]:
        if old is None and new is None:
            continue
        sides = ctx.rng.choice([("old",), ("new",), ("old", "new"), ("old", "new")])
        o2 = disk_sanitize(old) if old is not None and "old" in sides else old
        n2 = disk_sanitize(new) if new is not None and "new" in sides else new
        hist = {"old": gen_history(ctx.rng, o2) if old is not None and "old" in sides else None,
                "new": gen_history(ctx.rng, n2) if new is not None and "new" in sides else None}
        if not (is_wf(o2) and is_wf(n2) and is_consistent(o2, n2) and is_consistent(n2, o2)):
            ctx.count("generator:rejected-disk")
            continue
        codes = sorted({2 if ctx.rng.random() < 0.7 else 6, ctx.rng.choice([0, 1, 3, 4, 5]), ctx.rng.randrange(64)})
        for side in ("old", "new"):
            if hist[side]:
                for op in hist[side]:
                    ctx.count("disk-op:" + op[0])
        ctx.count("stream:disk")
        bundles.append({"old": o2, "new": n2, "codes": codes, "stream": "disk", "hist": hist})

    # lazily loaded directory entries (object storage in the storage map), mounted at the root key or below
    lazy_main = []
    for _ in range(ctx.n(22, 250)):
        bs = gen_lazy_bundles(ctx, max(3, n_codes // 2))
        bundles += bs
        lazy_main += bs[:1]

    items = [it for it in (judge(ctx, b) for b in bundles) if it is not None]
    n_extra = audit_extras(ctx)
    dims = input_dimensions(bundles)
    dims["flag:with_unknown / callback (oracle only)"] = n_extra
    ctx.extra["input_dimensions"] = dims
    ctx.obligation("oracle:diff", not any(v.kind == "oracle" for v in ctx.violations),
                   f"{sum(len(b['codes']) for b in bundles if b['stream'] == 'wf')} real diffs judged by the flat "
                   "dictionary oracle (+ swap, no-hiding, rename rules, key uniqueness)")
    # the (large) audit items come first: deal them round-robin over the shards so no coqc file gets them all
    ns = max(1, -(-len(items) // 30))
    items = [x for j in range(ns) for x in items[j::ns]]
    ctx.correspond("diff", IMPORTS, "option index * option index * list N",
                   "fun c => run_diffs (fst (fst c)) (snd (fst c)) (snd c)", items, shard=30)

    # roots other than [()]
    ritems = []
    for old, new in wf_pairs[: ctx.n(60, 600)]:
        if old is None and new is None:
            continue
        nodes = sorted({tuple(k[:i]) for k, _, _ in (old or []) + (new or []) for i in range(len(k) + 1)} | {()})
        nroots = ctx.rng.choice([0, 1, 1, 2, 2, 3])
        roots = [list(ctx.rng.choice(nodes + [("zz",)])) for _ in range(nroots)]
        rcase = {"old": old, "new": new, "roots": roots, "codes": sample_codes(ctx, max(3, n_codes // 2)),
                 "stream": "roots"}
        ritems.append(judge_roots(ctx, rcase))
    for dims, aold, anew in audit_pairs()[:3]:
        ents = (aold or []) + (anew or [])
        top = sorted({tuple(e[0][:1]) for e in ents if e[0]})
        deep = sorted({tuple(e[0][:2]) for e in ents if len(e[0]) >= 2})
        for roots in ([list(top[0])], [list(deep[0]), list(deep[-1])], [list(top[0]), list(deep[0])]):
            ctx.count("roots:audit")
            ritems.append(judge_roots(ctx, {"old": aold, "new": anew, "roots": roots, "codes": [0, 2, 3, 6],
                                            "stream": "roots"}))
    for b in lazy_main[: ctx.n(15, 200)]:
        rcase = gen_lazy_roots(ctx, b)
        if rcase:
            ctx.count("roots:lazy")
            ritems.append(judge_roots(ctx, rcase))
    ctx.obligation("oracle:roots", not any(v.kind == "oracle" and "roots" in str(v.signature) for v in ctx.violations),
                   f"{len(ritems)} (old, new, roots) bundles; prefix-free roots judged by the restricted flat reference")
    ctx.correspond("diff_roots", IMPORTS, "option index * option index * list key * list N",
                   "fun c => run_diffs_roots (fst (fst (fst c))) (snd (fst (fst c))) (snd (fst c)) (snd c)", ritems,
                   shard=60)

    # info / ls / has_node
    titems = []
    for old, new in wf_pairs[: ctx.n(30, 300)]:
        for entries in (old, new):
            if not entries:
                entries = []
            keys = {tuple(k[:i]) for k, _, _ in entries for i in range(len(k) + 1)} | {()}
            probes = sorted(keys)[:6] + [("zz",), ("a", "zz")]
            for k in probes[: ctx.n(4, 8)]:
                exp = run_trie_case(entries, k)
                case = {"trie": entries, "key": list(k)}
                titems.append((case, cpair(clist([cpair(c_key(kk), c_entry(m, h)) for kk, m, h in entries]),
                                           c_key(k)), exp))
    ctx.count("trie-probes", len(titems))
    ctx.correspond("trie", IMPORTS, "index * key", "fun c => run_trie (fst c) (snd c)", titems)


def replay_case(ctx, case):
    if "decider" in case:
        return {"violates": False, "note": "decider table case; see the correspondence obligation"}
    if case.get("hist") and _DISK["dir"] is None:
        _DISK["dir"] = ctx.fresh("disk")
    if case.get("stream") == "roots":
        codes = case.get("codes") or [case["code"]]
        out, problems = [], []
        for c in codes:
            res = real_diff(case["old"], case["new"], c, roots=case["roots"], hist=case.get("hist"))
            out.append({"code": c, "options": opt_flags(c), "result": res})
            problems += roots_problems(case["old"], case["new"], case["roots"], c, res, hist=case.get("hist"))
        return {"results": out, "problems": problems, "violates": bool(problems)}
    codes = case.get("codes") or [case["code"]]
    out = []
    problems = []
    if case.get("hist") and _DISK["dir"] is None:
        _DISK["dir"] = ctx.fresh("disk")
    for code in codes:
        res = real_diff(case["old"], case["new"], code, hist=case.get("hist"))
        out.append({"code": code, "options": opt_flags(code), "result": res})
        if case.get("stream", "wf") in ("wf", "disk"):
            problems += oracle(case["old"], case["new"], code, res, hist=case.get("hist"))
    return {"results": out, "problems": problems, "violates": bool(problems)}
