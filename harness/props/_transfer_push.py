"""C04, oracle-only stream: the index-level push (dvc_data.index.push.push over
dvc_data.index.collect.collect) from a local cache that lacks some listed files.

The index-level push designates a CLOSED request for the object transfer (every directory object
together with all the files it lists); that is what lets transfer() see that a listed file is
missing on both sides and withhold the directory object.  The Coq side of the designated request
is C18's Model/PushFetch.v; here the real push is only judged by the closure / retry oracles.

Case JSON (self-contained; "stream": "index-push" routes replay_case here):
  {"prop": "C04", "stream": "index-push",
   "files": {"f0": hex, ...}, "dirs": {"d0.dir": [[relpath, "f0"], ...]},
   "loose": ["f3", ...]           file entries of the index (key = (token,))
   "explicit": bool               directory entries with explicit children (loaded=True) / lazily loaded
   "cache_missing": ["f1", ...]   objects the cache lacks until a round says "restore"
   "remote": {token: null}        initial remote contents (closed)
   "cache_cls"/"remote_cls": "local"|"base", "remote_index": bool (remote odb has a tmp_dir -> real ObjectDBIndex)
   "rounds": [{"fails": [token...], "crash": n|null, "restore": bool}]}
"""

from __future__ import annotations

import os

from lib import impl

from props import _transfer_common as TC


class PushScenario:
    def __init__(self, ctx, case):
        self.ctx = ctx
        self.case = case
        self.gen = {}
        self.oid = {}
        for t, hx in case["files"].items():
            b = bytes.fromhex(hx)
            self.gen[t] = b
            self.oid[t] = impl.md5hex(b)
        for t, lst in case["dirs"].items():
            entries = [(rp, self.oid[f]) for rp, f in lst]
            self.gen[t] = impl.canon_listing(entries)
            self.oid[t] = impl.dir_oid(entries)
        self.tok = {o: t for t, o in self.oid.items()}
        self.root = ctx.fresh("push")
        self.p_cache = os.path.join(self.root, "cache")
        self.p_remote = os.path.join(self.root, "remote")
        self.p_tmp = os.path.join(self.root, "tmp")
        os.makedirs(self.p_cache)
        os.makedirs(self.p_remote)
        self.designated = []  # tokens the index designates: loose files, directories and their files
        for t in list(case["loose"]) + list(case["dirs"]):
            if t not in self.designated:
                self.designated.append(t)
        for lst in case["dirs"].values():
            for _, f in lst:
                if f not in self.designated:
                    self.designated.append(f)
        missing = set(case["cache_missing"])
        for t in self.designated:
            if t not in missing:
                impl.plant(self.p_cache, self.oid[t], self.gen[t])
        for t in case["remote"]:
            impl.plant(self.p_remote, self.oid[t], self.gen[t])
        self.restored = False
        self.rounds = []

    def close(self):
        impl.rm_rf(self.root)

    def _index(self, cache, remote):
        from dvc_data.hashfile.hash_info import HashInfo
        from dvc_data.hashfile.meta import Meta
        from dvc_data.index import DataIndex, DataIndexEntry, ObjectStorage

        case = self.case
        entries = {}
        for t in case["loose"]:
            entries[(t,)] = DataIndexEntry(key=(t,), meta=Meta(), hash_info=HashInfo("md5", self.oid[t]))
        for d, lst in case["dirs"].items():
            top = d.split(".")[0]
            entries[(top,)] = DataIndexEntry(key=(top,), meta=Meta(isdir=True), hash_info=HashInfo("md5", self.oid[d]))
            if case["explicit"]:
                entries[(top,)].loaded = True
                for rp, f in lst:
                    key = (top, *rp.split("/"))
                    entries[key] = DataIndexEntry(key=key, meta=Meta(), hash_info=HashInfo("md5", self.oid[f]))
                    for i in range(1, len(key) - 1):
                        sub = key[: i + 1]
                        entries.setdefault(sub, DataIndexEntry(key=sub, meta=Meta(isdir=True), loaded=True))
        index = DataIndex(entries)
        index.storage_map.add_cache(ObjectStorage((), cache))
        index.storage_map.add_remote(ObjectStorage((), remote))
        return index

    def run_round(self, rs):
        from dvc_data.hashfile.db import HashFileDB
        from dvc_data.hashfile.db.local import LocalHashFileDB
        from dvc_data.index.collect import collect
        from dvc_data.index.push import push

        case = self.case
        if rs.get("restore") and not self.restored:
            for t in case["cache_missing"]:
                impl.plant(self.p_cache, self.oid[t], self.gen[t])
            self.restored = True
        ob = {"spec": rs, "cache_complete": self.restored or not case["cache_missing"]}
        ob["cache_before"] = TC.store_bytes(self.p_cache)
        ob["dst_before"] = TC.store_bytes(self.p_remote)
        rec = TC.Recorder(self.p_remote, [self.oid[t] for t in rs.get("fails") or []], rs.get("crash"))
        fs = TC.faultfs_class()()
        fs.rec = rec
        rcls = LocalHashFileDB if case["remote_cls"] == "local" else HashFileDB
        cfg = {"tmp_dir": self.p_tmp} if case.get("remote_index") else {}
        remote = rcls(fs, self.p_remote, **cfg)
        cache = impl.make_odb(case["cache_cls"], self.p_cache)
        try:
            index = self._index(cache, remote)
            pushed, failed = push(collect([index], "remote", push=True))
            ob["outcome"] = ("ok", pushed, failed)
        except TC.Abort:
            ob["outcome"] = ("crash",)
        except Exception as exc:  # noqa: BLE001
            ob["outcome"] = ("err", impl.err_code(exc), repr(exc)[:200])
        ob["crash"] = rec.calls if rec.aborted else None
        ob["events"] = rec.events
        ob["snaps"] = rec.snaps
        ob["putorder"] = [e[1] for e in rec.events if e[0] in ("put", "partial")]
        ob["dst_after"] = TC.store_bytes(self.p_remote)
        ob["cache_after"] = TC.store_bytes(self.p_cache)
        self.rounds.append(ob)
        return ob

    def run_all(self):
        for rs in self.case["rounds"]:
            self.run_round(rs)
        return self.rounds


def judge(S):
    """closure of the remote after every upload attempt and at the end of every round (crash rounds
    included); after a fault-free push from a complete cache the remote holds every designated object"""
    problems = []
    name = lambda o: S.tok.get(o, o)  # noqa: E731
    if S.rounds and TC.open_dirs(S.rounds[0]["dst_before"]):
        return problems  # the initial remote is not closed (never generated)
    for ri, ob in enumerate(S.rounds):
        for si, snap in enumerate(ob["snaps"]):
            od = TC.open_dirs(snap)
            if od:
                problems.append(("C04:open-directory",
                                 f"index-push round {ri}: after upload attempt {si + 1} ({name(ob['putorder'][si])}) directory "
                                 f"object {name(od[0][0])} is in the remote without {[name(f) for f in od[0][1]]}"))
                break
        od = TC.open_dirs(ob["dst_after"])
        if od:
            problems.append(("C04:open-directory",
                             f"index-push round {ri} ({ob['outcome'][0]}): at the end directory object {name(od[0][0])} is in "
                             f"the remote without {[name(f) for f in od[0][1]]}"))
        rs = ob["spec"]
        if ri > 0 and ob["cache_complete"] and not rs.get("fails") and rs.get("crash") is None:
            gone = [t for t in S.designated if S.oid[t] not in ob["dst_after"]]
            if gone:
                problems.append(("C04:retry-incomplete",
                                 f"index-push round {ri}: fault-free push from a complete cache left {gone} out of the remote "
                                 f"(push returned {ob['outcome']})"))
    return problems


def features(S):
    f = set()
    uploads = 0
    for ob in S.rounds:
        uploads += sum(1 for e in ob["events"] if e[0] == "put" and e[2])
        if any(e[0] == "put" and not e[2] for e in ob["events"]):
            f.add("failure")
        if ob["crash"] is not None:
            f.add("crash")
        if ob["dst_before"] and ob is S.rounds[0]:
            f.add("prepopulated")
        if ob["outcome"][0] == "err":
            f.add("error%d" % ob["outcome"][1])
    if S.case["cache_missing"]:
        f.add("cache-lacks-file")
    if uploads:
        f.add("upload")
    return f, uploads > 0 and bool(f & {"failure", "crash", "cache-lacks-file", "prepopulated"})


def gen_case(rng):
    salt = "%08x" % rng.getrandbits(32)
    nf = rng.randint(4, 6)
    files = {f"f{i}": f"{salt}-push-{i}".encode().hex() for i in range(nf)}
    ftoks = list(files)
    shared = ftoks[1]
    dirs = {"d0.dir": [["bar", ftoks[0]], ["baz", shared]] + ([["sub/qux", ftoks[2]]] if rng.random() < 0.6 else [])}
    if rng.random() < 0.65:
        dirs["d1.dir"] = [["baz", shared], ["zap", ftoks[3]]] + ([["deep/er/baz2", shared]] if rng.random() < 0.3 else [])
    listed = list(dict.fromkeys(f for lst in dirs.values() for _, f in lst))
    loose = [ftoks[-1]] + ([ftoks[0]] if rng.random() < 0.2 else [])
    k = rng.choice([0, 1, 1, 1, 2])
    missing = rng.sample(listed, min(k, len(listed)))
    if missing and rng.random() < 0.6 and shared not in missing:
        missing[0] = shared
    if rng.random() < 0.15 and loose[0] not in missing:
        missing.append(loose[0])
    remote = {}
    r = rng.random()
    if r < 0.25:
        for f in ftoks:
            if rng.random() < 0.35:
                remote[f] = None
    elif r < 0.4 and len(dirs) > 1:
        remote["d1.dir"] = None
        for _, f in dirs["d1.dir"]:
            remote[f] = None
    case = {"prop": "C04", "stream": "index-push", "files": files, "dirs": dirs, "loose": loose,
            "explicit": rng.random() < 0.5, "cache_missing": missing, "remote": remote,
            "cache_cls": rng.choice(["local", "base"]), "remote_cls": rng.choice(["local", "base"]),
            "remote_index": rng.random() < 0.5, "rounds": []}
    first = {"fails": [], "crash": None}
    if rng.random() < 0.35:
        pool = [t for t in listed + list(dirs) if t not in missing and t not in remote]
        if pool:
            first["fails"] = sorted(rng.sample(pool, min(len(pool), rng.choice([1, 1, 2]))))
    case["rounds"] = [first, {"fails": [], "crash": None, "restore": True}]
    if rng.random() < 0.3:
        case["rounds"].append({"fails": [], "crash": None, "restore": True})
    return case


def builtin_corpus():
    """the demo's shape: foo + data={bar,baz,sub/qux} + more={baz,zap}; baz is not in the cache"""
    hx = lambda b: b.hex()  # noqa: E731
    files = {"f0": hx(b"bar\n"), "f1": hx(b"baz\n"), "f2": hx(b"qux\n"), "f3": hx(b"zap\n"), "f4": hx(b"foo\n")}
    dirs = {"d0.dir": [["bar", "f0"], ["baz", "f1"], ["sub/qux", "f2"]], "d1.dir": [["baz", "f1"], ["zap", "f3"]]}
    out = []
    for explicit, cls in ((False, "base"), (True, "local")):
        out.append({"prop": "C04", "stream": "index-push", "files": files, "dirs": dirs, "loose": ["f4"],
                    "explicit": explicit, "cache_missing": ["f1"], "remote": {}, "cache_cls": "base",
                    "remote_cls": cls, "remote_index": explicit,
                    "rounds": [{"fails": [], "crash": None}, {"fails": [], "crash": None, "restore": True}]})
    return out


def run_case(ctx, case, crash_points=0):
    """run a push scenario; optionally replay it with the first round aborted at some upload attempts
    (the retry follows the crash: what is left behind is genuine, so nothing gets re-hashed away).
    Returns [(case, scenario)] - scenarios are run and closed; judge/features results attached."""
    out = []
    S = PushScenario(ctx, case)
    try:
        S.run_all()
        out.append((case, judge(S), features(S), S.rounds))
        m = len(S.rounds[0]["putorder"])
    finally:
        S.close()
    if crash_points and m:
        points = list(range(1, m + 1))
        if len(points) > crash_points:
            points = sorted(ctx.rng.sample(points, crash_points))
        for n in points:
            cv = {**case, "rounds": [{**case["rounds"][0], "crash": n}] + [dict(r) for r in case["rounds"][1:]]}
            S = PushScenario(ctx, cv)
            try:
                S.run_all()
                out.append((cv, judge(S), features(S), S.rounds))
            finally:
                S.close()
    return out
