"""Input-space audit (tools/COVERAGE_AUDIT.md) for C05 / C10: fixed cases that reach each meaningful input
dimension in EVERY run, judged by the existing oracles (and by the model correspondence unless marked
oracle-only because the model deliberately leaves the dimension out: injected link faults, corrupt cache
objects, the empty-directory target)."""

from __future__ import annotations

import hashlib
import os

from lib import impl

from props import _objcheckout_common as C

LONG = "L" * 200
NAMES = ["we\\ird.txt", " lead space", ".hidden", "кириллица.txt", "日本語", "\U0001F600.bin", "café.txt", "café.txt",
         "x.dir", "imgs/a", "imgs_raw/a", "imgs.bak", "q", LONG, "Readme", "README/x", "y.dir/inner"]


def _base(**kw):
    c = {"stream": "audit", "cls": "local", "types": ["copy"], "state": True, "relink": False, "second": "plain",
         "force": True, "prompt": "none"}
    c.update(kw)
    return c


def audit_cases(prop):
    """[(case, oracle_only)]"""
    out = []
    pool = ["A", "B", "C", "D", "E"]
    tgt_names = {n: pool[i % 5] for i, n in enumerate(NAMES)}
    prior_names = {n: [pool[(i + (1 if i % 3 == 0 else 0)) % 5], ("copy", "hardlink", "symlink")[i % 3]]
                   for i, n in enumerate(NAMES) if i % 4 != 3}
    for n in list(prior_names):
        if C.CONTENT_POOL[prior_names[n][0]] == "" and prior_names[n][1] == "hardlink":
            prior_names[n][1] = "copy"
    force = prop == "C10"
    # ---- 1. names
    out.append((_base(cls="local", types=["hardlink"], relink=True, force=force, prior=prior_names, target=tgt_names,
                      cache=pool, state_mode="shared"), False))
    pn2 = {k: list(v) for k, v in prior_names.items()}
    if prop == "C05":
        pn2["we\\ird.txt"] = ["U", "copy"]              # user edits under awkward names: must be refused
        pn2["cafe\u0301.txt"] = ["V", "copy"]
        pn2[LONG] = ["W", "copy"]
    out.append((_base(cls="base", types=["copy"], force=force, prior=pn2, target=tgt_names, cache=pool, state_mode="real",
                      prompt="none" if prop == "C10" else "no"), False))
    out.append((_base(cls="local", types=["symlink"], relink=True, force=force, prior=None, target=tgt_names, cache=pool,
                      state_mode="noop", route="load", obj_names=True), False))
    # the target read back from its .dir object in a BASE-class store (no trust-by-mode: HashFileDB.check re-hashes the
    # tree object on every checkout) - the tree object itself is part of the cache that must not change
    out.append((_base(cls="base", types=["copy"], force=force, prior=None, target=tgt_names, cache=pool,
                      state_mode="absent", route="load"), False))
    out.append((_base(cls="base", types=["hardlink"], relink=True, force=force, prior=prior_names, target=tgt_names,
                      cache=pool, state_mode="shared", route="load"), False))
    # ---- 2. shapes: depth >= 3 through a directory of directories, duplicates in and across directories, zero-length
    #         files under hardlink, empty directories and directories of empty directories in the workspace, untracked
    #         paths, a one-file directory
    shape_t = {"p/q/r/s": "A", "p/q/r2/t": "A", "d1/a": "B", "d1/b": "B", "d2/a": "B", "z/empty": "E", "e0": "E"}
    shape_p = {"p/q/r/s": ["A", "hardlink"], "d1/a": ["C", "copy"], "z/empty": ["E", "copy"], "untracked/u": ["A", "copy"],
               "stray": ["B", "symlink"]}
    for cls, ty, rl in (("local", "hardlink", True), ("base", "hardlink", False), ("local", "symlink", True)):
        out.append((_base(cls=cls, types=[ty], relink=rl, force=force, prior=shape_p, target=shape_t, cache=pool,
                          empty_dirs=["emptyd", "ed/e1", "ed/e2/e3", "p/q/only-dirs/x"], route="build" if rl else "direct"), False))
    out.append((_base(cls="local", types=["hardlink"], force=force, prior={"only": ["B", "copy"]}, target={"only": "A"},
                      cache=pool, empty_dirs=["e"]), False))
    # ---- 4. flags: force x relink x prompt x state, callback / quiet
    tiny_p = {"a": ["A", "copy"], "b": ["U", "copy"], "c": ["B", "symlink"], "sub/k": ["A", "hardlink"]}
    tiny_t = {"a": "A", "b": "B", "d": "A", "sub/k": "B"}
    i = 0
    for sm in ("absent", "noop", "real", "shared"):
        for rl in (False, True):
            for pm in (("none",) if prop == "C10" else ("none", "no", "yes")):
                ty = ("copy", "hardlink", "symlink")[i % 3]
                out.append((_base(cls=("local", "base")[i % 2], types=[ty], relink=rl, force=force, prompt=pm, prior=tiny_p,
                                  target=tiny_t, cache=["A", "B"], state_mode=sm, callback=(i % 2 == 0), loud=(i % 3 == 0),
                                  second=("plain", "same")[i % 2]), False))
                i += 1
    # ---- 4b. link types as fallback lists whose first type is unavailable here (reflink)
    for tys in (["reflink", "hardlink", "copy"], ["reflink", "copy"], ["reflink", "symlink", "copy"]):
        out.append((_base(types=tys, relink=True, force=force, prior=tiny_p, target=tiny_t, cache=["A", "B"]), False))
    # ---- 5. pre-existing workspace: links into ANOTHER cache, a live link into ours, the workspace reached through a
    #         symlinked parent, untracked paths
    other_p = {"a": ["A", "xsym"], "b": ["B", "xhard"], "c": ["C", "xsym"], "d": ["A", "symlink"], "extra/x": ["D", "xhard"]}
    other_t = {"a": "A", "b": "B", "c": "A", "d": "A"}
    for cls, ty, rl, via in (("local", "symlink", True, False), ("base", "hardlink", True, True), ("local", "copy", False, True)):
        out.append((_base(cls=cls, types=[ty], relink=rl, force=force, prior=other_p, target=other_t,
                          cache=["A", "B"] if prop == "C05" else ["A", "B", "C"], ws_via_symlink=via), False))
    # ---- 5b. cache object states (oracle only: the model abstracts cache.check as "present and intact")
    for cls in ("local", "base"):
        out.append((_base(cls=cls, types=["hardlink"], force=force, prior=tiny_p, target=tiny_t, cache=["A", "B"],
                          cache_state={"A": "unprotected", "B": "unprotected"}), True))
        out.append((_base(cls=cls, types=["copy"], force=force, prior={"a": ["A", "copy"], "b": ["B", "copy"]},
                          target={"a": "B", "b": "B"}, cache=["A", "B"], cache_state={"A": "corrupt"}), True))
    if C.INCLUDE_CORRUPT_PROTECTED and prop == "C05":
        out.append((_base(cls="local", types=["copy"], force=False, state=False, prior={"a": ["A", "copy"], "keep": ["B", "copy"]},
                          target={"a": "B", "keep": "B"}, cache=["A", "B"], cache_state={"A": "corrupt_protected"}), True))
    # ---- 7. one failing link creation at each position (oracle only), then a forced retry that must converge
    ft = {"f1": "A", "sub/f2": "B", "sub/f3": "C"}
    k = 0
    for at in (1, 2, 3):
        for exc in ("FileNotFoundError", "PermissionError", "EIO"):
            ty = ("hardlink", "symlink", "copy")[k % 3]
            out.append((_base(cls=("local", "base")[k % 2], types=[ty], force=force, prior={"f1": ["B", "copy"]}, target=ft,
                              cache=["A", "B", "C"], fault={"at": at, "exc": exc},
                              call2={"drop": [], "target": ft, "force": True, "prompt": "none", "relink": False,
                                     "fresh_odb": False}), True))
            k += 1
    return out


def run_audit(ctx, prop):
    items = []
    n = 0
    for case, oracle_only in audit_cases(prop):
        case = dict(case, contents=dict(C.CONTENT_POOL))
        r = C.run_case(ctx, case)
        ctx.case(case, r["nontrivial"])
        n += 1
        for sig, what in r[prop.lower()]:
            ctx.oracle_fail(sig, what, case)
        if not oracle_only:
            items.extend(r["items"])
    ctx.count("audit-cases", n)
    return items
