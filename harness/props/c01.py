"""C01 - object stores are content-addressed: every object is named by its own digest.

Random operation histories (stage / stage-with-upload / add / transfer / index save / migrate)
over 1-3 real stores of both classes and three algorithms.  After every step
  * the independent oracle re-hashes every object of every store with hashlib under the store's
    algorithm, parses and re-serialises every .dir object, and checks the mode bits;
  * what changed in every store (oid, bytes, mode) is recorded and later compared, byte for byte,
    with what the Gallina model (Model/StoreOps.v, evaluated by vm_compute inside coqc with the
    Gallina MD5 / SHA-256) computes for the same history.
"""

import hashlib
import json
import os
import stat

os.umask(0o022)  # copies get 0o666 & ~umask; dvc_objects reads the umask when first imported

from lib import impl  # noqa: E402
from lib.core import cN, cbool, cbytes, clist, cpair, ctor, vB, vL, vN  # noqa: E402, F401

PROPERTY = "C01"
GEN: list = ["dbadd"]  # Gen/DbAdd.v: HashFileDB.add / add_update_tree / migrate decisions, tied to the model by Proofs/StoreOpsTie.v
RULE = (
    "a case is a history of 3..8 (quick) / 3..20 (thorough) operations over 1-3 fresh stores, each "
    "LocalHashFileDB or HashFileDB with hash_name md5 / md5-dos2unix / sha256 (stores mostly share one "
    "algorithm so that transfers are legal). Operations: stage a file or a nested tree (build + "
    "transfer; duplicate contents, empty files, CRLF text, NUL-binary, non-ASCII and escaping-relevant "
    "names, empty directory), the same through upload=True, a truthful external odb.add (file or "
    "directory object, also re-adding), transfer of ids present in the source (files, directories, "
    "shallow or expanding, plus absent ids), index build+md5+save of a nested tree, migrate between "
    "any two stores (same or different algorithm, non-empty destination). Every choice comes from "
    "ctx.rng; the ids of a transfer are drawn from the real source store at that point of the history. "
    "A case is non-trivial when at least three of its steps changed a store. "
    "Every fourth history shares ONE real hash-state cache (State) between a legacy md5-dos2unix and an md5 store "
    "(plus maybe a third) and keeps its workspaces, half of its stage/save operations re-use an earlier unchanged "
    "workspace in another store (warm cache, other algorithm, both orders). Histories also reopen a store directory "
    "under the other class (generic <-> local) and then re-add / re-stage / transfer ids that are already present. "
    "Every fifth StateNoop history ends in one operation that breaks WfOp (malformed stream). "
    "Trees also contain a directory next to siblings whose names extend its name by a character sorting below '/' "
    "(data/ next to data.csv, data-v2, 'data v'; img/ next to 'img 2.png'; a/ next to a.b, a-b, 'a b'), as files and "
    "as directories, so that key-tuple order and relpath order differ. 30% of the transfers run with verify=True. "
    "Rot stream (every third plain history): after the normal steps an object of a store is rewritten on disk (an "
    "external event, same inode and mode), followed by 1-3 steps, mostly verifying transfers of the rotten id and of "
    "directories listing it into same-algorithm partners: only objects on a rewritten inode may then be misnamed. "
    "In shared-State histories a file of a kept workspace is now and then given other bytes of the same length - "
    "replaced by rename with identical size and st_mtime_ns (new inode), or rewritten in place inside the same second - "
    "and the workspace is staged / index-saved again right away, preferably into the emptiest store. "
    "Large-content stream, ORACLE ONLY (2 fixed histories per run): files of 2^20+k bytes with a binary head and CRLF "
    "text in a later hashing chunk, and the mirror image, staged into md5-dos2unix / md5 stores and migrated in both "
    "directions, then transferred with verify; no Coq evaluation for these (a MiB through the Gallina MD5 is out of "
    "reach), the hashlib oracle judges every store after every step. "
    "Large-file thread pool, ORACLE ONLY (6 fixed cases per run = 3 size orders x {build+transfer, index "
    "build_entries(compute_hash)+save}): one directory with four files of 24, 6, 2.25 and 1.125 MiB, the first-LISTED "
    "one (walk order observed) the largest, checksum_jobs=4, so that the pool's completion order differs from the "
    "listing order; every object must be named by its digest and every staged content present under its digest. "
    "Input-space audit (tools/COVERAGE_AUDIT.md), FIXED cases of every run: through the model - one tree with every "
    "name class (backslash, space, leading dot, Cyrillic, CJK, emoji, a non-NFC name next to its composed twin, "
    "names ending in .dir/.DIR, prefix siblings, 1 and 200 characters, case twins), every shape (empty directory, "
    "only-empty sub-directories, one file, depth 5 through directories holding only directories, duplicates, "
    "zero-length files, a directory entry at the root key (), the empty listing's oid), every route for one logical "
    "tree (build+transfer, upload, index save first and second time with a root entry, plain adds + a hand-built Tree "
    "through add_update_tree, labelled ids, jobs 1/4) with a route-equivalence check, ids ending in d/i/r; ORACLE ONLY "
    "(flags and external events the model does not have, 115 short histories): {right unprotected, corrupt "
    "unprotected, corrupt protected, empty leftover} x {local, generic} x 13 routes/flag settings (add with "
    "check_exists / verify / hardlink, stage, upload, save, transfer plain / shallow / verify / hardlink / "
    "hardlink+verify, migrate), store-default verify=True, a source modified between staging and transfer with and "
    "without verify, hardlink x verify between all class pairs with zero-length files, add_bytes. Planted objects and "
    "what is hard-linked to them AT THAT TIME are the only ones excused from the name check; planted unprotected "
    "ones are leftovers until an operation covers them. evidence: coverage.input_dimensions."
)
ASSUMPTIONS = [
    "WfOp: ids handed to odb.add by callers outside dvc-data are truthful; transfer is used between stores of one "
    "hash algorithm; the `name` given to build()/index.md5() is the store's hash_name; directory staging / directory "
    "index entries are used with md5 or md5-dos2unix stores only (sha256 directory staging goes through the legacy "
    "external-output path, DESIGN section 6 C01 'not covered')",
    "model: contents shorter than one hashing chunk (2^20 bytes), the dos2unix heuristic sees the first 512 bytes of the "
    "whole content (chunking is C14); the oracle's reference md5-dos2unix digest is the legacy per-1-MiB-chunk definition, "
    "computed independently with hashlib, and is applied to the large-content stream without the model; umask 022; no upload faults, no remote index (C04/C11); verify only as the transfer flag",
    "environment observed and handed to the model as explicit arguments: order of the workspace walk, order of the "
    "index iteration, order in which migrate.prepare returns the re-hashed objects, whether the file system hard-links",
    "the model is cache-free; in the shared-State histories the real State must make no observable difference (its "
    "soundness is checked here by correspondence + re-hash oracle, its own invariant is C13)",
    "leftovers: objects that sit unprotected in a directory when it is reopened under the local class may stay "
    "unprotected until an operation of the history adds or covers them (the oracle tracks that set with hashlib only)",
    "outside the property's quantifier by the lead's ruling, kept off (flags PROBE_HARDLINK_VERIFY_LOCAL, "
    "PROBE_ADD_BYTES_LOCAL): transfer(verify=True, hardlink=True) local->local of a ROTTEN write-protected source object "
    "(rot is not a dvc-data operation; trust-by-mode is C07's explicit exclusion 'not write-protected') - the link carries "
    "0o444 and is trusted; odb.add_bytes (dvc_objects' method, not one of stage/add/transfer/save/migrate) on a "
    "local-class store leaves the object 0o644",
    "held back (judged outside the property, which speaks of migrating to ANOTHER algorithm): migrate between two "
    "stores of ONE algorithm whose destination State knows the source paths - a shared State, or a store migrated onto "
    "itself - (PROBE_SAME_ALG_MIGRATE_WITH_STATE); it doubles the '.dir' suffix of directory objects",
]

IMPORTS = "From Coq Require Import NArith List.\nFrom DvcData Require Import Model.Listing Model.StoreOps."
IN_TYPE = "(list (cls * alg)) * list op"
MODEL = "fun i => run_history (fst i) (snd i)"

ALGS = ["md5", "md5-dos2unix", "sha256"]
ALG_CTOR = {"md5": "Md5", "md5-dos2unix": "Md5D2U", "sha256": "Sha256"}
CLS_CTOR = {"local": "Local", "base": "Base"}
# migrate between two stores of ONE algorithm that share a real State doubles the '.dir' suffix (reported to the
# lead as a suspected genuine defect; see the module's report).  Until it is decided the generator holds such
# migrations back in shared-State histories; set to True to generate them.
PROBE_SAME_ALG_MIGRATE_WITH_STATE = False
# Outside the property's quantifier by the lead's ruling (kept off; see ASSUMPTIONS):
#  * transfer(verify=True, hardlink=True) from a local-class source holding a rotten 0o444 object into a local-class
#    destination: the hard link carries mode 0o444, LocalHashFileDB.check trusts it, the bytes are never hashed
PROBE_HARDLINK_VERIFY_LOCAL = False
#  * odb.add_bytes (inherited from dvc_objects) on a local-class store: the object stays 0o644
PROBE_ADD_BYTES_LOCAL = False
LAST_SNAPS = [None]
use_state = [False]  # whether the history being generated shares a real State (read by gen_op)

CONTENTS = [b"", b"A", b"B", b"x\r\ny\r\n", b"x\ny\n", b"\x00bin\r\n", "é".encode(), b"\r\n", b"a\rb",
            b"\x01\x02\x03\r\n\x04\x05", b"tab\there\r\n",
            b"\x01\x02\x03abcd\r\nx",      # 3 non-text bytes of 10: exactly 30% -> text -> CRLF normalised
            b"\x01\x02\x03\x04abcdefg\r\n",  # 4 of 13: binary -> hashed as is
            b"x\ny\n"]
# text for its first 512 bytes, binary later: the heuristic only looks at the head (rare: 526-byte literal)
LONG = b"ab\r\n" * 129 + b"\x00\x01\xff\r\n\x02\r\n" + b"z"


def pick(rng):
    return LONG if rng.random() < 0.03 else rng.choice(CONTENTS)
NAMES = ["a", "b", "ü", "c d", 'q"x', "b\\s", "€", "n\nl", "\U0001f600", "z.dir", "D"]


# --------------------------------------------------------------------------------------
# independent digest (hashlib only)

_TEXT = set(range(32, 127)) | {10, 13, 9, 12, 8}


CHUNK = 2 ** 20


def digest(alg: str, b: bytes) -> str:
    """reference digest, hashlib only.  md5-dos2unix is the legacy rule as it is defined: per 1 MiB hashing chunk,
    a chunk whose first 512 bytes look like text has its CRLF pairs replaced by LF before it is fed to md5"""
    if alg == "md5-dos2unix":
        h = hashlib.md5()  # noqa: S324
        for i in range(0, len(b), CHUNK):
            chunk = b[i:i + CHUNK]
            head = chunk[:512]
            if 0 not in head and 10 * sum(1 for c in head if c not in _TEXT) <= 3 * len(head):
                chunk = chunk.replace(b"\r\n", b"\n")
            h.update(chunk)
        return h.hexdigest()
    return hashlib.new(alg, b).hexdigest()


RECIPES = {
    # more than one hashing chunk: binary head, CRLF text in the second chunk (and the mirror image)
    "bin-head+crlf-tail": lambda: b"\x00" * CHUNK + b"line one\r\nline two\r\n",
    "crlf-head+bin-tail": lambda: b"ab\r\n" * (CHUNK // 4) + b"\x00\x01\x02\r\n\xff",
    "bin-head+crlf-tail+bin": lambda: b"\x00\x01" * (CHUNK // 2) + b"x\r\ny\r\n" * 7 + b"\x00",
}


def op_file_bytes(op) -> bytes:
    return RECIPES[op["recipe"]]() if "recipe" in op else bytes.fromhex(op["file"])


def stray_files(root):
    """files of a store directory that are not at <2 chars>/<rest> (the only record of an object's
    identity is that path), except the temporary upload files build(upload=True) leaves in the root"""
    out = []
    for r, _ds, fs in os.walk(root):
        rel = os.path.relpath(r, root)
        for f in fs:
            if rel == ".":
                if not (f.startswith(".") and f.endswith(".tmp")):
                    out.append(f)
            elif os.sep in rel or len(rel) != 2:
                out.append(os.path.join(rel, f))
    return out


def audit(cfg, snaps, roots=(), loose=None, excused=()):
    """the property itself on the observed stores: [(signature, what)].  loose[si]: ids that sat unprotected in
    the directory when it was (re)opened under the local class and that no operation has added or covered since"""
    out = []
    for si, r in enumerate(roots):
        bad = stray_files(r)
        if bad:
            out.append(("C01:bad-layout", f"store {si}: files outside the <oid[:2]>/<oid[2:]> layout: {sorted(bad)[:3]}"))
    for si, ((cls, alg), snap) in enumerate(zip(cfg, snaps)):
        for oid, (data, mode) in snap.items():
            if oid.endswith(".dir"):
                if digest(alg, data) + ".dir" != oid:
                    out.append(("C01:misnamed-dir", f"store {si} ({cls},{alg}): directory object {oid} is not the "
                                f"{alg} digest of its bytes + '.dir' ({digest(alg, data)})"))
                try:
                    lst = json.loads(data.decode("utf-8"))
                    ok = isinstance(lst, list) and all(isinstance(d, dict) and "relpath" in d for d in lst)
                    ok = ok and json.dumps(sorted(lst, key=lambda d: d["relpath"]), sort_keys=True).encode() == data
                except Exception:  # noqa: BLE001
                    ok = False
                if not ok:
                    out.append(("C01:noncanonical-dir", f"store {si}: directory object {oid} is not a canonical listing"))
            elif digest(alg, data) != oid and (si, oid) not in excused:
                out.append(("C01:misnamed-file", f"store {si} ({cls},{alg}): object {oid} holds bytes whose {alg} "
                            f"digest is {digest(alg, data)}"))
            if cls == "local" and mode != 0o444 and oid not in (loose[si] if loose else ()):
                out.append(("C01:unprotected", f"store {si} (local): object {oid} has mode {oct(mode)} although an "
                            "operation of the history added or covered it"))
    return out


# --------------------------------------------------------------------------------------
# generators


# a directory next to a sibling whose name extends the directory's name by a character that sorts below '/':
# ordering the entries by key tuple and ordering them by the joined relpath then differ
SIBLINGS = [["data", "data.csv", "data-v2", "data v"], ["img", "img 2.png", "img.d"], ["a", "a.b", "a-b", "a b"]]


def tput(t, key, val):
    """add a file unless its path collides with an existing file or directory of the tree"""
    parts = key.split("/")
    for i in range(1, len(parts)):
        if "/".join(parts[:i]) in t:
            return
    if key in t or any(k.startswith(key + "/") for k in t):
        return
    t[key] = val


def gen_tree(rng, depth=0, maxfiles=5):
    t = {}
    if depth < 2 and rng.random() < 0.35:
        grp = rng.choice(SIBLINGS)
        base = grp[0]
        for n in rng.sample(["x.csv", "0", "z", "~"], rng.randint(1, 2)):
            tput(t, base + "/" + n, pick(rng))  # the directory
        for sib in rng.sample(grp[1:], rng.randint(1, 2)):
            if rng.random() < 0.3:
                tput(t, sib + "/" + rng.choice(["x.csv", "k"]), pick(rng))  # a sibling directory
            else:
                tput(t, sib, pick(rng))  # a sibling file
        if rng.random() < 0.5:
            return t
    names = rng.sample(NAMES, rng.randint(1, 4))
    for n in names:
        if len(t) >= maxfiles + 2:
            break
        if depth < 2 and rng.random() < 0.3:
            for k, v in gen_tree(rng, depth + 1, 2).items():
                tput(t, n + "/" + k, v)
        else:
            tput(t, n, pick(rng))
    return t


def gen_cfg(rng):
    main = rng.choice(["md5", "md5", "md5", "md5-dos2unix", "md5-dos2unix", "sha256"])
    n = rng.choice([1, 2, 2, 3, 3, 3])
    return [[rng.choice(["local", "base"]), main if rng.random() < 0.7 else rng.choice(ALGS)] for _ in range(n)]


def hx(b: bytes) -> str:
    return b.hex()


def gen_rot(rng, cfg, snaps):
    """an object of some store rots (preferably one that a same-algorithm partner store lacks)"""
    n = len(cfg)
    cands = []
    for i in range(n):
        for o, (d, _m) in snaps[i].items():
            if not o.endswith(".dir"):
                w = 3 if any(j != i and cfg[j][1] == cfg[i][1] and o not in snaps[j] for j in range(n)) else 1
                cands += [(i, o, d)] * w
    if not cands:
        return None
    i, o, d = rng.choice(sorted(cands))
    new = rng.choice([d + b"!", b"rotten", b"", d[:-1] or b"?", b"x\r\ny\r\n"])
    if new == d:
        new = d + b"?"
    return {"op": "rot", "store": i, "oid": o, "data": hx(new), "nonwf": True}


def gen_after_rot(rng, cfg, snaps, rotted):
    """after the rot: verifying transfers out of the damaged store (the rotten id, directories listing it, others),
    and operations that do not read store objects"""
    n = len(cfg)
    si, oid = rotted
    for _ in range(10):
        r = rng.random()
        if r < 0.7:
            src = si if rng.random() < 0.8 else rng.randrange(n)
            cands = [j for j in range(n) if j != src and cfg[j][1] == cfg[src][1]]
            if not cands or not snaps[src]:
                continue
            pool = sorted(snaps[src])
            ids = set(rng.sample(pool, min(len(pool), rng.randint(1, 3))))
            if src == si and oid in snaps[src]:
                ids.add(oid)
            dirs = [o for o in pool if o.endswith(".dir")]
            if dirs:
                ids.update(rng.sample(dirs, min(len(dirs), 2)))
            return {"op": "transfer", "src": src, "dst": rng.choice(cands), "ids": sorted(ids),
                    "shallow": rng.random() < 0.2, "verify": True}
        if r < 0.8:
            j = rng.randrange(n)
            return {"op": "reopen", "store": j, "cls": "base" if cfg[j][0] == "local" else "local"}
        j = rng.randrange(n)
        return {"op": "stage", "store": j, "file": hx(pick(rng))}
    return {"op": "stage", "store": 0, "file": hx(b"A")}


def gen_nonwf(rng, cfg, snaps):
    """one operation that breaks the caller's obligations WfOp (the malformed stream): the model must still
    agree with the real code byte for byte, and Coq's wf_op_b must say 0 for it"""
    n = len(cfg)
    shas = [j for j in range(n) if cfg[j][1] == "sha256"]
    for _ in range(12):
        kind = rng.choice(["sha-dir", "sha-save", "add-lie", "add-lie", "cross", "cross"])
        if kind == "sha-dir" and shas:
            t = gen_tree(rng)
            return {"op": "stage", "store": rng.choice(shas), "tree": {k: hx(v) for k, v in t.items()}, "nonwf": True}
        if kind == "sha-save" and shas:
            t = {"d/" + k: v for k, v in gen_tree(rng, 1, 3).items()}
            return {"op": "save", "store": rng.choice(shas), "tree": {k: hx(v) for k, v in t.items()}, "nonwf": True}
        if kind == "add-lie":
            si = rng.randrange(n)
            alg = cfg[si][1]
            a, b = rng.sample(CONTENTS[:11], 2)
            if digest(alg, a) == digest(alg, b):
                continue
            oid = digest(alg, b) if rng.random() < 0.7 else digest(rng.choice([x for x in ALGS if x != alg]), a)
            if oid == digest(alg, a):
                continue
            return {"op": "add", "store": si, "data": hx(a), "oid": oid, "nonwf": True}
        if kind == "cross":
            pairs = [(i, j) for i in range(n) for j in range(n) if cfg[i][1] != cfg[j][1] and snaps[i]]
            if not pairs:
                continue
            src, dst = rng.choice(pairs)
            pool = sorted(snaps[src])
            ids = rng.sample(pool, min(len(pool), rng.randint(1, 3)))
            return {"op": "transfer", "src": src, "dst": dst, "ids": sorted(ids), "shallow": rng.random() < 0.3,
                    "nonwf": True}
    return None


def gen_op(rng, cfg, snaps, prev_ws=()):
    """one operation, chosen against the current real stores"""
    n = len(cfg)
    for _ in range(20):
        kind = rng.choice(["stage"] * 6 + ["upload"] * 2 + ["add"] * 3 + ["transfer"] * 5 + ["save"] * 4 + ["migrate"] * 3
                          + ["reopen"] * 2)
        if kind == "reopen":
            si = rng.randrange(n)
            return {"op": "reopen", "store": si, "cls": "base" if cfg[si][0] == "local" else "local"}
        if prev_ws and rng.random() < 0.18:
            # a file of a kept workspace changes (same length); the workspace is staged again right after
            w = rng.choice(prev_ws)
            cands = sorted(k for k, v in w["tree"].items() if len(v) >= 2)
            if cands:
                k = rng.choice(cands)
                b = bytes.fromhex(w["tree"][k])
                nb = b[:-1] + bytes([(b[-1] + 1 + rng.randrange(200)) % 256])
                if nb != b:
                    return {"op": "wsedit", "ws": w["ws"], "path": k, "data": hx(nb),
                            "how": rng.choice(["replace", "replace", "inplace"])}
        if prev_ws and kind in ("stage", "save") and rng.random() < 0.5:
            # the same unchanged workspace again (a warm hash-state cache), into any store
            w = rng.choice(prev_ws)
            si = rng.randrange(n)
            if not (cfg[si][1] == "sha256" and (kind == "stage" or any("/" in k for k in w["tree"]))):
                return {"op": kind, "store": si, "tree": w["tree"], "ws": w["ws"]}
        si = rng.randrange(n)
        if kind == "upload" and rng.random() < 0.75:
            md5s = [j for j in range(n) if cfg[j][1] == "md5"]
            if not md5s:
                continue
            si = rng.choice(md5s)
        alg = cfg[si][1]
        if kind in ("stage", "upload"):
            r = rng.random()
            if alg == "sha256" or r < 0.25:
                return {"op": kind, "store": si, "file": hx(pick(rng))}
            if r < 0.32:
                return {"op": kind, "store": si, "tree": {}}
            return {"op": kind, "store": si, "tree": {k: hx(v) for k, v in gen_tree(rng).items()}}
        if kind == "add":
            if rng.random() < 0.45 and snaps[si]:
                oid = rng.choice(sorted(snaps[si]))
                return {"op": "add", "store": si, "data": hx(snaps[si][oid][0]), "oid": oid}
            if rng.random() < 0.3:
                ents = [(nm, digest(alg, rng.choice(CONTENTS))) for nm in rng.sample(NAMES, rng.randint(0, 2))]
                key = "md5" if alg != "sha256" else "sha256"
                lst = sorted(({key: h, "relpath": rp} for rp, h in ents), key=lambda d: d["relpath"])
                data = json.dumps(lst, sort_keys=True).encode()
                return {"op": "add", "store": si, "data": hx(data), "oid": digest(alg, data) + ".dir"}
            data = pick(rng)
            return {"op": "add", "store": si, "data": hx(data), "oid": digest(alg, data)}
        if kind == "transfer":
            cands = [j for j in range(n) if j != si and cfg[j][1] == alg]
            if not cands:
                if rng.random() < 0.1:
                    return {"op": "transfer", "src": si, "dst": si, "ids": sorted(snaps[si])[:2], "shallow": True}
                continue
            dst = rng.choice(cands)
            pool = sorted(snaps[si])
            ids = rng.sample(pool, min(len(pool), rng.randint(1, 3))) if pool else []
            dirs = [o for o in pool if o.endswith(".dir")]
            if dirs and rng.random() < 0.6:
                ids.append(rng.choice(dirs))
            r = rng.random()
            if r < 0.12:
                ids.append("0" * 32)  # a file id that is nowhere
            elif r < 0.18:
                ids.append("1" * 32 + ".dir")  # a directory id that is nowhere
            if not ids:
                continue
            return {"op": "transfer", "src": si, "dst": dst, "ids": sorted(set(ids)), "shallow": rng.random() < 0.3,
                    "verify": rng.random() < 0.3}
        if kind == "save":
            t = gen_tree(rng)
            if alg == "sha256":
                t = {k.replace("/", "_"): v for k, v in t.items()}
            return {"op": "save", "store": si, "tree": {k: hx(v) for k, v in t.items()}}
        if kind == "migrate":
            dst = rng.randrange(n)
            if dst == si and rng.random() < 0.8:
                continue
            if not PROBE_SAME_ALG_MIGRATE_WITH_STATE and (
                    (use_state[0] is True and cfg[dst][1] == alg) or (use_state[0] == "per-store" and dst == si)):
                continue  # same-algorithm migrate whose destination State knows the source paths: held back
            return {"op": "migrate", "src": si, "dst": dst}
    return {"op": "stage", "store": 0, "file": hx(b"A")}


# --------------------------------------------------------------------------------------
# the real code


def ckey(parts) -> str:
    return clist([cbytes(p) for p in parts])


def run_op(ctx, op, cfg, odbs, roots, ws_root, step, states=None, keep_ws=False):
    """executes one operation on the real stores; returns (code, coq op term, op-specific oracle problems)"""
    extra = []
    from dvc_objects.fs.local import localfs

    from dvc_data.hashfile.build import build
    from dvc_data.hashfile.db.migrate import migrate, prepare
    from dvc_data.hashfile.hash_info import HashInfo
    from dvc_data.hashfile.transfer import transfer
    from dvc_data.index import build as ibuild
    from dvc_data.index import md5 as imd5
    from dvc_data.index import save as isave

    kind = op["op"]
    code = 0
    ws = os.path.join(ws_root, "ws%d" % op.get("ws", step))
    reuse = "ws" in op and os.path.isdir(ws)
    if kind in ("stage", "upload"):
        si = op["store"]
        odb, alg = odbs[si], cfg[si][1]
        if "file" in op or "recipe" in op:
            data = op_file_bytes(op)
            impl.mk_tree(ws, {"f": data})
            path = os.path.join(ws, "f")
            work = ctor("WFile", cbytes(data)) if "file" in op else "WFile_too_large_for_a_literal"
        else:
            tree = {k: bytes.fromhex(v) for k, v in op["tree"].items()}
            if not reuse:
                impl.mk_tree(ws, tree)
                for e in op.get("edirs", []):
                    os.makedirs(os.path.join(ws, *e.split("/")), exist_ok=True)
            path = ws
            # the order in which build's walk yields the files (environment, observed)
            order = []
            for root, _, files in localfs.walk(ws):
                rel = () if root == ws else tuple(root[len(ws) + 1:].split(os.sep))
                for f in files:
                    order.append((*rel, f))
            assert sorted("/".join(k) for k in order) == sorted(tree)
            work = ctor("WDir", clist([cpair(ckey(k), cbytes(tree["/".join(k)])) for k in order]))
        try:
            staging, _meta, obj = build(odb, path, localfs, alg, upload=(kind == "upload"))
            if "modify" in op:
                # the source changes between staging and the transfer (a user event, oracle-only histories)
                with open(path, "wb") as f:
                    f.write(bytes.fromhex(op["modify"]))
            transfer(staging, odb, {obj.hash_info}, shallow=False, verify=bool(op.get("verify")))
        except Exception as exc:  # noqa: BLE001
            code = impl.err_code(exc)
        if "modify" in op and not op.get("verify"):
            extra.append(("excuse", (si, digest(alg, op_file_bytes(op)))))  # nobody looked at the bytes again
        term = ctor("OStage" if kind == "stage" else "OStageUpload", str(si), work)
    elif kind == "add":
        si = op["store"]
        data = bytes.fromhex(op["data"])
        impl.mk_tree(ws, {"f": data})
        kw = {k: op[k] for k in ("check_exists", "verify", "hardlink") if k in op}
        try:
            if op.get("tree_add"):
                # add_update_tree: a Tree built by hand (children registered before parents), digested, added
                from dvc_data.hashfile.db import add_update_tree
                from dvc_data.hashfile.tree import Tree

                t = Tree()
                for rp, h in reversed(op["tree_add"]):
                    t.add(tuple(rp.split("/")), None, HashInfo("md5", h))
                t.digest()
                assert t.oid == op["oid"], (t.oid, op["oid"])
                add_update_tree(odbs[si], t)
            else:
                odbs[si].add(os.path.join(ws, "f"), localfs, op["oid"], **kw)
        except Exception as exc:  # noqa: BLE001
            code = impl.err_code(exc)
        term = ctor("OAdd", str(si), cbytes(data), cbytes(op["oid"]))
    elif kind == "add_bytes":
        si = op["store"]
        data = bytes.fromhex(op["data"])
        try:
            odbs[si].add_bytes(digest(cfg[si][1], data), data)
        except Exception as exc:  # noqa: BLE001
            code = impl.err_code(exc)
        term = None
    elif kind == "plant":
        # not a dvc-data operation: a file appears at an object's path (a crashed writer, another tool)
        si = op["store"]
        data = bytes.fromhex(op["data"])
        pth = impl.plant(roots[si], op["oid"], data, mode=op["mode"])
        if digest(cfg[si][1], data) + (".dir" if op["oid"].endswith(".dir") else "") != op["oid"]:
            extra.append(("rotten-inode", os.lstat(pth).st_ino))
        if op["mode"] != 0o444:
            extra.append(("loose", (si, op["oid"])))
        term = None
    elif kind == "transfer":
        src, dst = op["src"], op["dst"]
        if op.get("all_ids"):
            op["ids"] = sorted(impl.walk_store(roots[src]))
        ids = {HashInfo(cfg[src][1], o, obj_name=(op["obj_name"] + o[:4]) if op.get("obj_name") else None)
               for o in op["ids"]}
        kw = {k: op[k] for k in ("hardlink", "jobs") if k in op}
        try:
            transfer(odbs[src], odbs[dst], ids, shallow=op["shallow"], verify=bool(op.get("verify")), **kw)
        except Exception as exc:  # noqa: BLE001
            code = impl.err_code(exc)
        term = ctor("OTransfer", str(src), str(dst), clist([cbytes(o) for o in op["ids"]]), cbool(op["shallow"]),
                    cbool(bool(op.get("verify"))))
    elif kind == "save":
        si = op["store"]
        alg = cfg[si][1]
        tree = {k: bytes.fromhex(v) for k, v in op["tree"].items()}
        if not reuse:
            impl.mk_tree(ws, tree)
            for e in op.get("edirs", []):
                os.makedirs(os.path.join(ws, *e.split("/")), exist_ok=True)
        dirs, files = [], []
        try:
            idx = ibuild(ws, localfs)
            if op.get("rootdir"):
                # a directory entry at the ROOT key (): the whole workspace as one directory object
                from dvc_data.hashfile.meta import Meta
                from dvc_data.index import DataIndexEntry

                idx.add(DataIndexEntry(key=(), meta=Meta(isdir=True)))
            if op.get("legacy"):
                # an index as read from a DVC 2.x project: every file entry carries its legacy md5-dos2unix hash
                for key, entry in list(idx.iteritems()):
                    if not (entry.meta and entry.meta.isdir):
                        entry.hash_info = HashInfo("md5-dos2unix", digest("md5-dos2unix", tree["/".join(key)]))
            idx = imd5(idx, state=states[si] if states else None, name=alg)
            for key, entry in idx.iteritems():  # the order save() will see (environment, observed)
                if entry.meta and entry.meta.isdir:
                    dirs.append(key)
                elif entry.hash_info:
                    files.append((key, tree["/".join(key)], entry.hash_info.value))
            isave(idx, odb=odbs[si])
            for _ in range(op.get("resave", 0)):
                # the SAME index object saved again: its directory entries now carry the .dir hashes of the first
                # save; every directory object must still be the listing of the files below it
                isave(idx, odb=odbs[si])
                for o in impl.walk_store(roots[si]):
                    if o.endswith(".dir"):
                        extra.append(("dir-after-resave", o))
        except Exception as exc:  # noqa: BLE001
            code = impl.err_code(exc)
        for key, data, rec in files:
            if rec != digest(alg, data):
                extra.append(("C01:index-md5-untruthful", f"index.md5 recorded {rec} for content whose {alg} digest "
                              f"is {digest(alg, data)}"))
        term = ctor("OSaveIndex", str(si), clist([ckey(k) for k in dirs]),
                    clist([f"({ckey(k)}, {cbytes(d)}, {cbytes(r)})" for k, d, r in files]))
    elif kind == "migrate":
        src, dst = op["src"], op["dst"]
        order, hard = [], True
        before = impl.walk_store(roots[dst])
        try:
            m = prepare(odbs[src], odbs[dst])
            order = [odbs[src].path_to_oid(p) for p in m.paths]  # completion order of the pool (observed)
            src_inodes = {os.lstat(p).st_ino for p in m.paths}
            migrate(m)
            for o in impl.walk_store(roots[dst]):
                if o not in before and os.path.getsize(os.path.join(roots[dst], o[:2], o[2:])):
                    # did the file system hard-link? (observed; empty files are never linked)
                    ino = os.lstat(os.path.join(roots[dst], o[:2], o[2:])).st_ino
                    if ino not in src_inodes:
                        hard = False
        except Exception as exc:  # noqa: BLE001
            code = impl.err_code(exc)
        if code == 0:
            # migrate's own clause of the property: every source object is in the destination under the
            # destination algorithm's digest of its bytes, a directory object with '.dir' carried over
            after = impl.walk_store(roots[dst])
            for o, (data, _m) in impl.walk_store(roots[src]).items():
                want = digest(cfg[dst][1], data) + (".dir" if o.endswith(".dir") else "")
                if want not in after:
                    extra.append(("C01:migrate-not-filed-under-digest",
                                  f"migrate {src}->{dst}: source object {o} is not in the destination under {want}"))
        if not hard:
            ctx.count("env:migrate-without-hardlink")
        term = ctor("OMigrate", str(src), str(dst), clist([cbytes(o) for o in order]), cbool(hard))
    elif kind == "wsedit":
        # a workspace event, not a store operation: a file of a kept workspace gets other bytes of the same length
        pth = os.path.join(ws, *op["path"].split("/"))
        data = bytes.fromhex(op["data"])
        old = os.lstat(pth)
        assert len(data) == old.st_size
        if op["how"] == "replace":
            # replaced by another file: same path, size and mtime (to the nanosecond), new inode (rsync -t style)
            tmp = os.path.join(ws_root, "aside-%d" % step)
            with open(tmp, "wb") as f:
                f.write(data)
            os.utime(tmp, ns=(old.st_atime_ns, old.st_mtime_ns))
            os.replace(tmp, pth)
            new = os.lstat(pth)
            assert (new.st_size, new.st_mtime_ns) == (old.st_size, old.st_mtime_ns) and new.st_ino != old.st_ino
        else:
            # rewritten in place within the same second: same inode and size, mtime differs by a fraction
            with open(pth, "r+b") as f:
                f.write(data)
            sec = old.st_mtime_ns // 10 ** 9
            frac = 500_000_000 if old.st_mtime_ns % 10 ** 9 != 500_000_000 else 250_000_000
            os.utime(pth, ns=(old.st_atime_ns, sec * 10 ** 9 + frac))
            new = os.lstat(pth)
            assert new.st_ino == old.st_ino and int(new.st_mtime) == int(old.st_mtime) and new.st_mtime != old.st_mtime
        return 0, None, extra
    elif kind == "rot":
        # not a dvc-data operation: the bytes of an object change on disk (same inode, same mode)
        si = op["store"]
        pth = os.path.join(roots[si], op["oid"][:2], op["oid"][2:])
        data = bytes.fromhex(op["data"])
        if os.path.isfile(pth):
            before_rot = os.lstat(pth)
            mode = stat.S_IMODE(before_rot.st_mode)
            os.chmod(pth, 0o644)
            with open(pth, "r+b") as f:
                f.truncate(0)
                f.write(data)
            new = os.lstat(pth)
            if new.st_mtime_ns == before_rot.st_mtime_ns:  # coarse kernel clock: a rewrite does move the mtime
                os.utime(pth, ns=(new.st_atime_ns, new.st_mtime_ns + 1_000_000))
            os.chmod(pth, mode)
            extra.append(("rotten-inode", os.lstat(pth).st_ino))
        term = ctor("ORot", str(si), cbytes(op["oid"]), cbytes(data))
    elif kind == "reopen":
        si = op["store"]
        kw = {"state": states[si]} if states else {}
        odbs[si] = impl.make_odb(op["cls"], roots[si], hash_name=cfg[si][1], **kw, **(op.get("opts") or {}))
        cfg[si][0] = op["cls"]
        term = ctor("OReopen", str(si), CLS_CTOR[op["cls"]])
    else:
        raise ValueError(kind)
    if not keep_ws:
        impl.rm_rf(ws)
    return code, term, extra


def delta_val(prev, nxt):
    ch = [(o, v) for o, v in sorted(nxt.items(), key=lambda kv: tuple(ord(c) for c in kv[0])) if prev.get(o) != v]
    gone = sorted((o for o in prev if o not in nxt), key=lambda o: tuple(ord(c) for c in o))
    return vL([vN(len(nxt)), vL([vL([vB(o), vB(v[0]), vN(v[1])]) for o, v in ch]), vL([vB(o) for o in gone])])


def covered(op, code, cfg, before, after):
    """ids of the destination store that this operation added or covered (computed with hashlib only): the ones
    `add` was asked for (copied or already there) and the ones a status query on a local store verified"""
    if code != 0:
        return None, set()
    kind = op["op"]
    if kind == "add":
        return op["store"], {op["oid"]}
    if kind == "save" and op.get("legacy"):
        return None, set()
    if kind in ("stage", "upload", "save"):
        si = op["store"]
        alg = cfg[si][1]
        if "file" in op or "recipe" in op:
            return si, {digest(alg, op_file_bytes(op))}
        tree = {k: bytes.fromhex(v) for k, v in op["tree"].items()}
        out = {digest(alg, v) for v in tree.values()}
        key = "sha256" if alg == "sha256" else "md5"
        prefixes = {""} if kind != "save" else {k[:i + 1] for k in tree for i, c in enumerate(k) if c == "/"}
        if kind == "save":
            for e in op.get("edirs", []):
                prefixes |= {e[:i + 1] for i, c in enumerate(e) if c == "/"} | {e + "/"}
            if op.get("rootdir"):
                prefixes.add("")
        for pre in prefixes:
            lst = sorted(({key: digest(alg, v), "relpath": k[len(pre):]} for k, v in tree.items() if k.startswith(pre)),
                         key=lambda d: d["relpath"])
            out.add(hashlib.md5(json.dumps(lst, sort_keys=True).encode()).hexdigest() + ".dir")  # noqa: S324
        return si, out
    if kind == "transfer" and op["src"] != op["dst"]:
        return op["dst"], set(op["ids"])
    if kind == "migrate":
        dalg = cfg[op["dst"]][1]
        return op["dst"], {digest(dalg, d) + (".dir" if o.endswith(".dir") else "") for o, (d, _m) in before[op["src"]].items()}
    return None, set()


def run_history(ctx, cfg, ops=None, nsteps=0, malformed=False, shared_state=False, rot=False):
    """runs a history (given, or generated step by step) on fresh real stores.
    shared_state: all stores of the history share one real hash-state cache (State) and workspaces stay, so that
    re-staging an unchanged workspace meets a warm cache.
    returns (case, input term, expected val, problems [(sig, what, step)], changed steps)"""
    cfg0 = [list(c) for c in cfg]
    cfg = [list(c) for c in cfg]  # the class of a store changes when it is reopened
    root = ctx.fresh("c01")
    roots = [os.path.join(root, f"store{i}") for i in range(len(cfg))]
    states = None  # shared_state: False | True (one State for all stores) | "per-store" (each odb has its own)
    if shared_state:
        from dvc_data.hashfile.state import State

        if shared_state == "per-store":
            states = [State(root_dir=root, tmp_dir=os.path.join(root, f"state-tmp{i}")) for i in range(len(cfg))]
        else:
            states = [State(root_dir=root, tmp_dir=os.path.join(root, "state-tmp"))] * len(cfg)
    opts = [dict(c[2]) if len(c) > 2 else {} for c in cfg]  # e.g. {"verify": True}: the store's default verification
    cfg = [c[:2] for c in cfg]
    odbs = [impl.make_odb(cls, roots[i], hash_name=alg, **({"state": states[i]} if states else {}), **opts[i])
            for i, (cls, alg) in enumerate(cfg)]
    per_store = shared_state == "per-store"
    shared_state = shared_state is True
    for r in roots:
        os.makedirs(r, exist_ok=True)
    snaps = [dict() for _ in cfg]
    loose = [set() for _ in cfg]
    done, terms, exp, problems = [], [], [], []
    prev_ws = []
    changed = 0
    kinds = set()
    total = len(ops) if ops is not None else nsteps
    use_state[0] = "per-store" if per_store else shared_state
    try:
        rotten_inodes = set()
        rotted = None
        forced = None
        # oracle-only histories: no literals of MiB-sized contents; flags / events the model does not have
        large = any("recipe" in o or o["op"] in ("plant", "add_bytes") or "modify" in o or "hardlink" in o
                    or "check_exists" in o or (o["op"] == "add" and "verify" in o) for o in (ops or [])) or any(opts)
        excused_pairs = set()
        ntail = ctx.rng.randint(1, 3) if (rot and ops is None) else 0
        for step in range(total + (1 if malformed else 0) + ((1 + ntail) if rot and ops is None else 0)):
            if rot and ops is None and step >= total:
                if step == total:
                    op = gen_rot(ctx.rng, cfg, snaps)
                    if op is None:
                        break
                    rotted = (op["store"], op["oid"])
                else:
                    op = gen_after_rot(ctx.rng, cfg, snaps, rotted)
            elif step == total:
                op = gen_nonwf(ctx.rng, cfg, snaps)
                if op is None:
                    break
            elif ops is None and forced is not None:
                # right after a workspace edit: stage that workspace again, preferably into a store that lacks
                # the objects of its previous content
                order = list(range(len(cfg)))
                ctx.rng.shuffle(order)
                order = [j for j in order if cfg[j][1] != "sha256"] or order
                si = min(order, key=lambda j: len(snaps[j]))
                kind = "save" if ctx.rng.random() < 0.3 else "stage"
                op = {"op": kind, "store": si, "tree": forced["tree"], "ws": forced["ws"]}
                forced = None
            else:
                op = ops[step] if ops is not None else gen_op(ctx.rng, cfg, snaps, prev_ws if shared_state else ())
            code, term, extra = run_op(ctx, op, cfg, odbs, roots, root, step, states, keep_ws=shared_state)
            if op["op"] == "wsedit":
                for w in prev_ws:
                    if w["ws"] == op["ws"]:
                        w["tree"] = {**w["tree"], op["path"]: op["data"]}
                        forced = w
                done.append(op)
                ctx.count("op:wsedit:" + op["how"])
                continue
            for x in [e for e in extra if e[0] in ("rotten-inode", "loose", "excuse")]:
                extra.remove(x)
                if x[0] == "loose":
                    if cfg[x[1][0]][0] == "local":
                        loose[x[1][0]].add(x[1][1])
                elif x[0] == "excuse":
                    excused_pairs.add(x[1])
                else:
                    # the damaged object and the hard links it has NOW are excused; whatever dvc-data links or
                    # copies from it later is not
                    for si2, r in enumerate(roots):
                        for o in impl.walk_store(r):
                            if os.lstat(os.path.join(r, o[:2], o[2:])).st_ino == x[1]:
                                excused_pairs.add((si2, o))
            new = [impl.walk_store(r) for r in roots]
            wf = 0 if op.get("nonwf") else 1  # Coq's wf_op_b must agree: the generator keeps WfOp unless it says otherwise
            if not large:
                exp.append(vL([vN(code), vN(wf), vL([delta_val(p, n) for p, n in zip(snaps, new)])]))
            if new != snaps:
                changed += 1
                kinds.add(op["op"])
            # leftovers: what sits unprotected in a directory when it is opened under the local class may stay so
            # until an operation adds or covers it
            if op["op"] == "reopen":
                si = op["store"]
                loose[si] = {o for o, (_d, m) in new[si].items() if m != 0o444} if op["cls"] == "local" else set()
            ci, ids = covered(op, code, cfg, snaps, new)
            if ci is not None:
                loose[ci] -= ids
            resaved = {x[1] for x in extra if x[0] == "dir-after-resave"}
            extra = [x for x in extra if x[0] != "dir-after-resave"]
            if op["op"] in ("stage", "upload", "save") and "tree" in op and code == 0 and not op.get("legacy") \
                    and not op.get("nonwf"):
                # the canonical-listing clause, judged independently of the stored bytes: a directory object this
                # operation filed must be the listing of the workspace files (computed here with hashlib + json)
                odd = sorted(o for o in (set(new[ci]) - set(snaps[ci])) | resaved if o.endswith(".dir") and o not in ids)
                if odd:
                    extra.append(("C01:dir-object-not-the-listing-of-its-files",
                                  f"store {ci}: directory object(s) {odd[:2]} filed by this {op['op']} are not the "
                                  "canonical listing of the files below any of its directories"))
            if op["op"] in ("stage", "save") and "tree" in op and "ws" not in op:
                prev_ws.append({"tree": op["tree"], "ws": step})
            snaps = new
            done.append(op)
            terms.append(term)
            ctx.count("op:" + op["op"] + ("" if code == 0 else f":err{code}"))
            if op.get("nonwf") and op["op"] not in ("rot", "plant"):
                ctx.count("nonwf:violates" if audit(cfg, snaps, roots) else "nonwf:harmless")
                break  # the caller broke the contract: nothing is claimed about what follows
            # objects whose inode an external event rewrote are excused (the damaged object itself and its hard
            # links); nothing else may be misnamed - in particular nothing a verifying transfer let in
            bad = extra + audit(cfg, snaps, roots, loose, excused_pairs)
            if bad:
                problems = [(s, w, step) for s, w in bad]
                break
    finally:
        for st_ in {id(x): x for x in (states or [])}.values():
            st_.close()
    LAST_SNAPS[0] = snaps
    case = {"stores": cfg0, "ops": done}
    if shared_state:
        case["state"] = True
    elif per_store:
        case["state"] = "per-store"
    inp = cpair(clist([cpair(CLS_CTOR[c[0]], ALG_CTOR[c[1]]) for c in cfg0]), clist([t for t in terms if t]))
    impl.rm_rf(root)
    return case, inp, vL(exp), problems, changed, kinds


_ROT_DIR = impl.dir_oid([("a", hashlib.md5(b"A").hexdigest()), ("d/b", hashlib.md5(b"B").hexdigest())])  # noqa: S324

CORPUS = [
    # dos2unix twins in one directory, then migrate into a sha256 store and back-to-back transfer
    {"stores": [["local", "md5-dos2unix"], ["base", "md5-dos2unix"], ["local", "sha256"]],
     "ops": [{"op": "stage", "store": 0, "tree": {"a": hx(b"x\r\ny\r\n"), "s/b": hx(b"x\ny\n"), "s/c": hx(b"")}},
             {"op": "save", "store": 1, "tree": {"p/q": hx(b"x\r\ny\r\n"), "p/r/s": hx(b"x\ny\n"), "t": hx(b"A")}},
             {"op": "migrate", "src": 1, "dst": 2},
             {"op": "migrate", "src": 0, "dst": 1}]},
    # hard links couple the modes of a base-class source and a local destination
    {"stores": [["base", "md5"], ["local", "md5"], ["base", "md5"]],
     "ops": [{"op": "upload", "store": 0, "tree": {"a": hx(b"A"), "ü/b": hx(b"B"), "ü/c": hx(b"A")}},
             {"op": "migrate", "src": 0, "dst": 1},
             {"op": "add", "store": 2, "data": hx(b"A"), "oid": hashlib.md5(b"A").hexdigest()},  # noqa: S324
             {"op": "migrate", "src": 2, "dst": 1},
             {"op": "stage", "store": 1, "tree": {}}]},
    # one hash-state cache shared by a legacy and an md5 store; the same unchanged workspace staged under both
    # algorithms, in both orders (a cached digest of the other algorithm must not be taken)
    {"stores": [["local", "md5-dos2unix"], ["local", "md5"], ["base", "md5-dos2unix"]], "state": True,
     "ops": [{"op": "stage", "store": 0, "tree": {"w": hx(b"x\r\ny\r\n"), "s/u": hx(b"x\ny\n"), "s/b": hx(b"\x00bin\r\n")}},
             {"op": "stage", "store": 1, "tree": {"w": hx(b"x\r\ny\r\n"), "s/u": hx(b"x\ny\n"), "s/b": hx(b"\x00bin\r\n")}, "ws": 0},
             {"op": "save", "store": 1, "tree": {"p/q": hx(b"a\r\nb\r\n"), "r": hx(b"\r\n")}},
             {"op": "save", "store": 2, "tree": {"p/q": hx(b"a\r\nb\r\n"), "r": hx(b"\r\n")}, "ws": 2},
             {"op": "stage", "store": 0, "tree": {"p/q": hx(b"a\r\nb\r\n"), "r": hx(b"\r\n")}, "ws": 2}]},
    # a workspace file is replaced by another one of the same size and mtime (new inode) / rewritten in place within
    # the same second, between two stagings of the workspace into different stores sharing one State
    {"stores": [["local", "md5"], ["base", "md5"], ["local", "md5-dos2unix"]], "state": True,
     "ops": [{"op": "stage", "store": 0, "tree": {"f": hx(b"AAAA"), "d/g": hx(b"x\r\ny"), "h": hx(b"same")}},
             {"op": "wsedit", "ws": 0, "path": "f", "data": hx(b"AAAB"), "how": "replace"},
             {"op": "stage", "store": 1, "tree": {"f": hx(b"AAAB"), "d/g": hx(b"x\r\ny"), "h": hx(b"same")}, "ws": 0},
             {"op": "wsedit", "ws": 0, "path": "d/g", "data": hx(b"y\r\nx"), "how": "inplace"},
             {"op": "save", "store": 2, "tree": {"f": hx(b"AAAB"), "d/g": hx(b"y\r\nx"), "h": hx(b"same")}, "ws": 0},
             {"op": "wsedit", "ws": 0, "path": "h", "data": hx(b"emas"), "how": "replace"},
             {"op": "stage", "store": 2, "tree": {"f": hx(b"AAAB"), "d/g": hx(b"y\r\nx"), "h": hx(b"emas")}, "ws": 0}]},
    # a remote object rots; a verifying fetch into a local store must not let it in (nor the directory listing it)
    {"stores": [["local", "md5"], ["base", "md5"], ["local", "md5"]],
     "ops": [{"op": "stage", "store": 0, "tree": {"a": hx(b"A"), "d/b": hx(b"B")}},
             {"op": "transfer", "src": 0, "dst": 1, "ids": [_ROT_DIR], "shallow": False},
             {"op": "rot", "store": 1, "oid": hashlib.md5(b"B").hexdigest(), "data": hx(b"rotten"), "nonwf": True},  # noqa: S324
             {"op": "transfer", "src": 1, "dst": 2, "ids": [_ROT_DIR], "shallow": False, "verify": True},
             {"op": "reopen", "store": 1, "cls": "local"},
             {"op": "transfer", "src": 1, "dst": 2, "ids": [_ROT_DIR, hashlib.md5(b"B").hexdigest()],  # noqa: S324
              "shallow": False, "verify": True}]},
    # the same with a real State attached to every odb (the verifying add must hash the arrived bytes, not trust a
    # state row written for them), local and generic destination
    {"stores": [["local", "md5"], ["base", "md5"], ["local", "md5"], ["base", "md5"]], "state": "per-store",
     "ops": [{"op": "stage", "store": 0, "tree": {"a": hx(b"A"), "d/b": hx(b"B")}},
             {"op": "transfer", "src": 0, "dst": 1, "ids": [_ROT_DIR], "shallow": False},
             {"op": "rot", "store": 1, "oid": hashlib.md5(b"B").hexdigest(), "data": hx(b"rotten"), "nonwf": True},  # noqa: S324
             {"op": "transfer", "src": 1, "dst": 2, "ids": [_ROT_DIR], "shallow": False, "verify": True},
             {"op": "transfer", "src": 1, "dst": 3, "ids": [_ROT_DIR, hashlib.md5(b"B").hexdigest()],  # noqa: S324
              "shallow": True, "verify": True}]},
    # a directory filled through the generic class, reopened under the local class: leftovers stay until an add
    # covers them - then they must be read-only (add protects every oid it is asked for, copied or present)
    {"stores": [["base", "md5"], ["local", "md5"]],
     "ops": [{"op": "stage", "store": 0, "tree": {"a": hx(b"A"), "d/b": hx(b"B")}},
             {"op": "reopen", "store": 0, "cls": "local"},
             {"op": "add", "store": 0, "data": hx(b"A"), "oid": hashlib.md5(b"A").hexdigest()},  # noqa: S324
             {"op": "save", "store": 0, "tree": {"d/b": hx(b"B")}},
             {"op": "transfer", "src": 1, "dst": 0, "ids": [hashlib.md5(b"A").hexdigest()], "shallow": True},  # noqa: S324
             {"op": "stage", "store": 0, "tree": {"a": hx(b"A"), "d/b": hx(b"B")}},
             {"op": "reopen", "store": 0, "cls": "base"},
             {"op": "migrate", "src": 0, "dst": 1}]},
]


def dims_of(case):
    """the input dimensions (tools/COVERAGE_AUDIT.md) a history exercises"""
    import unicodedata

    d = set()
    for c in case["stores"]:
        d.add("class:" + c[0])
        d.add("alg:" + c[1])
    d.add("state:" + {None: "noop", False: "noop", True: "shared", "per-store": "per-store"}[case.get("state")])
    for op in case["ops"]:
        k = op["op"]
        if k in ("stage", "upload", "add", "save", "migrate", "transfer", "add_bytes", "reopen", "rot", "plant", "wsedit"):
            d.add("route:" + k)
        if k == "migrate":
            d.add("migrate:%s->%s" % (case["stores"][op["src"]][1], case["stores"][op["dst"]][1]))
        if k == "transfer":
            d.add("flag:shallow=%s" % bool(op.get("shallow")))
            d.add("flag:verify=%s" % bool(op.get("verify")))
            if any(o.endswith(".dir") for o in op.get("ids", [])):
                d.add("id:directory")
        for f in ("hardlink", "check_exists", "obj_name", "jobs", "rootdir", "tree_add", "modify", "resave", "legacy"):
            if f in op:
                d.add("flag:" + f)
        if "file" in op or "recipe" in op:
            d.add("shape:single-file")
        if "tree" in op:
            t = op["tree"]
            if not t:
                d.add("shape:empty-directory")
            if op.get("edirs"):
                d.add("shape:empty-sub-directories")
            if any(v == "" for v in t.values()):
                d.add("shape:zero-length-file")
            if len(set(t.values())) < len(t):
                d.add("shape:duplicate-contents")
            if any(kk.count("/") >= 3 for kk in t):
                d.add("shape:depth>=3")
            parts = {pp for kk in t for pp in kk.split("/")}
            low = [pp.lower() for pp in parts]
            for pp in parts:
                if "\\" in pp:
                    d.add("name:backslash")
                if " " in pp:
                    d.add("name:space")
                if pp.startswith("."):
                    d.add("name:leading-dot")
                if any(ord(ch) > 127 for ch in pp):
                    d.add("name:non-ascii")
                if any(ord(ch) > 0xffff for ch in pp):
                    d.add("name:non-BMP")
                if unicodedata.normalize("NFC", pp) != pp:
                    d.add("name:not-NFC")
                if pp.lower().endswith(".dir"):
                    d.add("name:ends-in-.dir")
                if len(pp) >= 200:
                    d.add("name:200-chars")
                if len(pp) == 1:
                    d.add("name:1-char")
                if any(q != pp and q.startswith(pp) for q in parts):
                    d.add("name:prefix-siblings")
            if len(set(low)) < len(low):
                d.add("name:case-twins")
    return d


def run(ctx):
    dims = {}
    items = []
    ncases = ctx.n(80, 500)
    maxlen = 8 if ctx.tier == "quick" else 20
    todo = [(c["stores"], c["ops"], c.get("state") or False) for c in CORPUS + AUDIT_MODEL]
    cdir = os.path.join(os.path.dirname(os.path.dirname(os.path.dirname(os.path.abspath(__file__)))), "corpus", "C01")
    if os.path.isdir(cdir):
        for fn in sorted(os.listdir(cdir)):
            if fn.endswith(".json"):
                with open(os.path.join(cdir, fn)) as f:
                    c = json.load(f)
                todo.append((c["stores"], c["ops"], c.get("state") or False))
    for i in range(ncases):
        if i % 4 == 3:
            # shared real State: at least one legacy and one md5 store
            cfg = [[ctx.rng.choice(["local", "base"]), a] for a in ctx.rng.sample(["md5", "md5-dos2unix"], 2)]
            if ctx.rng.random() < 0.6:
                cfg.append([ctx.rng.choice(["local", "base"]), ctx.rng.choice(ALGS)])
            todo.append((cfg, None, True))
        else:
            todo.append((gen_cfg(ctx.rng), None, False))
    steps = 0
    mal_items = []
    for ci, (cfg, ops, shared) in enumerate(todo):
        nsteps = ctx.rng.randint(3, maxlen) if ops is None else 0
        # (no malformed tail with a shared State: after an untruthful add the cache vouches for the wrong name, the
        #  cache-free model is only claimed for WfOp histories)
        malformed = ops is None and ci % 5 == 4 and not shared
        rot = ops is None and not shared and not malformed and ci % 3 == 0
        if ops is None and not shared and not malformed and (rot and ci % 2 == 0 or ci % 7 == 1):
            shared = "per-store"  # every odb gets a real State of its own (odb.state is then not StateNoop)
            ctx.count("stream:per-store-state")
        case, inp, exp, problems, changed, kinds = run_history(ctx, cfg, ops, nsteps, malformed, shared, rot)
        for x in dims_of(case):
            dims[x] = dims.get(x, 0) + 1
        fixed = [c for c in AUDIT_MODEL if c["ops"] is ops]
        for c in fixed:
            for x in c["dims"]:
                dims[x] = dims.get(x, 0) + 1
            want = c.get("same_root_dir")
            if want and not problems:
                # route equivalence: every route produced the same directory object
                for si, snap in enumerate(LAST_SNAPS[0]):
                    if want not in snap:
                        problems.append(("C01:route-dir-object-differs", f"store {si} does not hold {want}",
                                         len(case["ops"]) - 1))
        if rot:
            ctx.count("stream:rot")
        if shared is True:
            ctx.count("stream:shared-state")
        if malformed and case["ops"] and case["ops"][-1].get("nonwf"):
            steps += len(case["ops"])
            ctx.case(case, True)
            ctx.count("stream:malformed")
            for sig, what, step in problems:
                ctx.oracle_fail(sig, f"after step {step}: {what}", {**case, "ops": case["ops"][:step + 1]})
            if not problems:
                mal_items.append((case, inp, exp))
            continue
        steps += len(case["ops"])
        ctx.case(case, changed >= 3)
        ctx.count("stores:%d" % len(cfg))
        for c, a in cfg:
            ctx.count(f"store:{c}/{a}")
        for sig, what, step in problems:
            ctx.oracle_fail(sig, f"after step {step}: {what}", {**case, "ops": case["ops"][:step + 1]})
        if not problems:
            items.append((case, inp, exp))
    run_large(ctx)
    run_audit(ctx, dims)
    run_upload_midwrite(ctx, dims)
    run_readthrough_cache(ctx, dims)
    run_bigdir(ctx, dims)
    ctx.extra["input_dimensions"] = dict(sorted(dims.items()))
    ctx.obligation("oracle:rehash-every-object-after-every-step",
                   not any(v.kind == "oracle" for v in ctx.violations),
                   f"{steps} steps of {len(todo)} histories audited with hashlib (names, canonical listings, modes)")
    ctx.correspond("history", IMPORTS, IN_TYPE, MODEL, items, shard=4)
    # malformed stream: the last operation breaks WfOp (sha256 directory staging / index directories, an
    # untruthful external add, a transfer across algorithms); model and code must still agree, and the
    # Coq-side checker wf_op_b must reject exactly that operation
    ctx.correspond("nonwf_history", IMPORTS, IN_TYPE, MODEL, mal_items, shard=4)


def _md5(b):
    return hashlib.md5(b).hexdigest()  # noqa: S324


def _ending(ch, dir_=False):
    """a small content (resp. one-file listing) whose md5 ends in the hex digit ch (think rstrip('.dir'))"""
    for i in range(4000):
        b = b"end-%d" % i
        if not dir_ and _md5(b).endswith(ch):
            return b
        if dir_ and impl.dir_oid([("n%d" % i, _md5(b"A"))]).endswith(ch + ".dir"):
            return i
    raise AssertionError(ch)


_NFD, _NFC = "cafe\u0301.txt", "caf\u00e9.txt"
_NAMES_TREE = {
    "we\\ird.txt": b"A", "sp ace": b"B", ".hidden": b"", "\u043a\u0438\u0440": b"x\r\ny\r\n", "\u6f22\u5b57": b"A",
    "\U0001f600.bin": b"\x00bin\r\n", _NFD: b"nfd", _NFC: b"nfc", "z.dir/x": b"A", "imgs/a": b"A", "imgs_raw": b"B",
    "imgs.bak/a": b"", "i": b"i", "L" * 200: b"long", "Data/f": b"A", "data": b"B", "data.DIR": b"A",
}
_SHAPES_TREE = {"one/f": b"A", "p/q/r/s/f": b"F", "p/q/r/s/g": b"F", "dup/f": b"F", "zero": b"", "p/zero2": b""}
_SHAPES_EDIRS = ["e", "oe/e1", "oe/e2/e3", "p/q/only"]
_ROUTE_TREE = {"a": b"A", "s/b": b"x\r\ny\r\n", "s/c": b"A"}
_ROUTE_LIST = [("a", _md5(b"A")), ("s/b", _md5(b"x\r\ny\r\n")), ("s/c", _md5(b"A"))]

AUDIT_MODEL = [
    # names inside directory listings: backslash, space, leading dot, Cyrillic, CJK, emoji, a non-NFC name next to
    # its composed twin, names ending in .dir / .DIR, string-prefix siblings, 1 and 200 characters, case twins
    {"stores": [["local", "md5"], ["base", "md5-dos2unix"]], "dims": ["names:all-classes"],
     "ops": [{"op": "stage", "store": 0, "tree": {k: hx(v) for k, v in _NAMES_TREE.items()}},
             {"op": "save", "store": 1, "tree": {k: hx(v) for k, v in _NAMES_TREE.items()}},
             {"op": "migrate", "src": 1, "dst": 0}]},
    # shapes: the empty directory, a directory holding only empty sub-directories, one file, depth 5 with an
    # intermediate directory holding only sub-directories, duplicates within and across directories, zero-length
    # files, a directory entry at the ROOT key (), and the EMPTY listing's own oid
    {"stores": [["local", "md5"], ["local", "md5"], ["base", "md5"]], "dims": ["shapes:all", "oid:empty-listing"],
     "ops": [{"op": "stage", "store": 0, "tree": {k: hx(v) for k, v in _SHAPES_TREE.items()}, "edirs": _SHAPES_EDIRS},
             {"op": "save", "store": 1, "tree": {k: hx(v) for k, v in _SHAPES_TREE.items()}, "edirs": _SHAPES_EDIRS,
              "rootdir": True},
             {"op": "stage", "store": 2, "tree": {}, "edirs": ["only/empty", "only/dirs/here"]},
             {"op": "save", "store": 2, "tree": {}, "edirs": ["only/empty", "only/dirs/here"], "rootdir": True},
             {"op": "transfer", "src": 1, "dst": 2, "ids": [impl.dir_oid([])], "shallow": False, "obj_name": "lbl/",
              "jobs": 1},
             {"op": "migrate", "src": 2, "dst": 0}]},
    # the same logical input through every route - build+transfer, upload, index save with a root entry, a hand-built
    # Tree through add_update_tree after plain adds, first and second save - and labelled ids, jobs across a boundary
    {"stores": [["local", "md5"], ["base", "md5"], ["local", "md5"], ["base", "md5"]], "dims": ["routes:all"],
     "ops": [{"op": "stage", "store": 0, "tree": {k: hx(v) for k, v in _ROUTE_TREE.items()}},
             {"op": "upload", "store": 1, "tree": {k: hx(v) for k, v in _ROUTE_TREE.items()}},
             {"op": "save", "store": 2, "tree": {k: hx(v) for k, v in _ROUTE_TREE.items()}, "rootdir": True},
             {"op": "save", "store": 2, "tree": {k: hx(v) for k, v in _ROUTE_TREE.items()}, "rootdir": True},
             {"op": "add", "store": 3, "data": hx(b"A"), "oid": _md5(b"A")},
             {"op": "add", "store": 3, "data": hx(b"x\r\ny\r\n"), "oid": _md5(b"x\r\ny\r\n")},
             {"op": "add", "store": 3, "data": hx(impl.canon_listing(_ROUTE_LIST)), "oid": impl.dir_oid(_ROUTE_LIST),
              "tree_add": _ROUTE_LIST},
             {"op": "transfer", "src": 0, "dst": 3, "ids": [impl.dir_oid(_ROUTE_LIST)], "shallow": False,
              "obj_name": "data/", "jobs": 4, "verify": True}],
     "same_root_dir": impl.dir_oid(_ROUTE_LIST)},
    # index with NESTED directories (depth 3, a root entry) saved, then saved again with the same index object
    {"stores": [["local", "md5"], ["base", "md5-dos2unix"]], "dims": ["route:index-saved-twice-nested"],
     "ops": [{"op": "save", "store": 0, "rootdir": True, "resave": 1, "edirs": ["p/e"],
              "tree": {"top": hx(b"A"), "p/f": hx(b"B"), "p/q/g": hx(b"x\r\ny\r\n"), "p/q/r/h": hx(b"")}},
             {"op": "save", "store": 1, "resave": 2,
              "tree": {"top": hx(b"A"), "p/f": hx(b"B"), "p/q/g": hx(b"x\r\ny\r\n"), "p/q/r/h": hx(b"")}}]},
    # an index whose entries carry legacy md5-dos2unix hashes (a DVC 2.x project), through md5(name="md5") and save
    # into an md5 store: whatever lands there must be named by the md5 of its bytes (CRLF text: legacy != md5)
    {"stores": [["local", "md5"], ["base", "md5"]], "dims": ["route:index-with-legacy-md5-dos2unix-hashes"],
     "ops": [{"op": "save", "store": 0, "legacy": True,
              "tree": {"win.txt": hx(b"line one\r\nline two\r\n"), "d/unix.txt": hx(b"x\ny\n"), "d/bin": hx(b"\x00bin\r\n")}},
             {"op": "save", "store": 1, "legacy": True, "rootdir": True,
              "tree": {"win.txt": hx(b"line one\r\nline two\r\n"), "d/e/w2": hx(b"a,b\r\n1,2\r\n")}}]},
    # ids ending in 'd', 'i', 'r' before / instead of the suffix (think rstrip('.dir')), files and directories
    {"stores": [["local", "md5"], ["base", "md5"]], "dims": ["oid:ends-in-d-i-r"],
     "ops": [{"op": "add", "store": 0, "data": hx(_ending("d")), "oid": _md5(_ending("d"))},
             {"op": "stage", "store": 0, "tree": {"n%d" % _ending("d", True): hx(b"A")}},
             {"op": "transfer", "src": 0, "dst": 1, "ids": [_md5(_ending("d")),
                                                           impl.dir_oid([("n%d" % _ending("d", True), _md5(b"A"))])],
              "shallow": False},
             {"op": "migrate", "src": 1, "dst": 0}]},
]


def _pre(kind, oid, right):
    body = {"right-unprotected": right, "corrupt-unprotected": b"wrong", "corrupt-protected": b"wrong",
            "empty-leftover": b""}[kind]
    return {"op": "plant", "store": 0, "oid": oid, "data": hx(body), "mode": 0o444 if kind == "corrupt-protected" else 0o644}


def audit_histories():
    """oracle-only histories (flags and external events the model does not have): every pre-existing destination
    state x every route by which an object enters a store x the flags of that route, both store classes;
    store-default verification; a source modified between staging and the transfer; add_bytes; hardlink x verify"""
    out = []
    R = b"right"
    o = _md5(R)
    lst = [("f", o)]
    d = impl.dir_oid(lst)
    routes = [
        ("add", {"op": "add", "store": 0, "data": hx(R), "oid": o}),
        ("add:check_exists=False", {"op": "add", "store": 0, "data": hx(R), "oid": o, "check_exists": False}),
        ("add:verify", {"op": "add", "store": 0, "data": hx(R), "oid": o, "verify": True}),
        ("add:hardlink", {"op": "add", "store": 0, "data": hx(R), "oid": o, "hardlink": True}),
        ("stage", {"op": "stage", "store": 0, "tree": {"f": hx(R)}}),
        ("upload", {"op": "upload", "store": 0, "tree": {"f": hx(R)}}),
        ("save", {"op": "save", "store": 0, "tree": {"f": hx(R)}, "rootdir": True}),
        ("transfer", {"op": "transfer", "src": 1, "dst": 0, "ids": [d], "shallow": False}),
        ("transfer:shallow", {"op": "transfer", "src": 1, "dst": 0, "ids": [d, o], "shallow": True}),
        ("transfer:verify", {"op": "transfer", "src": 1, "dst": 0, "ids": [d], "shallow": False, "verify": True}),
        ("transfer:hardlink", {"op": "transfer", "src": 1, "dst": 0, "ids": [d], "shallow": False, "hardlink": True}),
        ("transfer:hardlink+verify", {"op": "transfer", "src": 1, "dst": 0, "ids": [d], "shallow": False,
                                      "hardlink": True, "verify": True}),
        ("migrate", {"op": "migrate", "src": 1, "dst": 0}),
    ]
    fill = {"op": "stage", "store": 1, "tree": {"f": hx(R)}}
    for pre in ("right-unprotected", "corrupt-unprotected", "corrupt-protected", "empty-leftover"):
        for cls in ("local", "base"):
            for name, op in routes:
                ops = [fill, _pre(pre, o, R), op]
                if pre == "right-unprotected":
                    ops.insert(2, {"op": "plant", "store": 0, "oid": d, "data": hx(impl.canon_listing(lst)), "mode": 0o644})
                out.append({"stores": [[cls, "md5"], ["base", "md5"]], "ops": ops,
                            "dims": ["pre:" + pre, "route:" + name, "class:" + cls]})
    # the store's default verification (verify=True in its config) x routes that do not pass verify themselves
    for cls in ("local", "base"):
        out.append({"stores": [[cls, "md5", {"verify": True}], ["base", "md5-dos2unix"]],
                    "dims": ["flag:store-default-verify", "class:" + cls],
                    "ops": [{"op": "stage", "store": 1, "tree": {"f": hx(b"x\r\ny\r\n"), "g/h": hx(R)}},
                            _pre("corrupt-unprotected", o, R),
                            {"op": "add", "store": 0, "data": hx(R), "oid": o},
                            {"op": "save", "store": 0, "tree": {"f": hx(b"x\r\ny\r\n"), "g/h": hx(R)}},
                            {"op": "migrate", "src": 1, "dst": 0},
                            {"op": "add", "store": 0, "data": hx(b"A"), "oid": _md5(b"A"), "verify": False}]})
    # the source is modified between staging and the transfer, with and without verify, both classes
    for cls in ("local", "base"):
        for vf in (True, False):
            out.append({"stores": [[cls, "md5"]], "dims": ["pre:source-modified-after-staging",
                                                          "flag:verify=%s" % vf, "class:" + cls],
                        "ops": [{"op": "stage", "store": 0, "file": hx(b"before"), "modify": hx(b"after!"), "verify": vf},
                                {"op": "stage", "store": 0, "file": hx(b"before")}]})
    # hardlink x verify between stores, sound source, both class pairs; zero-length files are created, not linked
    for c0 in ("local", "base"):
        for c1 in ("local", "base"):
            out.append({"stores": [[c0, "md5"], [c1, "md5"]], "dims": ["flag:hardlink+verify", "shape:zero-length-link"],
                        "ops": [{"op": "stage", "store": 0, "tree": {"z": "", "f": hx(R), "d/z2": ""}},
                                {"op": "transfer", "src": 0, "dst": 1, "ids": [], "all_ids": True, "shallow": True,
                                 "hardlink": True, "verify": True, "obj_name": "l/"},
                                {"op": "migrate", "src": 1, "dst": 0}]})
    # add_bytes (a route inherited from dvc_objects): generic class; local class only when the probe flag is set
    for cls in (["base"] + (["local"] if PROBE_ADD_BYTES_LOCAL else [])):
        out.append({"stores": [[cls, "md5"]], "dims": ["route:add_bytes", "class:" + cls],
                    "ops": [{"op": "add_bytes", "store": 0, "data": hx(R)}, {"op": "add_bytes", "store": 0, "data": ""}]})
    if PROBE_HARDLINK_VERIFY_LOCAL:
        out.append({"stores": [["local", "md5"], ["local", "md5"]], "dims": ["finding:hardlink+verify-trusts-rotten-link"],
                    "ops": [{"op": "stage", "store": 0, "file": hx(b"good")},
                            {"op": "rot", "store": 0, "oid": _md5(b"good"), "data": hx(b"rott"), "nonwf": True},
                            {"op": "transfer", "src": 0, "dst": 1, "ids": [_md5(b"good")], "shallow": True,
                             "hardlink": True, "verify": True}]})
    return out


def run_audit(ctx, dims):
    for c in audit_histories():
        case, _inp, _exp, problems, _ch, _k = run_history(ctx, c["stores"], c["ops"], 0)
        case["oracle_only"] = True
        ctx.case(case, True)
        ctx.count("stream:flag-and-prestate-matrix")
        for dname in list(c["dims"]) + sorted(dims_of(case)):
            dims[dname] = dims.get(dname, 0) + 1
        for sig, what, step in problems:
            ctx.oracle_fail(sig, f"after step {step}: {what}", {**case, "ops": case["ops"][:step + 1]})


LARGE = [
    {"stores": [["local", "md5-dos2unix"], ["local", "md5"], ["base", "md5-dos2unix"]], "large": True,
     "ops": [{"op": "stage", "store": 0, "recipe": "bin-head+crlf-tail"},
             {"op": "stage", "store": 0, "recipe": "crlf-head+bin-tail"},
             {"op": "migrate", "src": 0, "dst": 1},
             {"op": "migrate", "src": 1, "dst": 2}]},
    {"stores": [["base", "md5"], ["local", "md5-dos2unix"], ["local", "md5"]], "large": True,
     "ops": [{"op": "stage", "store": 0, "recipe": "bin-head+crlf-tail+bin"},
             {"op": "stage", "store": 1, "recipe": "bin-head+crlf-tail+bin"},
             {"op": "stage", "store": 0, "recipe": "crlf-head+bin-tail"},
             {"op": "migrate", "src": 0, "dst": 1},
             {"op": "migrate", "src": 1, "dst": 2},
             {"op": "transfer", "src": 2, "dst": 0, "ids": [], "shallow": True, "verify": True, "all_ids": True}]},
]


def run_upload_midwrite(ctx, dims):
    """build(upload=True) while a writer rewrites one file between the hashing pass and the upload pass (imposed by a
    LocalFileSystem whose open() rewrites the victim before its N-th open), then transfer staging -> store: every
    object that ends up in the staging store or the destination is named by the MD5 of ITS bytes (the uploaded
    snapshot is named by what was streamed, not by the earlier hashing pass).  Oracle only; the model's upload is the
    fault-free one."""
    from dvc_objects.fs.local import LocalFileSystem

    from dvc_data.hashfile.build import build
    from dvc_data.hashfile.transfer import transfer

    for cls in ("local", "base"):
        for nth in (1, 2, 3):
            root = ctx.fresh("c01-midwrite")
            ws = os.path.join(root, "ws")
            os.makedirs(os.path.join(ws, "sub"))
            contents = {"a": b"first-a", "sub/b": b"victim-before", "c": b"first-c"}
            for k, v in contents.items():
                with open(os.path.join(ws, *k.split("/")), "wb") as f:
                    f.write(v)
            victim = os.path.join(ws, "sub", "b")

            class RewritingFS(LocalFileSystem):
                seen = 0

                def open(self, path, mode="rb", **kw):
                    if os.path.abspath(path) == victim and "r" in mode:
                        type(self).seen += 1
                        if type(self).seen == nth:
                            with open(victim, "wb") as f:   # noqa: PTH123
                                f.write(b"victim-AFTER-rewrite!")
                    return super().open(path, mode, **kw)

            odb = impl.local_odb(os.path.join(root, "odb")) if cls == "local" else impl.base_odb(os.path.join(root, "odb"))
            case = {"stream": "upload-midwrite", "store_class": cls, "rewrite_before_open": nth, "oracle_only": True}
            try:
                staging, _m, obj = build(odb, ws, RewritingFS(), "md5", upload=True)
                transfer(staging, odb, {obj.hash_info}, shallow=False, hardlink=False)
            except Exception as exc:  # noqa: BLE001
                ctx.count("upload-midwrite:raised:" + type(exc).__name__)
            bad = []
            for d, _sub, files in os.walk(root):
                if os.path.abspath(d).startswith(os.path.abspath(ws)):
                    continue
                for fn_ in files:
                    fp = os.path.join(d, fn_)
                    par = os.path.basename(d)
                    if len(par) == 2 and len(fn_.replace(".dir", "")) == 30 and all(ch in "0123456789abcdef" for ch in par + fn_.replace(".dir", "")):
                        with open(fp, "rb") as f:
                            data = f.read()
                        if hashlib.md5(data).hexdigest() != (par + fn_).replace(".dir", ""):
                            bad.append((os.path.relpath(fp, root), data[:40]))
            ctx.case(case, True)
            ctx.count("stream:upload-midwrite")
            dims["fault:writer-between-hashing-and-upload-pass"] = dims.get("fault:writer-between-hashing-and-upload-pass", 0) + 1
            if bad:
                ctx.oracle_fail("C01:misnamed-object:upload-after-concurrent-rewrite",
                                f"build(upload=True) on a {cls} store with the file rewritten before open #{nth}: "
                                f"objects not named by their bytes: {bad[:3]!r}", case)


def run_readthrough_cache(ctx, dims):
    """the read-through cache of DataFileSystem (open/get_file with cache=True -> cache_odb.add) is one more operation
    that files content in a store: after reads of a legacy md5-dos2unix CRLF entry, an md5 entry and a binary legacy
    entry from remotes on a non-local file system, every object of the md5 cache is named by the MD5 of its bytes and
    write-protected.  Oracle only."""
    import uuid

    from dvc_objects.fs.memory import MemoryFileSystem

    from dvc_data.fs import DataFileSystem
    from dvc_data.hashfile.db import HashFileDB
    from dvc_data.hashfile.hash_info import HashInfo
    from dvc_data.hashfile.meta import Meta
    from dvc_data.index import DataIndex, DataIndexEntry, ObjectStorage

    memfs, mem_root = MemoryFileSystem(), f"/c01-{uuid.UUID(int=ctx.rng.getrandbits(128)).hex}"
    root = ctx.fresh("c01-rtc")
    cache = impl.local_odb(os.path.join(root, "cache"))
    crlf = b"one\r\ntwo\r\n"
    plain = b"plain md5 content"
    legacy = HashFileDB(memfs, f"{mem_root}/legacy", hash_name="md5-dos2unix")
    new = HashFileDB(memfs, f"{mem_root}/new", hash_name="md5")
    d2u = hashlib.md5(crlf.replace(b"\r\n", b"\n")).hexdigest()
    legacy.add_bytes(d2u, crlf)
    new.add_bytes(hashlib.md5(plain).hexdigest(), plain)
    index = DataIndex()
    index[("legacy", "a.txt")] = DataIndexEntry(key=("legacy", "a.txt"), meta=Meta(), hash_info=HashInfo("md5-dos2unix", d2u))
    index[("new", "b")] = DataIndexEntry(key=("new", "b"), meta=Meta(), hash_info=HashInfo("md5", hashlib.md5(plain).hexdigest()))
    index.storage_map.add_remote(ObjectStorage(("legacy",), legacy))
    index.storage_map.add_remote(ObjectStorage(("new",), new))
    index.storage_map.add_cache(ObjectStorage((), cache))
    case = {"stream": "read-through-cache", "oracle_only": True,
            "reads": ["/legacy/a.txt cache=True", "/new/b cache=True", "get_file /legacy/a.txt cache=True"]}
    try:
        fs = DataFileSystem(index)
        with fs.open("/legacy/a.txt", cache=True) as f:
            f.read()
        with fs.open("/new/b", cache=True) as f:
            f.read()
        fs.get_file("/legacy/a.txt", os.path.join(root, "out"), cache=True)
    except Exception as exc:  # noqa: BLE001
        ctx.count("read-through-cache:raised:" + type(exc).__name__)
    finally:
        try:
            memfs.rm(mem_root, recursive=True)
        except FileNotFoundError:
            pass
    bad = []
    for d, _sub, files in os.walk(os.path.join(root, "cache")):
        for fn_ in files:
            par = os.path.basename(d)
            if len(par) == 2 and len(fn_) == 30:
                fp = os.path.join(d, fn_)
                with open(fp, "rb") as f:
                    data = f.read()
                if hashlib.md5(data).hexdigest() != par + fn_:
                    bad.append((par + fn_, data[:30]))
                elif stat.S_IMODE(os.stat(fp).st_mode) != 0o444:
                    bad.append((par + fn_, "mode " + oct(stat.S_IMODE(os.stat(fp).st_mode))))
    ctx.case(case, True)
    ctx.count("stream:read-through-cache")
    dims["route:read-through cache (DataFileSystem cache=True), legacy + md5 remotes"] = 1
    if bad:
        ctx.oracle_fail("C01:misnamed-object:read-through-cache",
                        f"after cache=True reads the md5 cache holds objects not named by their bytes / not protected: {bad!r}", case)


def run_large(ctx):
    """oracle-only stream: contents longer than one hashing chunk (2^20 bytes).  No Coq evaluation - a MiB through the
    Gallina MD5 is out of reach - the real stores are judged by the hashlib oracle alone, the legacy digest being
    computed independently as the per-chunk definition."""
    for c in LARGE:
        case, _inp, _exp, problems, _ch, _k = run_history(ctx, c["stores"], c["ops"], 0)
        case["large"] = True
        ctx.case(case, True)
        ctx.count("stream:large-content")
        for sig, what, step in problems:
            ctx.oracle_fail(sig, f"after step {step}: {what}", {**case, "ops": case["ops"][:step + 1]})


BIG_SIZES = [24 * CHUNK + 1, 6 * CHUNK + 3, 2 * CHUNK + CHUNK // 4, CHUNK + CHUNK // 8]
BIG_ORDERS = [[0, 1, 2, 3], [0, 2, 1, 3], [1, 0, 3, 2]]  # which size the i-th LISTED file gets


def big_content(i: int, size: int) -> bytes:
    unit = (b"file-%d:" % i) + bytes(range(256)) + b"\r\n"
    return (unit * (size // len(unit) + 1))[:size]


def run_bigdir_case(ctx, case):
    """one directory with four files above the large-file thresholds (2^20 for build, 2^21 for index
    build_entries), of different sizes, the first-listed one the largest, hashed by the thread pool with 4 jobs - the
    pool's completion order then differs from the listing order.  ORACLE ONLY (no Coq literals of this size).
    returns the problems of the hashlib audit"""
    from dvc_objects.fs.local import localfs

    from dvc_data.hashfile.build import build
    from dvc_data.hashfile.transfer import transfer
    from dvc_data.index import DataIndex, FileStorage
    from dvc_data.index import save as isave
    from dvc_data.index.build import build_entries

    root = ctx.fresh("c01big")
    ws = os.path.join(root, "ws", "d")
    os.makedirs(ws)
    names = ["m", "b", "zz", "a0"]
    for n in names:
        open(os.path.join(ws, n), "wb").close()
    listed = [f for _r, _d, files in localfs.walk(ws) for f in files]  # the order the walk yields (observed)
    assert sorted(listed) == sorted(names)
    for pos, n in enumerate(listed):
        with open(os.path.join(ws, n), "wb") as f:
            f.write(big_content(pos, BIG_SIZES[case["order"][pos]]))
    cfg = [[case["cls"], case["alg"]]]
    roots = [os.path.join(root, "store")]
    os.makedirs(roots[0])
    odb = impl.make_odb(case["cls"], roots[0], hash_name=case["alg"])
    if case["route"] == "build":
        staging, _m, obj = build(odb, os.path.join(root, "ws"), localfs, case["alg"], checksum_jobs=4)
        transfer(staging, odb, {obj.hash_info}, shallow=False)
    else:
        idx = DataIndex()
        idx.storage_map.add_data(FileStorage(key=(), fs=localfs, path=os.path.join(root, "ws")))
        for e in build_entries(os.path.join(root, "ws"), localfs, compute_hash=True, hash_name=case["alg"],
                               checksum_jobs=4):
            idx.add(e)
        isave(idx, odb=odb)
    snaps = [impl.walk_store(roots[0])]
    problems = audit(cfg, snaps, roots)
    want = {digest(case["alg"], big_content(pos, BIG_SIZES[case["order"][pos]])) for pos in range(4)}
    lost = sorted(want - set(snaps[0]))
    if lost:
        problems.append(("C01:staged-content-not-filed-under-its-digest",
                         f"the store lacks {lost}: the content of a staged file is not there under its own digest"))
    impl.rm_rf(root)
    return problems


def run_bigdir(ctx, dims):
    k = 0
    for order in BIG_ORDERS:
        for route in ("build", "index"):
            case = {"bigdir": True, "order": order, "route": route, "cls": ["local", "base"][k % 2],
                    "alg": ["md5", "md5-dos2unix", "md5"][k % 3]}
            k += 1
            problems = run_bigdir_case(ctx, case)
            ctx.case(case, True)
            ctx.count("stream:large-files-thread-pool")
            dims["flag:checksum_jobs=4,>=3-large-files"] = dims.get("flag:checksum_jobs=4,>=3-large-files", 0) + 1
            for sig, what in problems:
                ctx.oracle_fail(sig, what, case)


def replay_case(ctx, case):
    if case.get("bigdir"):
        problems = run_bigdir_case(ctx, case)
        return {"problems": problems, "violates": bool(problems)}
    c, inp, exp, problems, changed, kinds = run_history(ctx, case["stores"], case["ops"], 0, False,
                                                        case.get("state") or False)
    return {"problems": problems, "violates": bool(problems), "steps_run": len(c["ops"])}
