"""C09 - index checkout (index/checkout.py compare + apply) converges to the target from any
workspace state; without delete nothing outside the target is removed; unavailable sources are
reported through onerror.

Streams
  main      (prior workspace, target) pairs; targets whose directories all have entries: built
            from a source tree with build+md5+save ("build"), one lazily loaded directory object at
            the root ("lazy-root"), hand-made explicit entries with lazily loaded directory objects
            below explicit parents ("mixed"); delete on/off; copy/hardlink/symlink; both store
            classes; exec bits; missing file objects / directory objects / hash-less entries.
  dangling  prior workspaces holding dangling symbolic links (a symlink checkout whose cache objects were
            collected): outside the target, at a target file path, at a target directory path, inside a directory
            that must disappear; all link types, delete on/off, all explicit-directory target forms.
  retry     two-round histories on ONE lazily loaded target index object with a non-raising index.onerror: round 1
            while a directory object is missing from the cache (failure reported), the object arrives, round 2
            with the same index object (control: a fresh one) must converge; both rounds go through the model.
  implicit  targets made of file entries only (and lazy directories below parents without an
            entry): the directories of the target are implicit trie nodes. delete=True only.
  branch    the per-change branch of _compare alone, exhaustively: translation validation of the GENERATED
            Gen/IdxCompare.v:compare_branch (translator unit idxcompare) behind Model/IdxCheckout.v:compare_change.
Every case is judged by the oracle (independent of the model) and by the correspondence."""

import json
import os
import re
import stat

from lib import impl
from lib.core import cN, cbool, cbytes, clist, copt, cpair, vL, vN

PROPERTY = "C09"
GEN = ["types", "idiff", "idxcompare", "idxapply"]
RULE = (
    "names a/b/c at depth 1-3 so that prior and target collide; the prior workspace is either "
    "independent or derived from the target by file<->directory replacements at depth 1-3, nested "
    "removals, content and exec-bit edits, empty directories, dangling symlinks (25% of the main stream + a "
    "dedicated stream); target forms build / lazy-root / mixed "
    "(explicit entries + lazy directory objects) / implicit; x delete on/off x copy/hardlink/symlink x "
    "local/base store x unavailable file objects, directory objects, hash-less entries. A scripted "
    "corpus (kind change in both directions at each depth, nested removal, exec-only change) runs "
    "first. A case is non-trivial when the first compare plans at least one action."
)
ASSUMPTIONS = [
    "apply(update_meta=False, state=None) as dvc calls it; one ObjectStorage 'cache' at the root key; relink=False",
    "the old index is the index of the workspace as dvc builds it: build_entries(compute_hash=True) added to a "
    "DataIndex (broken links are entries without meta/hash) or, for workspaces without broken links, also "
    "md5(build(workspace)) (md5() drops broken entries); prior workspaces consist of plain files (own inode), "
    "directories and dangling symbolic links",
    "the cache is fresh per case: cache objects are 0o444 / not executable before apply",
    "hashes are modelled by the content they name (no md5 collision among the <= 6 contents in play)",
    "targets are well formed: every strict prefix of a key is a directory entry or an implicit node; a lazy "
    "directory entry has no explicit descendants; without delete every directory of the target has an entry "
    "(otherwise os.makedirs may raise out of apply: outside the model's domain)",
    "index/diff.py:_diff visits every key of either index exactly once (C08); the model uses the flat union",
    "dvc_objects temp files '.<22 chars>.tmp' left beside a destination that os.replace refused are ignored by the walk (counted)",
    "link types limited to copy/hardlink/symlink (no reflink on this file system)",
    "a live symlink to a directory in the prior workspace sits at a path the target does not have (build lists it as "
    "a directory entry and nothing below it; in the model it is an empty directory; _delete_dirs unlinks it, 345fea1); "
    "a link at a path the target HAS as a directory would make checkout write through it: not generated",
    "scope notes of the coverage audit, recorded in evidence audit_observations, not judged (lead's rulings): "
    "(A) with update_meta=True, apply's default, an unavailable source is reported and then FileNotFoundError escapes "
    "from the metadata refresh; (B) update_meta=True refreshes entry.meta before _chmod_files, so the target index "
    "entry loses isexec (a later checkout with the same index object reproduces THAT target); (D) a FILE entry at the "
    "root key () has no buildable old: an existing directory / other file at the workspace path is not replaced under "
    "hardlink/symlink; (E) old=None over existing content and a stale old index are outside the quantifier (old = image "
    "of the workspace); (F) an in-memory DataIndex.view(key) keeps absolute entry keys - SQLite-backed views are used",
    "without delete, a target file whose path is occupied by a non-empty directory of the prior workspace cannot "
    "be created (copy: IsADirectoryError through onerror; hardlink/symlink: FileExistsError swallowed by "
    "dvc_objects transfer): no clause of the property covers a kind conflict with deletion off - modelled, not judged",
    "when a source is unavailable the entry is reported through onerror first; _chmod_files may then raise "
    "FileNotFoundError out of apply for an executable entry that could not be created (os.stat outside the try): "
    "modelled (o_raised), not judged - only the 'reported' clause of the property applies to unavailable data",
]

IMPORTS = ("From Coq Require Import NArith List.\n"
           "From DvcData Require Import Base.PyBase Gen.PyTypes Gen.IDiff Model.IdxCheckout.")

NAMES = ["a", "b", "c"]          # the name pool of the case being generated (set by gen_case)
NAME_POOLS = [
    (0.50, "plain", [["a", "b", "c"]]),
    # siblings where one name is a STRING prefix of the other (a / a_raw / a.bak / aa): a path test without
    # the trailing separator mistakes the sibling for a descendant
    (0.25, "prefix-siblings", [["a", "a_raw", "b"], ["a", "a.bak", "aa"], ["b", "bb", "b c"], ["a", "ab", "a_"]]),
    # unusual but legal POSIX names: backslash, space, non-ASCII, leading dot
    (0.25, "unusual", [["a", "we\\ird", ".h"], ["s p", "\u00e9t\u00e9", "b"], ["a\\b", "a", "b"], [".a", "a", "x\\"],
                       # Cyrillic / CJK / emoji; NFC next to NFD of the same text; a name ending in .dir; names
                       # that differ only in case
                       ["\u0434\u0430\u043d\u043d\u044b\u0435", "\u6570\u636e", "\U0001f4c1x"],
                       ["caf\u00e9", "cafe\u0301", "x.dir"], ["Data", "data", "a"]]),
]


def pick_names(rng):
    r = rng.random()
    acc = 0.0
    for pr, label, pools in NAME_POOLS:
        acc += pr
        if r < acc:
            return label, list(rng.choice(pools))
    return "plain", ["a", "b", "c"]
CONTENTS = ["", "A", "B", "C", "DD"]
LITTER = re.compile(r"^\.[A-Za-z0-9_-]{22}\.tmp$")
LINKS = {"copy": "Copy", "hardlink": "Hardlink", "symlink": "Symlink"}


# ------------------------------------------------------------------------------------------------
# generators: a tree is {relpath: (content, exec)} for files and {relpath: None} for (empty) dirs


def gen_tree(rng, depth=0, p_skip=0.35, maxdepth=2):
    t = {}
    for n in NAMES:
        r = rng.random()
        if r < p_skip:
            continue
        if depth < maxdepth and r < 0.62:
            sub = gen_tree(rng, depth + 1, p_skip, maxdepth)
            if not sub:
                if rng.random() < 0.6:
                    t[n] = None  # empty directory
                continue
            for k, v in sub.items():
                t[n + "/" + k] = v
        elif r > 0.94:
            t[n] = None  # empty directory
        else:
            t[n] = (rng.choice(CONTENTS), rng.random() < 0.3)
    return t


def dirs_of(tree):
    out = set()
    for k, v in tree.items():
        parts = k.split("/")
        for i in range(1, len(parts) + (1 if v is None else 0)):
            out.add("/".join(parts[:i]))
    return out


def files_of(tree):
    return {k: v for k, v in tree.items() if isinstance(v, (tuple, list))}


def add_dangling(rng, prior, target):
    """plant 1-3 dangling symlinks ("X") in a prior workspace: outside the target, at a target file path, at a
    target directory path, inside a directory the target does not have"""
    t = dict(prior)
    tfiles, tdirs = sorted(files_of(target)), sorted(dirs_of(target))
    pdirs = sorted(d for d in dirs_of(prior) if d not in dirs_of(target))
    for _ in range(rng.randint(1, 3)):
        r = rng.random()
        if r < 0.3 and tfiles:
            k = rng.choice(tfiles)
        elif r < 0.45 and tdirs:
            k = rng.choice(tdirs)
        elif r < 0.7 and pdirs:
            k = rng.choice(pdirs) + "/" + rng.choice(NAMES + ["x"])
        else:
            k = "/".join(rng.choice(NAMES + ["x"]) for _ in range(rng.randint(1, 3)))
        parts = k.split("/")
        if len(parts) > 4:
            continue
        # the link replaces whatever is at or below its path; its parents must be directories
        if any("/".join(parts[:i]) in t and t["/".join(parts[:i])] is not None for i in range(1, len(parts))):
            continue
        for x in [x for x in t if x == k or x.startswith(k + "/")]:
            del t[x]
        for i in range(1, len(parts)):
            t.pop("/".join(parts[:i]), None)  # an empty-directory marker that gained a child
        t[k] = "X"
    return t


def add_dirlinks(rng, prior, target):
    """plant 1-2 live symlinks to directories outside the workspace ("L") at paths the target does not have:
    top level, inside a directory the target keeps, inside a directory that must disappear"""
    t = dict(prior)
    tnodes = set(files_of(target)) | dirs_of(target)
    keep = sorted(d for d in dirs_of(prior) if d in dirs_of(target))
    drop = sorted(d for d in dirs_of(prior) if d not in tnodes)
    for _ in range(rng.randint(1, 2)):
        r = rng.random()
        base = rng.choice(keep) if r < 0.35 and keep else rng.choice(drop) if r < 0.7 and drop else None
        k = (base + "/" if base else "") + rng.choice(["lnk", "l2", NAMES[0] + ".lnk"])
        if len(k.split("/")) > 4 or k in tnodes or any(x == k or x.startswith(k + "/") for x in t):
            continue
        parts = k.split("/")
        for i in range(1, len(parts)):
            t.pop("/".join(parts[:i]), None)   # an empty-directory marker that gained a child
        t[k] = "L"
    return t


def mutate(rng, tree):
    """a prior workspace derived from a target: kind changes at any depth, removals, edits"""
    t = dict(tree)
    for _ in range(rng.randint(1, 4)):
        fs = sorted(files_of(t))
        ds = sorted(dirs_of(t))
        op = rng.random()
        if op < 0.3 and fs:  # file -> directory (with something below, maybe nested)
            k = rng.choice(fs)
            del t[k]
            sub = gen_tree(rng, 1, 0.3, rng.choice([1, 2])) or {"a": ("A", False)}
            for s, v in sub.items():
                if len((k + "/" + s).split("/")) <= 4:
                    t[k + "/" + s] = v
            if not any(x.startswith(k + "/") for x in t):
                t[k] = None
        elif op < 0.6 and ds:  # directory -> file
            k = rng.choice(ds)
            for x in [x for x in t if x == k or x.startswith(k + "/")]:
                del t[x]
            t[k] = (rng.choice(CONTENTS), rng.random() < 0.3)
        elif op < 0.75 and fs:  # edit content / exec
            k = rng.choice(fs)
            c, x = t[k]
            t[k] = (rng.choice(CONTENTS), x) if rng.random() < 0.5 else (c, not x)
        elif op < 0.9:  # extra stuff
            k = rng.choice(NAMES) + "/" + rng.choice(NAMES) + "/" + rng.choice(NAMES)
            if not any(k.startswith(f + "/") or f.startswith(k + "/") or f == k for f in t):
                pre = k.split("/")
                if not any("/".join(pre[:i]) in files_of(t) for i in range(1, 3)):
                    t[k] = (rng.choice(CONTENTS), rng.random() < 0.3)
        elif fs:
            del t[rng.choice(fs)]
    # drop empty-dir markers that gained children, and files shadowed by deeper paths
    for k in [k for k, v in t.items() if v is None and any(x.startswith(k + "/") for x in t)]:
        del t[k]
    return t


def consistent(tree):
    fs = {k for k, v in tree.items() if v is not None}
    for k in tree:
        parts = k.split("/")
        if any("/".join(parts[:i]) in fs for i in range(1, len(parts))):
            return False
    return True


def gen_target_spec(rng, form, tree):
    """target spec: list of entries
         {"k": relpath, "t": "f", "x": bool, "c": content|None}
         {"k": relpath, "t": "d"}                      explicit directory entry
         {"k": relpath or "", "t": "lazy", "tree": {rel: content}}   directory object, loaded lazily"""
    fs = files_of(tree)
    if form == "build":
        return None  # derived from the real build of the source tree
    if form == "lazy-root":
        return [{"k": "", "t": "lazy", "tree": {k: c for k, (c, _) in fs.items()}}]
    spec = []
    lazy_roots = []
    if form in ("mixed", "implicit"):
        cands = sorted(d for d in dirs_of(tree) if any(f.startswith(d + "/") for f in fs))
        rng.shuffle(cands)
        for d in cands:
            if rng.random() < 0.5 and not any(d.startswith(l + "/") or l.startswith(d + "/") or l == d for l in lazy_roots):
                lazy_roots.append(d)
    covered = set()
    for d in lazy_roots:
        sub = {f[len(d) + 1:]: c for f, (c, _) in fs.items() if f.startswith(d + "/")}
        covered.update(f for f in fs if f.startswith(d + "/"))
        spec.append({"k": d, "t": "lazy", "tree": sub})
    for f, (c, x) in fs.items():
        if f in covered:
            continue
        nohash = form == "mixed" and rng.random() < 0.06
        spec.append({"k": f, "t": "f", "x": x, "c": None if nohash else c})
    if form == "mixed":
        need = set()
        for e in spec:
            parts = e["k"].split("/")
            for i in range(1, len(parts)):
                need.add("/".join(parts[:i]))
        for d in dirs_of(tree):  # explicit empty directories too
            if not any(d == l or d.startswith(l + "/") for l in lazy_roots):
                need.add(d)
        empties = {k for k, v in tree.items() if v is None}
        for d in sorted(need):
            if d in empties and rng.random() < 0.4:
                spec.append({"k": d, "t": "lazy", "tree": {}})   # a directory object with the listing []
            else:
                spec.append({"k": d, "t": "d"})
        hashed = rng.random() < 0.4
        if hashed and not lazy_roots:    # (with lazy roots below, the listing is not in the spec: keep those hash-less)
            for e in spec:
                if e["t"] == "d" and e["k"]:
                    e["hashed"] = True
    return spec


# ------------------------------------------------------------------------------------------------
# real-code driver


def key_of(rel):
    return tuple(rel.split("/")) if rel else ()


def mk_ws(root, tree):
    os.makedirs(root)
    for rel, v in tree.items():
        p = os.path.join(root, *rel.split("/"))
        if v is None:
            os.makedirs(p, exist_ok=True)
            continue
        os.makedirs(os.path.dirname(p), exist_ok=True)
        if v == "X":
            os.symlink("/nonexistent-verif-c09/gone", p)
            continue
        if v == "L":   # a live symbolic link to a directory OUTSIDE the workspace (holding one precious file)
            ext = os.path.join(os.path.dirname(os.path.realpath(root)), "elsewhere")
            os.makedirs(ext, exist_ok=True)
            tgt = os.path.join(ext, "d%d" % len(os.listdir(ext)))
            os.makedirs(tgt)
            with open(os.path.join(tgt, "precious"), "wb") as f:
                f.write(b"keep")
            os.symlink(tgt, p)
            continue
        with open(p, "wb") as f:
            f.write(v[0].encode())
        os.chmod(p, 0o755 if v[1] else 0o644)


def walk_ws(root):
    """{relpath: "D" | "X" (dangling) | (bytes, exec)}, litter count"""
    out = {}
    litter = 0
    for r, ds, fs_ in os.walk(root):
        for d in ds:
            p = os.path.join(r, d)
            rel = os.path.relpath(p, root).replace(os.sep, "/")
            if os.path.islink(p):
                out[rel] = "X" if not os.path.exists(p) else "D"
            else:
                out[rel] = "D"
        for n in fs_:
            p = os.path.join(r, n)
            if LITTER.match(n):
                litter += 1
                continue
            rel = os.path.relpath(p, root).replace(os.sep, "/")
            if os.path.islink(p) and not os.path.exists(p):
                out[rel] = "X"
                continue
            with open(p, "rb") as f:
                data = f.read()
            out[rel] = (data.decode(), bool(os.stat(p).st_mode & stat.S_IXUSR))
    return out, litter


def plan_keys(d):
    return {
        "files_delete": sorted(e.key for e in d.files_delete),
        "dirs_delete": sorted(e.key for e in d.dirs_delete),
        "files_create": sorted(e.key for e in d.files_create),
        "dirs_create": sorted(e.key for e in d.dirs_create),
        "files_chmod": sorted(e.key for e in d.files_chmod),
        "dirs_failed": sorted(e.key for e in d.dirs_failed),
    }


def _plant_once(odb, oid, data):
    # never rewrite an object that is already in the cache (workspace links share its inode and mode)
    if not os.path.exists(odb.oid_to_path(oid)):
        impl.plant(odb.path, oid, data)


_ROUTE_SEQ = [0]
RELINK_ITEMS = []


def build_target(case, root, odb):
    """returns (DataIndex, model target entries [(key, tentry-term)], trees {id: listing}, nodes)"""
    from dvc_objects.fs.local import localfs

    from dvc_data.hashfile.hash_info import HashInfo
    from dvc_data.hashfile.meta import Meta
    from dvc_data.index import DataIndex, DataIndexEntry, ObjectStorage
    from dvc_data.index import build as ibuild
    from dvc_data.index import md5 as imd5
    from dvc_data.index import save as isave

    tree = case["target_tree"]
    mt = []          # model target
    trees = {}       # tree id -> {rel: content}
    contents = set()
    if case["form"] == "build":
        src = os.path.join(root, "src")
        mk_ws(src, tree)
        new = imd5(ibuild(src, localfs))
        new.storage_map.add_cache(ObjectStorage((), odb))
        isave(new)
        if case.get("role", "cache") != "cache":
            getattr(new.storage_map, "add_" + case["role"])(ObjectStorage((), odb))
        for rel, v in files_of(tree).items():
            mt.append((key_of(rel), ("f", v[1], v[0])))
            contents.add(v[0])
        for d in sorted(dirs_of(tree)):
            mt.append((key_of(d), ("d", "h" + d)))
        return new, mt, trees, contents
    hname = case.get("hash_name", "md5")
    route = case.get("route", "mem")
    pre = ("p",) if route == "sqlite-view" else ()     # the target is big.view(("p",))
    _ROUTE_SEQ[0] += 1
    new = DataIndex.open(os.path.join(root, "idx%d.db" % _ROUTE_SEQ[0])) if route != "mem" else DataIndex()

    def label(k):  # HashInfo.obj_name as dvc sets it (eq=False: must not matter)
        return "/".join(k) if case.get("obj_name") else None

    for i, e in enumerate(case["spec"]):
        k = key_of(e["k"])
        mk = k
        k = pre + k
        if e["t"] == "f":
            hi = None
            if e["c"] is not None:
                oid = impl.md5hex(e["c"].encode())
                _plant_once(odb, oid, e["c"].encode())
                hi = HashInfo(hname, oid, obj_name=label(k))
                contents.add(e["c"])
            new[k] = DataIndexEntry(key=k, meta=Meta(isexec=e["x"]), hash_info=hi)
            mt.append((mk, ("f", e["x"], e["c"])))
        elif e["t"] == "d":
            hi = None
            if e.get("hashed"):
                # the real .dir hash of the listing below it, as index.save() would record it (object planted)
                below = sorted((x["k"][len(e["k"]) + 1:], impl.md5hex(x["c"].encode())) for x in case["spec"]
                               if x["t"] == "f" and x["c"] is not None and x["k"].startswith(e["k"] + "/"))
                doid = impl.dir_oid(below)
                _plant_once(odb, doid, impl.canon_listing(below))
                hi = HashInfo(hname, doid, obj_name=label(k))
            new[k] = DataIndexEntry(key=k, meta=Meta(isdir=True), hash_info=hi, loaded=True)
            mt.append((mk, ("d", "h" + e["k"] if hi else None)))
        else:
            lst = []
            for rel, c in e["tree"].items():
                oid = impl.md5hex(c.encode())
                _plant_once(odb, oid, c.encode())
                lst.append((rel, oid))
                contents.add(c)
            doid = impl.dir_oid(lst)
            _plant_once(odb, doid, impl.canon_listing(lst))
            new[k] = DataIndexEntry(key=k, meta=Meta(isdir=True), hash_info=HashInfo(hname, doid, obj_name=label(k)))
            tid = "t%d" % i
            # what the directory object REALLY lists: its stored bytes, parsed here with json (not through
            # dvc_data); the oracle's and the model's target come from this
            with open(odb.oid_to_path(doid), "rb") as f:
                stored = json.loads(f.read().decode("utf-8"))
            by_oid = {impl.md5hex(c.encode()): c for c in CONTENTS}
            listed = {ent["relpath"]: by_oid[ent["md5"]] for ent in stored}
            assert listed == dict(e["tree"]), (listed, e["tree"])
            trees[tid] = (listed, doid)
            mt.append((mk, ("lazy", tid)))
    if pre and not any(key_of(e["k"]) == () for e in case["spec"]):
        new[pre] = DataIndexEntry(key=pre, meta=Meta(isdir=True), loaded=True)   # the root of the view
        mt.append(((), ("d", None)))
    getattr(new.storage_map, "add_" + case.get("role", "cache"))(ObjectStorage((), odb))
    if route != "mem":
        new.commit()
    if pre:
        new = new.view(pre)
    return new, mt, trees, contents


def run_real(ctx, case):
    from dvc_objects.fs.local import localfs

    from dvc_data.index import DataIndex, FileStorage
    from dvc_data.index import build as ibuild
    from dvc_data.index import md5 as imd5
    from dvc_data.index.build import build_entries
    from dvc_data.index.checkout import apply, compare

    root = ctx.fresh("c09")
    wsdir = os.path.join(root, "ws")
    okw = {"hash_name": case["hash_name"]} if case.get("hash_name") else {}
    odb = impl.make_odb(case.get("cls", "local"), os.path.join(root, "cache"), type=[case["link"]], **okw)
    os.makedirs(odb.path, exist_ok=True)
    new, mt, trees, contents = build_target(case, root, odb)
    # unavailable sources
    gone = set()
    for c in case.get("rm_contents", []):
        p = odb.oid_to_path(impl.md5hex(c.encode()))
        if os.path.exists(p):
            os.chmod(p, 0o644)
            os.unlink(p)
        gone.add(c)
    gone_trees = set()
    replant = {}
    for tid in case.get("rm_trees", []):
        if tid in trees:
            p = odb.oid_to_path(trees[tid][1])
            if os.path.exists(p):
                with open(p, "rb") as f:
                    replant[trees[tid][1]] = f.read()
                os.chmod(p, 0o644)
                os.unlink(p)
            # equal listings are one object: every entry naming it is unavailable
            gone_trees.update(t2 for t2 in trees if trees[t2][1] == trees[tid][1])
    if case.get("ws_symlink"):   # the workspace is reached through a symbolic link
        mk_ws(os.path.join(root, "ws_real"), case["prior"])
        os.symlink(os.path.join(root, "ws_real"), wsdir)
    else:
        mk_ws(wsdir, case["prior"])
    if case.get("prior_ro"):     # protected (read-only) files in the prior workspace
        for r_, _ds, fs_ in os.walk(os.path.realpath(wsdir)):
            for n_ in fs_:
                p_ = os.path.join(r_, n_)
                if not os.path.islink(p_):
                    os.chmod(p_, os.stat(p_).st_mode & ~0o222)
    cerrs = []
    if case.get("collect_onerror"):
        new.onerror = lambda entry, exc: cerrs.append(entry.key)
    res = {"exc": None}
    def ws_index():
        # the index of what is in the workspace now: build()+md5(), or - as dvc does - build_entries with
        # hashes added to an index (the only form that keeps broken links: md5() drops them)
        if case.get("old_index", "entries") == "md5build":
            return imd5(ibuild(wsdir, localfs))
        if case.get("old_index") == "md5build+save":
            # build -> md5 -> save (into a scratch store, not the target's cache): the DIRECTORY entries of the old
            # index carry their .dir hashes too - a hash that covers neither exec bits nor empty sub-directories
            from dvc_data.index import save as isave

            ix = imd5(ibuild(wsdir, localfs))
            isave(ix, odb=impl.make_odb("local", os.path.join(root, "cache_old")))
            return ix
        ix = DataIndex()
        ix.storage_map.add_data(FileStorage(key=(), fs=localfs, path=wsdir))
        for entry in build_entries(wsdir, localfs, compute_hash=True, hash_name=case.get("hash_name", "md5")):
            ix.add(entry)
        return ix

    akw = {}       # the flags of apply under audit
    if case.get("links"):
        akw["links"] = list(case["links"])
    if case.get("jobs"):
        akw["jobs"] = case["jobs"]
    if case.get("role", "cache") != "cache":
        akw["storage"] = case["role"]
    if case.get("callback"):
        from fsspec.callbacks import Callback

        akw["callback"] = Callback()
    state = None
    if case.get("state"):
        from dvc_data.hashfile.state import State

        state = State(root_dir=os.path.realpath(wsdir), tmp_dir=os.path.join(root, "state"))
        akw["state"] = state
    ckw = {"relink": True} if case.get("relink") else {}
    old = None if case.get("old") == "none" else ws_index()
    d1 = compare(old, new, delete=case["delete"], **ckw)
    res["plan1"] = plan_keys(d1)
    res["order"] = [e.key for e in d1.files_chmod]
    res["order_dc"] = [e.key for e in d1.dirs_create]
    errs = []

    def onerror(src, dest, exc):
        rel = os.path.relpath(dest, wsdir).replace(os.sep, "/")
        k = () if rel == "." else tuple(rel.split("/"))
        code = 2 if src is not None else (1 if exc is None else 3)
        errs.append((code, k, type(exc).__name__))

    res["raised"] = None
    undo = []
    if case.get("fault"):
        # one failing copy / link at a chosen position of the batch (first, middle, last)
        import errno as _errno

        from dvc_objects.fs.local import FsspecLocalFileSystem as _F

        fc_keys = sorted(e.key for e in d1.files_create if e.hash_info)
        if fc_keys:
            pos = {"first": 0, "last": len(fc_keys) - 1}.get(case["fault"]["pos"], len(fc_keys) // 2)
            victim = fc_keys[pos]
            vpath = os.path.join(wsdir, *victim)
            exc_ = {"EIO": OSError(_errno.EIO, "injected"), "EPERM": PermissionError(_errno.EPERM, "injected"),
                    "ENOENT": FileNotFoundError(_errno.ENOENT, "injected")}[case["fault"]["kind"]]
            res["fault_key"] = victim
            for meth in ("put_file", "link", "symlink"):
                orig = getattr(_F, meth)

                def wrapped(self, a, b, *args, _orig=orig, **kw):
                    if os.path.abspath(b) == os.path.abspath(vpath):
                        raise exc_
                    return _orig(self, a, b, *args, **kw)

                setattr(_F, meth, wrapped)
                undo.append((meth, orig))
    try:
        apply(d1, wsdir, localfs, onerror=onerror, update_meta=bool(case.get("update_meta")), **akw)
    except Exception as exc:  # noqa: BLE001
        res["raised"] = type(exc).__name__
    finally:
        for meth, orig in undo:
            from dvc_objects.fs.local import FsspecLocalFileSystem as _F

            setattr(_F, meth, orig)
    if state is not None:
        state.close()
    res["errs"] = sorted(errs)
    res["walk"], res["litter"] = walk_ws(wsdir)
    ext = os.path.join(root, "elsewhere")
    res["elsewhere"] = {d_: sorted(os.listdir(os.path.join(ext, d_))) for d_ in sorted(os.listdir(ext))} \
        if os.path.isdir(ext) else {}
    try:
        d2 = compare(ws_index(), new, delete=case["delete"])
        res["plan2"] = plan_keys(d2)
    except Exception as exc:  # noqa: BLE001
        res["plan2"] = None
        res["exc"] = "second compare raised " + type(exc).__name__
    if case.get("retry"):
        # round 2 of a retry history: the missing directory objects have arrived; the SAME target index object
        # (or, as a control, a fresh one) is compared and applied again
        for doid, data in replant.items():
            impl.plant(odb.path, doid, data)
        idx2 = new
        if case.get("fresh_index"):
            idx2, _, _, _ = build_target(case, root, odb)
            if case.get("collect_onerror"):
                idx2.onerror = lambda entry, exc: cerrs.append(entry.key)
        r2 = {"exc": None, "raised": None}
        errs2 = []

        def onerror2(src, dest, exc):
            rel = os.path.relpath(dest, wsdir).replace(os.sep, "/")
            k = () if rel == "." else tuple(rel.split("/"))
            errs2.append((2 if src is not None else (1 if exc is None else 3), k, type(exc).__name__))

        d3 = compare(ws_index(), idx2, delete=case["delete"])
        r2["plan1"] = plan_keys(d3)
        r2["order"] = [e.key for e in d3.files_chmod]
        r2["order_dc"] = [e.key for e in d3.dirs_create]
        try:
            apply(d3, wsdir, localfs, onerror=onerror2, update_meta=False)
        except Exception as exc:  # noqa: BLE001
            r2["raised"] = type(exc).__name__
        r2["errs"] = sorted(errs2)
        r2["walk"], r2["litter"] = walk_ws(wsdir)
        try:
            r2["plan2"] = plan_keys(compare(ws_index(), idx2, delete=case["delete"]))
        except Exception as exc:  # noqa: BLE001
            r2["plan2"] = None
            r2["exc"] = "compare after the retry raised " + type(exc).__name__
        res["r2"] = r2
    res["model_target"] = mt
    res["trees"] = {tid: t for tid, (t, _) in trees.items() if tid not in gone_trees}
    res["all_trees"] = {tid: t for tid, (t, _) in trees.items()}
    res["avail"] = sorted(contents - gone)
    res["gone"] = sorted(gone)
    res["gone_trees"] = sorted(gone_trees)
    impl.rm_rf(root)
    return res


# ------------------------------------------------------------------------------------------------
# encodings shared with Model/IdxCheckout.v


def flat_key(k):
    out = [len(k)]
    for s in k:
        out.append(len(s))
        out.extend(ord(c) for c in s)
    return out


def vkeys(keys):
    return vL(["VB [" + ";".join(map(str, fk)) + "]" for fk in sorted(flat_key(k) for k in keys)])


def vplan(p):
    return vL([vkeys(p[f]) for f in ("files_delete", "dirs_delete", "files_create", "dirs_create",
                                      "files_chmod", "dirs_failed")])


def vwalk(walk):
    strs = []
    for rel, v in walk.items():
        fk = flat_key(key_of(rel))
        if v == "D":
            strs.append(fk + [0])
        elif v == "X":
            strs.append(fk + [2])
        else:
            strs.append(fk + [1, 1 if v[1] else 0] + [ord(c) for c in v[0]])
    return vL(["VB [" + ";".join(map(str, s)) + "]" for s in sorted(strs)])


def verrs(errs):
    strs = sorted([code] + flat_key(k) for code, k, _ in errs)
    return vL(["VB [" + ";".join(map(str, s)) + "]" for s in strs])


def ckey(k):
    return clist([cbytes(s) for s in k])


def eff_link(case):
    """the link type transfer ends up using: the first of the list this file system supports (no reflink here)"""
    for lt in case.get("links") or [case["link"]]:
        if lt != "reflink":
            return lt
    return "copy"


def case_term(case, res):
    ws_items = []
    for rel, v in case["prior"].items():
        k = key_of(rel)
        if v == "L":   # build lists a link to a directory as a directory entry; nothing below it is walked
            ws_items.append(cpair(ckey(k), "Dir"))
        elif v == "X":
            ws_items.append(cpair(ckey(k), "Dangling"))
        elif v is not None:
            ws_items.append(cpair(ckey(k), f"(File {cbytes(v[0])} {cbool(v[1])} false)"))
    for d in sorted(dirs_of(case["prior"])):  # includes the empty-directory markers
        ws_items.append(cpair(ckey(key_of(d)), "Dir"))
    tg = []
    for k, te in res["model_target"]:
        if te[0] == "f":
            tg.append(cpair(ckey(k), f"(TFile {cbool(te[1])} {copt(te[2], cbytes)})"))
        elif te[0] == "d":
            tg.append(cpair(ckey(k), f"(TDir {copt(te[1], cbytes)} false)"))
        else:
            tg.append(cpair(ckey(k), f"(TDir (Some {cbytes(te[1])}) true)"))
    trees = [cpair(cbytes(tid), clist([cpair(ckey(key_of(rel)), cbytes(c)) for rel, c in t.items()]))
             for tid, t in res["trees"].items()]
    return ("{| c_link := %s; c_delete := %s; c_avail := %s; c_trees := %s; c_order := %s; c_order_dc := %s; c_ws := %s; "
            "c_target := %s |}" % (LINKS[eff_link(case)], cbool(case["delete"]),
                                   clist([cbytes(c) for c in res["avail"]]), clist(trees),
                                   clist([ckey(k) for k in res["order"]]), clist([ckey(k) for k in res["order_dc"]]),
                                   clist(ws_items), clist(tg)))


def retry_term(case, res):
    r2 = res["r2"]
    trees2 = [cpair(cbytes(tid), clist([cpair(ckey(key_of(rel)), cbytes(c)) for rel, c in t.items()]))
              for tid, t in res["all_trees"].items()]
    return "(%s, %s, %s, %s)" % (case_term(case, res), clist(trees2), clist([ckey(k) for k in r2["order"]]),
                                 clist([ckey(k) for k in r2["order_dc"]]))


def retry_expected(res):
    r2 = res["r2"]
    return vL([vplan(res["plan1"]), vwalk(res["walk"]), verrs(res["errs"]), vN(1 if res["raised"] else 0),
               vplan(r2["plan1"]), vwalk(r2["walk"]), verrs(r2["errs"]), vN(1 if r2["raised"] else 0),
               vplan(r2["plan2"])])


def retry_oracle(case, res):
    """after round 2 every directory object is there: the property's clauses apply to round 2 as to any checkout"""
    r2 = res["r2"]
    case2 = {k: v for k, v in case.items() if k != "rm_trees"}
    case2["prior"] = {}
    res2 = dict(res, gone_trees=[], trees=res["all_trees"], plan1=r2["plan1"], errs=r2["errs"], raised=r2["raised"],
                walk=r2["walk"], plan2=r2["plan2"], exc=r2["exc"])
    how = "a fresh target index" if case.get("fresh_index") else "the same target index object"
    return [("C09:retry:" + sig[4:], f"round 2 ({how}, directory objects now present): {what}")
            for sig, what in oracle(case2, res2)]


def expected_val(res):
    return vL([vplan(res["plan1"]), vwalk(res["walk"]), verrs(res["errs"]),
               vN(1 if res["raised"] else 0), vplan(res["plan2"])])


# ------------------------------------------------------------------------------------------------
# the oracle: the property itself, from the case description and the observations only


def expanded_target(case, res):
    """files {key: (content|None if hash-less, exec|None when the listing carries none, available)},
    dirs (explicit or produced by loading), failed lazy keys, implicit dirs"""
    files, dirs, failed = {}, set(), set()
    for k, te in res["model_target"]:
        if te[0] == "f":
            files[k] = (te[2], te[1], te[2] is not None and te[2] not in res["gone"])
        elif te[0] == "d":
            dirs.add(k)
        else:
            dirs.add(k)
            if te[1] in res["gone_trees"]:
                failed.add(k)
                continue
            for rel, c in res["all_trees"][te[1]].items():
                rk = key_of(rel)
                files[k + rk] = (c, None, c not in res["gone"])
                for i in range(1, len(rk)):
                    dirs.add(k + rk[:i])
    implicit = set()
    for k in list(files) + list(dirs):
        for i in range(1, len(k)):
            if k[:i] not in dirs:
                implicit.add(k[:i])
    return files, dirs, failed, implicit


def oracle(case, res):
    problems = []
    files, dirs, failed, implicit = expanded_target(case, res)
    walk = {key_of(rel): v for rel, v in res["walk"].items()}
    if res.get("fault_key") is not None and res["fault_key"] in files:
        c_, x_, _a = files[res["fault_key"]]
        files[res["fault_key"]] = (c_, x_, False)     # its transfer was made to fail: must be reported, not skipped
    all_avail = not failed and all(a for _, _, a in files.values())
    reported = {k for _, k, _ in res["errs"]}
    if res["exc"]:
        problems.append(("C09:second-compare-raised", res["exc"]))
    # -- root cause A: hardlink/symlink do not create the (implicit) parent directories of a file
    if all_avail and case["link"] != "copy" and implicit:
        blocked = [k for code, k, exc in res["errs"] if code == 2 and exc == "FileNotFoundError"
                   and any(k[:i] in implicit for i in range(1, len(k)))]
        if blocked:
            return [("C09:not-converged:link-no-parent",
                     f"every source is available, link type {case['link']}: entries {blocked} below implicit "
                     f"directories were not created (FileNotFoundError passed to onerror); apply raised: {res['raised']}")]
    # -- root cause E: a dangling link at the path of a directory entry without hash is classified ADD, is not
    #    deleted, and os.makedirs raises out of apply
    if res["raised"] in ("FileExistsError", "NotADirectoryError"):
        at = [key_of(rel) for rel, v in case["prior"].items() if v == "X" and key_of(rel) in dirs]
        if at:
            return [("C09:not-converged:dangling-at-hashless-dir",
                     f"dangling link(s) {at} sit at directory entries of the target; apply raised {res['raised']} "
                     f"out of _create_dirs, the workspace is {sorted(walk.items())[:6]}...")]
    # -- directory symlinks of the prior workspace: what they point to is never touched; with delete they go
    bad_ext = {d_: l_ for d_, l_ in res.get("elsewhere", {}).items() if l_ != ["precious"]}
    if bad_ext:
        problems.append(("C09:dir-symlink:linked-directory-modified",
                         f"a directory outside the workspace, reached through a symlink, was changed: {bad_ext}"))
    links = [key_of(rel) for rel, v in case["prior"].items() if v == "L"]
    if case["delete"] and links:
        left = [k for k in links if k in walk and k not in dirs and k not in implicit and k not in files]
        p2 = res["plan2"] or {}
        again = [k for k in links if k in (p2.get("dirs_delete") or [])]
        if left or again:
            return problems + [("C09:not-converged:dir-symlink-in-workspace",
                                f"symlink(s) to a directory that the target does not have: still there {left}, "
                                f"second compare plans dirs_delete {again}")]
    # -- unavailable sources are reported (any delete mode)
    for k in sorted(failed):
        if k not in reported:
            problems.append(("C09:unavailable-not-reported:directory", f"failed directory {k} not passed to onerror"))
    for k, (c, x, a) in sorted(files.items()):
        if a:
            continue
        there = walk.get(k)
        if isinstance(there, tuple) and c is not None and there[0] == c:
            continue  # already in place, nothing had to be fetched
        if k not in reported:
            kind = "symlink" if case["link"] == "symlink" else "silent"
            problems.append((f"C09:unavailable-not-reported:{kind}",
                             f"entry {k} has no available source, is not in place (workspace has {there!r}: "
                             f"X = dangling link) and was not passed to onerror"))
    if res["raised"] and all_avail:
        # (with an unavailable source the failure is reported first and _chmod_files may then raise on the
        #  missing path: outside the property's clauses, see ASSUMPTIONS; modelled, not judged)
        problems.append(("C09:apply-raised:" + res["raised"],
                         f"apply raised {res['raised']} (after onerror calls {res['errs']})"))
    if all_avail:
        if res["errs"] and case["delete"]:
            problems.append(("C09:spurious-onerror", f"every source is available but onerror was called: {res['errs']}"))
    # -- convergence with delete
    if case["delete"] and all_avail:
        want_dirs = dirs | implicit
        want_dirs.discard(())
        got_files = {k: v for k, v in walk.items() if v != "D"}
        got_dirs = {k for k, v in walk.items() if v == "D"}
        bad = {k: (got_files.get(k), files.get(k)) for k in set(got_files) | set(files)
               if not (isinstance(got_files.get(k), tuple) and k in files and got_files[k][0] == files[k][0])}
        if bad:
            sig = "C09:not-converged:files"
            if case["link"] != "copy" and implicit and not got_files:
                sig = "C09:not-converged:link-no-parent"
            problems.append((sig, f"files differ from the target (workspace, target): {bad}"))
        if got_dirs - want_dirs:
            problems.append(("C09:not-converged:dirs-left", f"directories left: {sorted(got_dirs - want_dirs)}"))
        elif want_dirs - got_dirs and not bad:
            problems.append(("C09:not-converged:dirs-missing", f"directories missing: {sorted(want_dirs - got_dirs)}"))
        noexec = [k for k, (c, x, a) in files.items() if x and isinstance(got_files.get(k), tuple) and not got_files[k][1]]
        if noexec:
            problems.append(("C09:not-converged:exec", f"executable entries not executable: {noexec}"))
        p2 = res["plan2"]
        if p2 is not None:
            left = {f: p2[f] for f in ("files_delete", "dirs_delete", "files_create") if p2[f]}
            dc = [k for k in p2["dirs_create"] if k != ()]
            if dc:
                left["dirs_create"] = dc
            if left:
                sig = "C09:second-compare-not-empty"
                if set(left) == {"dirs_delete"} and set(left["dirs_delete"]) <= implicit:
                    sig = "C09:second-compare:implicit-dirs-deleted"
                problems.append((sig, f"second compare still plans {left}"))
    # -- without delete nothing outside the target is removed
    if not case["delete"]:
        nodes = set(files) | dirs | implicit
        prior_nodes = {}
        for rel, v in case["prior"].items():
            prior_nodes[key_of(rel)] = "D" if v is None or v == "L" else ("X" if v == "X" else (v[0], v[1]))
        for d in dirs_of(case["prior"]):
            prior_nodes[key_of(d)] = "D"
        for k, v in sorted(prior_nodes.items()):
            if k in nodes:
                continue
            got = walk.get(k)
            same = got == v or (isinstance(v, tuple) and isinstance(got, tuple) and got[0] == v[0])
            if not same:
                problems.append(("C09:no-delete:removed-outside-target",
                                 f"{k} is outside the target, was {v}, is now {got}"))
        # and what could be brought in was brought in or reported
    return problems


# ------------------------------------------------------------------------------------------------


def scripted():
    A, B = ("A", False), ("B", True)
    out = []
    pairs = [
        ({"a/b/c": A, "keep": A}, {"keep": A}),                      # nested removal
        ({"a/b/c": A}, {"a": B}),                                    # dir -> file, depth 1
        ({"a": B}, {"a/b/c": A}),                                    # file -> dir, depth 1
        ({"a/b/c/a": A, "a/x": A}, {"a/b": B, "a/x": A}),            # dir -> file, depth 2
        ({"a/b": B}, {"a/b/c/a": A}),                                # file -> dir, depth 2
        ({"a/b/c/a": A, "a/b/c/b": B}, {"a/b/c": A}),                # dir -> file, depth 3
        ({"a/b/c": A}, {"a/b/c/a": A, "a/b/c/b": B}),                # file -> dir, depth 3
        ({"a": A, "b": ("A", True)}, {"a": ("A", True), "b": A}),    # exec-only changes
        ({"a": A, "e": None, "d/e": None}, {"a": A, "c": None}),     # empty directories
        ({}, {"a/b": A, "c": ("", True), "b/a/c": ("DD", True)}),    # from nothing
        ({"a": A, "b": A, "c/a": B}, {"a": ("A", True), "b": A, "c/a": ("A", False)}),  # shared content + chmod
    ]
    pairs += [
        ({}, {"a": None, "a_raw/x": A}),                             # empty dir + sibling with a prefix name
        ({"k": A}, {"a/b": None, "a/b.bak": None, "a/bb/c": B, "k": A}),
        ({}, {"d/we\\ird.txt": A, "d/s p": B, "d/.h/\u00e9": A}),       # backslash, space, leading dot, non-ASCII
        ({"d/we\\ird.txt": A, "d/we/ird.txt": B}, {"d/we\\ird.txt": A}),
    ]
    same_listing = [
        ({"d/a": ("A", False), "d/s/b": B, "k": A}, {"d/a": ("A", True), "d/s/b": B, "d/e": None, "k": A}),
        ({"d/a": ("A", True), "d/s/b": ("B", False)}, {"d/a": ("A", True), "d/s/b": ("B", True), "d/s/e/f": None}),
    ]
    for prior, target in same_listing:   # identical .dir hashes on both sides; only exec bits / empty dirs differ
        for form in ("build", "mixed"):
            for link in ("copy", "hardlink", "symlink"):
                for oi in ("md5build+save", "entries"):
                    c = {"prior": prior, "target_tree": target, "form": form, "delete": True, "link": link,
                         "cls": "local", "old_index": oi}
                    if form == "mixed":
                        c["spec"] = [{"k": f, "t": "f", "x": x, "c": cc} for f, (cc, x) in files_of(target).items()]
                        c["spec"] += [{"k": d, "t": "d", "hashed": True} for d in sorted(dirs_of(target))]
                    out.append(c)
    for prior, target in pairs:
        for form in ("build", "lazy-root", "mixed"):
            for link in ("copy", "hardlink", "symlink"):
                out.append({"prior": prior, "target_tree": target, "form": form, "delete": True, "link": link,
                            "cls": "local"})
        out.append({"prior": prior, "target_tree": target, "form": "build", "delete": False, "link": "copy",
                    "cls": "base"})
    # targets made of file entries only: parents exist only implicitly (8c795c3, ed61977)
    impl_pairs = [
        ({}, {"a/b": A, "a/c/a": B}),                                # parents absent from the workspace
        ({"a": A}, {"a/b": A, "a/c/a": B}),                          # a file where an implicit directory goes
        ({"a/b": A, "a/c/a": B, "a/c/b": A}, {"a/b": A, "a/c/a": B}),  # implicit directories already there
        ({"a/c/b": A}, {"a/b": B}),                                  # implicit directory emptied, then needed
    ]
    for prior, target in impl_pairs:
        for link in ("copy", "hardlink", "symlink"):
            out.append({"prior": prior, "target_tree": target, "form": "implicit", "delete": True, "link": link,
                        "cls": "local"})
    return out


def finish_case(ctx, case):
    rng = ctx.rng
    if case["form"] != "build" and "spec" not in case:
        case["spec"] = gen_target_spec(rng, case["form"], case["target_tree"])
    if case["form"] in ("lazy-root", "mixed", "implicit"):
        # lazily loaded listings carry no empty directories / exec bits: keep the tree description in step
        case["target_tree"] = dict(case["target_tree"])
    return case


def gen_case(ctx, form=None):
    global NAMES  # noqa: PLW0603
    rng = ctx.rng
    label, NAMES = pick_names(rng)
    ctx.count("names:" + label)
    for _ in range(50):
        target = gen_tree(rng)
        if not consistent(target):
            continue
        if form == "implicit" and not any("/" in f for f in files_of(target)):
            continue
        if files_of(target) or rng.random() < 0.1:
            break
    r = rng.random()
    if form == "implicit" and r < 0.3:
        r = 0.99  # an empty workspace: every implicit parent has to be made
    if r < 0.55:
        prior = mutate(rng, target)
    elif r < 0.9:
        prior = gen_tree(rng)
    elif r < 0.95:
        prior = dict(target)
    else:
        prior = {}
    if not consistent(prior):
        prior = {k: v for k, v in prior.items() if consistent({k: v, **{f: x for f, x in prior.items() if f != k}})}
        if not consistent(prior):
            prior = {}
    dangling = form == "dangling"
    dirlink = form == "dirlink"
    form = rng.choice(["build", "build", "lazy-root", "mixed", "mixed"]) if form in (None, "dangling", "dirlink") else form
    case = {"prior": prior, "target_tree": target, "form": form,
            "delete": True if form == "implicit" else rng.random() < 0.7,
            "link": rng.choice(["copy", "hardlink", "symlink"]), "cls": rng.choice(["local", "base"])}
    if form in ("lazy-root", "implicit"):
        target = {k: v for k, v in target.items() if v is not None}  # listings have no empty directories
        case["target_tree"] = target
    finish_case(ctx, case)
    if dangling or rng.random() < 0.25:
        case["prior"] = add_dangling(rng, case["prior"], target)
    if dirlink or rng.random() < 0.08:
        case["prior"] = add_dirlinks(rng, case["prior"], target)
    if not any(v in ("X", "L") for v in case["prior"].values()) and rng.random() < 0.6:
        case["old_index"] = rng.choice(["md5build", "md5build+save"])
    elif not any(v == "X" for v in case["prior"].values()) and rng.random() < 0.3:
        case["old_index"] = "md5build"
    if rng.random() < 0.25:
        cs = sorted({v[0] for v in files_of(target).values()})
        if cs:
            case["rm_contents"] = rng.sample(cs, rng.randint(1, min(2, len(cs))))
    if form != "build" and rng.random() < 0.2:
        tids = ["t%d" % i for i, e in enumerate(case["spec"]) if e["t"] == "lazy"]
        if tids:
            case["rm_trees"] = [rng.choice(tids)]
    if rng.random() < 0.5:
        case["collect_onerror"] = True
    return case


def scripted_retry():
    A, B = ("A", False), ("B", True)
    out = []
    for prior, target in [({}, {"d/a": A, "d/b/c": B, "k": A}), ({"d": A, "x/y": B}, {"d/a": A, "d/b/c": B}),
                          ({"d/a": B, "d/z": A}, {"d/a": A, "d/b/c": B})]:
        for link in ("copy", "hardlink", "symlink"):
            for fresh in (False, True):
                spec = [{"k": "d", "t": "lazy", "tree": {f[2:]: c for f, (c, _) in target.items() if f.startswith("d/")}}]
                spec += [{"k": f, "t": "f", "x": x, "c": c} for f, (c, x) in target.items() if not f.startswith("d/")]
                out.append({"prior": prior, "target_tree": target, "form": "mixed", "spec": spec, "delete": True,
                            "link": link, "cls": "local", "rm_trees": ["t0"], "collect_onerror": True, "retry": True,
                            "fresh_index": fresh})
    return out


def gen_retry_case(ctx):
    """a two-round history on one lazily loaded target: directory object(s) absent in round 1, present in round 2"""
    rng = ctx.rng
    for _ in range(100):
        case = gen_case(ctx, rng.choice(["lazy-root", "mixed", "mixed"]))
        tids = ["t%d" % i for i, e in enumerate(case.get("spec") or []) if e["t"] == "lazy"]
        if tids:
            break
    case.pop("rm_contents", None)
    case["rm_trees"] = rng.sample(tids, rng.randint(1, len(tids)))
    case["retry"] = True
    case["collect_onerror"] = rng.random() < 0.8   # a handler that swallows the failure
    case["fresh_index"] = rng.random() < 0.3       # control: a new index object for round 2
    case["delete"] = rng.random() < 0.8
    return case


LINK_LISTS = [["reflink", "copy"], ["hardlink", "copy"], ["symlink", "copy"], ["reflink", "hardlink", "copy"],
              ["reflink", "symlink"], ["copy"], ["hardlink"], ["symlink"]]


def audit_knobs(ctx, case):
    """sample the flags / routes / pre-existing states of the coverage audit on top of a generated case"""
    rng = ctx.rng
    if rng.random() < 0.5:
        case["links"] = rng.choice(LINK_LISTS)
    if case.get("links") and case["links"][0] == "reflink" and not case["delete"]:
        # without delete a directory may be in the way of a file; the failed reflink attempt then decides which
        # exception transfer sees (reported) - the model only knows the effective link type: oracle only
        case["no_model"] = True
    if rng.random() < 0.4:
        case["jobs"] = rng.choice([1, 2, 7])
    if rng.random() < 0.4:
        case["role"] = rng.choice(["remote", "data", "cache"])
    if rng.random() < 0.3:
        case["state"] = True
    if rng.random() < 0.3:
        case["callback"] = True
    if case["form"] != "build" and rng.random() < 0.3:     # (build+md5+save names its hashes md5)
        case["hash_name"] = "md5-dos2unix"
        case["old_index"] = "entries"
    if rng.random() < 0.4:
        case["obj_name"] = True
    if case["form"] != "build" and rng.random() < 0.5 \
            and not any(e["t"] == "f" and e["c"] is None for e in case["spec"]):
        # (an entry with neither hash nor a non-empty Meta comes back from the SQLite round trip with meta None
        #  as well - empty Meta |-> None is C20's projection - and is then indistinguishable from nothing: not used)
        case["route"] = rng.choice(["sqlite", "sqlite-view"])
    if rng.random() < 0.25:
        case["ws_symlink"] = True
    if rng.random() < 0.3:
        case["prior_ro"] = True
    if case["form"] == "mixed" and rng.random() < 0.4 and not any(e["k"] == "" for e in case["spec"]):
        case["spec"].append({"k": "", "t": "d"})           # an explicit directory entry at the root key ()
    if case["form"] != "build":
        rng.shuffle(case["spec"])                           # child-then-parent registration orders
        case["rm_trees"] = []                               # tids are positional: keep it simple here
    if not case["prior"] and rng.random() < 0.7:
        case["old"] = "none"                                # old=None onto an empty workspace
    r = rng.random()
    if r < 0.15:
        case["update_meta"] = True                          # (mutates the target index: oracle only)
        case["no_model"] = True
    elif r < 0.3:
        case["relink"] = True
    elif r < 0.45 and not case.get("rm_contents"):
        case["fault"] = {"pos": rng.choice(["first", "mid", "last"]), "kind": rng.choice(["EIO", "EPERM", "ENOENT"])}
        case["no_model"] = True
    return case


def scripted_audit():
    """every audited dimension once per run, on one fixed (prior, target) pair"""
    A, B = ("A", False), ("B", True)
    prior = {"a": ("old", False), "z/y": A, "d/b": A}
    target = {"a": ("A", True), "d/b": B, "d/s/c": A, "e": None}
    spec = [{"k": "d", "t": "lazy", "tree": {"b": "B", "s/c": "A"}}, {"k": "a", "t": "f", "x": True, "c": "A"},
            {"k": "e", "t": "d"}]
    long_name = "n" * 200
    out = []

    def base(**kw):
        c = {"prior": dict(prior), "target_tree": dict(target), "form": "mixed", "spec": [dict(e) for e in spec],
             "delete": True, "link": "copy", "cls": "local"}
        c.update(kw)
        return c

    for ll in LINK_LISTS:
        out.append(base(links=ll))
    for role in ("remote", "data"):
        for link in ("copy", "hardlink", "symlink"):
            out.append(base(role=role, link=link))
    out += [base(jobs=1), base(jobs=2, link="hardlink"), base(state=True, link="symlink"), base(callback=True),
            base(hash_name="md5-dos2unix", obj_name=True), base(obj_name=True, link="hardlink"),
            base(route="sqlite"), base(route="sqlite-view"), base(route="sqlite-view", link="symlink"),
            base(ws_symlink=True), base(ws_symlink=True, link="hardlink"), base(prior_ro=True),
            base(prior_ro=True, link="symlink"), base(relink=True), base(relink=True, link="hardlink"),
            base(relink=True, link="symlink", delete=False),
            base(update_meta=True, no_model=True), base(update_meta=True, no_model=True, link="hardlink", state=True)]
    # directory entry at the root key: explicit, lazily loaded (plain / sqlite / view of an sqlite index)
    out.append(base(spec=[dict(e) for e in spec] + [{"k": "", "t": "d"}]))
    for route in ("mem", "sqlite", "sqlite-view"):
        out.append({"prior": dict(prior), "target_tree": files_of(target), "form": "lazy-root", "delete": True,
                    "link": "copy", "cls": "local", "route": route,
                    "spec": [{"k": "", "t": "lazy", "tree": {k: c for k, (c, _) in files_of(target).items()}}]})
    # live symlinks to directories outside the workspace, absent from the target (345fea1): top level, nested in
    # a kept directory, nested in a directory that disappears; delete on and off
    for link in ("copy", "hardlink", "symlink"):
        for delete in (True, False):
            out.append(base(prior={"a": ("old", False), "lnk": "L", "d/l2": "L", "z/deep/l3": "L", "z/y": A},
                            link=link, delete=delete))
    # old=None onto an empty workspace (what the repository's own tests do)
    for link in ("copy", "hardlink", "symlink"):
        out.append(base(prior={}, old="none", link=link))
    # one failing transfer at the first / a middle / the last position of the batch, and on the directory object
    for pos in ("first", "mid", "last"):
        for link, kind in (("copy", "EIO"), ("hardlink", "EPERM"), ("symlink", "ENOENT")):
            out.append(base(prior={}, fault={"pos": pos, "kind": kind}, link=link, no_model=True))
    out.append(base(rm_trees=["t0"], collect_onerror=True))
    # names: 200 characters; 1 character; NFC/NFD twins; case twins; a .dir suffix - in every target form
    odd = {long_name + "/" + long_name: A, "x.dir/f": B, "caf\u00e9": A, "cafe\u0301": B, "Data/f": A, "data": B,
           "\U0001f4c1/\u6570\u636e": A}
    for form in ("build", "lazy-root", "mixed"):
        out.append({"prior": {"data/f": A, "Data": B, "x.dir": A}, "target_tree": dict(odd), "form": form,
                    "delete": True, "link": "hardlink", "cls": "local"})
    return out


def dimensions_of(case, res, files, dirs, implicit):
    """the audited input dimensions this case exercises"""
    d = []
    for k in ("links", "jobs", "state", "callback", "obj_name", "ws_symlink", "prior_ro", "relink", "update_meta",
              "fault", "retry", "fresh_index", "collect_onerror"):
        if case.get(k):
            d.append("flag:" + k + ("=" + "+".join(case[k]) if k == "links" else ""))
    d.append("link:" + eff_link(case))
    d.append("delete:" + ("on" if case["delete"] else "off"))
    d.append("role:" + case.get("role", "cache"))
    d.append("route:" + (case.get("route", "mem") if case["form"] != "build" else "build+md5+save"))
    d.append("hash-name:" + case.get("hash_name", "md5"))
    d.append("old:" + ("None" if case.get("old") == "none" else case.get("old_index", "entries")))
    d.append("store:" + case.get("cls", "local"))
    if case["form"] == "build" or any(e.get("hashed") for e in case.get("spec") or []):
        d.append("target:directory-entries-with-dir-hash")
    if case.get("fault"):
        d.append("fault:" + case["fault"]["pos"] + ":" + case["fault"]["kind"])
    for k, te in res["model_target"]:
        if k == ():
            d.append("root-key:" + {"d": "explicit-directory", "lazy": "lazy-directory", "f": "file"}[te[0]])
        if te[0] == "lazy" and not res["all_trees"][te[1]]:
            d.append("shape:empty-listing")
    nodes = set(files) | dirs | implicit
    names = {n for k in nodes for n in k}
    if any("\\" in n for n in names):
        d.append("name:backslash")
    if any(" " in n for n in names):
        d.append("name:space")
    if any(n.startswith(".") for n in names):
        d.append("name:leading-dot")
    if any(ord(ch) > 127 for n in names for ch in n):
        d.append("name:non-ascii")
    if any(n.endswith(".dir") for n in names):
        d.append("name:dir-suffix")
    if any(len(n) >= 200 for n in names):
        d.append("name:200-chars")
    import unicodedata

    if any(unicodedata.normalize("NFC", n) != n for n in names):
        d.append("name:not-NFC")
    if len({n.lower() for n in names}) < len(names):
        d.append("name:case-twins")
    paths = {"/".join(k) for k in nodes}
    if any(a != b and b.startswith(a) and not b.startswith(a + "/") for a in paths for b in paths):
        d.append("name:sibling-string-prefix")
    if implicit:
        d.append("shape:implicit-directories")
    if any(k and not any(n != k and n[:len(k)] == k for n in nodes) for k in dirs):
        d.append("shape:empty-directory")
    if any(len(k) >= 3 for k in files):
        d.append("shape:depth>=3")
    cs = [c for c, _, _ in files.values()]
    if len(cs) != len(set(cs)):
        d.append("shape:identical-contents")
    if "" in cs:
        d.append("shape:zero-length-file")
    if any(x for _, x, _ in files.values()):
        d.append("shape:exec-entry")
    pv = case["prior"]
    if any(v == "X" for v in pv.values()):
        d.append("prior:dangling-symlink")
    for rel, v in pv.items():
        if v == "L":
            d.append("prior:directory-symlink:" + ("top-level" if "/" not in rel else "nested"))
    tf = {"/".join(k): v for k, v in files.items()}
    for rel, v in pv.items():
        if isinstance(v, (tuple, list)) and rel in tf:
            d.append("prior:right-bytes-at-target-path" if v[0] == tf[rel][0] else "prior:other-bytes-at-target-path")
            if v[0] == "" and tf[rel][0] != "":
                d.append("prior:empty-leftover")
        if isinstance(v, (tuple, list)) and tuple(rel.split("/")) in (dirs | implicit):
            d.append("prior:file-where-directory-wanted")
    if dirs_of(pv) & set(tf):
        d.append("prior:directory-where-file-wanted")
    if not pv:
        d.append("prior:empty-workspace")
    if res["gone"]:
        d.append("unavailable:file-object")
    if res["gone_trees"]:
        d.append("unavailable:directory-object")
    if any(c is None for c, _, _ in files.values()):
        d.append("unavailable:hash-less-entry")
    return sorted(set(d))


# Candidate findings of the coverage audit (reported to the lead with their concrete inputs).  A signature listed in
# JUDGED is oracle-failed when it reproduces; the others are recorded in the evidence (audit_observations) only,
# because it is the lead's call whether the dimension is inside the property's quantifier.
JUDGED: set = set()


def audit_observations(ctx):  # noqa: C901, PLR0915
    """fixed scenarios on dimensions outside the model's domain: single-file target at the root key, old=None over
    existing content, a stale old index, a directory symlink inside the workspace, update_meta=True"""
    from dvc_objects.fs.local import localfs

    from dvc_data.hashfile.hash_info import HashInfo
    from dvc_data.hashfile.meta import Meta
    from dvc_data.index import DataIndex, DataIndexEntry, FileStorage, ObjectStorage
    from dvc_data.index.build import build_entries
    from dvc_data.index.checkout import apply, compare

    obs = ctx.extra.setdefault("audit_observations", {})
    dims = ctx.extra.setdefault("input_dimensions", {})

    def note(sig, holds, what, case):
        obs[sig] = obs.get(sig, []) + [{"property_holds": holds, "what": what, "input": case}]
        if not holds and sig in JUDGED:
            ctx.oracle_fail(sig, what, case)

    def setup(link):
        root = ctx.fresh("c09obs")
        odb = impl.make_odb("local", os.path.join(root, "cache"), type=[link])
        os.makedirs(odb.path, exist_ok=True)
        return root, odb, os.path.join(root, "ws")

    def fe(odb, k, c, x=False):
        oid = impl.md5hex(c.encode())
        _plant_once(odb, oid, c.encode())
        return DataIndexEntry(key=k, meta=Meta(isexec=x), hash_info=HashInfo("md5", oid))

    def wsidx(ws):
        ix = DataIndex()
        ix.storage_map.add_data(FileStorage(key=(), fs=localfs, path=ws))
        for e in build_entries(ws, localfs, compute_hash=True):
            ix.add(e)
        return ix

    def go(old, new, ws, **kw):
        errs, raised = [], None
        try:
            apply(compare(old, new, delete=True), ws, localfs, onerror=lambda *a: errs.append(type(a[2]).__name__), **kw)
        except Exception as exc:  # noqa: BLE001
            raised = type(exc).__name__
        return errs, raised

    def read(p):
        try:
            with open(p, "rb") as f:
                return f.read().decode()
        except OSError as exc:
            return "<" + type(exc).__name__ + ">"

    for link in ("copy", "hardlink", "symlink"):
        # D: a single FILE entry at the root key (): the workspace path is the file
        for prior in ("absent", "directory", "file-other-bytes"):
            root, odb, ws = setup(link)
            new = DataIndex()
            new[()] = fe(odb, (), "A", True)
            new.storage_map.add_cache(ObjectStorage((), odb))
            if prior == "directory":
                os.makedirs(os.path.join(ws, "d"))
                with open(os.path.join(ws, "d", "f"), "w") as f:
                    f.write("x")
            elif prior == "file-other-bytes":
                with open(ws, "w") as f:
                    f.write("old")
            errs, raised = go(wsidx(ws) if prior == "directory" else None, new, ws, update_meta=False)
            ok = os.path.isfile(ws) and read(ws) == "A" and not errs and not raised
            dims["root-key:file/prior-" + prior] = dims.get("root-key:file/prior-" + prior, 0) + 1
            note("C09:not-converged:root-file", ok,
                 f"single file entry at (), workspace path {prior}: now {'file ' + repr(read(ws)) if os.path.isfile(ws) else 'directory' if os.path.isdir(ws) else 'absent'}, "
                 f"onerror {errs}, raised {raised}", {"target": {"()": "A exec"}, "prior": prior, "link": link, "delete": True})
            impl.rm_rf(root)
        # E: old=None over existing content (an untracked file at a target path, a file outside the target)
        root, odb, ws = setup(link)
        new = DataIndex()
        new[("a",)] = fe(odb, ("a",), "A")
        new[("d", "b")] = fe(odb, ("d", "b"), "B")
        new.storage_map.add_cache(ObjectStorage((), odb))
        mk_ws(ws, {"a": ("untracked", False), "other": ("x", False)})
        errs, raised = go(None, new, ws, update_meta=False)
        dims["old:None-over-existing-content"] = dims.get("old:None-over-existing-content", 0) + 1
        note("C09:old-none:untracked-file-kept", read(os.path.join(ws, "a")) == "A" and not os.path.exists(os.path.join(ws, "other")),
             f"old=None, untracked a='untracked', other='x': a is now {read(os.path.join(ws, 'a'))!r}, other "
             f"{'kept' if os.path.exists(os.path.join(ws, 'other')) else 'deleted'}, onerror {errs}, raised {raised}",
             {"prior": {"a": "untracked", "other": "x"}, "target": {"a": "A", "d/b": "B"}, "old": None, "link": link, "delete": True})
        impl.rm_rf(root)
        # C: a live directory symlink inside the workspace that the target does not have
        root, odb, ws = setup(link)
        new = DataIndex()
        new[("a",)] = fe(odb, ("a",), "A")
        new.storage_map.add_cache(ObjectStorage((), odb))
        mk_ws(ws, {"a": ("A", False)})
        os.makedirs(os.path.join(root, "elsewhere"))
        with open(os.path.join(root, "elsewhere", "f"), "w") as f:
            f.write("precious")
        os.symlink(os.path.join(root, "elsewhere"), os.path.join(ws, "lnk"))
        errs, raised = go(wsidx(ws), new, ws, update_meta=False)
        d2 = compare(wsidx(ws), new, delete=True)
        dims["prior:directory-symlink-in-workspace"] = dims.get("prior:directory-symlink-in-workspace", 0) + 1
        note("C09:not-converged:dir-symlink-in-workspace",
             not os.path.lexists(os.path.join(ws, "lnk")) and not d2.dirs_delete,
             f"lnk -> directory elsewhere, not in the target: lnk {'still there' if os.path.lexists(os.path.join(ws, 'lnk')) else 'removed'}, "
             f"second compare dirs_delete={[e.key for e in d2.dirs_delete]}, the directory it points to holds "
             f"{sorted(os.listdir(os.path.join(root, 'elsewhere')))}", {"prior": {"a": "A", "lnk": "-> dir"}, "target": {"a": "A"}, "link": link})
        impl.rm_rf(root)
        # A: update_meta=True (apply's default) with an unavailable NON-executable source
        root, odb, ws = setup(link)
        new = DataIndex()
        new[("a",)] = fe(odb, ("a",), "A")
        new[("b",)] = fe(odb, ("b",), "B")
        new.storage_map.add_cache(ObjectStorage((), odb))
        p = odb.oid_to_path(impl.md5hex(b"A"))
        os.chmod(p, 0o644)
        os.unlink(p)
        os.makedirs(ws)
        errs, raised = go(wsidx(ws), new, ws)
        dims["flag:update_meta/unavailable-source"] = dims.get("flag:update_meta/unavailable-source", 0) + 1
        note("C09:apply-raised:update-meta-after-failed-create", errs == ["FileNotFoundError"] and raised is None,
             f"update_meta=True, object of a missing: onerror {errs}, then apply raised {raised}",
             {"target": {"a": "A (object missing)", "b": "B"}, "prior": {}, "link": link, "update_meta": True})
        impl.rm_rf(root)
        # B: update_meta=True loses the exec bit from the target index; the same index onto a wiped workspace
        root, odb, ws = setup(link)
        new = DataIndex()
        new[("a",)] = fe(odb, ("a",), "A", True)
        new.storage_map.add_cache(ObjectStorage((), odb))
        os.makedirs(ws)
        go(wsidx(ws), new, ws)
        x1 = bool(os.stat(os.path.join(ws, "a")).st_mode & stat.S_IXUSR)
        impl.rm_rf(ws)
        os.makedirs(ws)
        p = odb.oid_to_path(impl.md5hex(b"A"))
        os.chmod(p, 0o444)   # (a link type that shares the inode left the object executable: reset it)
        go(wsidx(ws), new, ws)
        x2 = os.path.exists(os.path.join(ws, "a")) and bool(os.stat(os.path.join(ws, "a")).st_mode & stat.S_IXUSR)
        dims["flag:update_meta/two-rounds-same-index"] = dims.get("flag:update_meta/two-rounds-same-index", 0) + 1
        note("C09:history:exec-bit-lost-from-index", x1 and x2,
             f"executable entry a, apply(update_meta=True): executable {x1}; workspace wiped, same index object applied "
             f"again: executable {x2}; the entry's meta.isexec is now {new[('a',)].meta.isexec}",
             {"target": {"a": "A exec"}, "history": ["apply(update_meta=True)", "wipe workspace", "compare+apply again"], "link": link})
        impl.rm_rf(root)
    # a stale old index: built, then the user edits a file the target keeps
    root, odb, ws = setup("copy")
    new = DataIndex()
    new[("a",)] = fe(odb, ("a",), "A")
    new.storage_map.add_cache(ObjectStorage((), odb))
    mk_ws(ws, {"a": ("A", False)})
    old = wsidx(ws)
    with open(os.path.join(ws, "a"), "w") as f:
        f.write("edited")
    go(old, new, ws, update_meta=False)
    dims["old:stale"] = dims.get("old:stale", 0) + 1
    note("C09:old-stale:edit-kept", read(os.path.join(ws, "a")) == "A", f"old built before the user edited a: a is now {read(os.path.join(ws, 'a'))!r}",
         {"prior": {"a": "A then edited"}, "target": {"a": "A"}, "old": "stale"})
    impl.rm_rf(root)


def judge(ctx, case, items, stream, retry_items=None):
    res = run_real(ctx, case)
    p1 = res["plan1"]
    nontrivial = any(p1[f] for f in p1)
    ctx.case(case, nontrivial)
    ctx.count(f"{stream}:form:" + case["form"])
    ctx.count(f"{stream}:link:" + case["link"])
    ctx.count(f"{stream}:delete:" + ("on" if case["delete"] else "off"))
    prior_files, prior_dirs = set(files_of(case["prior"])), dirs_of(case["prior"])
    files, dirs, failed, implicit = expanded_target(case, res)
    tf = {"/".join(k) for k in files}
    td = {"/".join(k) for k in dirs | implicit}
    f2d = prior_files & td
    d2f = prior_dirs & tf
    for s in f2d:
        ctx.count("kind-change:file->dir:depth%d" % len(s.split("/")))
    for s in d2f:
        ctx.count("kind-change:dir->file:depth%d" % len(s.split("/")))
    tnodes = set(files) | dirs | implicit
    empty_dirs = [k for k in dirs if k and not any(n != k and n[:len(k)] == k for n in tnodes)]
    if empty_dirs:
        ctx.count("target:empty-directories", len(empty_dirs))
    names = {"/".join(k[:i + 1]) for k in tnodes for i in range(len(k))}
    if any(a != b and b.startswith(a) and not b.startswith(a + "/") for a in names for b in names):
        ctx.count("target:sibling-with-prefix-name")
    if any(ch in n for n in names for ch in "\\ .\u00e9"):
        ctx.count("target:unusual-name-characters")
    if res["gone"] or res["gone_trees"] or any(c is None for c, _, _ in files.values()):
        ctx.count("unavailable-sources")
    if res["errs"]:
        ctx.count("onerror-called")
    if res["raised"]:
        ctx.count("apply-raised")
    if res["litter"]:
        ctx.count("tmp-litter-ignored")
    if any(v == "X" for v in res["walk"].values()):
        ctx.count("dangling-symlinks")
    if p1["files_chmod"]:
        ctx.count("chmod-planned")
    ctx.count("old-index:" + case.get("old_index", "entries"))
    for rel, v in case["prior"].items():
        if v == "X":
            k = key_of(rel)
            where = ("at-target-file" if k in files else "at-target-dir" if k in dirs | implicit else
                     "below-target-file" if any(k[:i] in files for i in range(1, len(k))) else "outside-target")
            ctx.count("prior-dangling:" + where)
    dims = ctx.extra.setdefault("input_dimensions", {})
    for dname in dimensions_of(case, res, files, dirs, implicit):
        dims[dname] = dims.get(dname, 0) + 1
    for sig, what in oracle(case, res):
        ctx.oracle_fail(sig, what, case)
    if res["plan2"] is not None and not case.get("no_model"):
        (RELINK_ITEMS if case.get("relink") else items).append((case, case_term(case, res), expected_val(res)))
    if "r2" in res:
        ctx.count("retry:" + ("fresh-index" if case.get("fresh_index") else "same-index")
                  + (":swallowing-onerror" if case.get("collect_onerror") else ":raising-onerror"))
        if res["gone_trees"]:
            ctx.count("retry:directory-object-absent-in-round-1")
        for sig, what in retry_oracle(case, res):
            ctx.oracle_fail(sig, what, case)
        if res["plan2"] is not None and res["r2"]["plan2"] is not None and retry_items is not None:
            retry_items.append((case, retry_term(case, res), retry_expected(res)))
    return res


def branch_items(ctx):
    """the per-change branch of _compare on every (typ, old, new, relink, delete) combination"""
    import dvc_data.index.checkout as co
    from dvc_data.hashfile.hash_info import HashInfo
    from dvc_data.hashfile.meta import Meta
    from dvc_data.index import DataIndex, DataIndexEntry
    from dvc_data.index.diff import ADD, DELETE, MODIFY, UNCHANGED, Change

    metas = [None, (False, False), (False, True), (True, False), (True, True)]
    hashes = [None, 1, 2]
    shapes = [None] + [(m, h) for m in metas for h in hashes]
    codes = {ADD: 1, MODIFY: 2, DELETE: 4, UNCHANGED: 5}

    def entry(shape, name):
        if shape is None:
            return None
        m, h = shape
        return DataIndexEntry(key=(name,), meta=None if m is None else Meta(isdir=m[0], isexec=m[1]),
                              hash_info=None if h is None else HashInfo("md5", chr(h)))

    def term(shape, name):
        if shape is None:
            return "None"
        m, h = shape
        mt = "None" if m is None else f"(Some (mk_m {cbool(m[0])} {cbool(m[1])}))"
        ht = "None" if h is None else f"(Some (hi_of [{h}]))"
        return f"(Some (mk_ientry (Some [{cbytes(name)}]) {mt} {ht} None))"

    items = []
    saved = co.idiff
    try:
        for typ in (ADD, MODIFY, DELETE, UNCHANGED):
            for so in shapes:
                for sn in shapes:
                    if typ == ADD and sn is None or typ == DELETE and so is None:
                        continue
                    if typ in (MODIFY, UNCHANGED) and (so is None or sn is None):
                        continue
                    for relink in (False, True):
                        if typ == UNCHANGED and not relink:
                            continue  # `assert relink`
                        for delete in (False, True):
                            for hn in ((False, True) if typ == DELETE else (False,)):
                                ch = Change(typ, entry(so, "o"), entry(sn, "n"))
                                co.idiff = lambda *a, _c=ch, **kw: iter([_c])
                                new = DataIndex()
                                if hn:  # the key of the change is an implicit node of new
                                    new[("o", "z")] = DataIndexEntry(key=("o", "z"), meta=Meta())
                                d = co._compare(DataIndex(), new, relink=relink, delete=delete)
                                p = plan_keys(d)
                                cj = {"branch": [typ, so, sn, relink, delete, hn]}
                                inp = (f"({cbool(relink)}, {cbool(delete)}, {codes[typ]}, {term(so, 'o')}, "
                                       f"{term(sn, 'n')}, {cbool(hn)})")
                                items.append((cj, inp, vplan(p)))
                                ctx.count("branch:" + typ)
    finally:
        co.idiff = saved
    return items


def run(ctx):
    items = []
    corpus = scripted()
    for c in corpus:
        judge(ctx, finish_case(ctx, c), items, "corpus")
    n_main = ctx.n(120, 2600)
    for _ in range(n_main):
        judge(ctx, gen_case(ctx), items, "main")
    n_impl = ctx.n(25, 300)
    for _ in range(n_impl):
        judge(ctx, gen_case(ctx, "implicit"), items, "implicit")
    n_dang = ctx.n(40, 500)
    for _ in range(n_dang):
        judge(ctx, gen_case(ctx, "dangling"), items, "dangling")
    retry_items = []
    for c in scripted_retry():
        judge(ctx, finish_case(ctx, c), items, "corpus", retry_items)
    n_retry = ctx.n(24, 400)
    for _ in range(n_retry):
        judge(ctx, gen_retry_case(ctx), items, "retry", retry_items)
    del RELINK_ITEMS[:]
    for c in scripted_audit():
        judge(ctx, finish_case(ctx, c), items, "audit-corpus")
    for _ in range(ctx.n(12, 200)):
        judge(ctx, gen_case(ctx, "dirlink"), items, "dirlink")
    n_audit = ctx.n(24, 500)
    for _ in range(n_audit):
        judge(ctx, audit_knobs(ctx, gen_case(ctx)), items, "audit")
    audit_observations(ctx)
    ctx.obligation("oracle:checkout", not any(v.kind == "oracle" for v in ctx.violations),
                   f"{len(items)} compare+apply+compare runs judged: walk equals target, second compare empty, "
                   "nothing outside the target removed without delete, unavailable sources reported")
    ctx.correspond("checkout", IMPORTS, "case", "run_case", items, shard=120)
    ctx.correspond("retry", IMPORTS, "case * trees * list key * list key",
                   "fun i => match i with (c, tr2, o2, odc2) => run_retry c tr2 o2 odc2 end", retry_items, shard=120)
    ctx.correspond("relink", IMPORTS, "case", "run_case_relink", list(RELINK_ITEMS), shard=120)
    b = branch_items(ctx)
    ctx.correspond("branch", IMPORTS, "bool * bool * N * option ientry * option ientry * bool",
                   "fun i => match i with (r, d, t, o, n, h) => enc_branch r d t o n h end", b, shard=300)


def replay_case(ctx, case):
    if "branch" in case:
        return {"violates": False, "note": "translation-validation case of the per-change branch"}
    res = run_real(ctx, case)
    problems = oracle(case, res)
    return {"plan1": res["plan1"], "walk": {k: v for k, v in res["walk"].items()}, "errs": res["errs"],
            "raised": res["raised"], "plan2": res["plan2"], "problems": problems, "violates": bool(problems)}
