"""Coverage-audit scenarios of C04/C11 (tools/COVERAGE_AUDIT.md): fixed cases that reach every input
dimension in every run.  Two kinds:

* MODELLED cases (plain scenario JSON of _transfer_common): they go through the correspondence with
  Model/Transfer.v like every other scenario;
* ORACLE-ONLY cases ("oracle_only": reason in the case JSON): dimensions Model/Transfer.v does not
  cover (a contract-honouring FileExistsError, faults in the existence query, a raising
  validate_status, a read-only destination, real hard links, the memfs staging source of
  hashfile.build).  They run on the real code and are judged by the same C04/C11 oracles; no
  correspondence item is produced for them.
* OBSERVATIONS ("observation": name): inputs the checks deliberately do NOT judge (the lead's ruling);
  they are run in every tier and what the real code did is recorded in coverage.observations.
"""

from __future__ import annotations

import copy
import json
import os
import unicodedata

from lib import impl

from props import _transfer_common as TC


def hx(b: bytes) -> str:
    return b.hex()


F5 = {"f0": hx(b"alpha"), "f1": hx(b"beta"), "f2": hx(b""), "f3": hx(b"gamma"), "f4": hx(b"delta")}
D4 = {"d0.dir": [["a", "f0"], ["sub/b", "f1"], ["c", "f3"], ["e", "f4"]]}
REQ4 = ["d0.dir", "f0", "f1", "f3", "f4"]


def _base(prop, **kw):
    case = {"prop": prop, "files": dict(F5), "dirs": copy.deepcopy(D4), "src": {t: None for t in list(F5) + list(D4)},
            "cache": None, "dst": {}, "req": list(REQ4), "shallow": True, "verify": False, "src_cls": "local",
            "dst_cls": "local", "dix": False, "six": False,
            "rounds": [{"fails": [], "crash": None, "reset": True}, {"fails": [], "crash": None, "reset": False}]}
    case.update(kw)
    return case


# ---------------------------------------------------------------------------------------------
# names: one listing with all of them


def names_listing():
    nfc = unicodedata.normalize("NFC", "café.txt")
    nfd = unicodedata.normalize("NFD", "café.txt")
    assert nfc != nfd
    return [["we\\ird.txt", "f0"], ["with space/na me", "f1"], [".hidden", "f2"], ["sub/.dot/..x", "f3"],
            ["Кириллица.txt", "f4"], ["日本語/ファイル", "f0"],
            ["\U0001F600.bin", "f1"], [nfc, "f3"], [nfd, "f4"], ["x.dir", "f5"], ["sub/y.dir/z", "f0"],
            ["imgs/a", "f1"], ["imgs_raw/a", "f3"], ["imgs.bak", "f4"], ["q", "f5"], ["L" * 200, "f0"],
            ["Case.txt", "f1"], ["case.txt", "f3"], ["deep/er/and/deeper/file", "f2"],
            ["quo\"te", "f4"], ["tab\there", "f5"]]


def names_cases(prop):
    files = dict(F5)
    files["f5"] = hx(b"epsilon")
    dirs = {"d0.dir": names_listing()}
    out = []
    for cls, fails, shallow in (("local", ["f3"], True), ("base", ["f0"], False)):
        out.append({"prop": prop, "files": files, "dirs": dirs, "src": {t: None for t in list(files) + list(dirs)},
                    "cache": None, "dst": {}, "req": ["d0.dir"] + (list(files) if shallow else []), "shallow": shallow,
                    "verify": False, "src_cls": "base", "dst_cls": cls, "dix": cls == "base", "six": False,
                    "labels": {"d0.dir": "данные/"} if shallow else {},
                    "rounds": [{"fails": fails, "crash": None, "reset": True},
                               {"fails": [], "crash": None, "reset": False}]})
    return out


# ---------------------------------------------------------------------------------------------
# shapes


def shape_cases(prop):
    out = []
    de = {"d0.dir": [], "d1.dir": [["only", "f0"]], "d2.dir": [["deep/er/still/one", "f1"], ["deep/er/two", "f1"]]}
    src = {t: None for t in list(F5) + list(de)}
    # the EMPTY listing: alone; alone with its own upload failing; next to others with its upload failing
    for req, fails, cls, shallow in ((["d0.dir"], [], "local", True), (["d0.dir"], ["d0.dir"], "base", False),
                                     (["d0.dir", "d1.dir", "f0", "d2.dir", "f1"], ["d0.dir"], "local", True),
                                     (["d1.dir", "d0.dir", "d2.dir"], ["f0"], "base", False)):
        out.append(_base(prop, dirs=de, src=src, req=req, dst_cls=cls, shallow=shallow, dix=cls == "base",
                         rounds=[{"fails": fails, "crash": None, "reset": True},
                                 {"fails": [], "crash": None, "reset": False}]))
    # two directories with identical entry sets under different relpaths: every single-file failure
    ds = {"d0.dir": [["x/one", "f0"], ["x/two", "f1"]], "d1.dir": [["renamed-one", "f0"], ["other/two", "f1"]]}
    src = {t: None for t in list(F5) + list(ds)}
    for bad, cls in (("f0", "local"), ("f1", "base"), ("d0.dir", "base")):
        out.append(_base(prop, dirs=ds, src=src, req=["d0.dir", "d1.dir", "f0", "f1"], dst_cls=cls,
                         rounds=[{"fails": [bad], "crash": None, "reset": True},
                                 {"fails": [], "crash": None, "reset": False}]))
    # a NON-FLAT listing: d1 lists the requested directory d0's id as an entry (outside C04's quantifier)
    dn = {"d0.dir": [["a", "f0"], ["sub/b", "f1"]], "d1.dir": [["nested", "d0.dir"], ["c", "f3"]]}
    src = {t: None for t in list(F5) + list(dn)}
    for req, shallow, fails in ((["d0.dir", "d1.dir", "f0", "f1", "f3"], True, ["f1"]), (["d1.dir", "d0.dir"], False, ["f3"])):
        out.append(_base(prop, dirs=dn, src=src, req=req, shallow=shallow,
                         rounds=[{"fails": fails, "crash": None, "reset": True},
                                 {"fails": [], "crash": None, "reset": False}]))
    return out


# ---------------------------------------------------------------------------------------------
# flags, pre-existing destination states, index states, kill points (all modelled)


def flag_cases(prop):
    out = []
    # jobs x verify x hardlink (through the fault-injecting file system hardlink degenerates to copy)
    srot = {t: None for t in list(F5) + list(D4)}
    srot["f3"] = hx(b"gamma#bitrot")
    for jobs, verify, hardlink, cls in ((None, False, True, "base"), (2, True, True, "local"), (4, True, False, "base"),
                                        (1, False, False, "local")):
        out.append(_base(prop, jobs=jobs, verify=verify, hardlink=hardlink, dst_cls=cls, src=srot,
                         rounds=[{"fails": ["f1"], "crash": None, "reset": True},
                                 {"fails": [], "crash": None, "reset": False}]))
    # pre-existing destination: right object UNPROTECTED, corrupt PROTECTED copy, EMPTY leftover, temp leftovers
    for cls in ("local", "base"):
        out.append(_base(prop, dst_cls=cls, dst={"f0": None, "f1": hx(b"beta#protected-rot")}, dst_unprot=["f0"],
                         dst_rot={"f3": ""}, dst_junk=[["f4", "tmpAbC123", hx(b"partial")], ["f4", "f4rest.tmp", ""]]))
    # the empty leftover under the EMPTY file's own id (it is the right object, unprotected)
    out.append(_base(prop, dirs={"d0.dir": [["a", "f0"], ["empty", "f2"]]},
                     src={t: None for t in list(F5) + ["d0.dir"]}, req=["d0.dir", "f0", "f2"],
                     dst={"f2": None}, dst_unprot=["f2"]))
    # destination index that lists the directory but not its files (directory present and closed)
    full = {t: None for t in REQ4}
    out.append(_base(prop, dix=True, dst=full, dix_init={"dirs": ["d0.dir"], "files": []}, dst_cls="base"))
    out.append(_base(prop, dix=True, dst=full, dix_init={"dirs": ["d0.dir"], "files": []}, shallow=False, req=["d0.dir", "f2"]))
    # a fault ONLY ON RETRY: clean partial request first, then the full request with a failure
    out.append(_base(prop, rounds=[{"fails": [], "crash": None, "reset": True, "req": ["f0", "f3"]},
                                   {"fails": ["f1"], "crash": None, "reset": False},
                                   {"fails": [], "crash": None, "reset": False}]))
    # kill points inside the state transaction of HashFileDB.add (real State on the destination)
    for how, k, cls in (("before", 1, "local"), ("after", 1, "base"), ("before", 2, "base"), ("after", 2, "local")):
        out.append(_base(prop, dst_state=True, dst_cls=cls,
                         rounds=[{"fails": [], "crash": None, "reset": True, "kill_state": [how, k]},
                                 {"fails": [], "crash": None, "reset": False}]))
    return out


def legacy_cases(prop):
    """LEGACY stores: source and destination created with hash_name="md5-dos2unix".  Tree.load names the
    entries of a legacy store's tree md5-dos2unix, so the requested file ids bind to their directory
    (MODELLED: ids are opaque tokens for the model)."""
    f = {"f0": hx(b"alpha"), "f1": hx(b"beta"), "f2": hx(b""), "f3": hx(b"gamma")}
    d = {"d0.dir": [["a", "f0"], ["sub/b", "f1"]], "d1.dir": [["x", "f1"], ["y/z", "f2"], ["y/z2", "f2"]]}
    src = {t: None for t in list(f) + list(d)}
    out = []
    for cls in ("local", "base"):
        # closed request as the index-level push names it: everything md5-dos2unix; the shared file fails
        out.append({"prop": prop, "files": f, "dirs": d, "src": src, "cache": None, "dst": {},
                    "req": ["d0.dir", "d1.dir", "f0", "f1", "f2"], "shallow": True, "verify": False,
                    "src_cls": "local", "dst_cls": cls, "dix": cls == "base", "six": False, "hash_name": "md5-dos2unix",
                    "rounds": [{"fails": ["f1"], "crash": None, "reset": True}, {"fails": [], "crash": None, "reset": False}]})
        # expanded request, the directory named the way Tree.digest() names it: HashInfo("md5", "<md5>.dir")
        out.append({"prop": prop, "files": f, "dirs": d, "src": src, "cache": None, "dst": {},
                    "req": ["d0.dir", "d1.dir"], "shallow": False, "verify": False, "src_cls": "base", "dst_cls": cls,
                    "dix": False, "six": False, "hash_name": "md5-dos2unix",
                    "req_names": {"d0.dir": "md5", "d1.dir": "md5"},
                    "rounds": [{"fails": ["f0" if cls == "local" else "f2"], "crash": None, "reset": True},
                               {"fails": [], "crash": None, "reset": False}]})
    return out


def position_cases(ctx, prop):
    """one failing upload at the FIRST, a MIDDLE and the LAST position of the batch and on the directory
    object's own upload, for the error kinds EIO / PermissionError (modelled), FileNotFoundError (the
    source object vanishes; modelled) and a contract-honouring FileExistsError (the wrapper places the genuine
    object under the final name, then raises; ORACLE-ONLY: dvc_objects skips it at the first position of a batch
    and routes it to on_error elsewhere - reported failed although present, which the oracles allow)"""
    ups, _ = TC.probe_round(ctx, _base(prop))
    files = [u for u in ups if not TC.is_dir(u)]
    where = {"first": files[0], "middle": files[1], "last": files[-1], "dir": "d0.dir"}
    out = []
    i = 0
    for kind in ("eio", "eperm", "enoent", "eexist"):
        for pos, tok in where.items():
            if kind == "enoent" and pos == "dir":
                continue
            i += 1
            case = _base(prop, dst_cls=("local", "base")[i % 2])
            first = {"fails": [tok], "crash": None, "reset": True}
            if kind == "enoent":
                first = {"fails": [], "vanish": [tok], "crash": None, "reset": True}
            else:
                case["fail_kind"] = "eexist-honest" if kind == "eexist" else kind
            if kind == "eexist":
                case["oracle_only"] = "FileExistsError with the object in place: the model has no such event"
            case["rounds"] = [first, {"fails": [], "crash": None, "reset": False}]
            out.append((case, ["fault-position:%s@%s" % (kind, pos)]))
    return out


# ---------------------------------------------------------------------------------------------
# ORACLE-ONLY scenario cases


def oracle_only_cases(prop):
    out = []
    why = "outside Model/Transfer.v: "
    # the destination's existence queries raise during status
    for cls in ("local", "base"):
        out.append(_base(prop, dst_cls=cls, oracle_only=why + "fault in the existence query",
                         rounds=[{"fails": [], "crash": None, "reset": True, "query_fault": True},
                                 {"fails": [], "crash": None, "reset": False}]))
    # validate_status raises
    out.append(_base(prop, dst_cls="base", dst={"f0": None}, oracle_only=why + "validate_status raises",
                     rounds=[{"fails": [], "crash": None, "reset": True, "raise_in_validate": True},
                             {"fails": [], "crash": None, "reset": False}]))
    # read-only destination: something new / nothing new
    for cls in ("local", "base"):
        out.append(_base(prop, dst_cls=cls, read_only_dst=True, dst={"f0": None}, oracle_only=why + "read-only destination",
                         rounds=[{"fails": [], "crash": None, "reset": True}]))
        out.append(_base(prop, dst_cls=cls, read_only_dst=True, dst={t: None for t in REQ4},
                         oracle_only=why + "read-only destination", rounds=[{"fails": [], "crash": None, "reset": True}]))
    # REAL hard links: both stores on a plain LocalFileSystem, hardlink=True, corrupt protected source object
    srot = {t: None for t in list(F5) + list(D4)}
    srot["f1"] = hx(b"beta#bitrot")
    sok = {t: None for t in list(F5) + list(D4)}
    for cls, verify, dst in (("local", False, {}), ("local", True, {"f0": None}), ("base", False, {"f3": None}),
                             ("base", True, {})):
        # (the corrupt protected source stays out of the judged local-class cases: see observation_cases)
        out.append(_base(prop, dst_cls=cls, verify=verify, hardlink=True, plain_dst=True,
                         src=srot if cls == "base" else sok, dst=dst,
                         oracle_only=why + "real hard links (no fault injection, no per-attempt snapshots)"))
    return out


# ---------------------------------------------------------------------------------------------
# OBSERVATIONS: unjudged inputs, (case, name, what is known about the real code's behaviour)


OBSERVATIONS = {
    "FileExistsError-without-object":
        "An upload raises FileExistsError although nothing is under the final name (a violation of that "
        "exception's own contract): dvc_objects.fs.generic.transfer takes the first upload of a batch for "
        "'already exists, skipping', so the id is neither failed nor present and its directory object is sent.",
    "directory-at-object-path":
        "A DIRECTORY sits at a requested object's path in the destination (a layout no dvc-data operation "
        "produces): LocalHashFileDB status raises IsADirectoryError; a base-class store reports the upload "
        "failed when copying, and with hardlink=True takes os.link's FileExistsError for 'already there'.",
    "hardlinked-protected-corrupt-source":
        "hardlink=True, verify=True, LocalHashFileDB destination, corrupt source object with mode 0o444: the link "
        "is born write-protected in the destination and LocalHashFileDB.check trusts it by mode (C07's stated "
        "scope), so it is reported transferred without a re-hash.",
    "mixed-hash-names":
        "Requesting ids under the name md5-dos2unix from a store whose hash_name is md5 (caller misuse): those "
        "HashInfos do not equal the tree's md5 entries, the files are not bound to their directory and are "
        "uploaded after the directory object; a failed one appears both in transferred and failed.",
}


def observation_cases(ctx, prop):
    ups, _ = TC.probe_round(ctx, _base(prop))
    first = [u for u in ups if not TC.is_dir(u)][0]
    out = []
    for tok, cls in ((first, "local"), ("d0.dir", "base")):
        out.append(_base(prop, dst_cls=cls, fail_kind="eexist", observation="FileExistsError-without-object",
                         rounds=[{"fails": [tok], "crash": None, "reset": True}, {"fails": [], "crash": None, "reset": False}]))
    for cls, links in (("local", False), ("base", False), ("local", True), ("base", True)):
        kw = {"hardlink": True, "plain_dst": True} if links else {}
        out.append(_base(prop, dst_cls=cls, dst_dir_at=["f1"], observation="directory-at-object-path", **kw))
    srot = {t: None for t in list(F5) + list(D4)}
    srot["f1"] = hx(b"beta#bitrot")
    out.append(_base(prop, dst_cls="local", verify=True, hardlink=True, plain_dst=True, src=srot,
                     observation="hardlinked-protected-corrupt-source"))
    out.append(_base(prop, req_names={"f0": "md5-dos2unix", "f3": "md5-dos2unix"}, observation="mixed-hash-names",
                     rounds=[{"fails": ["f3"], "crash": None, "reset": True}, {"fails": [], "crash": None, "reset": False}]))
    out.append(_base(prop, req_names={"d0.dir": "md5-dos2unix"}, shallow=False, req=["d0.dir"], dst_cls="base",
                     observation="mixed-hash-names"))
    return out


def run_observations(ctx, prop):
    for case in observation_cases(ctx, prop):
        S = TC.run_scenario(ctx, copy.deepcopy(case))
        try:
            TC.observe(ctx, S, case["observation"], OBSERVATIONS[case["observation"]])
        finally:
            S.close()


OBSERVATION_ASSUMPTIONS = ["observation (run in every tier, NOT judged, recorded in coverage.observations) '%s': %s" % kv
                           for kv in OBSERVATIONS.items()]


# ---------------------------------------------------------------------------------------------
# ORACLE-ONLY stream: the memfs staging source hashfile.build produces


STAGING_TREES = [
    {"a.txt": b"alpha", "empty": b"", "sub/dup1": b"same", "sub/deep/er/dup2": b"same", "we\\ird.txt": b"w",
     ".hidden": b"h", unicodedata.normalize("NFC", "café.txt"): b"c1",
     unicodedata.normalize("NFD", "café.txt"): b"c2", "x.dir": b"not a listing", "with space": b"s"},
    {"only": b"one file"},
    {"imgs/a": b"1", "imgs_raw/a": b"2", "imgs.bak": b"3", "Case": b"4", "case": b"5"},
]


def run_staging(ctx, case):
    """case: {"stream": "staging", "tree": {relpath: hex}, "dst": [relpath...] (objects of these workspace
    files already in the destination), "dst_cls", "fails": [relpath...], "crash": n|null, "retry": bool}.
    Returns (problems, dims, rounds)."""
    from dvc_objects.fs.local import localfs

    from dvc_data.hashfile.build import build
    from dvc_data.hashfile.db import HashFileDB
    from dvc_data.hashfile.db.local import LocalHashFileDB
    from dvc_data.hashfile.transfer import transfer

    from dvc_objects.fs import LocalFileSystem, MemoryFileSystem

    from dvc_data.hashfile.db.reference import ReferenceHashFileDB
    from dvc_data.hashfile.hash_info import HashInfo
    from dvc_data.hashfile.meta import Meta
    from dvc_data.hashfile.tree import Tree

    mixed = case["stream"] == "mixedfs"
    tree = {k: bytes.fromhex(v) for k, v in case["tree"].items()}
    root = ctx.fresh("stg")
    ws = os.path.join(root, "ws")
    dst = os.path.join(root, "dst")
    impl.mk_tree(ws, tree)
    os.makedirs(dst)
    for rp in case.get("dst") or []:
        impl.plant(dst, impl.md5hex(tree[rp]), tree[rp])
    want = {impl.md5hex(b): b for b in tree.values()}
    problems = []
    rounds = []
    plan = [(case.get("fails") or [], case.get("crash"))] + ([([], None)] if case.get("retry") else [])
    try:
        for ri, (fails, crash) in enumerate(plan):
            before = TC.store_bytes(dst)
            ws_before = impl.walk_files(ws)
            rec = TC.Recorder(dst, [impl.md5hex(tree[rp]) for rp in fails], crash)
            fs = TC.faultfs_class()()
            fs.rec = rec
            dcls = LocalHashFileDB if case["dst_cls"] == "local" else HashFileDB
            odb = dcls(fs, dst)
            real_add = odb.add
            batch_snaps = []

            def add(*a, _real=real_add, _snaps=batch_snaps, **kw):
                try:
                    return _real(*a, **kw)
                finally:
                    _snaps.append(TC.store_bytes(dst))  # the directory object comes from memfs, not through put_file

            odb.add = add
            seen = []
            try:
                if mixed:
                    # the shape of C04/r7m1's demo: a reference odb on memfs whose objects for ONE _add batch sit
                    # on three filesystem objects (two LocalFileSystem instances and memfs)
                    memfs = MemoryFileSystem()
                    mroot = "memory://mixed-" + os.path.basename(root)
                    staging = ReferenceHashFileDB(memfs, mroot + "/staging", hash_name="md5")
                    fss = [LocalFileSystem(), LocalFileSystem(), memfs]
                    t = Tree()
                    for i, (rp, data) in enumerate(sorted(tree.items())):
                        fsx = fss[i % 3]
                        if fsx is memfs:
                            path = mroot + "/gen/" + rp
                            memfs.makedirs(os.path.dirname(path), exist_ok=True)
                            memfs.pipe_file(path, data)
                        else:
                            path = os.path.join(ws, *rp.split("/"))
                        staging.add(path, fsx, impl.md5hex(data))
                        t.add(tuple(rp.split("/")), Meta(size=len(data)), HashInfo("md5", impl.md5hex(data)))
                    t.digest()
                    staging.add(t.path, t.fs, t.oid)
                    tree_oid = t.oid
                    request = {t.hash_info} | ({hi for _, _, hi in t} if case.get("shallow") else set())
                    res = transfer(staging, odb, request, jobs=1, shallow=bool(case.get("shallow")),
                                   validate_status=lambda st: (seen.append(st), setattr(rec, "phase", "upload")))
                else:
                    staging, _meta, obj = build(odb, ws, localfs, "md5")
                    tree_oid = obj.hash_info.value
                    res = transfer(staging, odb, {obj.hash_info}, jobs=1, shallow=False,
                                   validate_status=lambda st: (seen.append(st), setattr(rec, "phase", "upload")))
                outcome = ("ok", {h.value for h in res.transferred}, {h.value for h in res.failed})
            except TC.Abort:
                outcome = ("crash",)
            except Exception as exc:  # noqa: BLE001
                outcome = ("err", impl.err_code(exc), repr(exc)[:200])
                tree_oid = None
            after = TC.store_bytes(dst)
            rounds.append({"outcome": outcome, "events": rec.events, "snaps": rec.snaps + batch_snaps})
            for si, snap in enumerate(rec.snaps + batch_snaps + [after]):
                od = TC.open_dirs(snap)
                if od:
                    problems.append(("C04:open-directory",
                                     f"staging round {ri}: observation {si + 1}: directory object {od[0][0]} is present "
                                     f"without {od[0][1]}"))
                    break
            if impl.walk_files(ws) != ws_before:
                problems.append(("C11:source-modified", f"staging round {ri}: the workspace changed"))
            if outcome[0] == "err":
                problems.append(("C11:staging-unexpected-exception", f"staging round {ri}: {outcome}"))
            if outcome[0] != "ok":
                continue
            transferred, failed = outcome[1], outcome[2]
            if tree_oid in after:
                lst = json.loads(after[tree_oid].decode("utf-8"))
                if {e["relpath"]: e["md5"] for e in lst} != {k: impl.md5hex(v) for k, v in tree.items()}:
                    problems.append(("C11:transferred-wrong-bytes", f"staging round {ri}: the directory object does not list the workspace"))
            for o in sorted(transferred):
                if o not in after:
                    problems.append(("C11:transferred-but-absent:other", f"staging round {ri}: {o} reported transferred but absent"))
                elif o in want and after[o] != want[o]:
                    problems.append(("C11:transferred-wrong-bytes", f"staging round {ri}: {o} does not hold the workspace file's bytes"))
            if transferred & failed:
                problems.append(("C11:not-a-partition", f"staging round {ri}: transferred and failed overlap"))
            for o in sorted(set(want) | {tree_oid}):
                if o not in after and o not in failed:
                    problems.append(("C11:absent-unreported", f"staging round {ri}: {o} is absent afterwards but not failed"))
                if o in before and (o in transferred or o in failed or o in {e[1] for e in rec.events if e[0] == "put"}):
                    problems.append(("C11:resent", f"staging round {ri}: {o} was already in the destination"))
            if not fails and crash is None and ri == len(plan) - 1:
                gone = [o for o in sorted(set(want) | {tree_oid}) if o not in after]
                if gone:
                    problems.append(("C04:retry-incomplete", f"staging round {ri}: fault-free transfer left {gone} out"))
    finally:
        impl.rm_rf(root)
    dims = {"store:mixed-filesystem-source(2 localfs + memfs)" if mixed else "store:memfs-staging-source",
            "class:%s->%s" % ("mixedfs" if mixed else "staging", case["dst_cls"])} | TC.name_dims(tree.keys())
    if b"" in tree.values():
        dims.add("shape:zero-length-file")
    if len(set(tree.values())) < len(tree):
        dims.add("shape:duplicate-content-in-one-directory")
    if len(tree) == 1:
        dims.add("shape:one-file-directory")
    if case.get("dst"):
        dims.add("pre:right-object-protected")
    return problems, dims, rounds


def mixedfs_cases():
    t = {k: hx(v) for k, v in {"a.bin": b"local a", "sub/b.bin": b"local b", "gen/c.bin": b"memory c",
                                "gen/d.bin": b"memory d", "e.bin": b"local e", "f.bin": b"", "gen/g.bin": b"memory g"}.items()}
    out = []
    for cls in ("local", "base"):
        out.append({"prop": "C04", "stream": "mixedfs", "tree": t, "dst": [], "dst_cls": cls, "shallow": cls == "local",
                    "fails": [], "crash": None, "retry": True})
    out.append({"prop": "C04", "stream": "mixedfs", "tree": t, "dst": ["e.bin"], "dst_cls": "base", "shallow": True,
                "fails": ["a.bin"], "crash": None, "retry": True})
    return out


def staging_cases():
    out = []
    t0, t1, t2 = [{k: hx(v) for k, v in t.items()} for t in STAGING_TREES]
    out.append({"prop": "C11", "stream": "staging", "tree": t0, "dst": [], "dst_cls": "local", "fails": [], "crash": None, "retry": True})
    out.append({"prop": "C11", "stream": "staging", "tree": t0, "dst": ["a.txt", "empty"], "dst_cls": "base",
                "fails": ["sub/dup1", "x.dir"], "crash": None, "retry": True})
    out.append({"prop": "C11", "stream": "staging", "tree": t0, "dst": [], "dst_cls": "local", "fails": [], "crash": 3, "retry": True})
    out.append({"prop": "C11", "stream": "staging", "tree": t1, "dst": [], "dst_cls": "base", "fails": ["only"], "crash": None, "retry": True})
    out.append({"prop": "C11", "stream": "staging", "tree": t2, "dst": ["Case"], "dst_cls": "local", "fails": ["case"], "crash": None, "retry": True})
    return out
