(* C08, part 5: the queue of `_diff` in closed form for ANY options (shallow = True included), and
   what shallow = True guarantees.

   With shallow = True `_get_items` returns no listing for a side whose entry *as seen in the
   parent's listing* carries a hash.  The children of such a node are then invisible on that side
   (they are compared against "absent"), but the side becomes visible again one level further
   down (diff.py 140-159 looks only at the entry it was handed).  A queue item therefore stands
   for a node  (key, old side visible, new side visible).

   Result ([shallow_exact]): for well-formed indexes every key that is NOT below a hashed entry
   (no strict prefix carries a hash on either side) is reported exactly once and exactly as the
   flat reference classifies it; over all reported changes no key occurs twice; hence a top-level
   directory whose hash differs is always reported. *)
From Coq Require Import NArith List Bool Arith Lia Permutation.
From DvcData Require Import Base.Val Base.PyBase Gen.PyTypes Gen.IDiff Model.Trie Model.IndexDiff Proofs.IndexDiffProofsBase Proofs.IndexDiffBfs Proofs.IndexDiffRefine.
Import ListNotations.

(* ---- list helpers ---------------------------------------------------------------------------------- *)
Lemma flat_map_map {A B C} (f : B -> list C) (g : A -> B) l :
  flat_map f (map g l) = flat_map (fun x => f (g x)) l.
Proof. induction l as [|x l IH]; simpl; [reflexivity | now rewrite IH]. Qed.

Lemma NoDup_map_eq {A B} (g : A -> B) l a b :
  NoDup (map g l) -> In a l -> In b l -> g a = g b -> a = b.
Proof.
  induction l as [|x l IH]; simpl; [tauto|]. intros Hnd Ha Hb E. inversion Hnd as [|? ? Hx Hl]; subst.
  destruct Ha as [<-|Ha], Hb as [<-|Hb]; try reflexivity.
  - exfalso. apply Hx. rewrite E. now apply in_map.
  - exfalso. apply Hx. rewrite <- E. now apply in_map.
  - now apply IH.
Qed.

Lemma filter_const {A} (P : A -> bool) (b : bool) l :
  (forall c, In c l -> P c = b) -> filter P l = if b then l else [].
Proof.
  induction l as [|x l IH]; intros H; simpl; [now destruct b|].
  rewrite (H x) by now left. rewrite IH by (intros c Hc; apply H; now right). now destruct b.
Qed.

Lemma map_filter_fst {A B} (P : A -> bool) (l : list (A * B)) :
  map fst (filter (fun n => P (fst n)) l) = filter P (map fst l).
Proof. induction l as [|x l IH]; simpl; [reflexivity|]. destruct (P (fst x)); simpl; now rewrite IH. Qed.

Lemma NoDup_keys_flat_map {A B K} (g : A -> K) (h : B -> K) (f : A -> list B) l :
  NoDup (map g l) -> (forall n c, In c (f n) -> h c = g n) -> (forall n, (length (f n) <= 1)%nat) ->
  NoDup (map h (flat_map f l)).
Proof.
  intros Hnd Hk Hl. induction l as [|n l IH]; simpl; [constructor|].
  inversion Hnd as [|? ? Hn Hnd']; subst. rewrite map_app. apply NoDup_app_intro.
  - specialize (Hl n). destruct (f n) as [|c [|c' r]]; simpl in *; try lia; repeat constructor; intros [].
  - now apply IH.
  - intros x Hx Hx'. apply in_map_iff in Hx as [c [<- Hc]]. rewrite (Hk n c Hc) in Hx'.
    apply in_map_iff in Hx' as [c' [E Hc']]. apply in_flat_map in Hc' as [n' [Hn' Hc']].
    rewrite (Hk n' c' Hc') in E. apply Hn. rewrite <- E. now apply in_map.
Qed.

(* ---- nodes of the shallow queue ------------------------------------------------------------------------- *)
Definition node := (key * (bool * bool))%type.
Definition sinfo (v : bool) (i : option index) (k : key) : option info := if v then linfo i k else None.

Section Sh.
  Variables (o : opts) (old new : option index).

  Definition noi (n : node) : option info := sinfo (fst (snd n)) old (fst n).
  Definition nni (n : node) : option info := sinfo (snd (snd n)) new (fst n).
  Definition cuto (n : node) : bool := o_shallow o && entry_hashed (info_entry (noi n)).
  Definition cutn (n : node) : bool := o_shallow o && entry_hashed (info_entry (nni n)).
  Definition slo (n : node) : items := get_items (o_shallow o) old (fst n) (info_entry (noi n)).
  Definition sln (n : node) : items := get_items (o_shallow o) new (fst n) (info_entry (nni n)).
  Definition sitem (n : node) : items * items := (slo n, sln n).
  Definition ckeys (n : node) : list key := union_keys (slo n) (sln n).
  Definition mkchild (n : node) (c : key) : node := (c, (negb (cuto n), negb (cutn n))).
  Definition schildren (n : node) : list node := map (mkchild n) (ckeys n).
  Definition syield (n : node) : list change := fst (visit o old new (fst n) (noi n) (nni n)).
  Definition sdesc (n : node) : bool :=
    match snd (visit o old new (fst n) (noi n) (nni n)) with [] => false | _ => true end.
  Definition skids (n : node) : list node := filter sdesc (schildren n).
  Definition sroots : list node := map (fun k => (k, (true, true))) (roots old new).
  Definition sreached : list node :=
    flat_map (tree skids (depth_bound old new)) (filter sdesc sroots).
  Definition svisited : list node := sroots ++ flat_map schildren sreached.

  Lemma slo_eq n : slo n = if cuto n then [] else lsl old (fst n).
  Proof.
    unfold slo, cuto, lsl, get_items. destruct old; [|destruct (_ && _); reflexivity].
    destruct (o_shallow o && entry_hashed _); reflexivity.
  Qed.
  Lemma sln_eq n : sln n = if cutn n then [] else lsl new (fst n).
  Proof.
    unfold sln, cutn, lsl, get_items. destruct new; [|destruct (_ && _); reflexivity].
    destruct (o_shallow o && entry_hashed _); reflexivity.
  Qed.

  Lemma ckeys_spec n c : In c (ckeys n) ->
    exists m, c = fst n ++ [m] /\ (hasn old c = true \/ hasn new c = true).
  Proof.
    unfold ckeys. rewrite union_keys_In, slo_eq, sln_eq. intros [H|H].
    - destruct (cuto n); [destruct H|]. apply lsl_keys_In in H as [m [-> H]]. exists m. tauto.
    - destruct (cutn n); [destruct H|]. apply lsl_keys_In in H as [m [-> H]]. exists m. tauto.
  Qed.

  Lemma ckeys_nocut n c : cuto n = false -> cutn n = false ->
    (In c (ckeys n) <-> In c (children old new (fst n))).
  Proof. intros H1 H2. unfold ckeys, children. rewrite slo_eq, sln_eq, H1, H2. tauto. Qed.

  Lemma ckeys_NoDup n : NoDup (ckeys n).
  Proof.
    apply union_keys_NoDup; [rewrite slo_eq; destruct (cuto n) | rewrite sln_eq; destruct (cutn n)];
      try constructor; apply lsl_keys_NoDup.
  Qed.

  Lemma get_item_slo n c : In c (ckeys n) -> get_item (slo n) c = sinfo (negb (cuto n)) old c.
  Proof.
    intros H. apply ckeys_spec in H as [m [-> _]]. rewrite slo_eq.
    destruct (cuto n); simpl; [reflexivity | apply get_item_lsl].
  Qed.
  Lemma get_item_sln n c : In c (ckeys n) -> get_item (sln n) c = sinfo (negb (cutn n)) new c.
  Proof.
    intros H. apply ckeys_spec in H as [m [-> _]]. rewrite sln_eq.
    destruct (cutn n); simpl; [reflexivity | apply get_item_lsl].
  Qed.

  Lemma s_step_out n : step_out o old new (sitem n) = flat_map syield (schildren n).
  Proof.
    unfold step_out, sitem, schildren. cbn [fst snd]. fold (ckeys n). rewrite flat_map_map.
    apply flat_map_ext_In. intros c Hc. unfold syield, mkchild, noi, nni. cbn [fst snd].
    now rewrite get_item_slo, get_item_sln by assumption.
  Qed.

  Lemma visit_snd_gen k oi ni :
    snd (visit o old new k oi ni) =
    match snd (visit o old new k oi ni) with
    | [] => []
    | _ => [(get_items (o_shallow o) old k (info_entry oi), get_items (o_shallow o) new k (info_entry ni))]
    end.
  Proof.
    unfold visit. cbn [snd]. destruct (_ && entry_hash_isdir _); [reflexivity|].
    destruct (info_isdir _ || info_isdir _); reflexivity.
  Qed.

  Lemma s_step_todo n : step_todo o old new (sitem n) = map sitem (skids n).
  Proof.
    change (sitem n) with (slo n, sln n).
    unfold step_todo, skids, schildren. cbn [fst snd]. fold (ckeys n).
    rewrite <- flat_map_if, flat_map_map. apply flat_map_ext_In. intros c Hc.
    rewrite get_item_slo, get_item_sln by assumption. rewrite visit_snd_gen.
    unfold sdesc, sitem, slo, sln, noi, nni, mkchild. cbn [fst snd].
    destruct (snd (visit o old new c (sinfo (negb (cuto n)) old c) (sinfo (negb (cutn n)) new c))); reflexivity.
  Qed.

  Lemma s_step_out_root :
    step_out o old new (root_items old, root_items new) = flat_map syield sroots.
  Proof. rewrite step_out_root. unfold sroots. rewrite flat_map_map. reflexivity. Qed.

  Lemma s_step_todo_root :
    step_todo o old new (root_items old, root_items new) = map sitem (filter sdesc sroots).
  Proof.
    unfold step_todo, sroots. cbn [fst snd]. rewrite root_union, <- flat_map_if, flat_map_map.
    apply flat_map_ext_In. intros c Hc.
    unfold roots in Hc. destruct (is_some old || is_some new); [|destruct Hc]. destruct Hc as [<-|[]].
    rewrite !root_items_get, visit_snd_gen. unfold sdesc, sitem, slo, sln, noi, nni, sinfo. cbn [fst snd].
    destruct (snd (visit o old new [] (linfo old []) (linfo new []))); reflexivity.
  Qed.

  (* ---- rank, extension, no key twice ------------------------------------------------------------------- *)
  Definition srank (n : node) : nat := (depth_bound old new - length (fst n))%nat.

  Lemma skids_child a c : In c (skids a) ->
    exists m, c = mkchild a (fst a ++ [m]) /\ (hasn old (fst c) = true \/ hasn new (fst c) = true).
  Proof.
    unfold skids, schildren. intros H. apply filter_In in H as [H _]. apply in_map_iff in H as [k [<- Hk]].
    apply ckeys_spec in Hk as [m [-> H]]. exists m. split; [reflexivity | exact H].
  Qed.

  Lemma srank_kids a c : In c (skids a) -> (srank c < srank a)%nat.
  Proof.
    intros H. apply skids_child in H as [m [-> H]]. unfold srank, mkchild in *. cbn [fst] in *.
    assert (length (fst a ++ [m]) <= depth_bound old new)%nat.
    { unfold depth_bound. destruct H as [H|H]; apply hasn_length in H; lia. }
    rewrite app_length in *. simpl in *. lia.
  Qed.

  Lemma stree_extends n : forall a x, In x (tree skids n a) -> exists s, fst x = fst a ++ s.
  Proof.
    induction n as [|m IH]; intros a x H; simpl in H.
    - destruct H as [<-|[]]. exists []. now rewrite app_nil_r.
    - destruct H as [<-|H]; [exists []; now rewrite app_nil_r|].
      apply in_flat_map in H as [c [Hc H]]. apply IH in H as [s ->].
      apply skids_child in Hc as [m' [-> _]]. exists (m' :: s). cbn [mkchild fst]. now rewrite <- app_assoc.
  Qed.

  Lemma map_fst_schildren n : map fst (schildren n) = ckeys n.
  Proof. unfold schildren. rewrite map_map. cbn [mkchild fst]. apply map_id. Qed.

  Lemma schildren_NoDup n : NoDup (schildren n).
  Proof. apply (NoDup_map_inv fst). rewrite map_fst_schildren. apply ckeys_NoDup. Qed.

  Lemma stree_keys_NoDup n : forall a, NoDup (map fst (tree skids n a)).
  Proof.
    induction n as [|m IH]; intros a; simpl; [repeat constructor; intros []|].
    rewrite map_flat_map. constructor.
    - intros H. apply in_flat_map in H as [c [Hc H]]. apply in_map_iff in H as [x [E Hx]].
      apply stree_extends in Hx as [s Es]. apply skids_child in Hc as [m' [-> _]].
      cbn [mkchild fst] in Es. rewrite E in Es. apply (f_equal (@length _)) in Es.
      rewrite !app_length in Es. simpl in Es. lia.
    - apply NoDup_flat_map.
      + apply NoDup_filter, schildren_NoDup.
      + intros c _. apply IH.
      + intros c1 c2 x H1 H2 Hx1 Hx2.
        apply skids_child in H1 as [m1 [-> _]]. apply skids_child in H2 as [m2 [-> _]].
        apply in_map_iff in Hx1 as [x1 [E1 Hx1]]. apply in_map_iff in Hx2 as [x2 [E2 Hx2]].
        apply stree_extends in Hx1 as [s1 Es1]. apply stree_extends in Hx2 as [s2 Es2].
        cbn [mkchild fst] in Es1, Es2. rewrite E1 in Es1. rewrite E2, Es1, <- !app_assoc in Es2.
        apply app_inv_head in Es2. simpl in Es2. now injection Es2 as ->.
  Qed.

  Lemma sreached_keys_NoDup : NoDup (map fst sreached).
  Proof.
    unfold sreached, sroots, roots. destruct (is_some old || is_some new); simpl; [|constructor].
    destruct (sdesc _); simpl; [|constructor]. rewrite app_nil_r. apply stree_keys_NoDup.
  Qed.

  Lemma map_fst_svisited :
    map fst svisited = roots old new ++ flat_map ckeys sreached.
  Proof.
    unfold svisited, sroots. rewrite map_app, map_map. cbn [fst]. rewrite map_id, map_flat_map.
    f_equal. apply flat_map_ext. intros n. apply map_fst_schildren.
  Qed.

  Lemma svisited_keys_NoDup : NoDup (map fst svisited).
  Proof.
    rewrite map_fst_svisited. apply NoDup_app_intro.
    - unfold roots. destruct (is_some old || is_some new); repeat constructor. intros [].
    - apply NoDup_flat_map.
      + apply (NoDup_map_inv fst), sreached_keys_NoDup.
      + intros a _. apply ckeys_NoDup.
      + intros a b x Ha Hb Hxa Hxb. apply ckeys_spec in Hxa as [m1 [-> _]]. apply ckeys_spec in Hxb as [m2 [E _]].
        apply app_inj_tail in E as [E _]. exact (NoDup_map_eq fst sreached a b sreached_keys_NoDup Ha Hb E).
    - intros x Hx Hf. apply in_flat_map in Hf as [a [_ Ha]]. apply ckeys_spec in Ha as [m [-> _]].
      unfold roots in Hx. destruct (is_some old || is_some new); [|destruct Hx]. destruct Hx as [E|[]].
      symmetry in E. now apply snoc_nonnil in E.
  Qed.

  Lemma sreached_nodes n : In n sreached -> In (fst n) (nodes (idx old) ++ nodes (idx new)).
  Proof.
    unfold sreached. intros H. apply in_flat_map in H as [r [Hr H]].
    apply filter_In in Hr as [Hr _]. unfold sroots, roots in Hr.
    destruct (is_some old || is_some new); [|destruct Hr]. destruct Hr as [<-|[]].
    apply tree_In_cases in H as [->|[p Hp]].
    - apply in_or_app. left. now apply nodes_spec.
    - apply skids_child in Hp as [m [-> Hn]]. cbn [mkchild fst] in *. apply in_or_app.
      assert (Hnn : forall ix, has_node ix (fst p ++ [m]) = is_node ix (fst p ++ [m])) by (intros; destruct (fst p); reflexivity).
      destruct Hn as [Hn|Hn]; [left | right]; apply nodes_spec.
      + destruct old as [ix|]; simpl in *; [now rewrite <- Hnn | discriminate].
      + destruct new as [ix|]; simpl in *; [now rewrite <- Hnn | discriminate].
  Qed.

  Lemma sreached_length :
    (length sreached <= length (nodes (idx old)) + length (nodes (idx new)))%nat.
  Proof.
    rewrite <- app_length. replace (length sreached) with (length (map fst sreached)) by apply map_length.
    apply NoDup_incl_length; [apply sreached_keys_NoDup|].
    intros k Hk. apply in_map_iff in Hk as [n [<- Hn]]. now apply sreached_nodes.
  Qed.

  (* ---- the closed form, any options ---------------------------------------------------------------------- *)
  Theorem diff_core_closed_gen fuel :
    (fuel_for old new <= fuel)%nat ->
    exists cs, diff_core o old new fuel = Some cs /\ Permutation cs (flat_map syield svisited).
  Proof.
    intros Hf. unfold fuel_for in Hf. destruct fuel as [|f]; [lia|].
    unfold diff_core. cbn [bfsq]. cbn [app]. rewrite s_step_out_root, s_step_todo_root.
    rewrite (bfsq_map (step_out o old new) (step_todo o old new)
               (fun n => flat_map syield (schildren n)) skids sitem s_step_out s_step_todo).
    destruct (bfsq_tree (fun n => flat_map syield (schildren n)) skids srank srank_kids
                (depth_bound old new) f (filter sdesc sroots)) as [r [E P]].
    - apply Forall_forall. intros k _. unfold srank. lia.
    - fold sreached. pose proof sreached_length. lia.
    - rewrite E. simpl. eexists. split; [reflexivity|].
      unfold svisited. rewrite flat_map_app. apply Permutation_app_head.
      fold sreached in P. etransitivity; [exact P|].
      clear. induction sreached as [|a l IH]; simpl; [constructor|].
      rewrite flat_map_app. now apply Permutation_app_head.
  Qed.

  Lemma sreached_root :
    is_some old || is_some new = true -> sdesc ([], (true, true)) = true -> In ([], (true, true)) sreached.
  Proof.
    intros H1 H2. unfold sreached, sroots, roots. rewrite H1. cbn [map filter].
    assert (E : sdesc (@pair key (bool * bool) [] (true, true)) = true) by exact H2. rewrite E. cbn [flat_map].
    rewrite app_nil_r. apply tree_head.
  Qed.

  Lemma sreached_step p c : In p sreached -> In c (schildren p) -> sdesc c = true -> In c sreached.
  Proof.
    unfold sreached, sroots, roots. destruct (is_some old || is_some new); simpl; [|tauto].
    destruct (sdesc _); simpl; [|tauto]. rewrite !app_nil_r. intros Hp Hc Hd.
    apply (tree_In_closed skids srank srank_kids _ ([], (true, true)) p c).
    - unfold srank. lia.
    - assumption.
    - unfold skids. apply filter_In. now split.
  Qed.

  (* ---- one change per visited node, carrying its key --------------------------------------------------------- *)
  Lemma visit_fst_key k oi ni c : In c (fst (visit o old new k oi ni)) -> change_key c = k.
  Proof.
    unfold visit. cbn [fst]. set (a := info_entry oi). set (b := info_entry ni).
    destruct (is_none a && is_none b) eqn:En; [intros []|].
    destruct (typ_eqb _ Unchanged && negb (o_with_unchanged o)); [intros []|].
    intros [<-|[]]. unfold change_key. cbn [c_typ c_old c_new].
    destruct (diff_entry _ _ _ _ _ false) eqn:Et.
    - apply diff_entry_add in Et. destruct b; [reflexivity | discriminate].
    - destruct a; [reflexivity|]. destruct b; [reflexivity | discriminate].
    - destruct a; [reflexivity|]. destruct b; [reflexivity | discriminate].
    - apply diff_entry_delete in Et. destruct a; [reflexivity | discriminate].
    - destruct a; [reflexivity|]. destruct b; [reflexivity | discriminate].
    - destruct a; [reflexivity|]. destruct b; [reflexivity | discriminate].
  Qed.

  Lemma syield_key n c : In c (syield n) -> change_key c = fst n.
  Proof. apply visit_fst_key. Qed.

  Lemma syield_length n : (length (syield n) <= 1)%nat.
  Proof.
    unfold syield, visit. cbn [fst].
    destruct (is_none _ && is_none _); [simpl; lia|].
    destruct (typ_eqb _ Unchanged && negb (o_with_unchanged o)); simpl; lia.
  Qed.

  (* every key is reported at most once, shallow or not, well-formed or not *)
  Theorem diff_keys_once_gen fuel cs :
    (fuel_for old new <= fuel)%nat -> diff_core o old new fuel = Some cs -> NoDup (map change_key cs).
  Proof.
    intros Hf E. destruct (diff_core_closed_gen fuel Hf) as [cs' [E' P]]. rewrite E in E'. injection E' as <-.
    apply (Permutation_NoDup (l := map change_key (flat_map syield svisited))).
    - symmetry. now apply Permutation_map.
    - apply (NoDup_keys_flat_map fst change_key syield svisited svisited_keys_NoDup syield_key syield_length).
  Qed.

  (* ---- keys that are not below a hashed entry ------------------------------------------------------------------ *)
  Definition hashed_at (k : key) : bool :=
    hi_truthy (ent_hash (lookup (idx old) k)) || hi_truthy (ent_hash (lookup (idx new) k)).
  Definition sprefixes (k : key) : list key := filter (fun p => negb (key_eqb p k)) (prefixes k).
  Definition topk (k : key) : bool := negb (existsb hashed_at (sprefixes k)).

  Lemma sprefixes_spec p k : In p (sprefixes k) <-> strict_prefix p k.
  Proof.
    unfold sprefixes. rewrite filter_In, prefixes_spec, negb_true_iff. split.
    - intros [[s ->] Hn]. destruct s as [|x s].
      + rewrite app_nil_r, key_eqb_refl in Hn. discriminate.
      + now exists x, s.
    - intros Hp. pose proof (strict_prefix_neq p k Hp). destruct Hp as [x [s ->]].
      split; [now exists (x :: s) | now apply key_eqb_neq].
  Qed.

  Lemma topk_prefix k p : topk k = true -> strict_prefix p k -> hashed_at p = false.
  Proof.
    unfold topk. rewrite negb_true_iff. intros H Hp. destruct (hashed_at p) eqn:E; [|reflexivity].
    assert (existsb hashed_at (sprefixes k) = true); [|congruence].
    apply existsb_exists. exists p. split; [now apply sprefixes_spec | assumption].
  Qed.

  Lemma entry_hashed_hash e : entry_hashed e = hi_truthy (ent_hash e).
  Proof. destruct e; reflexivity. Qed.

  Lemma cuto_hashed n : cuto n = true -> hashed_at (fst n) = true.
  Proof.
    unfold cuto, noi, sinfo, hashed_at. intros H. apply andb_true_iff in H as [_ H].
    destruct (fst (snd n)); [|discriminate].
    rewrite linfo_entry, entry_hashed_hash, ent_hash_norm in H. now rewrite H.
  Qed.
  Lemma cutn_hashed n : cutn n = true -> hashed_at (fst n) = true.
  Proof.
    unfold cutn, nni, sinfo, hashed_at. intros H. apply andb_true_iff in H as [_ H].
    destruct (snd (snd n)); [|discriminate].
    rewrite linfo_entry, entry_hashed_hash, ent_hash_norm in H. rewrite H. apply orb_true_r.
  Qed.

  Lemma nocut_of_unhashed n : hashed_at (fst n) = false -> cuto n = false /\ cutn n = false.
  Proof.
    intros H. split.
    - destruct (cuto n) eqn:E; [|reflexivity]. apply cuto_hashed in E. congruence.
    - destruct (cutn n) eqn:E; [|reflexivity]. apply cutn_hashed in E. congruence.
  Qed.

  (* a visited node whose key is not below a hashed entry sees both sides *)
  Lemma top_flags n : In n svisited -> topk (fst n) = true -> snd n = (true, true).
  Proof.
    unfold svisited. intros H Ht. apply in_app_or in H as [H|H].
    - unfold sroots in H. apply in_map_iff in H as [k [<- _]]. reflexivity.
    - apply in_flat_map in H as [p [_ H]]. unfold schildren in H. apply in_map_iff in H as [c [<- Hc]].
      apply ckeys_spec in Hc as [m [-> _]]. cbn [mkchild fst snd] in *.
      assert (Hp : hashed_at (fst p) = false).
      { apply (topk_prefix _ _ Ht). exists m, []. reflexivity. }
      destruct (nocut_of_unhashed p Hp) as [-> ->]. reflexivity.
  Qed.

  Lemma syield_tt k : syield (k, (true, true)) = cls o old new k.
  Proof. rewrite <- yield_classify. reflexivity. Qed.

  Lemma sdesc_tt k : sdesc (k, (true, true)) = vdesc o old new k.
  Proof. reflexivity. Qed.

  (* ---- top-level keys with something to report are reached ----------------------------------------------------- *)
  Section ReachSh.
    Hypothesis Hwo : WfO old.
    Hypothesis Hwn : WfO new.
    Hypothesis Hhc : shortcut_on o = true -> HashConsistent old new.

    Lemma prefix_sreached k : cls o old new k <> [] -> topk k = true ->
      forall p, strict_prefix p k -> In (p, (true, true)) sreached.
    Proof.
      intros Hc Ht p. induction p as [|m q IH] using rev_ind; intros Hp.
      - apply sreached_root; [|rewrite sdesc_tt; eapply vdesc_above; eauto].
        destruct (cls_valued _ _ _ _ Hc) as [H|H]; apply lookup_idx_some in H as [ix [-> _]]; simpl;
          [reflexivity | apply orb_true_r].
      - destruct Hp as [x [s E]].
        assert (Hq : strict_prefix q k) by (exists m, (x :: s); now rewrite E, <- app_assoc).
        assert (Hu : hashed_at q = false) by (eapply topk_prefix; eauto).
        destruct (nocut_of_unhashed (q, (true, true)) Hu) as [C1 C2].
        apply (sreached_step (q, (true, true))); [now apply IH | |].
        + unfold schildren. apply in_map_iff. exists (q ++ [m]). split.
          * unfold mkchild. now rewrite C1, C2.
          * apply ckeys_nocut; try assumption. cbn [fst]. apply children_spec. exists m. split; [reflexivity|].
            destruct (cls_valued _ _ _ _ Hc) as [H|H]; [left | right];
              apply (valued_hasn _ k (q ++ [m]) (x :: s) H E (snoc_nonnil q m)).
        + rewrite sdesc_tt. eapply vdesc_above; eauto. now exists x, s.
    Qed.

    Lemma valued_svisited k : cls o old new k <> [] -> topk k = true -> In k (map fst svisited).
    Proof.
      intros Hc Ht. rewrite map_fst_svisited. apply in_or_app. destruct (last_case k) as [->|[p [m ->]]].
      - left. unfold roots.
        destruct (cls_valued _ _ _ _ Hc) as [H|H]; apply lookup_idx_some in H as [ix [-> _]]; simpl;
          [now left | rewrite orb_true_r; now left].
      - right. apply in_flat_map. exists (p, (true, true)). split.
        + apply (prefix_sreached _ Hc Ht). exists m, []. reflexivity.
        + assert (Hu : hashed_at p = false) by (apply (topk_prefix _ _ Ht); exists m, []; reflexivity).
          destruct (nocut_of_unhashed (p, (true, true)) Hu) as [C1 C2].
          apply ckeys_nocut; try assumption. cbn [fst]. apply children_spec. exists m. split; [reflexivity|].
          destruct (cls_valued _ _ _ _ Hc) as [H|H]; [left | right];
            apply (valued_hasn _ (p ++ [m]) (p ++ [m]) [] H (eq_sym (app_nil_r _)) (snoc_nonnil p m)).
    Qed.

    Definition top_change (c : change) : bool := topk (change_key c).

    Lemma filter_top_visited :
      filter top_change (flat_map syield svisited) =
      flat_map (cls o old new) (filter topk (map fst svisited)).
    Proof.
      rewrite filter_flat_map.
      rewrite (flat_map_ext_In _ (fun n => if topk (fst n) then cls o old new (fst n) else []) svisited).
      - rewrite <- map_filter_fst. rewrite flat_map_map.
        induction svisited as [|n l IH]; simpl; [reflexivity|].
        destruct (topk (fst n)); simpl; now rewrite IH.
      - intros n Hn. rewrite (filter_const top_change (topk (fst n))).
        + destruct (topk (fst n)) eqn:Et; [|reflexivity].
          pose proof (top_flags n Hn Et) as Hfl. destruct n as [k fl]. simpl in Hfl. subst fl. apply syield_tt.
        + intros c Hc. unfold top_change. now rewrite (syield_key n c Hc).
    Qed.

    Lemma filter_top_ref :
      filter top_change (ref_diff o old new) = flat_map (cls o old new) (filter topk (all_keys old new)).
    Proof.
      unfold ref_diff. fold (cls o old new). rewrite filter_flat_map.
      induction (all_keys old new) as [|k l IH]; simpl; [reflexivity|]. rewrite IH.
      rewrite (filter_const top_change (topk k)).
      - destruct (topk k); reflexivity.
      - intros c Hc. unfold top_change. unfold cls in Hc. now rewrite (classify_key_key _ _ _ _ _ Hc).
    Qed.

    (* C08_shallow *)
    Theorem shallow_exact fuel :
      (fuel_for old new <= fuel)%nat ->
      exists cs, diff_core o old new fuel = Some cs /\
                 NoDup (map change_key cs) /\
                 Permutation (filter top_change cs) (filter top_change (ref_diff o old new)).
    Proof.
      intros Hf. destruct (diff_core_closed_gen fuel Hf) as [cs [E P]]. exists cs.
      split; [assumption|]. split; [now apply (diff_keys_once_gen fuel)|].
      etransitivity; [apply Permutation_filter', P|].
      rewrite filter_top_visited, filter_top_ref. apply flat_map_perm_support.
      - apply NoDup_filter, svisited_keys_NoDup.
      - apply NoDup_filter, NoDup_dedup.
      - intros k Hk. rewrite !filter_In. split; intros [_ Ht]; (split; [|assumption]).
        + now apply (cls_all_keys o).
        + now apply valued_svisited.
    Qed.

    (* a directory (any entry) not below a hashed entry whose hash differs is always reported *)
    Corollary shallow_hash_change_reported fuel cs k a b :
      (fuel_for old new <= fuel)%nat -> diff_core o old new fuel = Some cs ->
      o_meta_only o = false -> topk k = true ->
      lookup (idx old) k = Some a -> lookup (idx new) k = Some b ->
      diff_hash_info (e_hash_info a) (e_hash_info b) <> Unchanged ->
      exists c, In c cs /\ change_key c = k /\ c_typ c <> Unchanged /\
                c_old c = Some (k, norm_meta a) /\ c_new c = Some (k, norm_meta b).
    Proof.
      intros Hf E Hm Ht Ea Eb Hd. destruct (shallow_exact fuel Hf) as [cs' [E' [_ P]]].
      rewrite E in E'. injection E' as <-.
      set (t := diff_entry (Some (norm_meta a)) (Some (norm_meta b)) (o_hash_only o) (o_meta_only o) (o_meta_cmp_key o) false).
      assert (Hne : t <> Unchanged).
      { unfold t. rewrite Hm. destruct (o_hash_only o).
        - rewrite diff_entry_hash_only. simpl. now rewrite !norm_meta_hash.
        - intros Hu. apply diff_entry_unchanged_iff in Hu as [_ [_ Hu]]. simpl in Hu. rewrite !norm_meta_hash in Hu. contradiction. }
      set (c := {| c_typ := t; c_old := Some (k, norm_meta a); c_new := Some (k, norm_meta b) |}).
      assert (Hcls : cls o old new k = [c]).
      { assert (Et : typ_eqb t Unchanged = false).
        { destruct (typ_eqb t Unchanged) eqn:Et; [apply typ_eqb_spec in Et; contradiction | reflexivity]. }
        unfold cls, classify_key. rewrite Ea, Eb. cbn [option_map is_none andb]. fold t. rewrite Et. reflexivity. }
      assert (Hk : change_key c = k).
      { apply (classify_key_key o k (Some a) (Some b)). fold (cls o old new k) in Hcls. unfold cls in Hcls.
        rewrite Ea, Eb in Hcls. rewrite Hcls. now left. }
      assert (Hin : In c (filter top_change (ref_diff o old new))).
      { apply filter_In. split; [|unfold top_change; now rewrite Hk].
        unfold ref_diff. apply in_flat_map. exists k. split.
        - apply (cls_all_keys o). rewrite Hcls. discriminate.
        - fold (cls o old new k). rewrite Hcls. now left. }
      apply (Permutation_in c (Permutation_sym P)) in Hin. apply filter_In in Hin as [Hin _].
      exists c. repeat split; assumption.
    Qed.
  End ReachSh.
End Sh.
