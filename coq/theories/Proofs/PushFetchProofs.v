(* C18, part 2: collect + push / fetch.  Every group is one [Transfer.transfer]; the per-transfer
   facts come from the C04 / C11 development (Proofs/Transfer*.v) and are lifted here to the
   sequence of groups, then tied to the storage map and the index ([designated], [reachable]). *)
From Coq Require Import NArith List Bool Lia Permutation.
From DvcData Require Import Base.Val Model.Transfer Gen.StorageMap Model.PushFetch Proofs.TransferBase Proofs.TransferStatus Proofs.TransferLoop Proofs.TransferProofs Proofs.PushFetchResolve.
Import ListNotations.
Open Scope N_scope.

(* ====================================================================================== *)
(* counting *)

Lemma NoDup_dedup l : NoDup (dedup l).
Proof.
  induction l as [|x r IH]; simpl; [constructor|]. destruct (mem x r) eqn:E; auto.
  constructor; auto. rewrite dedup_In. now apply mem_nIn.
Qed.
Lemma nodup_app {A} (a b : list A) :
  NoDup a -> NoDup b -> (forall x, In x a -> ~ In x b) -> NoDup (a ++ b).
Proof.
  induction a as [|x a IH]; simpl; intros Ha Hb H; auto.
  inversion Ha; subst. constructor.
  - intros Hin. apply in_app_or in Hin. destruct Hin; [contradiction|]. apply (H x); auto.
  - apply IH; auto.
Qed.
Lemma count_partition new tr fl :
  (forall o, In o new <-> In o tr \/ In o fl) -> (forall o, In o tr -> ~ In o fl) ->
  count tr + count fl = count new.
Proof.
  intros H1 H2. unfold count. rewrite <- Nat2N.inj_add, <- app_length. f_equal.
  apply Permutation_length. apply NoDup_Permutation.
  - apply nodup_app; try apply NoDup_dedup. intros x. rewrite !dedup_In. apply H2.
  - apply NoDup_dedup.
  - intros x. rewrite in_app_iff, !dedup_In. symmetry. apply H1.
Qed.

(* ====================================================================================== *)
(* one transfer, as push / fetch call it (shallow request) *)

Definition new_of (i : t_in) : list oid :=
  match o_status (transfer i) with Some st => c_new st | None => [] end.

Lemma new_in_req i st dix six o :
  t_shallow i = true -> compare_status i = inr (st, dix, six) -> In o (c_new st) -> In o (t_req i).
Proof.
  intros Hs. unfold compare_status.
  destruct (status_ix (t_dnoop i) (t_parse i) (t_dst i) (status_cache i) (t_dix i) (t_shallow i) (t_req i))
    as [k|[[dex dmiss] dix']] eqn:ED; [discriminate|].
  destruct dmiss as [|m0 mr].
  - intros H; inversion H; subst; simpl. intros [].
  - destruct (status_ix (t_snoop i) (t_parse i) (t_src i) (t_src i) (t_six i) (t_shallow i) (t_req i))
      as [k|[[sex smiss] six']] eqn:ES; [discriminate|].
    intros H; inversion H; subst; simpl. intros Ho. apply diff_In in Ho. destruct Ho as [Ho _].
    destruct (status_ix_spec _ _ _ _ _ _ _ _ _ _ ES) as [h [Cs [Scov _]]].
    destruct (collect_spec _ _ _ _ _ Cs) as [_ [B _]].
    destruct (B o (proj1 (Scov o) (or_introl Ho))) as [H1|[H1 _]]; auto. congruence.
Qed.

(* pushed + failed = |new| for one group *)
Lemma g_counts i tr fl : wf11 i -> o_outcome (transfer i) = TOk tr fl ->
  count tr + count fl = count (new_of i).
Proof.
  intros Hw HO. destruct (outcome_ok i tr fl HO) as [st [dix [six [EC [HS _]]]]].
  unfold new_of. rewrite HS. destruct (partition i st tr fl Hw HS HO) as [P1 P2].
  now apply count_partition.
Qed.

(* atomic uploads (t_part never fires - what push / fetch model): no truncated leftover *)
Lemma dir_loop_part_written i missing : ord_ok (t_bord i) -> forall dirs files failed o b,
  In (Partial o b) (d_events (dir_loop i missing dirs files failed)) -> part_written i o = true.
Proof.
  intros Hb.
  assert (HA : forall batch o b, In (Partial o b) (add_events i batch) -> part_written i o = true).
  { intros batch o b H. apply add_events_In_Partial in H; auto. tauto. }
  induction dirs as [|D r IH]; simpl; intros files failed o b H; [contradiction|].
  destruct (find_tree i D) as [entries|]; simpl in H; [|contradiction].
  destruct (dir_step i missing D entries files failed) as [[[ev files'] failed'] succ] eqn:Est.
  simpl in H. apply in_app_or in H. destruct H as [H|H]; [|eauto].
  unfold dir_step in Est.
  destruct (add_failed i (filter (fun f => mem f entries) files) ++ filter (fun f => mem f failed) entries).
  - destruct (existsb (fun f => mem f missing) entries).
    + inversion Est; subst. eauto.
    + destruct (add_failed i [D]); inversion Est; subst; apply in_app_or in H; destruct H; eauto.
  - inversion Est; subst. eauto.
Qed.
Lemma do_transfer_part_written i new missing o b : ord_ok (t_bord i) ->
  In (Partial o b) (fst (do_transfer i new missing)) -> part_written i o = true.
Proof.
  intros Hb.
  assert (HA : forall batch, In (Partial o b) (add_events i batch) -> part_written i o = true).
  { intros batch H. apply add_events_In_Partial in H; auto. tauto. }
  unfold do_transfer.
  set (r := dir_loop i missing (t_dord i (filter is_dir_oid new)) (filter is_file_oid new) []).
  destruct (d_ok r); simpl.
  - destruct (add_failed i (d_files r) ++ d_failed r); simpl; intros H;
      apply in_app_or in H; destruct H as [H|H].
    + apply in_app_or in H. destruct H as [H|H]; [eapply dir_loop_part_written; eauto|eauto].
    + destruct (t_dnoop i); [destruct H|]. apply in_map_iff in H. destruct H as [p [E _]]. discriminate.
    + apply in_app_or in H. destruct H as [H|H]; [eapply dir_loop_part_written; eauto|eauto].
    + destruct H as [H|[]]. discriminate.
  - intros H. eapply dir_loop_part_written; eauto.
Qed.
Lemma no_partial i : ord_ok (t_bord i) -> (forall x, t_part i x = false) ->
  forall o b, ~ In (Partial o b) (o_events (transfer i)).
Proof.
  intros Hb Hp o b H.
  destruct (transfer_inv i) as [[k [_ [_ [E _]]]]|[st [dix [six [EC [_ [[_ [E _]]|[_ [E _]]]]]]]]];
    rewrite E in H; try destruct H.
  apply do_transfer_part_written in H; auto. unfold part_written in H. rewrite Hp in H.
  rewrite andb_false_r in H. discriminate.
Qed.

(* nothing but requested objects is written, and with the source's bytes *)
Lemma g_upper i tr fl o b : t_shallow i = true -> wf11 i -> (forall x, t_part i x = false) ->
  o_outcome (transfer i) = TOk tr fl ->
  lookup o (dst_after i) = Some b ->
  lookup o (t_dst i) = Some b \/ (In o (t_req i) /\ lookup o (t_src i) = Some b).
Proof.
  intros Hs Hw Hnp HO HL.
  pose proof (no_partial i (w_bord _ Hw) Hnp) as Hat.
  destruct (outcome_ok i tr fl HO) as [st [dix [six [EC [HS Hcase]]]]].
  rewrite dst_after_eq in HL.
  destruct Hcase as [[_ [_ [_ Ee]]]|[_ [_ [_ Ee]]]]; rewrite Ee in HL; simpl in HL; auto.
  pose proof (transfer_DT False i st dix six Hw (fun F : False => match F with end) EC) as HDT.
  set (evs := fst (do_transfer i (c_new st) (c_missing st))) in *.
  destruct (existsb (fun e => match ev_oid e with Some x => list_N_eqb x o | None => false end) evs) eqn:EX.
  - apply existsb_exists in EX. destruct EX as [e [He Hx]].
    destruct (ev_oid e) as [x|] eqn:Eo; [|discriminate]. apply eqb_eq in Hx. subst x.
    pose proof (dt_oid _ _ _ _ _ _ HDT e o He Eo) as Hn.
    destruct (apply_dst_origin _ _ _ _ _ HL) as [H|[H|H]]; auto.
    + right. split; auto. eapply new_in_req; eauto.
    + exfalso. apply (Hat o b). now rewrite Ee.
  - left. rewrite apply_dst_untouched in HL; auto.
    intros e He Hx. apply (existsb_false _ _ EX) in He. rewrite Hx, eqb_refl in He. discriminate.
Qed.

(* an object that was there stays, with its bytes *)
Lemma g_keeps i tr fl o : t_shallow i = true -> wf11 i -> o_outcome (transfer i) = TOk tr fl ->
  has (t_dst i) o = true -> lookup o (dst_after i) = lookup o (t_dst i).
Proof.
  intros Hs Hw HO Hh. destruct (no_resend i o Hw Hh) as [_ [H _]]. exact H.
Qed.

(* a fault-free round whose source holds the request delivers all of it *)
Lemma g_complete i tr fl :
  wf i -> t_shallow i = true -> t_verify i = false -> o_outcome (transfer i) = TOk tr fl ->
  (forall x, t_fails i x = false) ->
  (forall o, In o (t_req i) -> has (t_src i) o = true) ->
  (forall D b, is_dir_oid D = true -> lookup D (t_src i) = Some b -> t_parse i b <> None) ->
  forall o, In o (t_req i) -> has (dst_after i) o = true.
Proof.
  intros Hw Hs Hv HO Hf Hsrc Hparse o Ho.
  destruct (retry i tr fl Hw HO) as [R1 R2].
  assert (Hdel : forall x, In x (t_req i) -> delivered i x = true).
  { intros x Hx. rewrite (delivered_faultfree i x Hf), (Hsrc x Hx), Hv. reflexivity. }
  destruct (is_dir_oid o) eqn:Ed.
  - assert (HT : exists l, find_tree i o = Some l).
    { pose proof (Hsrc o Ho) as Hh. apply has_lookup in Hh. destruct Hh as [b Hb].
      pose proof (Hparse o b Ed Hb) as Hp. destruct (t_parse i b) as [l|] eqn:Ep; [|congruence].
      assert (Hl : load_ok (t_parse i) (t_src i) o = Some l) by (unfold load_ok, load; now rewrite Hb, Ep).
      unfold find_tree. destruct (t_cache i) as [c|]; [destruct (load_ok (t_parse i) c o); eauto|eauto]. }
    destruct HT as [l HT]. apply (R2 o l); auto.
    intros f Hfl. right. apply Hdel.
    destruct (wf_req _ Hw) as [H|H]; [congruence|]. exact (H o l f Ho Ed HT Hfl).
  - apply R1; auto.
Qed.

(* ====================================================================================== *)
(* the sequence of groups *)

Lemma sget_sset w s st s' : sget (sset w s st) s' = if N.eqb s s' then st else sget w s'.
Proof. reflexivity. Qed.

Definition gc (g : group) : sid := match g_cache g with Some c => c | None => 0 end.
Definition gd (k : rkind) (g : group) : sid := group_dst k g (gc g).
Definition gsrc (k : rkind) (g : group) : sid := match k with RPush => gc g | RFetch => g_data g end.
Definition gin (e : env) (k : rkind) (w : stores) (g : group) : t_in := group_in e k w g (gc g).

Lemma gin_src e k w g : t_src (gin e k w g) = sget w (gsrc k g).
Proof. destruct k; reflexivity. Qed.
Lemma gin_dst e k w g : t_dst (gin e k w g) = sget w (gd k g).
Proof. destruct k; reflexivity. Qed.
Lemma gin_req e k w g : t_req (gin e k w g) = g_req g.
Proof. destruct k; reflexivity. Qed.
Lemma gin_shallow e k w g : t_shallow (gin e k w g) = true.
Proof. destruct k; reflexivity. Qed.
Lemma gin_verify e k w g : t_verify (gin e k w g) = false.
Proof. destruct k; reflexivity. Qed.
Lemma gin_parse e k w g : t_parse (gin e k w g) = e_parse e.
Proof. destruct k; reflexivity. Qed.
Lemma gin_fails e k w g : t_fails (gin e k w g) = e_fails e (gd k g).
Proof. destruct k; reflexivity. Qed.
Lemma gin_part e k w g x : t_part (gin e k w g) x = false.
Proof. destruct k; reflexivity. Qed.
Lemma gin_trunc e k w g : t_trunc (gin e k w g) = fun _ => [].
Proof. destruct k; reflexivity. Qed.
Lemma gin_ext e k w w' g :
  sget w' (gsrc k g) = sget w (gsrc k g) -> sget w' (gd k g) = sget w (gd k g) ->
  gin e k w' g = gin e k w g.
Proof. unfold gin, group_in, gsrc, gd, group_dst. destruct k; intros -> ->; reflexivity. Qed.

(* the property [P] holds of every group's transfer input at its turn *)
Fixpoint turns (P : t_in -> Prop) (e : env) (k : rkind) (gs : list group) (w : stores) : Prop :=
  match gs with
  | [] => True
  | g :: r =>
      match g_cache g with
      | None => True
      | Some c =>
          if N.eqb c (g_data g) then turns P e k r w
          else P (gin e k w g) /\ turns P e k r (sset w (gd k g) (dst_after (gin e k w g)))
      end
  end.
(* sum over the groups of |new| (each group's status taken at its turn) *)
Fixpoint news (e : env) (k : rkind) (gs : list group) (w : stores) : N :=
  match gs with
  | [] => 0
  | g :: r =>
      match g_cache g with
      | None => 0
      | Some c =>
          if N.eqb c (g_data g) then news e k r w
          else count (new_of (gin e k w g)) + news e k r (sset w (gd k g) (dst_after (gin e k w g)))
      end
  end.

Lemma counts_seq e k : forall gs w a b out,
  turns wf11 e k gs w -> run_groups e k gs w a b = out -> p_err out = None ->
  p_moved out + p_failed out = a + b + news e k gs w.
Proof.
  induction gs as [|g r IH]; simpl; intros w a b out HT HR HE.
  - subst out. simpl. lia.
  - unfold gin, gd, gc in *. destruct (g_cache g) as [c|]; [|subst out; discriminate].
    destruct (N.eqb c (g_data g)); [eapply IH; eauto|].
    destruct HT as [Hw HT].
    destruct (o_outcome (transfer (group_in e k w g c))) as [kd|tr fl] eqn:EO; [subst out; discriminate|].
    rewrite (IH _ _ _ _ HT HR HE). pose proof (g_counts _ tr fl Hw EO). lia.
Qed.

(* groups with pairwise distinct destinations whose sources are not destinations *)
Definition indep (k : rkind) (gs : list group) : Prop :=
  (forall g, In g gs -> g_cache g <> None) /\
  NoDup (map (gd k) gs) /\
  (forall g g', In g gs -> In g' gs -> gsrc k g <> gd k g').

Lemma indep_tail k g r : indep k (g :: r) -> indep k r.
Proof.
  intros [A [B C]]. split; [|split].
  - intros x Hx. apply A. now right.
  - now inversion B.
  - intros x y Hx Hy. apply C; now right.
Qed.

Lemma run_indep e k : forall gs w a b out,
  indep k gs -> run_groups e k gs w a b = out -> p_err out = None ->
  (forall g, In g gs ->
     sget (p_w out) (gd k g) = dst_after (gin e k w g) /\
     exists tr fl, o_outcome (transfer (gin e k w g)) = TOk tr fl) /\
  (forall s, (forall g, In g gs -> gd k g <> s) -> sget (p_w out) s = sget w s).
Proof.
  induction gs as [|g r IH]; simpl; intros w a b out HI HR HE.
  - subst out. simpl. split; [intros g []|auto].
  - pose proof (indep_tail _ _ _ HI) as HIr. destruct HI as [A [B C]].
    assert (Hc : g_cache g <> None) by (apply A; now left).
    destruct (g_cache g) as [c|] eqn:Ec; [|congruence].
    assert (Egc : gc g = c) by (unfold gc; now rewrite Ec).
    assert (Hne : N.eqb c (g_data g) = false).
    { apply N.eqb_neq. intros E. apply (C g g (or_introl eq_refl) (or_introl eq_refl)).
      unfold gsrc, gd, group_dst. rewrite Egc. destruct k; congruence. }
    rewrite Hne in HR.
    destruct (o_outcome (transfer (group_in e k w g c))) as [kd|tr fl] eqn:EO; [subst out; discriminate|].
    simpl in B. apply NoDup_cons_iff in B. destruct B as [Bn Br].
    set (w1 := sset w (group_dst k g c) (w_dst (final_world (group_in e k w g c)))) in *.
    destruct (IH w1 _ _ out HIr HR HE) as [I1 I2].
    assert (Hd : group_dst k g c = gd k g) by (unfold gd; now rewrite Egc).
    assert (Hother : forall s, s <> gd k g -> sget w1 s = sget w s).
    { intros s Hs. unfold w1. rewrite sget_sset, Hd.
      destruct (N.eqb (gd k g) s) eqn:E; auto. apply N.eqb_eq in E. congruence. }
    assert (Hr : forall g', In g' r -> gd k g' <> gd k g).
    { intros g' Hg' E. apply Bn. rewrite <- E. now apply in_map. }
    split.
    + intros g' [<-|Hg'].
      * split.
        -- rewrite I2 by (intros g' Hg' E; exact (Hr g' Hg' E)).
           unfold w1. rewrite sget_sset, Hd, N.eqb_refl. unfold gin. now rewrite Egc.
        -- exists tr, fl. unfold gin. now rewrite Egc.
      * assert (EG : gin e k w1 g' = gin e k w g').
        { apply gin_ext; apply Hother.
          - apply C; [now right|now left].
          - now apply Hr. }
        rewrite <- EG. now apply I1.
    + intros s Hs. rewrite I2 by (intros g' Hg'; apply Hs; now right).
      apply Hother. intros E. apply (Hs g (or_introl eq_refl)). auto.
Qed.

Lemma turns_indep (P : t_in -> Prop) e k : forall gs w a b out,
  indep k gs -> run_groups e k gs w a b = out -> p_err out = None ->
  (forall g, In g gs -> P (gin e k w g)) ->
  turns P e k gs w /\ news e k gs w = fold_right (fun g acc => count (new_of (gin e k w g)) + acc) 0 gs.
Proof.
  induction gs as [|g r IH]; simpl; intros w a b out HI HR HE HP; auto.
  pose proof (indep_tail _ _ _ HI) as HIr. destruct HI as [A [B C]].
  assert (Hc : g_cache g <> None) by (apply A; now left).
  destruct (g_cache g) as [c|] eqn:Ec; [|congruence].
  assert (Egc : gc g = c) by (unfold gc; now rewrite Ec).
  assert (Hne : N.eqb c (g_data g) = false).
  { apply N.eqb_neq. intros E. apply (C g g (or_introl eq_refl) (or_introl eq_refl)).
    unfold gsrc, gd, group_dst. rewrite Egc. destruct k; congruence. }
  rewrite Hne in *.
  assert (Hgin : group_in e k w g c = gin e k w g) by (unfold gin; now rewrite Egc).
  rewrite Hgin in HR.
  destruct (o_outcome (transfer (gin e k w g))) as [kd|tr fl] eqn:EO; [subst out; discriminate|].
  simpl in B. apply NoDup_cons_iff in B. destruct B as [Bn Br].
  assert (Hd : group_dst k g c = gd k g) by (unfold gd; now rewrite Egc).
  rewrite Hd in HR. fold (dst_after (gin e k w g)) in HR.
  set (w1 := sset w (gd k g) (dst_after (gin e k w g))) in *.
  assert (EG : forall g', In g' r -> gin e k w1 g' = gin e k w g').
  { intros g' Hg'. apply gin_ext; unfold w1; rewrite sget_sset.
    - destruct (N.eqb (gd k g) (gsrc k g')) eqn:E; auto. apply N.eqb_eq in E.
      exfalso. apply (C g' g); [now right|now left|auto].
    - destruct (N.eqb (gd k g) (gd k g')) eqn:E; auto. apply N.eqb_eq in E.
      exfalso. apply Bn. rewrite E. now apply in_map. }
  destruct (IH w1 _ _ out HIr HR HE) as [T1 T2].
  { intros g' Hg'. rewrite (EG g' Hg'). apply HP. now right. }
  split; [split; auto|]. rewrite T2. f_equal.
  clear - EG. induction r as [|x r IHr]; simpl; auto.
  rewrite (EG x (or_introl eq_refl)), IHr; auto. intros g' Hg'. apply EG. now right.
Qed.

(* ====================================================================================== *)
(* collect: what the groups contain *)

Lemma add_group_req d c oids : forall gs g o,
  In g (add_group d c oids gs) -> In o (g_req g) ->
  In o oids \/ exists g0, In g0 gs /\ g_data g0 = g_data g /\ In o (g_req g0).
Proof.
  induction gs as [|g0 r IH]; simpl; intros g o Hg Ho.
  - destruct Hg as [<-|[]]. simpl in Ho. auto.
  - destruct (N.eqb (g_data g0) d) eqn:E.
    + destruct Hg as [<-|Hg]; simpl in *.
      * apply N.eqb_eq in E. apply in_app_or in Ho. destruct Ho as [Ho|Ho]; auto.
        right. exists g0. auto.
      * right. exists g. auto.
    + destruct Hg as [<-|Hg]; [right; exists g0; auto|].
      destruct (IH g o Hg Ho) as [H|[g1 [H1 H2]]]; auto. right. exists g1. auto.
Qed.
Lemma add_group_mono d c oids d' o : forall gs,
  (exists g, In g gs /\ g_data g = d' /\ In o (g_req g)) ->
  exists g, In g (add_group d c oids gs) /\ g_data g = d' /\ In o (g_req g).
Proof.
  induction gs as [|g0 r IH]; simpl; intros [g [Hg [Hd Ho]]]; [destruct Hg|].
  destruct (N.eqb (g_data g0) d) eqn:E.
  - destruct Hg as [<-|Hg].
    + eexists. split; [left; reflexivity|]. simpl. apply N.eqb_eq in E. split; [congruence|].
      apply in_or_app. auto.
    + exists g. split; [right; auto|auto].
  - destruct Hg as [<-|Hg].
    + exists g0. split; [left; auto|auto].
    + destruct IH as [g1 [H1 H2]]; eauto. exists g1. split; [right; auto|auto].
Qed.
Lemma add_group_new d c oids o : forall gs, In o oids ->
  exists g, In g (add_group d c oids gs) /\ g_data g = d /\ In o (g_req g).
Proof.
  induction gs as [|g0 r IH]; simpl; intros Ho.
  - eexists. split; [left; reflexivity|]. simpl. auto.
  - destruct (N.eqb (g_data g0) d) eqn:E.
    + eexists. split; [left; reflexivity|]. simpl. split; auto. apply in_or_app. auto.
    + destruct (IH Ho) as [g [H1 H2]]. exists g. split; [right; auto|auto].
Qed.

Lemma under_In p es o : In o (under p es) <-> exists k, In (k, o) es /\ matches p k = true.
Proof.
  unfold under. rewrite in_map_iff. split.
  - intros [[k o'] [E H]]. simpl in E. subst o'. apply filter_In in H. exists k. tauto.
  - intros [k [H1 H2]]. exists (k, o). split; auto. apply filter_In. auto.
Qed.

(* every id a group requests belongs to a visible entry *)
Lemma collect_req_entries m idx : forall l acc,
  (forall g o, In g acc -> In o (g_req g) -> In o (map snd (entries m idx))) ->
  forall g o, In g (fold_left (collect_step m idx) l acc) -> In o (g_req g) -> In o (map snd (entries m idx)).
Proof.
  induction l as [|ps l IH]; simpl; intros acc Hacc; auto.
  apply IH. intros g o Hg Ho. unfold collect_step in Hg.
  destruct (getitem m (fst ps)) as [si|]; eauto.
  destruct (si_remote si) as [d|]; eauto.
  destruct (add_group_req _ _ _ _ _ _ Hg Ho) as [H|[g0 [H1 [_ H2]]]]; eauto.
  apply under_In in H. destruct H as [k [H _]]. apply in_map_iff. exists (k, o). auto.
Qed.

Lemma visible_expand m i e : In e (visible m i) -> In e (expand i).
Proof. destruct i as [k o|k d l]; simpl; auto. destruct (covered m k); simpl; tauto. Qed.
Lemma entries_reachable m idx o : In o (map snd (entries m idx)) -> In o (reachable idx).
Proof.
  unfold reachable, entries. rewrite !in_map_iff. intros [e [E H]]. exists e. split; auto.
  apply in_flat_map in H. destruct H as [i [Hi He]]. apply in_flat_map. exists i. split; auto.
  eapply visible_expand; eauto.
Qed.

Theorem collect_reachable m idx g o :
  In g (collect m idx) -> In o (g_req g) -> In o (reachable idx).
Proof.
  intros Hg Ho. apply (entries_reachable m). unfold collect in Hg.
  eapply collect_req_entries; eauto. intros ? ? [].
Qed.

(* the group of the remote that the mapping designates for a key requests the key's object *)
Lemma collect_step_mono m idx ps d o gs :
  (exists g, In g gs /\ g_data g = d /\ In o (g_req g)) ->
  exists g, In g (collect_step m idx gs ps) /\ g_data g = d /\ In o (g_req g).
Proof.
  intros H. unfold collect_step. destruct (getitem m (fst ps)) as [si|]; auto.
  destruct (si_remote si); auto. now apply add_group_mono.
Qed.
Lemma collect_fold_mono m idx d o : forall l gs,
  (exists g, In g gs /\ g_data g = d /\ In o (g_req g)) ->
  exists g, In g (fold_left (collect_step m idx) l gs) /\ g_data g = d /\ In o (g_req g).
Proof.
  induction l as [|ps l IH]; simpl; intros gs H; auto. apply IH. now apply collect_step_mono.
Qed.
Lemma collect_fold_has m idx p s si d o : forall l gs,
  In (p, s) l -> getitem m p = Some si -> si_remote si = Some d -> In o (under p (entries m idx)) ->
  exists g, In g (fold_left (collect_step m idx) l gs) /\ g_data g = d /\ In o (g_req g).
Proof.
  induction l as [|ps l IH]; simpl; intros gs Hin Hg Hr Ho; [destruct Hin|].
  destruct Hin as [->|Hin]; [|eauto].
  apply collect_fold_mono. unfold collect_step. simpl. rewrite Hg, Hr. now apply add_group_new.
Qed.

Theorem designated_in_group m idx r o : NoDup (map fst m) ->
  In o (designated m idx r) ->
  exists g, In g (collect m idx) /\ g_data g = r /\ In o (g_req g).
Proof.
  intros Hn Ho. unfold designated in Ho. apply in_map_iff in Ho. destruct Ho as [[k o'] [E H]].
  simpl in E. subst o'. apply filter_In in H. destruct H as [Hin Hr]. simpl in Hr.
  unfold remote_of in Hr. destruct (getitem m k) as [si|] eqn:Eg; [|discriminate].
  destruct (si_remote si) as [r'|] eqn:Er; [|discriminate]. apply N.eqb_eq in Hr. subst r'.
  assert (Hrole : is_role si_remote) by (right; right; reflexivity).
  destruct (proj1 (proj1 (proj2 (resolve_spec si_remote m k Hrole Hn) si Eg) r) Er) as [p [[s [A [B C]]] _]].
  destruct (resolve_self si_remote m p s r Hrole Hn A C) as [si' [G1 G2]].
  unfold collect. eapply collect_fold_has; eauto. apply under_In. exists k. auto.
Qed.

(* ====================================================================================== *)
(* push, fetch: complete and exact *)

Section Round.
Variables (e : env) (k : rkind) (m : smap) (idx : index) (w : stores) (out : pf_out).
Let gs := collect m idx.
Hypothesis Hrun : run_round e k m idx w = out.
Hypothesis Herr : p_err out = None.
Hypothesis Hind : indep k gs.
Hypothesis Hwf : forall g, In g gs -> wf (gin e k w g).

(* stores that are no group's destination are untouched *)
Lemma round_untouched s : (forall g, In g gs -> gd k g <> s) -> sget (p_w out) s = sget w s.
Proof. intros H. exact (proj2 (run_indep e k gs w 0 0 out Hind Hrun Herr) s H). Qed.

(* whatever fails: a destination only receives requested objects, with the source's bytes,
   and keeps what it had *)
Lemma round_upper g o b : In g gs -> lookup o (sget (p_w out) (gd k g)) = Some b ->
  lookup o (sget w (gd k g)) = Some b \/ (In o (g_req g) /\ lookup o (sget w (gsrc k g)) = Some b).
Proof.
  intros Hg HL. destruct (proj1 (run_indep e k gs w 0 0 out Hind Hrun Herr) g Hg) as [E [tr [fl HO]]].
  rewrite E in HL.
  destruct (g_upper _ tr fl o b (gin_shallow e k w g) (wf_wf11 _ (Hwf g Hg)) (gin_part e k w g) HO HL) as [H|[H1 H2]].
  - left. now rewrite <- gin_dst with (e := e).
  - right. rewrite <- (gin_req e k w g), <- (gin_src e k w g). auto.
Qed.
Lemma round_keeps g o : In g gs -> has (sget w (gd k g)) o = true ->
  lookup o (sget (p_w out) (gd k g)) = lookup o (sget w (gd k g)).
Proof.
  intros Hg Hh. destruct (proj1 (run_indep e k gs w 0 0 out Hind Hrun Herr) g Hg) as [E [tr [fl HO]]].
  rewrite E. rewrite <- (gin_dst e k w g) in *.
  eapply g_keeps; eauto using gin_shallow, wf_wf11.
Qed.

(* pushed + failed = sum over the groups of |new| *)
Lemma round_counts :
  p_moved out + p_failed out = fold_right (fun g acc => count (new_of (gin e k w g)) + acc) 0 gs.
Proof.
  destruct (turns_indep wf11 e k gs w 0 0 out Hind Hrun Herr) as [T N].
  { intros g Hg. apply wf_wf11. auto. }
  rewrite (counts_seq e k gs w 0 0 out T Hrun Herr), N. lia.
Qed.

(* no fault, sources hold what is requested: every destination holds its whole request *)
Hypothesis Hnofault : forall s o, e_fails e s o = false.
Hypothesis Hsrc : forall g o, In g gs -> In o (g_req g) -> has (sget w (gsrc k g)) o = true.
Hypothesis Hparse : forall g D b, In g gs -> is_dir_oid D = true ->
  lookup D (sget w (gsrc k g)) = Some b -> e_parse e b <> None.

Lemma round_complete g o : In g gs -> In o (g_req g) -> has (sget (p_w out) (gd k g)) o = true.
Proof.
  intros Hg Ho. destruct (proj1 (run_indep e k gs w 0 0 out Hind Hrun Herr) g Hg) as [E [tr [fl HO]]].
  rewrite E. apply (g_complete (gin e k w g) tr fl); auto using gin_shallow, gin_verify.
  - intros x. rewrite gin_fails. apply Hnofault.
  - intros x Hx. rewrite gin_src. rewrite gin_req in Hx. auto.
  - intros D b Hd HL. rewrite gin_parse. rewrite gin_src in HL. eauto.
  - now rewrite gin_req.
Qed.
End Round.

(* ====================================================================================== *)
(* the statements at the level of the storage map and the index *)

(* push without faults: every object is in the remote its key designates; a remote only gains
   objects reachable from the index *)
Theorem push_spec : forall e m idx w out,
  NoDup (map fst m) ->
  run_round e RPush m idx w = out -> p_err out = None ->
  indep RPush (collect m idx) ->
  (forall g, In g (collect m idx) -> wf (gin e RPush w g)) ->
  (forall s o, e_fails e s o = false) ->
  (forall g o, In g (collect m idx) -> In o (g_req g) -> has (sget w (gc g)) o = true) ->
  (forall g D b, In g (collect m idx) -> is_dir_oid D = true ->
                 lookup D (sget w (gc g)) = Some b -> e_parse e b <> None) ->
  forall r,
    (forall o, In o (designated m idx r) -> has (sget (p_w out) r) o = true) /\
    (forall o, has (sget (p_w out) r) o = true -> has (sget w r) o = true \/ In o (reachable idx)).
Proof.
  intros e m idx w out Hn Hrun Herr Hind Hwf Hnf Hsrc Hparse r. split.
  - intros o Ho. destruct (designated_in_group m idx r o Hn Ho) as [g [Hg [Hd Hreq]]].
    subst r. exact (round_complete e RPush m idx w out Hrun Herr Hind Hwf Hnf Hsrc Hparse g o Hg Hreq).
  - intros o Ho. destruct (existsb (fun g => N.eqb (g_data g) r) (collect m idx)) eqn:EX.
    + apply existsb_exists in EX. destruct EX as [g [Hg Hd]]. apply N.eqb_eq in Hd. subst r.
      apply has_lookup in Ho. destruct Ho as [b Hb].
      destruct (round_upper e RPush m idx w out Hrun Herr Hind Hwf g o b Hg Hb) as [H|[H _]].
      * left. apply has_lookup. eauto.
      * right. eapply collect_reachable; eauto.
    + left. rewrite <- (round_untouched e RPush m idx w out Hrun Herr Hind r); auto.
      intros g Hg E. apply (existsb_false _ _ EX) in Hg. simpl in E. unfold gd, group_dst in E.
      rewrite E, N.eqb_refl in Hg. discriminate.
Qed.

(* fetch into empty caches (one cache per remote group): exactly the group's request, with the
   remote's bytes; all of it reachable *)
Theorem fetch_exact : forall e m idx w out,
  run_round e RFetch m idx w = out -> p_err out = None ->
  indep RFetch (collect m idx) ->
  (forall g, In g (collect m idx) -> wf (gin e RFetch w g)) ->
  (forall s o, e_fails e s o = false) ->
  (forall g o, In g (collect m idx) -> In o (g_req g) -> has (sget w (g_data g)) o = true) ->
  (forall g D b, In g (collect m idx) -> is_dir_oid D = true ->
                 lookup D (sget w (g_data g)) = Some b -> e_parse e b <> None) ->
  forall g, In g (collect m idx) -> sget w (gc g) = [] ->
    (forall o, In o (g_req g) -> has (sget (p_w out) (gc g)) o = true) /\
    (forall o b, lookup o (sget (p_w out) (gc g)) = Some b ->
       In o (g_req g) /\ In o (reachable idx) /\ lookup o (sget w (g_data g)) = Some b).
Proof.
  intros e m idx w out Hrun Herr Hind Hwf Hnf Hsrc Hparse g Hg Hempty. split.
  - intros o Ho. exact (round_complete e RFetch m idx w out Hrun Herr Hind Hwf Hnf Hsrc Hparse g o Hg Ho).
  - intros o b Hb.
    destruct (round_upper e RFetch m idx w out Hrun Herr Hind Hwf g o b Hg Hb) as [H|[H1 H2]].
    + unfold gd, group_dst in H. rewrite Hempty in H. discriminate.
    + split; auto. split; auto. eapply collect_reachable; eauto.
Qed.

(* ---- the round after a round: whatever failed, the next round starts well-formed ---- *)
Lemma load_ok_some parse s D l :
  load_ok parse s D = Some l <-> exists b, lookup D s = Some b /\ parse b = Some l.
Proof.
  unfold load_ok, load. destruct (lookup D s) as [b|]; [destruct (parse b) as [l'|] eqn:E|]; split.
  - intros H; inversion H; subst. eauto.
  - intros [b' [H1 H2]]. inversion H1; subst. congruence.
  - discriminate.
  - intros [b' [H1 H2]]. inversion H1; subst. congruence.
  - discriminate.
  - intros [b' [H1 _]]. discriminate.
Qed.

Lemma wf_next i1 i2 :
  wf i1 -> t_cache i1 = Some (t_dst i1) -> t_cache i2 = Some (t_dst i2) ->
  t_src i2 = t_src i1 -> t_dst i2 = dst_after i1 -> t_parse i2 = t_parse i1 ->
  t_req i2 = t_req i1 -> t_shallow i2 = t_shallow i1 ->
  (t_dix i2 = None \/ t_dix i2 = Some []) ->
  ord_ok (t_bord i2) -> ord_ok (t_dord i2) ->
  (forall x, t_part i1 x = false) -> t_trunc i2 = t_trunc i1 -> wf i2.
Proof.
  intros Hw Hc1 Hc2 Es Ed Ep Er Esh Ex Hb Hd Hnp Etr.
  pose proof (no_partial i1 (wf_bord _ Hw) Hnp) as Hat.
  assert (A : agree (t_parse i1) (t_dst i1) (t_src i1)).
  { destruct (wf_coh _ Hw) as [A _]. unfold status_cache in A. now rewrite Hc1 in A. }
  assert (Horigin : forall D b, lookup D (t_dst i2) = Some b ->
            lookup D (t_dst i1) = Some b \/ lookup D (t_src i1) = Some b).
  { intros D b H. rewrite Ed, dst_after_eq in H. apply apply_dst_origin in H.
    destruct H as [H|[H|H]]; auto. exfalso. exact (Hat D b H). }
  constructor; auto.
  - intros b l f. rewrite Ep. apply (wf_flat _ Hw).
  - unfold coherent, status_cache. rewrite Hc2, Ep, Es. split.
    + intros D b1 b2 L1 L2. destruct (Horigin D b1 L1) as [H|H]; [eapply A; eauto|congruence].
    + intros D b1 b2 L1 L2. congruence.
  - rewrite Ep, Ed. now apply final_closed.
  - unfold ix_sound. destruct Ex as [->| ->]; auto. right. intros o H. discriminate.
  - destruct (wf_req _ Hw) as [H|H]; [left; congruence|right].
    intros D l f HD Hdir HT Hf. rewrite Er in *. apply (H D l f HD Hdir); auto.
    (* the listing found in the second round is the one of the first *)
    assert (Hb' : exists b, (lookup D (t_dst i1) = Some b \/ lookup D (t_src i1) = Some b) /\ t_parse i1 b = Some l).
    { unfold find_tree in HT. rewrite Hc2, Ep, Es in HT.
      destruct (load_ok (t_parse i1) (t_dst i2) D) as [l'|] eqn:E1.
      - inversion HT; subst l'. apply load_ok_some in E1. destruct E1 as [b [L P]].
        exists b. split; auto.
      - apply load_ok_some in HT. destruct HT as [b [L P]]. exists b. auto. }
    destruct Hb' as [b [Hor Pb]].
    unfold find_tree. rewrite Hc1.
    destruct (load_ok (t_parse i1) (t_dst i1) D) as [l'|] eqn:E1.
    + apply load_ok_some in E1. destruct E1 as [b' [L' P']]. destruct Hor as [Hor|Hor].
      * congruence.
      * rewrite (A D b' b L' Hor) in P'. congruence.
    + destruct Hor as [Hor|Hor].
      * assert (load_ok (t_parse i1) (t_dst i1) D = Some l) by (apply load_ok_some; eauto). congruence.
      * apply load_ok_some. eauto.
  - intros o Ho. rewrite Etr, Ep. now apply (wf_trunc _ Hw).
Qed.

(* a failed round followed by a fault-free one ends complete *)
Theorem retry_round : forall e1 e2 k m idx w out1 out2,
  run_round e1 k m idx w = out1 -> p_err out1 = None ->
  run_round e2 k m idx (p_w out1) = out2 -> p_err out2 = None ->
  indep k (collect m idx) ->
  (forall g, In g (collect m idx) -> wf (gin e1 k w g)) ->
  e_parse e2 = e_parse e1 -> ord_ok (e_bord e2) -> ord_ok (e_dord e2) ->
  (forall s o, e_fails e2 s o = false) ->
  (forall g o, In g (collect m idx) -> In o (g_req g) -> has (sget w (gsrc k g)) o = true) ->
  (forall g D b, In g (collect m idx) -> is_dir_oid D = true ->
                 lookup D (sget w (gsrc k g)) = Some b -> e_parse e1 b <> None) ->
  forall g o, In g (collect m idx) -> In o (g_req g) -> has (sget (p_w out2) (gd k g)) o = true.
Proof.
  intros e1 e2 k m idx w out1 out2 R1 E1 R2 E2 Hind Hwf Hp Hb Hd Hnf Hsrc Hparse g o Hg Ho.
  assert (Hs : forall g', In g' (collect m idx) -> sget (p_w out1) (gsrc k g') = sget w (gsrc k g')).
  { intros g' Hg'. apply (round_untouched e1 k m idx w out1 R1 E1 Hind).
    intros g'' Hg'' E. destruct Hind as [_ [_ C]]. apply (C g' g'' Hg' Hg''). auto. }
  apply (round_complete e2 k m idx (p_w out1) out2 R2 E2 Hind); auto.
  - intros g' Hg'.
    destruct (proj1 (run_indep e1 k _ w 0 0 out1 Hind R1 E1) g' Hg') as [Ed _].
    apply (wf_next (gin e1 k w g') (gin e2 k (p_w out1) g') (Hwf g' Hg')).
    + destruct k; reflexivity.
    + destruct k; reflexivity.
    + rewrite !gin_src. auto.
    + rewrite gin_dst. exact Ed.
    + rewrite !gin_parse. auto.
    + now rewrite !gin_req.
    + now rewrite !gin_shallow.
    + destruct k; simpl; auto.
    + destruct k; exact Hb.
    + destruct k; exact Hd.
    + intros x. apply gin_part.
    + now rewrite !gin_trunc.
  - intros g' x Hg' Hx. rewrite (Hs g' Hg'). auto.
  - intros g' D b Hg' HD HL. rewrite (Hs g' Hg') in HL. rewrite Hp. eauto.
Qed.

(* ====================================================================================== *)
(* checkout from the fetched caches *)

(* the entries of remote r's group: the key's object is requested by that group *)
Lemma entry_in_group m idx k o r : NoDup (map fst m) ->
  In (k, o) (entries m idx) -> remote_of m k = Some r ->
  exists g, In g (collect m idx) /\ g_data g = r /\ In o (g_req g).
Proof.
  intros Hn Hin Hr. apply designated_in_group; auto. unfold designated.
  apply in_map_iff. exists (k, o). split; auto. apply filter_In. split; auto.
  simpl. rewrite Hr. apply N.eqb_refl.
Qed.

(* what the checkout needs from a fetch, whatever the way it was established *)
Lemma checkout_from_facts m idx w w' :
  NoDup (map fst m) ->
  (* the cache the mapping designates for a key is the cache of the group of the key's remote *)
  (forall g k o, In g (collect m idx) -> In (k, o) (entries m idx) ->
                 remote_of m k = Some (g_data g) -> cache_of m k = g_cache g) ->
  (forall g, In g (collect m idx) -> g_cache g <> None) ->
  (* the fetch delivered every request, and only from the group's remote *)
  (forall g o, In g (collect m idx) -> In o (g_req g) -> has (sget w' (gc g)) o = true) ->
  (forall g o b, In g (collect m idx) -> lookup o (sget w' (gc g)) = Some b ->
     exists g', In g' (collect m idx) /\ lookup o (sget w (g_data g')) = Some b) ->
  forall k o r, In (k, o) (entries m idx) -> is_file_oid o = true -> remote_of m k = Some r ->
    exists b r', lookup o (sget w r') = Some b /\ In (k, Some b) (checkout_view m idx w').
Proof.
  intros Hn Hsc Hc Hall Hfrom k o r Hin Hf Hr.
  destruct (entry_in_group m idx k o r Hn Hin Hr) as [g [Hg [Hd Ho]]]. subst r.
  pose proof (Hsc g k o Hg Hin Hr) as Ec.
  destruct (g_cache g) as [c|] eqn:Eg; [|exfalso; now apply (Hc g Hg)].
  assert (Egc : gc g = c) by (unfold gc; now rewrite Eg).
  pose proof (Hall g o Hg Ho) as Hh. rewrite Egc in Hh. apply has_lookup in Hh. destruct Hh as [b Hb].
  rewrite <- Egc in Hb. destruct (Hfrom g o b Hg Hb) as [g' [Hg' Hb']]. rewrite Egc in Hb.
  exists b, (g_data g'). split; auto.
  unfold checkout_view. apply in_map_iff. exists (k, o). simpl. split.
  - now rewrite Ec, Hb.
  - apply filter_In. auto.
Qed.

(* fetch into empty caches (one cache per remote group) then checkout: every file entry whose key
   has a remote is linked, with the bytes its object has in a remote *)
Theorem checkout_spec : forall e m idx w out,
  NoDup (map fst m) ->
  run_round e RFetch m idx w = out -> p_err out = None ->
  indep RFetch (collect m idx) ->
  (forall g, In g (collect m idx) -> wf (gin e RFetch w g)) ->
  (forall s o, e_fails e s o = false) ->
  (forall g o, In g (collect m idx) -> In o (g_req g) -> has (sget w (g_data g)) o = true) ->
  (forall g D b, In g (collect m idx) -> is_dir_oid D = true ->
                 lookup D (sget w (g_data g)) = Some b -> e_parse e b <> None) ->
  (forall g, In g (collect m idx) -> sget w (gc g) = []) ->
  (forall g k o, In g (collect m idx) -> In (k, o) (entries m idx) ->
                 remote_of m k = Some (g_data g) -> cache_of m k = g_cache g) ->
  forall k o r, In (k, o) (entries m idx) -> is_file_oid o = true -> remote_of m k = Some r ->
    exists b, lookup o (sget w r) = Some b /\ In (k, Some b) (checkout_view m idx (p_w out)).
Proof.
  intros e m idx w out Hn Hrun Herr Hind Hwf Hnf Hsrc Hparse Hempty Hsc k o r Hin Hf Hr.
  destruct (entry_in_group m idx k o r Hn Hin Hr) as [g [Hg [Hd Ho]]]. subst r.
  pose proof (Hsc g k o Hg Hin Hr) as Ec.
  destruct Hind as [A [B C]]. assert (Hind : indep RFetch (collect m idx)) by (split; auto).
  destruct (g_cache g) as [c|] eqn:Eg; [|exfalso; now apply (A g Hg)].
  assert (Egc : gc g = c) by (unfold gc; now rewrite Eg).
  destruct (fetch_exact e m idx w out Hrun Herr Hind Hwf Hnf Hsrc Hparse g Hg (Hempty g Hg)) as [F1 F2].
  pose proof (F1 o Ho) as Hh. apply has_lookup in Hh. destruct Hh as [b Hb].
  destruct (F2 o b Hb) as [_ [_ Hb']].
  exists b. split; auto.
  unfold checkout_view. apply in_map_iff. exists (k, o). simpl. split.
  - rewrite Ec. rewrite Egc in Hb. now rewrite Hb.
  - apply filter_In. auto.
Qed.

(* ====================================================================================== *)
(* several groups delivering into one store (fetch: several remotes, one cache): the sequential
   form.  Sources are never destinations; destinations may coincide. *)

Definition seqok (k : rkind) (gs : list group) : Prop :=
  (forall g, In g gs -> g_cache g <> None) /\
  (forall g g', In g gs -> In g' gs -> gsrc k g <> gd k g').

Lemma seqok_tail k g r : seqok k (g :: r) -> seqok k r.
Proof.
  intros [A C]. split.
  - intros x Hx. apply A. now right.
  - intros x y Hx Hy. apply C; now right.
Qed.
Lemma indep_seqok k gs : indep k gs -> seqok k gs.
Proof. intros [A [_ C]]. split; auto. Qed.

Lemma seq_spec e k : (forall s o, e_fails e s o = false) -> forall gs w a b out,
  seqok k gs -> turns wf e k gs w -> run_groups e k gs w a b = out -> p_err out = None ->
  (forall g o, In g gs -> In o (g_req g) -> has (sget w (gsrc k g)) o = true) ->
  (forall g D bb, In g gs -> is_dir_oid D = true ->
                  lookup D (sget w (gsrc k g)) = Some bb -> e_parse e bb <> None) ->
  (forall s, (forall g, In g gs -> gd k g <> s) -> sget (p_w out) s = sget w s) /\
  (forall s o bb, lookup o (sget (p_w out) s) = Some bb ->
     lookup o (sget w s) = Some bb \/
     exists g, In g gs /\ gd k g = s /\ In o (g_req g) /\ lookup o (sget w (gsrc k g)) = Some bb) /\
  (forall s o, has (sget w s) o = true -> lookup o (sget (p_w out) s) = lookup o (sget w s)) /\
  (forall g o, In g gs -> In o (g_req g) -> has (sget (p_w out) (gd k g)) o = true).
Proof.
  intros Hnf. induction gs as [|g r IH]; simpl; intros w a b out HS HT HR HE Hsrc Hparse.
  - subst out. simpl. repeat split; auto; try (intros g o []).
  - pose proof (seqok_tail _ _ _ HS) as HSr. destruct HS as [A C].
    assert (Hc : g_cache g <> None) by (apply A; now left).
    destruct (g_cache g) as [c|] eqn:Ec; [|congruence].
    assert (Egc : gc g = c) by (unfold gc; now rewrite Ec).
    assert (Hne : N.eqb c (g_data g) = false).
    { apply N.eqb_neq. intros E. apply (C g g (or_introl eq_refl) (or_introl eq_refl)).
      unfold gsrc, gd, group_dst. rewrite Egc. destruct k; congruence. }
    rewrite Hne in *. destruct HT as [Hw HT].
    assert (Hgin : group_in e k w g c = gin e k w g) by (unfold gin; now rewrite Egc).
    rewrite Hgin in HR.
    destruct (o_outcome (transfer (gin e k w g))) as [kd|tr fl] eqn:EO; [subst out; discriminate|].
    assert (Hd : group_dst k g c = gd k g) by (unfold gd; now rewrite Egc).
    rewrite Hd in HR. fold (dst_after (gin e k w g)) in HR.
    set (i := gin e k w g) in *. set (w1 := sset w (gd k g) (dst_after i)) in *.
    assert (H1same : forall s, s <> gd k g -> sget w1 s = sget w s).
    { intros s Hs. unfold w1. rewrite sget_sset.
      destruct (N.eqb (gd k g) s) eqn:E; auto. apply N.eqb_eq in E. congruence. }
    assert (H1dst : sget w1 (gd k g) = dst_after i).
    { unfold w1. now rewrite sget_sset, N.eqb_refl. }
    assert (Hsrc1 : forall g', In g' (g :: r) -> sget w1 (gsrc k g') = sget w (gsrc k g')).
    { intros g' Hg'. apply H1same. apply C; auto. now left. }
    destruct (IH w1 _ _ out HSr HT HR HE) as [A1 [B1 [C1 D1]]].
    { intros g' o Hg' Ho. rewrite Hsrc1 by now right. apply Hsrc; auto. }
    { intros g' D bb Hg' HD HL. rewrite Hsrc1 in HL by now right. eapply Hparse; eauto. }
    pose proof (wf_wf11 _ Hw) as Hw1.
    split; [|split; [|split]].
    + intros s Hs. rewrite A1 by (intros g' Hg'; apply Hs; now right).
      apply H1same. intros E. apply (Hs g); auto.
    + intros s o bb HL. destruct (B1 s o bb HL) as [H|[g' [Hg' [E1 [E2 E3]]]]].
      * destruct (N.eqb (gd k g) s) eqn:E.
        -- apply N.eqb_eq in E. subst s. rewrite H1dst in H.
           destruct (g_upper i tr fl o bb (gin_shallow e k w g) Hw1 (gin_part e k w g) EO H) as [H'|[H1 H2]].
           ++ left. unfold i in H'. now rewrite gin_dst in H'.
           ++ right. exists g. unfold i in H1, H2. rewrite gin_req in H1. rewrite gin_src in H2. auto.
        -- apply N.eqb_neq in E. left. rewrite <- H1same; auto.
      * right. exists g'. rewrite Hsrc1 in E3 by now right. auto.
    + intros s o Ho. destruct (N.eqb (gd k g) s) eqn:E.
      * apply N.eqb_eq in E. subst s.
        assert (Hk : lookup o (dst_after i) = lookup o (sget w (gd k g))).
        { pose proof (g_keeps i tr fl o (gin_shallow e k w g) Hw1 EO) as Hk.
          unfold i in Hk at 1 3. rewrite gin_dst in Hk. exact (Hk Ho). }
        rewrite C1; rewrite H1dst; auto.
        apply has_lookup in Ho. destruct Ho as [bb Hb]. apply has_lookup. exists bb. congruence.
      * apply N.eqb_neq in E. rewrite C1; rewrite H1same; auto.
    + intros g' o [<-|Hg'] Ho.
      * assert (F1 : forall x, t_fails i x = false).
        { intros x. unfold i. rewrite gin_fails. apply Hnf. }
        assert (F2 : forall x, In x (t_req i) -> has (t_src i) x = true).
        { intros x Hx. unfold i in *. rewrite gin_src. rewrite gin_req in Hx. apply Hsrc; auto. }
        assert (F3 : forall D bb, is_dir_oid D = true -> lookup D (t_src i) = Some bb -> t_parse i bb <> None).
        { intros D bb HD HL. unfold i in *. rewrite gin_parse. rewrite gin_src in HL.
          apply (Hparse g D bb); auto. }
        assert (F4 : In o (t_req i)) by (unfold i; now rewrite gin_req).
        pose proof (g_complete i tr fl Hw (gin_shallow e k w g) (gin_verify e k w g) EO F1 F2 F3 o F4) as Hh.
        rewrite <- H1dst in Hh. apply has_lookup in Hh. destruct Hh as [bb Hb].
        apply has_lookup. exists bb. rewrite C1; auto. apply has_lookup. eauto.
      * apply D1; auto.
Qed.

(* ---- well-formedness at every turn, from hypotheses on the initial stores only ---- *)
Lemma gin_cache e k w g : t_cache (gin e k w g) = Some (sget w (gd k g)).
Proof. destruct k; reflexivity. Qed.

Section TurnsWf.
Variables (e : env) (k : rkind) (w0 : stores).
Hypothesis Hb : ord_ok (e_bord e).
Hypothesis Hd : ord_ok (e_dord e).
Hypothesis Hflat : forall b l f, e_parse e b = Some l -> In f l -> is_dir_oid f = false.
Hypothesis Htr : e_parse e [] = None.
(* content addressing over all stores in play: one id, one listing *)
Hypothesis GA : forall s1 s2 D b1 b2,
  lookup D (sget w0 s1) = Some b1 -> lookup D (sget w0 s2) = Some b2 -> e_parse e b1 = e_parse e b2.

(* every object of the current stores has its bytes in some initial store *)
Definition origin (w : stores) : Prop :=
  forall s o b, lookup o (sget w s) = Some b -> exists s0, lookup o (sget w0 s0) = Some b.
(* a group requests every directory together with the files it lists *)
Definition req_closed (g : group) : Prop :=
  forall D s b l f, In D (g_req g) -> is_dir_oid D = true ->
    lookup D (sget w0 s) = Some b -> e_parse e b = Some l -> In f l -> In f (g_req g).

Lemma wf_of_inv w g :
  origin w -> closed (e_parse e) (sget w (gd k g)) -> req_closed g -> wf (gin e k w g).
Proof.
  intros Hor Hcl Hreq. constructor.
  - destruct k; exact Hb.
  - destruct k; exact Hd.
  - intros b l f. rewrite gin_parse. apply Hflat.
  - unfold coherent, status_cache. rewrite gin_cache, gin_parse, gin_src, gin_dst.
    split; intros D b1 b2 L1 L2; destruct (Hor _ _ _ L1) as [s1 O1]; destruct (Hor _ _ _ L2) as [s2 O2];
      eapply GA; eauto.
  - now rewrite gin_parse, gin_dst.
  - unfold ix_sound. destruct k; simpl; auto. right. intros o H. discriminate.
  - right. intros D l f HD Hdir HT Hf. rewrite gin_req in *.
    unfold find_tree in HT. rewrite gin_cache, gin_parse, gin_src in HT.
    destruct (load_ok (e_parse e) (sget w (gd k g)) D) as [l'|] eqn:E1.
    + inversion HT; subst l'. apply load_ok_some in E1. destruct E1 as [b [L P]].
      destruct (Hor _ _ _ L) as [s0 O]. exact (Hreq D s0 b l f HD Hdir O P Hf).
    + apply load_ok_some in HT. destruct HT as [b [L P]].
      destruct (Hor _ _ _ L) as [s0 O]. exact (Hreq D s0 b l f HD Hdir O P Hf).
  - intros o Ho. rewrite gin_trunc, gin_parse. exact Htr.
Qed.

Lemma turns_wf : forall gs w,
  origin w -> (forall g, In g gs -> closed (e_parse e) (sget w (gd k g))) ->
  (forall g, In g gs -> req_closed g) -> turns wf e k gs w.
Proof.
  induction gs as [|g r IH]; simpl; intros w Hor Hcl Hreq; auto.
  destruct (g_cache g) as [c|] eqn:Ec; auto.
  destruct (N.eqb c (g_data g)).
  - apply IH; auto.
  - assert (Hw : wf (gin e k w g)) by (apply wf_of_inv; auto).
    split; auto. set (i := gin e k w g) in *. apply IH.
    + intros s o b HL. rewrite sget_sset in HL. destruct (N.eqb (gd k g) s); [|eauto].
      rewrite dst_after_eq in HL. apply apply_dst_origin in HL. destruct HL as [HL|[HL|HL]].
      * unfold i in HL. rewrite gin_dst in HL. eauto.
      * unfold i in HL. rewrite gin_src in HL. eauto.
      * exfalso. refine (no_partial i (wf_bord _ Hw) _ o b HL). intros x. apply gin_part.
    + intros g' Hg'. rewrite sget_sset. destruct (N.eqb (gd k g) (gd k g')); [|auto].
      pose proof (final_closed i Hw) as Hc. unfold i in Hc at 1. now rewrite gin_parse in Hc.
    + auto.
Qed.
End TurnsWf.

(* fetch, any number of remote groups per cache, no fault: every cache holds its groups' requests;
   what it gained was requested, is reachable, and has the remote's bytes *)
Theorem fetch_exact_seq : forall e m idx w out,
  ord_ok (e_bord e) -> ord_ok (e_dord e) ->
  (forall b l f, e_parse e b = Some l -> In f l -> is_dir_oid f = false) ->
  e_parse e [] = None ->
  (forall s1 s2 D b1 b2, lookup D (sget w s1) = Some b1 -> lookup D (sget w s2) = Some b2 ->
                         e_parse e b1 = e_parse e b2) ->
  run_round e RFetch m idx w = out -> p_err out = None ->
  seqok RFetch (collect m idx) ->
  (forall g, In g (collect m idx) -> closed (e_parse e) (sget w (gc g))) ->
  (forall g, In g (collect m idx) -> req_closed e w g) ->
  (forall s o, e_fails e s o = false) ->
  (forall g o, In g (collect m idx) -> In o (g_req g) -> has (sget w (g_data g)) o = true) ->
  (forall g D b, In g (collect m idx) -> is_dir_oid D = true ->
                 lookup D (sget w (g_data g)) = Some b -> e_parse e b <> None) ->
  (forall g o, In g (collect m idx) -> In o (g_req g) -> has (sget (p_w out) (gc g)) o = true) /\
  (forall c o b, lookup o (sget (p_w out) c) = Some b ->
     lookup o (sget w c) = Some b \/
     exists g, In g (collect m idx) /\ gc g = c /\ In o (g_req g) /\ In o (reachable idx) /\
               lookup o (sget w (g_data g)) = Some b).
Proof.
  intros e m idx w out Hb Hd Hflat Htr GA Hrun Herr HS Hcl Hreq Hnf Hsrc Hparse.
  assert (HT : turns wf e RFetch (collect m idx) w).
  { apply (turns_wf e RFetch w Hb Hd Hflat Htr GA); auto. intros s o b H. eauto. }
  destruct (seq_spec e RFetch Hnf (collect m idx) w 0 0 out HS HT Hrun Herr Hsrc Hparse) as [_ [B [_ D]]].
  split; [exact D|].
  intros c o b HL. destruct (B c o b HL) as [H|[g [Hg [E1 [E2 E3]]]]]; auto.
  right. exists g. repeat split; auto. eapply collect_reachable; eauto.
Qed.

(* ... and the checkout from those caches *)
Theorem checkout_spec_seq : forall e m idx w out,
  NoDup (map fst m) ->
  ord_ok (e_bord e) -> ord_ok (e_dord e) ->
  (forall b l f, e_parse e b = Some l -> In f l -> is_dir_oid f = false) ->
  e_parse e [] = None ->
  (forall s1 s2 D b1 b2, lookup D (sget w s1) = Some b1 -> lookup D (sget w s2) = Some b2 ->
                         e_parse e b1 = e_parse e b2) ->
  run_round e RFetch m idx w = out -> p_err out = None ->
  seqok RFetch (collect m idx) ->
  (forall g, In g (collect m idx) -> sget w (gc g) = []) ->
  (forall g, In g (collect m idx) -> req_closed e w g) ->
  (forall s o, e_fails e s o = false) ->
  (forall g o, In g (collect m idx) -> In o (g_req g) -> has (sget w (g_data g)) o = true) ->
  (forall g D b, In g (collect m idx) -> is_dir_oid D = true ->
                 lookup D (sget w (g_data g)) = Some b -> e_parse e b <> None) ->
  (forall g k o, In g (collect m idx) -> In (k, o) (entries m idx) ->
                 remote_of m k = Some (g_data g) -> cache_of m k = g_cache g) ->
  forall k o r, In (k, o) (entries m idx) -> is_file_oid o = true -> remote_of m k = Some r ->
    exists b r', lookup o (sget w r') = Some b /\ In (k, Some b) (checkout_view m idx (p_w out)).
Proof.
  intros e m idx w out Hn Hb Hd Hflat Htr GA Hrun Herr HS Hempty Hreq Hnf Hsrc Hparse Hsc.
  assert (Hcl : forall g, In g (collect m idx) -> closed (e_parse e) (sget w (gc g))).
  { intros g Hg. rewrite (Hempty g Hg). intros D l f H. unfold listing in H. simpl in H.
    destruct (is_dir_oid D); discriminate. }
  destruct (fetch_exact_seq e m idx w out Hb Hd Hflat Htr GA Hrun Herr HS Hcl Hreq Hnf Hsrc Hparse) as [F1 F2].
  apply (checkout_from_facts m idx w (p_w out)); auto.
  - destruct HS as [A _]. exact A.
  - intros g o b Hg HL. destruct (F2 (gc g) o b HL) as [H|[g' [Hg' [_ [_ [_ E3]]]]]].
    + rewrite (Hempty g Hg) in H. discriminate.
    + exists g'. auto.
Qed.

(* ====================================================================================== *)
(* remotes with a real index (Model: run_groups_ix): where no group's remote has one, it is the
   index-free run the theorems above are about *)
Lemma run_groups_ix_noindex e k : forall gs w x a b,
  (forall g, In g gs -> iget x (g_data g) = None) ->
  run_groups_ix e k gs w x a b = (run_groups e k gs w a b, x).
Proof.
  induction gs as [|g r IH]; simpl; intros w x a b H; auto.
  destruct (g_cache g) as [c|]; auto.
  destruct (N.eqb c (g_data g)); [apply IH; intros; apply H; auto|].
  assert (E : iget x (g_data g) = None) by (apply H; auto).
  unfold group_in_ix, ix_after. rewrite E.
  destruct (o_outcome (transfer (group_in e k w g c))); auto; try (apply IH; intros; apply H; auto).
Qed.
Lemma run_round_ix_noindex e k m idx w :
  run_round_ix e k m idx w [] = (run_round e k m idx w, []).
Proof. apply run_groups_ix_noindex. reflexivity. Qed.

(* read_only remotes: with none attached, collect(push=True) is collect *)
Lemma collect_ro_nil m idx : collect_ro [] m idx = collect m idx.
Proof. reflexivity. Qed.
Lemma run_round_ro_nil e k m idx w x : run_round_ro e k [] m idx w x = run_round_ix e k m idx w x.
Proof. destruct k; reflexivity. Qed.
(* a read_only remote is no group of a push: it is never a destination, nothing is written to it *)
Lemma collect_ro_fold_skips ro m idx : forall l acc,
  (forall g, In g acc -> existsb (N.eqb (g_data g)) ro = false) ->
  forall g, In g (fold_left (collect_step_ro ro m idx) l acc) -> existsb (N.eqb (g_data g)) ro = false.
Proof.
  induction l as [|ps l IH]; simpl; intros acc Hacc; auto.
  apply IH. intros g Hg. unfold collect_step_ro in Hg.
  destruct (getitem m (fst ps)) as [si|]; auto. destruct (si_remote si) as [d|]; auto.
  destruct (existsb (N.eqb d) ro) eqn:E; auto.
  assert (Hd : In (g_data g) (map g_data (add_group d (si_cache si) (under (fst ps) (entries m idx)) acc)))
    by now apply in_map.
  clear Hg. revert Hd. generalize (under (fst ps) (entries m idx)). intros oids.
  induction acc as [|g0 r IHr]; simpl.
  - intros [<-|[]]. exact E.
  - destruct (N.eqb (g_data g0) d) eqn:E0; simpl.
    + intros [<-|H]; [exact E|]. apply in_map_iff in H. destruct H as [g1 [<- H1]]. apply Hacc. now right.
    + intros [<-|H]; [apply Hacc; now left|]. apply IHr; auto. intros g1 H1. apply Hacc. now right.
Qed.
Lemma collect_ro_skips ro m idx g : In g (collect_ro ro m idx) -> existsb (N.eqb (g_data g)) ro = false.
Proof. unfold collect_ro. apply collect_ro_fold_skips. intros ? []. Qed.
