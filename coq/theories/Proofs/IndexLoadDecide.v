(* C17 - the hypotheses of the theorems are decidable: [hypsb] (evaluated by the harness on every
   generated well-formed case) implies ok, wf, NoDup of the keys and tree-shaped listings. *)
From Coq Require Import NArith PeanoNat List Bool Lia.
From DvcData Require Import Base.Val Model.IndexLoad Proofs.IndexLoadBase Proofs.IndexLoadProofs Proofs.IndexLoadThms Proofs.IndexLoadExplicit.
Import ListNotations.
Open Scope N_scope.

Lemma okb_ok E i : okb E i = true -> ok E i.
Proof.
  unfold okb. rewrite forallb_forall. intros H x Hx L. specialize (H x Hx). rewrite L in H. simpl in H.
  destruct (listing_of E (snd x)); [discriminate | discriminate].
Qed.

Lemma nodupb_nodup l : nodupb l = true -> NoDup l.
Proof.
  induction l as [|k r IH]; simpl; [constructor|]. intros H. apply andb_true_iff in H as [H1 H2].
  constructor; [|now apply IH]. intros C. apply negb_true_iff in H1.
  assert (mem_key k r = true) as M; [|congruence].
  unfold mem_key. apply existsb_exists. exists k. split; [assumption | apply key_eqb_refl].
Qed.

Lemma nodup_keys_eq (i : idx) x y : NoDup (map fst i) -> In x i -> In y i -> fst y = fst x -> y = x.
Proof.
  induction i as [|a i IH]; intros ND Hx Hy Q; [destruct Hx|].
  simpl in ND. apply NoDup_cons_iff in ND as [NI ND].
  destruct Hx as [->|Hx], Hy as [->|Hy]; try reflexivity.
  - exfalso. apply NI. rewrite <- Q. now apply in_map.
  - exfalso. apply NI. rewrite Q. now apply in_map.
  - now apply IH.
Qed.

Lemma wfb_wf E i : wfb E i = true -> NoDup (map fst i) -> wf E i.
Proof.
  unfold wfb. intros H1 ND. rewrite forallb_forall in H1.
  intros x y Hx Hy L P. specialize (H1 x Hx). rewrite L in H1. simpl in H1.
  rewrite forallb_forall in H1. specialize (H1 y Hy). rewrite P in H1. simpl in H1.
  apply key_eqb_eq in H1. now apply (nodup_keys_eq i).
Qed.

Lemma tree_rowsb_tree rows : tree_rowsb rows = true -> tree_rows rows.
Proof.
  unfold tree_rowsb. rewrite forallb_forall. intros H r1 r2 H1 H2 P.
  specialize (H r1 H1). rewrite forallb_forall in H. specialize (H r2 H2). rewrite P in H. simpl in H.
  now apply key_eqb_eq.
Qed.

Lemma lwfb_lwf E i : lwfb E i = true -> lwf E i.
Proof.
  unfold lwfb. rewrite forallb_forall. intros H x rows Hx R. specialize (H x Hx). rewrite R in H.
  now apply tree_rowsb_tree.
Qed.

Theorem hypsb_sound E i : hypsb E i = true ->
  ok E i /\ wf E i /\ NoDup (map fst i) /\ lwf E i.
Proof.
  unfold hypsb. intros H. apply andb_true_iff in H as [H H4]. apply andb_true_iff in H as [H H3].
  apply andb_true_iff in H as [H1 H2].
  pose proof (nodupb_nodup _ H2) as ND.
  auto using okb_ok, wfb_wf, lwfb_lwf.
Qed.

(* both main statements under the one computable hypothesis *)
Theorem checked E i ops : hypsb E i = true ->
  answers E i ops = answers E (load_all E i) ops /\
  project (load_all E i) = project (explicit E i).
Proof.
  intros H. destruct (hypsb_sound E i H) as [Hok [Hwf [ND LW]]]. split.
  - now apply transparent.
  - now apply explicit_projection.
Qed.

Example ex_hypsb : hypsb ex_env ex_idx = true.
Proof. vm_compute. reflexivity. Qed.
