(* C08, part 9: `roots` for ANY options (shallow = True included).

   The queue of `_diff` started from a list of roots, in closed form over the nodes
   (key, old side visible, new side visible) of Proofs/IndexDiffShallow.v: root by root, what visiting
   the root and the children of every node reached from it yields.  For prefix-free roots no key is
   reported twice (any indexes, any options), and for well-formed indexes every key at or below a
   root with no hashed entry strictly between (the root included) is reported exactly as the flat
   reference classifies it. *)
From Coq Require Import NArith List Bool Arith Lia Permutation.
From DvcData Require Import Base.Val Base.PyBase Gen.PyTypes Gen.IDiff Model.Trie Model.IndexDiff Proofs.IndexDiffProofsBase Proofs.IndexDiffBfs Proofs.IndexDiffRefine Proofs.IndexDiffShallow Proofs.IndexDiffRoots.
Import ListNotations.

Lemma Permutation_flat_map_pointwise {A B} (f g : A -> list B) l :
  (forall a, In a l -> Permutation (f a) (g a)) -> Permutation (flat_map f l) (flat_map g l).
Proof.
  induction l as [|x l IH]; intros H; simpl; [constructor|].
  apply Permutation_app; [apply H; now left | apply IH; intros a Ha; apply H; now right].
Qed.

Lemma family_filter {A} (q : key -> A -> bool) rs (l : list A) :
  NoDup rs -> (forall a b k, In a rs -> In b rs -> q a k = true -> q b k = true -> a = b) ->
  Permutation (flat_map (fun r => filter (q r) l) rs) (filter (fun k => existsb (fun r => q r k) rs) l).
Proof.
  intros Hnd Hq. induction rs as [|r rs IH]; simpl.
  - induction l; simpl; [constructor | assumption].
  - inversion Hnd as [|? ? Hr Hnd']; subst. symmetry.
    etransitivity; [apply (filter_or_disjoint (q r) (fun k => existsb (fun r' => q r' k) rs))|].
    + intros k _ H1 H2. apply existsb_exists in H2 as [r' [Hr' H2]].
      assert (r = r') by (apply (Hq r r' k); [now left | now right | assumption | assumption]).
      subst r'. contradiction.
    + apply Permutation_app_head. symmetry. apply IH; [assumption|].
      intros a b k Ha Hb. apply Hq; now right.
Qed.

Lemma flat_map_if_fst {B} (P : key -> bool) (f : key -> list B) (l : list node) :
  flat_map (fun n => if P (fst n) then f (fst n) else []) l = flat_map f (filter P (map fst l)).
Proof.
  rewrite <- map_filter_fst, flat_map_map. induction l as [|n l IH]; simpl; [reflexivity|].
  destruct (P (fst n)); simpl; now rewrite IH.
Qed.

Definition rn (r : key) : node := (r, (true, true)).

Section RootsSh.
  Variables (o : opts) (old new : option index).

  Definition rsnode := (key + node)%type.
  Definition rsg (n : rsnode) : items * items :=
    match n with inl r => ritem old new r | inr x => sitem o old new x end.
  Definition rsout (n : rsnode) : list change :=
    match n with
    | inl r => flat_map (syield o old new) (map rn (rkeys old new r))
    | inr x => flat_map (syield o old new) (schildren o old new x)
    end.
  Definition rskids (n : rsnode) : list rsnode :=
    match n with
    | inl r => map inr (filter (sdesc o old new) (map rn (rkeys old new r)))
    | inr x => map inr (skids o old new x)
    end.
  Definition rsrank (n : rsnode) : nat :=
    match n with inl _ => S (depth_bound old new) | inr x => srank old new x end.

  Lemma rsout_g n : step_out o old new (rsg n) = rsout n.
  Proof.
    destruct n as [r|x]; [|apply s_step_out].
    unfold rsg, ritem, step_out. cbn [fst snd rsout]. fold (rkeys old new r). rewrite flat_map_map.
    apply flat_map_ext_In. intros c Hc. apply rkeys_In in Hc. subst c.
    unfold syield, rn, noi, nni, sinfo. cbn [fst snd]. now rewrite !root_items_at_get.
  Qed.

  Lemma rskids_g n : step_todo o old new (rsg n) = map rsg (rskids n).
  Proof.
    destruct n as [r|x]; cbn [rsg rskids]; rewrite map_map; cbn [rsg]; [|apply s_step_todo].
    unfold ritem, step_todo. cbn [fst snd]. fold (rkeys old new r). rewrite <- flat_map_if, flat_map_map.
    apply flat_map_ext_In. intros c Hc. apply rkeys_In in Hc. subst c.
    rewrite !root_items_at_get, visit_snd_gen. unfold sdesc, sitem, slo, sln, rn, noi, nni, sinfo. cbn [fst snd].
    destruct (snd (visit o old new r (linfo old r) (linfo new r))); reflexivity.
  Qed.

  Lemma rsrank_kids a c : In c (rskids a) -> (rsrank c < rsrank a)%nat.
  Proof.
    destruct a as [r|x]; cbn [rskids]; intros H; apply in_map_iff in H as [y [<- Hy]]; cbn [rsrank].
    - unfold srank. lia.
    - now apply (srank_kids o).
  Qed.

  Lemma rstree_inr m : forall x, tree rskids m (inr x) = map inr (tree (skids o old new) m x).
  Proof.
    induction m as [|m IH]; intros x; [reflexivity|].
    cbn [tree rskids map]. f_equal. rewrite flat_map_map, map_flat_map.
    apply flat_map_ext. intros c. apply IH.
  Qed.

  Definition srreached (r : key) : list node :=
    flat_map (tree (skids o old new) (depth_bound old new))
             (filter (sdesc o old new) (map rn (rkeys old new r))).
  Definition srvisited (r : key) : list node :=
    map rn (rkeys old new r) ++ flat_map (schildren o old new) (srreached r).

  Lemma rstree_inl r :
    tree rskids (S (depth_bound old new)) (inl r) = inl r :: map inr (srreached r).
  Proof.
    cbn [tree rskids]. f_equal. rewrite flat_map_map. unfold srreached. rewrite map_flat_map.
    apply flat_map_ext. intros c. apply rstree_inr.
  Qed.

  Lemma rsout_tree_inl r :
    flat_map rsout (tree rskids (S (depth_bound old new)) (inl r)) = flat_map (syield o old new) (srvisited r).
  Proof.
    rewrite rstree_inl. cbn [flat_map rsout]. unfold srvisited. rewrite flat_map_app, flat_map_map. f_equal.
    cbn [rsout]. induction (srreached r) as [|a l IH]; simpl; [reflexivity|]. now rewrite flat_map_app, IH.
  Qed.

  Lemma srreached_eq r :
    srreached r = if is_some (linfo old r) || is_some (linfo new r)
                  then if sdesc o old new (rn r) then tree (skids o old new) (depth_bound old new) (rn r) else []
                  else [].
  Proof.
    unfold srreached. rewrite rkeys_eq. destruct (_ || _); simpl; [|reflexivity].
    destruct (sdesc o old new (rn r)); simpl; [apply app_nil_r | reflexivity].
  Qed.

  Lemma srreached_keys_NoDup r : NoDup (map fst (srreached r)).
  Proof.
    rewrite srreached_eq. destruct (_ || _); [|constructor]. destruct (sdesc o old new (rn r)); [|constructor].
    apply stree_keys_NoDup.
  Qed.

  Lemma srreached_extends r x : In x (srreached r) -> exists s, fst x = r ++ s.
  Proof.
    rewrite srreached_eq. destruct (_ || _); [|intros []]. destruct (sdesc o old new (rn r)); [|intros []].
    intros H. apply stree_extends in H. exact H.
  Qed.

  Lemma srreached_nodes r x : In x (srreached r) -> In (fst x) (nodes (idx old) ++ nodes (idx new)).
  Proof.
    rewrite srreached_eq. destruct (is_some (linfo old r) || is_some (linfo new r)) eqn:E; [|intros []].
    destruct (sdesc o old new (rn r)); [|intros []]. intros H.
    apply tree_In_cases in H as [->|[p Hp]].
    - cbn [rn fst]. apply in_or_app. apply orb_true_iff in E as [E|E]; [left | right]; now apply linfo_some_node.
    - apply skids_child in Hp as [m [-> Hn]]. cbn [mkchild fst] in *. apply in_or_app.
      assert (Hnn : forall ix, has_node ix (fst p ++ [m]) = is_node ix (fst p ++ [m])) by (intros; destruct (fst p); reflexivity).
      destruct Hn as [Hn|Hn]; [left | right]; apply nodes_spec.
      + destruct old as [ix|]; simpl in *; [now rewrite <- Hnn | discriminate].
      + destruct new as [ix|]; simpl in *; [now rewrite <- Hnn | discriminate].
  Qed.

  Lemma srreached_length r :
    (length (srreached r) <= length (nodes (idx old)) + length (nodes (idx new)))%nat.
  Proof.
    rewrite <- app_length. replace (length (srreached r)) with (length (map fst (srreached r))) by apply map_length.
    apply NoDup_incl_length; [apply srreached_keys_NoDup|].
    intros k Hk. apply in_map_iff in Hk as [x [<- Hx]]. exact (srreached_nodes r x Hx).
  Qed.

  Lemma map_fst_srvisited r :
    map fst (srvisited r) = rkeys old new r ++ flat_map (ckeys o old new) (srreached r).
  Proof.
    unfold srvisited. rewrite map_app, map_map. cbn [rn fst]. rewrite map_id, map_flat_map.
    f_equal. apply flat_map_ext. intros n. apply map_fst_schildren.
  Qed.

  Lemma srvisited_extends r k : In k (map fst (srvisited r)) -> is_prefix r k = true.
  Proof.
    rewrite map_fst_srvisited, in_app_iff, is_prefix_spec. intros [H|H].
    - apply rkeys_In in H. subst k. exists []. now rewrite app_nil_r.
    - apply in_flat_map in H as [p [Hp Hk]]. apply srreached_extends in Hp as [s Hs].
      apply ckeys_spec in Hk as [m [-> _]]. rewrite Hs. exists (s ++ [m]). now rewrite app_assoc.
  Qed.

  Lemma srvisited_keys_NoDup r : NoDup (map fst (srvisited r)).
  Proof.
    rewrite map_fst_srvisited. apply NoDup_app_intro.
    - apply rkeys_NoDup.
    - apply NoDup_flat_map.
      + apply (NoDup_map_inv fst), srreached_keys_NoDup.
      + intros a _. apply ckeys_NoDup.
      + intros a b x Ha Hb Hxa Hxb. apply ckeys_spec in Hxa as [m1 [-> _]]. apply ckeys_spec in Hxb as [m2 [E _]].
        apply app_inj_tail in E as [E _]. exact (NoDup_map_eq fst (srreached r) a b (srreached_keys_NoDup r) Ha Hb E).
    - intros x Hx Hf. apply rkeys_In in Hx. subst x. apply in_flat_map in Hf as [a [Ha Hc]].
      apply ckeys_spec in Hc as [m [E _]]. apply srreached_extends in Ha as [s Hs]. rewrite Hs in E.
      apply (f_equal (@length _)) in E. rewrite !app_length in E. simpl in E. lia.
  Qed.

  (* ---- the closed form: any options, any indexes, any roots ---------------------------------------------------- *)
  Theorem roots_closed_gen rs fuel :
    (fuel_for_roots old new rs <= fuel)%nat ->
    exists cs, diff_core_roots o old new rs fuel = Some cs /\
               Permutation cs (flat_map (fun r => flat_map (syield o old new) (srvisited r)) (eff_roots rs)).
  Proof.
    intros Hf. unfold diff_core_roots, root_queue.
    replace (map (fun r => (root_items_at old r, root_items_at new r)) (eff_roots rs))
      with (map rsg (map inl (eff_roots rs))) by (rewrite map_map; reflexivity).
    rewrite (bfsq_map (step_out o old new) (step_todo o old new) rsout rskids rsg rsout_g rskids_g).
    destruct (bfsq_tree rsout rskids rsrank rsrank_kids (S (depth_bound old new)) fuel (map inl (eff_roots rs)))
      as [cs [E P]].
    - apply Forall_forall. intros n Hn. apply in_map_iff in Hn as [r [<- _]]. cbn [rsrank]. lia.
    - rewrite flat_map_map. etransitivity; [apply (length_flat_map_le _ (fuel_for old new))|].
      + intros r _. rewrite rstree_inl. simpl. rewrite map_length. pose proof (srreached_length r).
        unfold fuel_for. lia.
      + unfold fuel_for_roots in Hf. lia.
    - exists cs. split; [assumption|]. etransitivity; [exact P|]. rewrite flat_map_map.
      clear. induction (eff_roots rs) as [|r l IH]; cbn [flat_map]; [constructor|].
      rewrite flat_map_app, rsout_tree_inl. now apply Permutation_app_head.
  Qed.

  (* prefix-free roots: no key is reported twice - any options, any (also ill-formed) indexes *)
  Theorem roots_keys_once_gen rs fuel cs :
    antichain (eff_roots rs) -> (fuel_for_roots old new rs <= fuel)%nat ->
    diff_core_roots o old new rs fuel = Some cs -> NoDup (map change_key cs).
  Proof.
    intros [Hnd Ha] Hf E. destruct (roots_closed_gen rs fuel Hf) as [cs' [E' P]]. rewrite E in E'. injection E' as <-.
    apply (Permutation_NoDup (l := map change_key (flat_map (fun r => flat_map (syield o old new) (srvisited r)) (eff_roots rs)))).
    { symmetry. now apply Permutation_map. }
    assert (Hk : NoDup (map fst (flat_map srvisited (eff_roots rs)))).
    { rewrite map_flat_map. apply NoDup_flat_map; [assumption | intros r _; apply srvisited_keys_NoDup|].
      intros a b k Hia Hib Hka Hkb. apply srvisited_extends in Hka. apply srvisited_extends in Hkb.
      destruct (prefixes_comparable a b k Hka Hkb) as [H|H]; [now apply Ha | symmetry; now apply Ha]. }
    replace (flat_map (fun r => flat_map (syield o old new) (srvisited r)) (eff_roots rs))
      with (flat_map (syield o old new) (flat_map srvisited (eff_roots rs))).
    - apply (NoDup_keys_flat_map fst change_key (syield o old new) _ Hk (syield_key o old new) (syield_length o old new)).
    - clear. induction (eff_roots rs) as [|r l IH]; simpl; [reflexivity|]. now rewrite flat_map_app, IH.
  Qed.

  (* ---- keys with no hashed entry between the root (included) and the key (excluded) ------------------------------ *)
  Definition rtopk (r k : key) : bool :=
    negb (existsb (hashed_at old new) (filter (is_prefix r) (sprefixes k))).
  Definition qroot (r k : key) : bool := is_prefix r k && rtopk r k.
  Definition rtop (rs : list key) (k : key) : bool := existsb (fun r => qroot r k) rs.

  Lemma rtopk_prefix r k p : rtopk r k = true -> strict_prefix p k -> is_prefix r p = true ->
    hashed_at old new p = false.
  Proof.
    unfold rtopk. rewrite negb_true_iff. intros H Hp Hr. destruct (hashed_at old new p) eqn:E; [|reflexivity].
    assert (existsb (hashed_at old new) (filter (is_prefix r) (sprefixes k)) = true); [|congruence].
    apply existsb_exists. exists p. split; [|assumption]. apply filter_In. split; [now apply sprefixes_spec | assumption].
  Qed.

  Lemma srtop_flags r x : In x (srvisited r) -> rtopk r (fst x) = true -> snd x = (true, true).
  Proof.
    unfold srvisited. intros H Ht. apply in_app_or in H as [H|H].
    - apply in_map_iff in H as [k [<- _]]. reflexivity.
    - apply in_flat_map in H as [p [Hp H]]. unfold schildren in H. apply in_map_iff in H as [c [<- Hc]].
      apply ckeys_spec in Hc as [m [-> _]]. cbn [mkchild fst snd] in *.
      apply srreached_extends in Hp as [s Hs].
      assert (Hu : hashed_at old new (fst p) = false).
      { apply (rtopk_prefix r _ _ Ht); [exists m, []; reflexivity|]. apply is_prefix_spec. now exists s. }
      destruct (nocut_of_unhashed o old new p Hu) as [-> ->]. reflexivity.
  Qed.

  Lemma srreached_step r p c :
    In p (srreached r) -> In c (schildren o old new p) -> sdesc o old new c = true -> In c (srreached r).
  Proof.
    rewrite srreached_eq. destruct (_ || _); [|tauto]. destruct (sdesc o old new (rn r)); [|tauto]. intros Hp Hc Hd.
    apply (tree_In_closed (skids o old new) (srank old new) (srank_kids o old new) _ (rn r) p c).
    - unfold srank. lia.
    - assumption.
    - unfold skids. apply filter_In. now split.
  Qed.

  Section OneRootSh.
    Hypothesis Hwo : WfO old.
    Hypothesis Hwn : WfO new.
    Hypothesis Hhc : shortcut_on o = true -> HashConsistent old new.

    Lemma prefix_srreached r k : cls o old new k <> [] -> rtopk r k = true ->
      forall s, strict_prefix (r ++ s) k -> In (rn (r ++ s)) (srreached r).
    Proof.
      intros Hc Ht s. induction s as [|m q IH] using rev_ind; intros Hp.
      - rewrite app_nil_r in *. rewrite srreached_eq.
        destruct Hp as [x [t E]]. rewrite (prefix_linfo o old new Hwo Hwn Hhc k r (x :: t) Hc E).
        change (sdesc o old new (rn r)) with (vdesc o old new r).
        rewrite (vdesc_above o old new Hwo Hwn Hhc r k Hc) by now exists x, t.
        apply tree_head.
      - destruct Hp as [x [t E]]. rewrite app_assoc in *.
        assert (Hq : strict_prefix (r ++ q) k) by (exists m, (x :: t); now rewrite E, <- !app_assoc).
        assert (Hu : hashed_at old new (r ++ q) = false).
        { apply (rtopk_prefix r k _ Ht Hq). apply is_prefix_spec. now exists q. }
        destruct (nocut_of_unhashed o old new (rn (r ++ q)) Hu) as [C1 C2].
        apply (srreached_step r (rn (r ++ q))); [now apply IH | |].
        + unfold schildren. apply in_map_iff. exists ((r ++ q) ++ [m]). split.
          * unfold mkchild. now rewrite C1, C2.
          * apply ckeys_nocut; try assumption. cbn [rn fst]. apply children_spec. exists m. split; [reflexivity|].
            destruct (cls_valued _ _ _ _ Hc) as [H|H]; [left | right];
              apply (valued_hasn _ k ((r ++ q) ++ [m]) (x :: t) H E (snoc_nonnil (r ++ q) m)).
        + change (sdesc o old new (rn ((r ++ q) ++ [m]))) with (vdesc o old new ((r ++ q) ++ [m])).
          apply (vdesc_above o old new Hwo Hwn Hhc _ k Hc). now exists x, t.
    Qed.

    Lemma valued_srvisited r k : cls o old new k <> [] -> qroot r k = true -> In k (map fst (srvisited r)).
    Proof.
      intros Hc Hq. apply andb_true_iff in Hq as [Hp Ht]. apply is_prefix_spec in Hp as [s ->].
      rewrite map_fst_srvisited. apply in_or_app. destruct (last_case s) as [->|[s' [m ->]]].
      - left. rewrite app_nil_r in *. rewrite rkeys_eq, (valued_linfo o old new Hwo Hwn Hhc r Hc). now left.
      - right. apply in_flat_map. exists (rn (r ++ s')). split.
        + apply (prefix_srreached r _ Hc Ht). exists m, []. now rewrite app_assoc.
        + assert (Hu : hashed_at old new (r ++ s') = false).
          { apply (rtopk_prefix r _ _ Ht); [exists m, []; now rewrite app_assoc|]. apply is_prefix_spec. now exists s'. }
          destruct (nocut_of_unhashed o old new (rn (r ++ s')) Hu) as [C1 C2].
          apply ckeys_nocut; try assumption. cbn [rn fst]. rewrite app_assoc. apply children_spec. exists m.
          split; [reflexivity|]. rewrite app_assoc in Hc.
          destruct (cls_valued _ _ _ _ Hc) as [H|H]; [left | right];
            apply (valued_hasn _ ((r ++ s') ++ [m]) ((r ++ s') ++ [m]) [] H (eq_sym (app_nil_r _))
                     (snoc_nonnil (r ++ s') m)).
    Qed.

    Lemma one_root_top r :
      Permutation (filter (fun c => rtopk r (change_key c)) (flat_map (syield o old new) (srvisited r)))
                  (flat_map (cls o old new) (filter (qroot r) (all_keys old new))).
    Proof.
      rewrite filter_flat_map.
      rewrite (flat_map_ext_In _ (fun n => if rtopk r (fst n) then cls o old new (fst n) else []) (srvisited r)).
      - match goal with |- Permutation ?a _ =>
          replace a with (flat_map (cls o old new) (filter (rtopk r) (map fst (srvisited r))))
            by (symmetry; apply (flat_map_if_fst (rtopk r) (cls o old new)))
        end.
        apply flat_map_perm_support.
        + apply NoDup_filter, srvisited_keys_NoDup.
        + apply NoDup_filter, NoDup_dedup.
        + intros k Hk. rewrite !filter_In. unfold qroot. split.
          * intros [Hin Ht]. split; [now apply (cls_all_keys o)|]. now rewrite (srvisited_extends r k Hin), Ht.
          * intros [_ Hq]. split; [now apply valued_srvisited|]. now apply andb_true_iff in Hq as [_ ?].
      - intros n Hn. rewrite (filter_const (fun c => rtopk r (change_key c)) (rtopk r (fst n))).
        + destruct (rtopk r (fst n)) eqn:Et; [|reflexivity].
          pose proof (srtop_flags r n Hn Et) as Hfl. destruct n as [k fl]. simpl in Hfl. subst fl. apply syield_tt.
        + intros c Hc. now rewrite (syield_key o old new n c Hc).
    Qed.

    Lemma rtop_unique rs r k : antichain rs -> In r rs -> is_prefix r k = true -> rtop rs k = rtopk r k.
    Proof.
      intros [Hnd Ha] Hr Hp. unfold rtop. destruct (rtopk r k) eqn:Et.
      - apply existsb_exists. exists r. split; [assumption|]. unfold qroot. now rewrite Hp, Et.
      - destruct (existsb (fun r0 => qroot r0 k) rs) eqn:E; [|reflexivity].
        apply existsb_exists in E as [r' [Hr' Hq]]. apply andb_true_iff in Hq as [Hp' Ht'].
        assert (r = r').
        { destruct (prefixes_comparable r r' k Hp Hp') as [H|H]; [now apply Ha | symmetry; now apply Ha]. }
        subst r'. congruence.
    Qed.

    (* C08_roots_shallow *)
    Theorem roots_shallow_exact rs fuel :
      antichain (eff_roots rs) -> (fuel_for_roots old new rs <= fuel)%nat ->
      exists cs, diff_core_roots o old new rs fuel = Some cs /\
        NoDup (map change_key cs) /\
        Permutation (filter (fun c => rtop (eff_roots rs) (change_key c)) cs)
                    (flat_map (cls o old new) (filter (rtop (eff_roots rs)) (all_keys old new))).
    Proof.
      intros Ha Hf. destruct (roots_closed_gen rs fuel Hf) as [cs [E P]]. exists cs. split; [assumption|].
      split; [now apply (roots_keys_once_gen rs fuel)|].
      etransitivity; [apply Permutation_filter', P|]. rewrite filter_flat_map.
      etransitivity;
        [apply (Permutation_flat_map_pointwise _ (fun r => flat_map (cls o old new) (filter (qroot r) (all_keys old new))))|].
      - intros r Hr. etransitivity; [|apply (one_root_top r)].
        assert (Eq : filter (fun c => rtop (eff_roots rs) (change_key c)) (flat_map (syield o old new) (srvisited r)) =
                     filter (fun c => rtopk r (change_key c)) (flat_map (syield o old new) (srvisited r))).
        { apply filter_ext_in. intros c Hc. apply in_flat_map in Hc as [n [Hn Hc]].
          rewrite (syield_key o old new n c Hc). apply (rtop_unique _ r _ Ha Hr).
          apply srvisited_extends. now apply in_map. }
        rewrite Eq. apply Permutation_refl.
      - destruct Ha as [Hnd Ha].
        etransitivity; [|apply Permutation_flat_map, (family_filter qroot (eff_roots rs) (all_keys old new) Hnd)].
        + clear. induction (eff_roots rs) as [|r l IH]; simpl; [constructor|]. rewrite flat_map_app.
          now apply Permutation_app_head.
        + intros a b k Hia Hib Hqa Hqb. apply andb_true_iff in Hqa as [Hpa _]. apply andb_true_iff in Hqb as [Hpb _].
          destruct (prefixes_comparable a b k Hpa Hpb) as [H|H]; [now apply Ha | symmetry; now apply Ha].
    Qed.
  End OneRootSh.
End RootsSh.
