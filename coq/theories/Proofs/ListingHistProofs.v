(* C03 over histories of one Tree object: the answer to a query is the query on the dict that the
   preceding Adds produce; queries interleaved before it (which materialise the trie cache in the
   implementation) are irrelevant; hence the sub-directory theorem holds at every point of a
   tree's life, in particular after an existing entry was replaced. *)
From Coq Require Import NArith List Bool Permutation.
From DvcData Require Import Base.Val Base.MD5 Base.Json Model.Listing Model.ListingHist.
From DvcData Require Import Proofs.ListingSort Proofs.ListingProofs.
Import ListNotations.
Open Scope N_scope.

Definition adds_of (ops : list hop) : list entry :=
  flat_map (fun op => match op with HAdd e => [e] | _ => [] end) ops.

(* the dict after a history: only the Adds matter *)
Definition state_after (ops : list hop) (t : tree) : tree :=
  fold_left (fun t e => add e t) (adds_of ops) t.

Lemma state_after_cons op r t : state_after (op :: r) t = state_after r (hstep t op).
Proof. unfold state_after. destruct op; reflexivity. Qed.

Lemma run_hist_state ops : forall t, snd (run_hist ops t) = state_after ops t.
Proof.
  induction ops as [|op r IH]; intros t; [reflexivity|].
  cbn [run_hist]. specialize (IH (hstep t op)). destruct (run_hist r (hstep t op)) as [outs tf].
  cbn [snd] in *. now rewrite state_after_cons.
Qed.

Lemma run_hist_app a : forall b t,
  run_hist (a ++ b) t =
  (fst (run_hist a t) ++ fst (run_hist b (state_after a t)), state_after b (state_after a t)).
Proof.
  induction a as [|op r IH]; intros b t.
  - cbn [app run_hist fst]. unfold state_after at 1 3. cbn [adds_of flat_map fold_left app].
    rewrite <- run_hist_state. now destruct (run_hist b t).
  - cbn [app run_hist]. rewrite IH. rewrite !state_after_cons.
    destruct (run_hist r (hstep t op)) as [outs tf]. cbn [fst].
    destruct (answer op t); reflexivity.
Qed.

(* the answer to a query asked after a history *)
Theorem hist_query ops q t :
  fst (run_hist (ops ++ [q]) t) =
  fst (run_hist ops t) ++ match answer q (state_after ops t) with Some a => [a] | None => [] end.
Proof.
  rewrite run_hist_app. cbn [fst run_hist]. destruct (answer q (state_after ops t)); reflexivity.
Qed.

(* ... depends only on the Adds: two histories with the same Adds, whatever queries were
   interleaved, give the same dict and the same answer *)
Theorem hist_queries_irrelevant ops ops' q t :
  adds_of ops = adds_of ops' ->
  state_after ops t = state_after ops' t /\
  answer q (state_after ops t) = answer q (state_after ops' t).
Proof. unfold state_after. intros ->. split; reflexivity. Qed.

(* the sub-directory property at any point of the life of a tree *)
Theorem hist_get_obj_subtree ops t0 p sub others :
  KeysOk sub -> NoDupKeys sub -> sub <> [] ->
  (forall e, In e others -> is_prefix p (e_key e) = false) ->
  Permutation (state_after ops t0) (map (prepend p) sub ++ others) ->
  fst (run_hist (ops ++ [HGetObj p]) t0) = fst (run_hist ops t0) ++ [AObj (Some (digest sub))].
Proof.
  intros Hk Hn Hne Ho P. rewrite hist_query. cbn [answer].
  now rewrite (get_obj_subtree p sub others _ Hk Hn Hne Ho P).
Qed.

(* non-vacuity: build d/x, d/y; query (trie materialised); replace d/x; query again *)
Definition hx1 : entry := {| e_key := [[100]; [120]]; e_meta := None; e_hash := Some (s_md5, repeat 49 32) |}.
Definition hx2 : entry := {| e_key := [[100]; [120]]; e_meta := None; e_hash := Some (s_md5, repeat 50 32) |}.
Definition hy : entry := {| e_key := [[100]; [121]]; e_meta := None; e_hash := Some (s_md5, repeat 51 32) |}.
Definition ex_hist : list hop := [HAdd hx1; HAdd hy; HGetObj [[100]]; HFilter [[100]]; HAdd hx2].

Example ex_hist_state : state_after ex_hist [] = [hx2; hy].
Proof. reflexivity. Qed.

Example ex_hist_subtree :
  fst (run_hist (ex_hist ++ [HGetObj [[100]]]) []) =
  fst (run_hist ex_hist []) ++
  [AObj (Some (digest [ {| e_key := [[120]]; e_meta := None; e_hash := Some (s_md5, repeat 50 32) |};
                        {| e_key := [[121]]; e_meta := None; e_hash := Some (s_md5, repeat 51 32) |} ]))].
Proof.
  apply hist_get_obj_subtree with (others := []).
  - repeat constructor.
  - unfold NoDupKeys. cbn. repeat constructor; cbn; intuition discriminate.
  - discriminate.
  - intros e [].
  - rewrite ex_hist_state. reflexivity.
Qed.
