(* C02: the round trip theorems over the model of Model/RoundTrip.v.

   A source tree is given as the list, in walk order, of (directory key, [(file name, bytes)]) -
   one item per directory, directories without files included.  [walk_of p t] is what os.walk
   yields for it below the path p (as root strings), [files t] its {key |-> bytes} content. *)
From Coq Require Import NArith List Bool Lia Permutation.
From DvcData Require Import Base.Val Base.MD5 Base.Json Model.Listing Model.RoundTrip.
From DvcData Require Import Proofs.JsonProofs Proofs.RoundTripBase.
Import ListNotations.
Open Scope N_scope.

Definition wtree := list (key * list (name * bytes)).

Definition walk_of (p : list N) (t : wtree) : walk := map (fun df => (root_of p (fst df), snd df)) t.

Definition dir_files (df : key * list (name * bytes)) : list (key * bytes) :=
  map (fun nb => (fst df ++ [fst nb], snd nb)) (snd df).

Definition files (t : wtree) : list (key * bytes) := flat_map dir_files t.

Fixpoint total_size (fl : list (key * bytes)) : N :=
  match fl with
  | [] => 0
  | kb :: r => N.of_nat (length (snd kb)) + total_size r
  end.

(* names are non-empty, "/"-free and valid Unicode text; no file is called .dvcignore; the keys of
   the files are pairwise distinct *)
Record wf_tree (t : wtree) : Prop := {
  wf_dirs : Forall (fun df => Forall name_ok (fst df)) t;
  wf_names : Forall (fun df => Forall (fun nb => name_ok (fst nb) /\ fst nb <> dvcignore) (snd df)) t;
  wf_distinct : NoDup (map fst (files t)) }.

Definition text_tree (t : wtree) : Prop :=
  Forall (fun df => Forall (fun n => wf_string n = true) (fst df) /\
                    Forall (fun nb => wf_string (fst nb) = true) (snd df)) t.

Definition key_ok (k : key) : Prop := k <> [] /\ Forall sep_free k.

(* d is at or above k *)
Definition prefix_of (d k : key) : Prop := exists s, k = d ++ s.

Lemma fold_left_map {A B C} (f : A -> B -> A) (g : C -> B) l : forall a,
  fold_left (fun a x => f a (g x)) l a = fold_left f (map g l) a.
Proof. induction l; intros; simpl; auto. Qed.

Lemma total_size_app a b : total_size (a ++ b) = total_size a + total_size b.
Proof. induction a as [|x r IH]; simpl; [reflexivity|]. rewrite IH. now rewrite N.add_assoc. Qed.

Lemma fold_size fl : forall z,
  fold_left (fun z (kb : key * bytes) => z + N.of_nat (length (snd kb))) fl z = z + total_size fl.
Proof.
  induction fl as [|x r IH]; intros z; simpl; [now rewrite N.add_0_r|]. rewrite IH.
  now rewrite <- N.add_assoc.
Qed.

Lemma fold_size_names (d : key) (fl : list (name * bytes)) : forall z,
  fold_left (fun z (nb : name * bytes) => z + N.of_nat (length (snd nb))) fl z =
  z + total_size (map (fun nb => (d ++ [fst nb], snd nb)) fl).
Proof.
  induction fl as [|x r IH]; intros z; simpl; [now rewrite N.add_0_r|]. rewrite IH.
  now rewrite <- N.add_assoc.
Qed.

Lemma st_add_all_app a b s : st_add_all (a ++ b) s = st_add_all b (st_add_all a s).
Proof. unfold st_add_all. apply fold_left_app. Qed.

Lemma files_keys_ok t : wf_tree t -> Forall (fun kb => key_ok (fst kb)) (files t).
Proof.
  intros [Hd Hn _]. apply Forall_forall. intros [k b] Hi.
  apply in_flat_map in Hi as [df [Hdf Hi]]. apply in_map_iff in Hi as [nb [E Hnb]].
  injection E as <- <-. simpl.
  rewrite Forall_forall in Hd, Hn. specialize (Hd _ Hdf). specialize (Hn _ Hdf).
  rewrite Forall_forall in Hn. destruct (Hn _ Hnb) as [[_ Hs] _].
  split.
  - destruct (fst df); discriminate.
  - apply Forall_app. split.
    + eapply Forall_impl; [|exact Hd]. now intros a [_ Ha].
    + constructor; [exact Hs|constructor].
Qed.

Lemma files_text t : text_tree t ->
  Forall (fun kb => Forall (fun n => wf_string n = true) (fst kb)) (files t).
Proof.
  intros Ht. apply Forall_forall. intros [k b] Hi.
  apply in_flat_map in Hi as [df [Hdf Hi]]. apply in_map_iff in Hi as [nb [E Hnb]].
  injection E as <- <-. simpl.
  unfold text_tree in Ht. rewrite Forall_forall in Ht. destruct (Ht _ Hdf) as [H1 H2].
  apply Forall_app. split; [exact H1|].
  rewrite Forall_forall in H2. constructor; [now apply H2|constructor].
Qed.

(* ------------------------------------------------------------------ the walk *)
Lemma walk_files_of p t :
  Forall (fun df => Forall name_ok (fst df)) t -> walk_files p (walk_of p t) = files t.
Proof.
  induction t as [|df r IH]; intros Hd; [reflexivity|].
  inversion Hd as [|? ? H1 H2]; subst.
  unfold walk_files, files in *. simpl. rewrite IH by exact H2. f_equal.
  unfold dir_files. rewrite rel_key_root; [reflexivity|].
  eapply Forall_impl; [|exact H1]. now intros a [_ Ha].
Qed.

Lemma walk_dirs_of p t :
  Forall (fun df => Forall name_ok (fst df)) t ->
  walk_dirs p (walk_of p t) = filter (fun d => negb (is_nil d)) (map fst t).
Proof.
  intros Hd. unfold walk_dirs. f_equal. unfold walk_of. rewrite map_map.
  apply map_ext_in. intros df Hi. simpl. apply rel_key_root.
  rewrite Forall_forall in Hd. eapply Forall_impl; [|exact (Hd _ Hi)]. now intros a [_ Ha].
Qed.

Section WithDigest.
Variable H : bytes -> list N.

(* the digest yields non-empty text (md5_hex: 32 hex digits) *)
Definition digest_ok : Prop := forall x, wf_string (H x) = true /\ H x <> [].

Definition objs_of (fl : list (key * bytes)) : list (list N * bytes) :=
  map (fun kb => (H (snd kb), snd kb)) fl.

Definition built_tree (t : wtree) : tree := map (idx_entry H) (files t).

(* every object the round trip of t puts into the store *)
Definition in_play (t : wtree) : list (list N * bytes) :=
  objs_of (files t) ++ [(digestH H (built_tree t), as_bytes false (built_tree t))].

(* ------------------------------------------------------------------ stage *)
Lemma no_ignore_false (fl : list (name * bytes)) :
  Forall (fun nb => name_ok (fst nb) /\ fst nb <> dvcignore) fl ->
  existsb (fun nb => list_N_eqb (fst nb) dvcignore) fl = false.
Proof.
  induction fl as [|x r IH]; intros Hn; [reflexivity|]. simpl.
  inversion Hn as [|? ? [_ Hx] Hr]; subst.
  rewrite list_N_eqb_false by exact Hx. simpl. now apply IH.
Qed.

Lemma build_dir_spec p st df :
  Forall name_ok (fst df) -> Forall (fun nb => name_ok (fst nb) /\ fst nb <> dvcignore) (snd df) ->
  build_dir H p st (root_of p (fst df), snd df) =
  Ok {| b_tree := fold_left (fun t e => add e t) (map (idx_entry H) (dir_files df)) (b_tree st);
        b_store := st_add_all (objs_of (dir_files df)) (b_store st);
        b_size := b_size st + total_size (dir_files df) |}.
Proof.
  intros Hd Hn. destruct df as [d fl]. unfold build_dir, dir_files. simpl fst in *. simpl snd in *.
  pose proof (no_ignore_false fl Hn) as Hex.
  assert (Hrk : rel_key p (root_of p d) = d).
  { apply rel_key_root. eapply Forall_impl; [|exact Hd]. now intros a [_ Ha]. }
  destruct fl as [|x r].
  - simpl. destruct st. simpl. f_equal. f_equal. now rewrite N.add_0_r.
  - rewrite Hex. rewrite Hrk. f_equal. f_equal.
    + rewrite !map_map. rewrite <- fold_left_map. reflexivity.
    + unfold objs_of. rewrite !map_map. reflexivity.
    + apply fold_size_names.
Qed.

Lemma build_dirs_spec p t : forall st,
  Forall (fun df => Forall name_ok (fst df)) t ->
  Forall (fun df => Forall (fun nb => name_ok (fst nb) /\ fst nb <> dvcignore) (snd df)) t ->
  build_dirs H p (walk_of p t) st =
  Ok {| b_tree := fold_left (fun t e => add e t) (map (idx_entry H) (files t)) (b_tree st);
        b_store := st_add_all (objs_of (files t)) (b_store st);
        b_size := b_size st + total_size (files t) |}.
Proof.
  induction t as [|df r IH]; intros st Hd Hn.
  - simpl. destruct st. simpl. f_equal. f_equal. simpl. now rewrite N.add_0_r.
  - inversion Hd as [|? ? Hd1 Hd2]; inversion Hn as [|? ? Hn1 Hn2]; subst.
    simpl. rewrite build_dir_spec by assumption. rewrite IH by assumption. simpl.
    unfold files. simpl. fold (files r). f_equal. f_equal.
    + now rewrite map_app, fold_left_app.
    + unfold objs_of. now rewrite map_app, st_add_all_app.
    + rewrite total_size_app. now rewrite N.add_assoc.
Qed.

Lemma built_tree_keys t : map e_key (built_tree t) = map fst (files t).
Proof. unfold built_tree. rewrite map_map. reflexivity. Qed.

Theorem stage_from_spec s0 path t :
  wf_tree t ->
  stage_from H s0 path (walk_of (rstrip_sep path) t) =
  Ok {| sg_store := st_add (digestH H (built_tree t), as_bytes false (built_tree t))
                      (st_add_all (objs_of (files t)) s0);
        sg_oid := digestH H (built_tree t);
        sg_tree := built_tree t;
        sg_nfiles := N.of_nat (length (files t));
        sg_size := total_size (files t) |}.
Proof.
  intros [Hd Hn Hnd]. unfold stage_from. rewrite build_dirs_spec by assumption. simpl.
  assert (E : fold_left (fun t e => add e t) (map (idx_entry H) (files t)) [] = built_tree t).
  { apply (tree_of_list_nodup (built_tree t)). now rewrite built_tree_keys. }
  rewrite E. f_equal. f_equal. unfold built_tree. now rewrite map_length.
Qed.

Theorem stage_spec path t :
  wf_tree t ->
  stage H path (walk_of (rstrip_sep path) t) =
  Ok {| sg_store := st_add (digestH H (built_tree t), as_bytes false (built_tree t))
                      (st_add_all (objs_of (files t)) []);
        sg_oid := digestH H (built_tree t);
        sg_tree := built_tree t;
        sg_nfiles := N.of_nat (length (files t));
        sg_size := total_size (files t) |}.
Proof. apply stage_from_spec. Qed.

(* the store after the full transfer into s0 answers like "s0, then the objects in play" *)
Lemma stage_store_get s0 t o :
  st_get o (st_add (digestH H (built_tree t), as_bytes false (built_tree t))
              (st_add_all (objs_of (files t)) s0)) = st_get o (s0 ++ in_play t).
Proof.
  rewrite st_get_add, st_get_add_all. unfold in_play. rewrite !st_get_app.
  destruct (st_get o s0); [reflexivity|]. destruct (st_get o (objs_of (files t))); reflexivity.
Qed.

(* ------------------------------------------------------------------ reload *)
Definition loaded_entry (kb : key * bytes) : entry :=
  {| e_key := fst kb; e_meta := Some (meta_from_dict [(s_md5, JStr (H (snd kb)))]);
     e_hash := Some (s_md5, H (snd kb)) |}.

Definition file_leb (a b : key * bytes) : bool := lex_leb (relpath (fst a)) (relpath (fst b)).

(* the directory object as it is written: one {"md5": ..., "relpath": ...} per file *)
Definition obj_doc (kb : key * bytes) : jobj :=
  [(s_md5, JStr (H (snd kb))); (s_relpath, JStr (relpath (fst kb)))].

Lemma entry_dict_obj kb : H (snd kb) <> [] ->
  sort_obj (entry_dict false (idx_entry H kb)) = obj_doc kb.
Proof.
  intros Hne. unfold entry_dict, idx_entry, hi_to_dict, hash_emit, obj_doc. simpl e_hash. simpl e_key.
  destruct (H (snd kb)) as [|c v]; [congruence|]. reflexivity.
Qed.

Lemma as_bytes_built fl : (forall kb, In kb fl -> H (snd kb) <> []) ->
  as_bytes false (map (idx_entry H) fl) = print_doc (map obj_doc (sort_by file_leb fl)).
Proof.
  intros Hne. unfold as_bytes, json_dumps, as_list, sort_entries.
  rewrite (sort_by_map (idx_entry H) file_leb entry_leb) by reflexivity.
  rewrite !map_map. f_equal. apply map_ext_in. intros kb Hi. apply entry_dict_obj. apply Hne.
  eapply Permutation_in; [apply sort_by_perm|exact Hi].
Qed.

Lemma wf_string_join k : Forall (fun n => wf_string n = true) k -> wf_string (join_sep slash k) = true.
Proof.
  induction k as [|x r IH]; intros Hf; [reflexivity|].
  inversion Hf as [|? ? Hx Hr]; subst. destruct r as [|y r'].
  - exact Hx.
  - change (join_sep slash (x :: y :: r')) with (x ++ slash :: join_sep slash (y :: r')).
    unfold wf_string in *. rewrite forallb_app. rewrite Hx. simpl. now apply IH.
Qed.

Lemma from_list_entry_obj kb : key_ok (fst kb) ->
  from_list_entry None (obj_doc kb) = inl (loaded_entry kb).
Proof.
  intros [Hne Hs].
  transitivity (@inl entry N {| e_key := key_of_relpath (relpath (fst kb));
                       e_meta := Some (meta_from_dict [(s_md5, JStr (H (snd kb)))]);
                       e_hash := Some (s_md5, H (snd kb)) |}); [reflexivity|].
  unfold key_of_relpath, relpath, loaded_entry. now rewrite split_join.
Qed.

Lemma from_list_go_objs l : forall acc,
  Forall (fun kb => key_ok (fst kb)) l ->
  from_list_go None (map obj_doc l) acc = FlOk (fold_left (fun t e => add e t) (map loaded_entry l) acc).
Proof.
  induction l as [|kb r IH]; intros acc Hk; [reflexivity|].
  inversion Hk as [|? ? H1 H2]; subst. simpl map. cbn [from_list_go].
  rewrite from_list_entry_obj by exact H1. rewrite IH by exact H2. reflexivity.
Qed.

Theorem reload_spec fl :
  digest_ok ->
  Forall (fun kb => key_ok (fst kb)) fl ->
  Forall (fun kb => Forall (fun n => wf_string n = true) (fst kb)) fl ->
  NoDup (map fst fl) ->
  from_bytes None (as_bytes false (map (idx_entry H) fl)) = FlOk (map loaded_entry (sort_by file_leb fl)).
Proof.
  intros Hdig Hk Ht Hnd.
  rewrite as_bytes_built by (intros kb _; apply Hdig).
  pose proof (sort_by_perm file_leb fl) as Hp.
  unfold from_bytes. rewrite parse_print.
  - unfold from_list. rewrite from_list_go_objs.
    + f_equal. apply (fold_add_fresh (map loaded_entry (sort_by file_leb fl)) []).
      simpl. rewrite map_map. simpl.
      eapply Permutation_NoDup; [|exact Hnd]. apply Permutation_map. now symmetry.
    + apply Forall_forall. intros kb Hi. rewrite Forall_forall in Hk. apply Hk.
      eapply Permutation_in; [exact Hp|exact Hi].
  - unfold wf_doc. apply forallb_forall. intros o Ho. apply in_map_iff in Ho as [kb [<- Hi]].
    assert (Hi' : In kb fl) by (eapply Permutation_in; [exact Hp|exact Hi]).
    rewrite Forall_forall in Ht. specialize (Ht _ Hi').
    unfold obj_doc, wf_obj, wf_member. simpl.
    destruct (Hdig (snd kb)) as [Hw _]. rewrite Hw. unfold relpath. rewrite wf_string_join by exact Ht.
    reflexivity.
Qed.

(* ------------------------------------------------------------------ checkout *)
Lemma checkout_entries_spec s l : forall acc,
  (forall kb, In kb l -> st_get (H (snd kb)) s = Some (snd kb)) ->
  Forall (fun kb => key_ok (fst kb)) l ->
  NoDup (map fst (acc ++ l)) ->
  checkout_entries s (map loaded_entry l) acc = Ok (acc ++ l).
Proof.
  induction l as [|kb r IH]; intros acc Hg Hk Hnd.
  - simpl. now rewrite app_nil_r.
  - inversion Hk as [|? ? [Hne Hs] H2]; subst. simpl. rewrite (Hg kb) by now left.
    rewrite fs_key_id by assumption. rewrite fs_write_fresh.
    + rewrite IH.
      * rewrite <- app_assoc. destruct kb. reflexivity.
      * intros kb' Hi. apply Hg. now right.
      * exact H2.
      * rewrite <- app_assoc. destruct kb. exact Hnd.
    + rewrite map_app in Hnd. simpl in Hnd. apply NoDup_remove_2 in Hnd.
      intros Hi. apply Hnd. apply in_or_app. now left.
Qed.

(* as for idx_tree: entries that carry Meta(size) instead of the reloaded Meta(md5) *)
Lemma checkout_entries_idx s l : forall acc,
  (forall kb, In kb l -> st_get (H (snd kb)) s = Some (snd kb)) ->
  Forall (fun kb => key_ok (fst kb)) l ->
  NoDup (map fst (acc ++ l)) ->
  checkout_entries s (map (idx_entry H) l) acc = Ok (acc ++ l).
Proof.
  induction l as [|kb r IH]; intros acc Hg Hk Hnd.
  - simpl. now rewrite app_nil_r.
  - inversion Hk as [|? ? [Hne Hs] H2]; subst. simpl. rewrite (Hg kb) by now left.
    rewrite fs_key_id by assumption. rewrite fs_write_fresh.
    + rewrite IH.
      * rewrite <- app_assoc. destruct kb. reflexivity.
      * intros kb' Hi. apply Hg. now right.
      * exact H2.
      * rewrite <- app_assoc. destruct kb. exact Hnd.
    + rewrite map_app in Hnd. simpl in Hnd. apply NoDup_remove_2 in Hnd.
      intros Hi. apply Hnd. apply in_or_app. now left.
Qed.

Lemma in_play_file t kb : In kb (files t) -> In (H (snd kb), snd kb) (in_play t).
Proof.
  intros Hi. unfold in_play. apply in_or_app. left. unfold objs_of. apply in_map_iff. now exists kb.
Qed.

(* ---- the theorems, for any digest *)

Lemma in_play_tail s0 t x : In x (in_play t) -> In x (s0 ++ in_play t).
Proof. intros Hi. apply in_or_app. now right. Qed.

(* from any initial store s0 such that no two contents in play - those already in the store
   included - share an object id *)
Theorem reload_from_thm s0 path t :
  wf_tree t -> text_tree t -> digest_ok -> collision_free (s0 ++ in_play t) ->
  exists sg, stage_from H s0 path (walk_of (rstrip_sep path) t) = Ok sg /\
    sg_tree sg = built_tree t /\
    load (sg_store sg) (sg_oid sg) = Ok (map loaded_entry (sort_by file_leb (files t))).
Proof.
  intros Hwf Htx Hdig Hcf. eexists. split; [apply stage_from_spec; exact Hwf|]. simpl. split; [reflexivity|].
  unfold load. rewrite stage_store_get.
  rewrite (st_get_in _ (as_bytes false (built_tree t)) _ Hcf).
  - unfold built_tree. rewrite reload_spec; try assumption.
    + reflexivity.
    + now apply files_keys_ok.
    + now apply files_text.
    + now destruct Hwf.
  - apply in_play_tail. unfold in_play. apply in_or_app. right. now left.
Qed.

Theorem obj_from_thm s0 path t :
  wf_tree t -> text_tree t -> digest_ok -> collision_free (s0 ++ in_play t) ->
  exists sg, stage_from H s0 path (walk_of (rstrip_sep path) t) = Ok sg /\
    checkout (sg_store sg) (sg_oid sg) = Ok (sort_by file_leb (files t)).
Proof.
  intros Hwf Htx Hdig Hcf.
  destruct (reload_from_thm s0 path t Hwf Htx Hdig Hcf) as [sg [Hs [_ Hl]]].
  exists sg. split; [exact Hs|]. unfold checkout. rewrite Hl.
  rewrite stage_from_spec in Hs by exact Hwf. injection Hs as <-. simpl.
  pose proof (sort_by_perm file_leb (files t)) as Hp.
  rewrite (checkout_entries_spec _ _ []); [reflexivity| | |].
  - intros kb Hi. rewrite stage_store_get. apply st_get_in; [exact Hcf|].
    apply in_play_tail. apply in_play_file. eapply Permutation_in; [exact Hp|exact Hi].
  - apply Forall_forall. intros kb Hi. pose proof (files_keys_ok t Hwf) as Hk.
    rewrite Forall_forall in Hk. apply Hk. eapply Permutation_in; [exact Hp|exact Hi].
  - simpl. eapply Permutation_NoDup; [|apply (wf_distinct t Hwf)]. apply Permutation_map. now symmetry.
Qed.

Theorem reload_thm path t :
  wf_tree t -> text_tree t -> digest_ok -> collision_free (in_play t) ->
  exists sg, stage H path (walk_of (rstrip_sep path) t) = Ok sg /\
    sg_tree sg = built_tree t /\
    load (sg_store sg) (sg_oid sg) = Ok (map loaded_entry (sort_by file_leb (files t))).
Proof. apply (reload_from_thm []). Qed.

Theorem obj_thm path t :
  wf_tree t -> text_tree t -> digest_ok -> collision_free (in_play t) ->
  exists sg, stage H path (walk_of (rstrip_sep path) t) = Ok sg /\
    checkout (sg_store sg) (sg_oid sg) = Ok (sort_by file_leb (files t)).
Proof. apply (obj_from_thm []). Qed.

(* the two pre-histories of the destination: the directory object alone was transferred first
   (shallow), or a complete transfer lost some objects afterwards - both are sub-stores of what is in
   play, so the full transfer completes them and the round trip is exact *)
Lemma collision_free_sub s0 l :
  (forall x, In x s0 -> In x l) -> collision_free l -> collision_free (s0 ++ l).
Proof.
  intros Hsub Hc o b b' H1 H2. apply (Hc o).
  - apply in_app_or in H1 as [H1|H1]; [now apply Hsub|exact H1].
  - apply in_app_or in H2 as [H2|H2]; [now apply Hsub|exact H2].
Qed.

Theorem obj_healed_thm s0 path t :
  wf_tree t -> text_tree t -> digest_ok -> collision_free (in_play t) ->
  (forall x, In x s0 -> In x (in_play t)) ->
  exists sg, stage_from H s0 path (walk_of (rstrip_sep path) t) = Ok sg /\
    checkout (sg_store sg) (sg_oid sg) = Ok (sort_by file_leb (files t)).
Proof.
  intros Hwf Htx Hdig Hcf Hsub. apply obj_from_thm; try assumption. now apply collision_free_sub.
Qed.

Lemma collision_free_incl l l' : incl l' l -> collision_free l -> collision_free l'.
Proof. intros Hi Hc o b b' H1 H2. apply (Hc o); now apply Hi. Qed.

Lemma in_st_add x ob s : In x (st_add ob s) -> x = ob \/ In x s.
Proof.
  unfold st_add. destruct (st_get (fst ob) s); [now right|].
  intros Hi. apply in_app_or in Hi as [Hi|[Hi|[]]]; [now right|now left].
Qed.

Lemma in_st_add_all x obs : forall s, In x (st_add_all obs s) -> In x obs \/ In x s.
Proof.
  induction obs as [|ob r IH]; intros s Hi; [now right|]. unfold st_add_all in *. simpl in Hi.
  apply IH in Hi as [Hi|Hi]; [left; now right|].
  apply in_st_add in Hi as [->|Hi]; [left; now left|now right].
Qed.

(* re-staging: t1 was staged and transferred, then the source changed into t2 (any rewrite) and is
   staged into the same odb: the checkout is t2 - the current data - provided no two contents of the
   two generations collide *)
Theorem restage_thm path path2 t1 t2 s0 :
  wf_tree t1 -> wf_tree t2 -> text_tree t2 -> digest_ok ->
  collision_free (in_play t1 ++ in_play t2) ->
  exists sg1, stage H path (walk_of (rstrip_sep path) t1) = Ok sg1 /\
    (incl s0 (sg_store sg1) ->
     exists sg2, stage_from H s0 path2 (walk_of (rstrip_sep path2) t2) = Ok sg2 /\
       checkout (sg_store sg2) (sg_oid sg2) = Ok (sort_by file_leb (files t2))).
Proof.
  intros Hwf1 Hwf2 Htx Hdig Hcf. eexists. split; [apply stage_spec; exact Hwf1|]. simpl. intros Hincl.
  apply obj_from_thm; try assumption.
  eapply collision_free_incl; [|exact Hcf]. intros x Hi.
  apply in_app_or in Hi as [Hi|Hi]; apply in_or_app; [left|now right].
  apply Hincl in Hi. apply in_st_add in Hi as [->|Hi].
  - unfold in_play. apply in_or_app. right. now left.
  - apply in_st_add_all in Hi as [Hi|[]]. unfold in_play. apply in_or_app. now left.
Qed.

Theorem shallow_store_spec path t :
  wf_tree t ->
  shallow_store H [] path (walk_of (rstrip_sep path) t) =
  Ok [(digestH H (built_tree t), as_bytes false (built_tree t))].
Proof.
  intros [Hd Hn Hnd]. unfold shallow_store. rewrite build_dirs_spec by assumption. simpl.
  assert (E : fold_left (fun t e => add e t) (map (idx_entry H) (files t)) [] = built_tree t).
  { apply (tree_of_list_nodup (built_tree t)). now rewrite built_tree_keys. }
  rewrite E. reflexivity.
Qed.

Theorem meta_thm path t :
  wf_tree t ->
  exists sg, stage H path (walk_of (rstrip_sep path) t) = Ok sg /\
    sg_nfiles sg = N.of_nat (length (files t)) /\ sg_size sg = total_size (files t).
Proof. intros Hwf. eexists. split; [apply stage_spec; exact Hwf|]. split; reflexivity. Qed.

(* a directory with no file at or below it appears nowhere: not as a key of the listing, not as a
   path or a directory of the checked-out location *)
Theorem empty_dirs_thm path t d :
  wf_tree t -> text_tree t -> digest_ok -> collision_free (in_play t) ->
  (forall kb, In kb (files t) -> ~ prefix_of d (fst kb)) ->
  exists sg f, stage H path (walk_of (rstrip_sep path) t) = Ok sg /\
    checkout (sg_store sg) (sg_oid sg) = Ok f /\
    ~ In d (map e_key (sg_tree sg)) /\ ~ In d (map fst f) /\ ~ In d (dirs_of f).
Proof.
  intros Hwf Htx Hdig Hcf Hno.
  destruct (obj_thm path t Hwf Htx Hdig Hcf) as [sg [Hs Hc]].
  exists sg, (sort_by file_leb (files t)). split; [exact Hs|]. split; [exact Hc|].
  rewrite stage_spec in Hs by exact Hwf. injection Hs as <-. simpl.
  pose proof (sort_by_perm file_leb (files t)) as Hp.
  split; [|split].
  - rewrite built_tree_keys. intros Hi. apply in_map_iff in Hi as [kb [E Hi]].
    apply (Hno kb Hi). exists []. now rewrite app_nil_r.
  - intros Hi. apply in_map_iff in Hi as [kb [E Hi]].
    apply (Hno kb); [eapply Permutation_in; [exact Hp|exact Hi]|]. exists []. now rewrite app_nil_r.
  - intros Hi. unfold dirs_of in Hi. apply in_flat_map in Hi as [kb [Hi Hpp]].
    apply in_proper_prefixes in Hpp as [_ [s [_ E]]].
    apply (Hno kb); [eapply Permutation_in; [exact Hp|exact Hi]|]. now exists s.
Qed.

(* conversely every directory of the checked-out location is a proper ancestor of a file *)
Lemma dirs_of_char f d :
  In d (dirs_of f) <-> exists kb, In kb f /\ d <> [] /\ exists s, s <> [] /\ fst kb = d ++ s.
Proof.
  unfold dirs_of. rewrite in_flat_map. split.
  - intros [kb [Hi Hp]]. exists kb. split; [exact Hi|]. now apply in_proper_prefixes.
  - intros [kb [Hi Hp]]. exists kb. split; [exact Hi|]. now apply in_proper_prefixes.
Qed.

(* ------------------------------------------------------------------ index path *)
Theorem idx_thm path t :
  wf_tree t -> collision_free (objs_of (files t)) ->
  exists o, idx_roundtrip H path (walk_of (rstrip_sep path) t) = Ok o /\
    io_files o = files t /\
    (forall d, In d (io_dirs o) <->
               (d <> [] /\ In d (map fst t)) \/ In d (dirs_of (files t))).
Proof.
  intros Hwf Hcf. pose proof Hwf as [Hd Hn Hnd]. unfold idx_roundtrip.
  set (p := rstrip_sep path). unfold idx_tree. rewrite walk_files_of by exact Hd.
  rewrite tree_of_list_nodup by (rewrite map_map; exact Hnd).
  rewrite (checkout_entries_idx _ _ []).
  - eexists. split; [reflexivity|]. simpl. split; [reflexivity|].
    intros d. rewrite in_app_iff. rewrite walk_dirs_of by exact Hd.
    split.
    + intros [Hi|Hi]; [left|now right].
      apply in_map_iff in Hi as [d' [E Hi]]. apply filter_In in Hi as [Hi Hnn].
      assert (Hok : Forall sep_free d' /\ d' <> []).
      { split; [|destruct d'; [discriminate|discriminate]].
        apply in_map_iff in Hi as [df [<- Hdf]]. rewrite Forall_forall in Hd.
        eapply Forall_impl; [|exact (Hd _ Hdf)]. now intros a [_ Ha]. }
      destruct Hok as [Hs Hne]. rewrite fs_key_id in E by assumption. subst d'. now split.
    + intros [[Hne Hi]|Hi]; [left|now right].
      apply in_map_iff. exists d. split.
      * apply fs_key_id; [|exact Hne].
        apply in_map_iff in Hi as [df [<- Hdf]]. rewrite Forall_forall in Hd.
        eapply Forall_impl; [|exact (Hd _ Hdf)]. now intros a [_ Ha].
      * apply filter_In. split; [exact Hi|]. destruct d; [congruence|reflexivity].
  - intros kb Hi. unfold idx_save. rewrite walk_files_of by exact Hd.
    rewrite st_get_add_all. rewrite st_get_add_all. simpl st_get at 2.
    rewrite (st_get_in _ (snd kb) _ Hcf); [reflexivity|].
    unfold objs_of. apply in_map_iff. now exists kb.
  - now apply files_keys_ok.
  - exact Hnd.
Qed.

Theorem file_thm b :
  let sg := stage_file H b in
  checkout_file (sg_store sg) (sg_oid sg) = Ok b /\ sg_size sg = N.of_nat (length b).
Proof. simpl. unfold checkout_file. simpl. now rewrite list_N_eqb_refl. Qed.

End WithDigest.

(* ------------------------------------------------------------------ md5 *)
Lemma md5_digest_ok : digest_ok md5_hex.
Proof.
  intros x. split.
  - pose proof (md5_hex_is_hex x) as Hh. unfold wf_string. apply forallb_forall. intros c Hc.
    rewrite Forall_forall in Hh. specialize (Hh c Hc). unfold is_lower_hex in Hh. unfold is_scalar.
    apply orb_true_iff. left. apply N.ltb_lt.
    apply orb_true_iff in Hh as [Hh|Hh]; apply andb_true_iff in Hh as [_ Hh]; apply N.leb_le in Hh; lia.
  - pose proof (md5_hex_length x) as Hl. destruct (md5_hex x); [discriminate|discriminate].
Qed.

(* ---- corollaries: as maps; the md5 instance *)
Theorem obj_map_thm : forall (H : bytes -> list N) (path : list N) (t : wtree),
  wf_tree t -> text_tree t -> digest_ok H -> collision_free (in_play H t) ->
  exists sg f, stage H path (walk_of (rstrip_sep path) t) = Ok sg /\
    checkout (sg_store sg) (sg_oid sg) = Ok f /\
    Permutation f (files t) /\ NoDup (map fst f).
Proof.
  intros H path t Hwf Htx Hd Hc. destruct (obj_thm H path t Hwf Htx Hd Hc) as [sg [Hs Hco]].
  exists sg, (sort_by file_leb (files t)). split; [exact Hs|]. split; [exact Hco|].
  split; [apply sort_by_perm|].
  eapply Permutation_NoDup; [|apply (wf_distinct t Hwf)].
  apply Permutation_map. symmetry. apply sort_by_perm.
Qed.

Theorem reload_map_thm : forall (H : bytes -> list N) (path : list N) (t : wtree),
  wf_tree t -> text_tree t -> digest_ok H -> collision_free (in_play H t) ->
  exists sg l, stage H path (walk_of (rstrip_sep path) t) = Ok sg /\
    load (sg_store sg) (sg_oid sg) = Ok l /\
    Permutation (map (fun e => (e_key e, e_hash e)) l) (map (fun e => (e_key e, e_hash e)) (sg_tree sg)).
Proof.
  intros H path t Hwf Htx Hd Hc. destruct (reload_thm H path t Hwf Htx Hd Hc) as [sg [Hs [Ht Hl]]].
  exists sg, (map (loaded_entry H) (sort_by file_leb (files t))). split; [exact Hs|]. split; [exact Hl|].
  rewrite Ht. unfold built_tree. rewrite !map_map. simpl.
  apply Permutation_map. apply sort_by_perm.
Qed.

Theorem obj_md5_thm : forall (path : list N) (t : wtree),
  wf_tree t -> text_tree t -> collision_free (in_play md5_hex t) ->
  exists sg, stage md5_hex path (walk_of (rstrip_sep path) t) = Ok sg /\
    checkout (sg_store sg) (sg_oid sg) = Ok (sort_by file_leb (files t)) /\
    load (sg_store sg) (sg_oid sg) = Ok (map (loaded_entry md5_hex) (sort_by file_leb (files t))) /\
    sg_nfiles sg = N.of_nat (length (files t)) /\ sg_size sg = total_size (files t).
Proof.
  intros path t Hwf Htx Hc.
  destruct (obj_thm md5_hex path t Hwf Htx md5_digest_ok Hc) as [sg [Hs Hco]].
  destruct (reload_thm md5_hex path t Hwf Htx md5_digest_ok Hc) as [sg' [Hs' [_ Hl]]].
  destruct (meta_thm md5_hex path t Hwf) as [sg'' [Hs'' Hm]].
  rewrite Hs in Hs', Hs''. injection Hs' as <-. injection Hs'' as <-.
  exists sg. repeat split; try assumption; apply Hm.
Qed.

(* a decision procedure for collision_free, for the examples *)
Definition collision_freeb (l : list (list N * bytes)) : bool :=
  forallb (fun x => forallb (fun y => implb (list_N_eqb (fst x) (fst y)) (list_N_eqb (snd x) (snd y))) l) l.

Lemma collision_freeb_sound l : collision_freeb l = true -> collision_free l.
Proof.
  intros Hb o b b' H1 H2. unfold collision_freeb in Hb. rewrite forallb_forall in Hb.
  specialize (Hb _ H1). rewrite forallb_forall in Hb. specialize (Hb _ H2). simpl in Hb.
  rewrite list_N_eqb_refl in Hb. simpl in Hb. now apply list_N_eqb_spec.
Qed.

(* ------------------------------------------------------------------ non-vacuity *)
(* a, d/"b c", d/e/f (duplicate content, an empty file), an empty directory g/h *)
Definition ex_tree : wtree :=
  [ ([], [([97], [120])]);
    ([[100]], [([98;32;99], [120])]);
    ([[100]; [101]], [([102], [])]);
    ([[103]], []);
    ([[103]; [104]], []) ].

Lemma name_ok_dec n : n <> [] -> forallb (fun c => negb (c =? slash)) n = true -> name_ok n.
Proof.
  intros Hne Hb. split; [exact Hne|]. intros Hi. rewrite forallb_forall in Hb.
  specialize (Hb _ Hi). now rewrite N.eqb_refl in Hb.
Qed.

Example ex_tree_wf : wf_tree ex_tree /\ text_tree ex_tree.
Proof.
  split; [constructor|].
  - repeat constructor; try discriminate; try (intros Hi; simpl in Hi; intuition discriminate).
  - repeat constructor; try discriminate; try (intros Hi; simpl in Hi; intuition discriminate).
  - simpl. repeat constructor; simpl; intuition discriminate.
  - unfold text_tree. repeat constructor.
Qed.

Example ex_tree_collision_free : collision_free (in_play md5_hex ex_tree).
Proof. apply collision_freeb_sound. vm_compute. reflexivity. Qed.

Example ex_tree_idx_collision_free : collision_free (objs_of md5_hex (files ex_tree)).
Proof. apply collision_freeb_sound. vm_compute. reflexivity. Qed.

(* the model really runs on it: the checked-out location has the three files and not g, g/h *)
Example ex_tree_runs :
  match stage md5_hex [47;115] (walk_of [47;115] ex_tree) with
  | Ok sg => match checkout (sg_store sg) (sg_oid sg) with
             | Ok f => (length f, sg_nfiles sg, sg_size sg, existsb (key_eqb [[103]]) (dirs_of f))
             | Err _ => (0%nat, 0, 0, true)
             end
  | Err _ => (0%nat, 0, 0, true)
  end = (3%nat, 3, 2, false).
Proof. vm_compute. reflexivity. Qed.

(* the separator hypothesis is needed: a name that contains "/" (impossible on a real file system,
   possible for a key handed to Tree.add by a caller) is staged under one key and reloaded under
   another - everything else of wf_tree holds for this tree *)
Example sep_free_needed :
  let t : wtree := [([], [([97;47;98], [120])])] in
  NoDup (map fst (files t)) /\ collision_free (in_play md5_hex t) /\
  match stage md5_hex [47;115] (walk_of [47;115] t) with
  | Ok sg => match load (sg_store sg) (sg_oid sg) with
             | Ok l => map e_key (sg_tree sg) = [[[97;47;98]]] /\ map e_key l = [[[97]; [98]]]
             | Err _ => False
             end
  | Err _ => False
  end.
Proof.
  split; [repeat constructor; simpl; intuition|].
  split; [apply collision_freeb_sound; vm_compute; reflexivity|].
  vm_compute. split; reflexivity.
Qed.

(* the history hypotheses are satisfiable and the model runs on them: the directory object alone is
   in the store first (shallow transfer), the full transfer then delivers the three files *)
Example ex_tree_shallow_history :
  match shallow_store md5_hex [] [47;115] (walk_of [47;115] ex_tree) with
  | Ok s0 =>
      match stage_from md5_hex s0 [47;115] (walk_of [47;115] ex_tree) with
      | Ok sg => match checkout (sg_store sg) (sg_oid sg) with
                 | Ok f => (length s0, length (sg_store sg), length f)
                 | Err _ => (0, 0, 0)%nat
                 end
      | Err _ => (0, 0, 0)%nat
      end
  | Err _ => (0, 0, 0)%nat
  end = (1, 3, 3)%nat.
Proof. vm_compute. reflexivity. Qed.

Example ex_tree_shallow_sub :
  forall x, In x [(digestH md5_hex (built_tree md5_hex ex_tree), as_bytes false (built_tree md5_hex ex_tree))] ->
            In x (in_play md5_hex ex_tree).
Proof. intros x [<-|[]]. unfold in_play. apply in_or_app. right. now left. Qed.
