(* C08, part 6: swapping the arguments commutes with rename detection.

   (a) tuple-of-str order ([key_ltb]) is a strict total order, so sorting changes with distinct
       keys is canonical (does not depend on the order the changes came in);
   (b) greedy first-fit matching is symmetric: walking the additions and giving each the first
       free matching deletion pairs the same elements as walking the deletions and giving each
       the first free matching addition (any relation);
   (c) hence  detect_renames (diff new old)  is the swap of  detect_renames (diff old new). *)
From Coq Require Import NArith List Bool Arith Lia Permutation Sorted.
From DvcData Require Import Base.Val Base.PyBase Gen.PyTypes Gen.IDiff Model.Trie Model.IndexDiff Proofs.IndexDiffProofsBase Proofs.IndexDiffBfs Proofs.IndexDiffRefine Proofs.IndexDiffRenames Proofs.IndexDiffShallow.
Import ListNotations.

(* ---- (a) lexicographic orders ------------------------------------------------------------------------ *)
Section Lex.
  Context {A : Type} (lt eqb : A -> A -> bool).
  Hypothesis eqb_spec : forall a b, eqb a b = true <-> a = b.
  Hypothesis lt_irrefl : forall a, lt a a = false.
  Hypothesis lt_trans : forall a b c, lt a b = true -> lt b c = true -> lt a c = true.
  Hypothesis lt_tricho : forall a b, lt a b = false -> lt b a = false -> a = b.

  Fixpoint glex (a b : list A) : bool :=
    match a, b with
    | [], [] => false
    | [], _ :: _ => true
    | _ :: _, [] => false
    | x :: a', y :: b' => if lt x y then true else if eqb x y then glex a' b' else false
    end.

  Lemma eqb_refl' a : eqb a a = true.
  Proof. now apply eqb_spec. Qed.

  Lemma glex_irrefl a : glex a a = false.
  Proof. induction a as [|x a IH]; simpl; [reflexivity|]. now rewrite lt_irrefl, eqb_refl'. Qed.

  Lemma glex_trans : forall a b c, glex a b = true -> glex b c = true -> glex a c = true.
  Proof.
    induction a as [|x a IH]; intros [|y b] [|z c]; simpl; try discriminate; try reflexivity.
    destruct (lt x y) eqn:Lxy; destruct (lt y z) eqn:Lyz.
    - intros _ _. now rewrite (lt_trans x y z).
    - destruct (eqb y z) eqn:Eyz; [|discriminate]. apply eqb_spec in Eyz. subst z. intros _ _. now rewrite Lxy.
    - destruct (eqb x y) eqn:Exy; [|discriminate]. apply eqb_spec in Exy. subst y. intros _ _. now rewrite Lyz.
    - destruct (eqb x y) eqn:Exy; [|discriminate]. destruct (eqb y z) eqn:Eyz; [|discriminate].
      apply eqb_spec in Exy, Eyz. subst y z. rewrite Lxy, eqb_refl'. apply IH.
  Qed.

  Lemma glex_tricho : forall a b, glex a b = false -> glex b a = false -> a = b.
  Proof.
    induction a as [|x a IH]; intros [|y b]; simpl; try discriminate; try reflexivity.
    destruct (lt x y) eqn:Lxy; [discriminate|]. destruct (lt y x) eqn:Lyx; [discriminate|].
    pose proof (lt_tricho x y Lxy Lyx) as ->. rewrite eqb_refl'. intros H1 H2. now rewrite (IH b H1 H2).
  Qed.
End Lex.

Lemma lex_ltb_glex a b : lex_ltb a b = glex N.ltb N.eqb a b.
Proof. revert b. induction a as [|x a IH]; intros [|y b]; simpl; try reflexivity; try (now rewrite IH). Qed.

Lemma Nltb_trans a b c : N.ltb a b = true -> N.ltb b c = true -> N.ltb a c = true.
Proof. rewrite !N.ltb_lt. apply N.lt_trans. Qed.
Lemma Nltb_tricho a b : N.ltb a b = false -> N.ltb b a = false -> a = b.
Proof. rewrite !N.ltb_ge. intros H1 H2. now apply N.le_antisymm. Qed.

Lemma lex_ltb_irrefl a : lex_ltb a a = false.
Proof. rewrite lex_ltb_glex. apply (glex_irrefl N.ltb N.eqb N.eqb_eq N.ltb_irrefl). Qed.
Lemma lex_ltb_trans a b c : lex_ltb a b = true -> lex_ltb b c = true -> lex_ltb a c = true.
Proof. rewrite !lex_ltb_glex. apply (glex_trans N.ltb N.eqb N.eqb_eq Nltb_trans). Qed.
Lemma lex_ltb_tricho a b : lex_ltb a b = false -> lex_ltb b a = false -> a = b.
Proof. rewrite !lex_ltb_glex. apply (glex_tricho N.ltb N.eqb N.eqb_eq Nltb_tricho). Qed.

Lemma key_ltb_glex a b : key_ltb a b = glex lex_ltb list_N_eqb a b.
Proof. revert b. induction a as [|x a IH]; intros [|y b]; simpl; try reflexivity; try (now rewrite IH). Qed.

Lemma key_ltb_irrefl a : key_ltb a a = false.
Proof. rewrite key_ltb_glex. apply (glex_irrefl lex_ltb list_N_eqb list_N_eqb_spec lex_ltb_irrefl). Qed.
Lemma key_ltb_trans a b c : key_ltb a b = true -> key_ltb b c = true -> key_ltb a c = true.
Proof. rewrite !key_ltb_glex. apply (glex_trans lex_ltb list_N_eqb list_N_eqb_spec lex_ltb_trans). Qed.
Lemma key_ltb_tricho a b : key_ltb a b = false -> key_ltb b a = false -> a = b.
Proof. rewrite !key_ltb_glex. apply (glex_tricho lex_ltb list_N_eqb list_N_eqb_spec lex_ltb_tricho). Qed.

Lemma key_leb_total a b : key_leb a b = false -> key_leb b a = true.
Proof.
  unfold key_leb. rewrite negb_false_iff, negb_true_iff. intros H.
  destruct (key_ltb a b) eqn:E; [|reflexivity].
  pose proof (key_ltb_trans a b a E H) as C. rewrite key_ltb_irrefl in C. discriminate.
Qed.
Lemma key_leb_trans a b c : key_leb a b = true -> key_leb b c = true -> key_leb a c = true.
Proof.
  unfold key_leb. rewrite !negb_true_iff. intros H1 H2. destruct (key_ltb c a) eqn:E; [|reflexivity].
  destruct (key_ltb b c) eqn:E2.
  - pose proof (key_ltb_trans b c a E2 E). congruence.
  - pose proof (key_ltb_tricho b c E2 H2). subst c. congruence.
Qed.
Lemma key_leb_antisym a b : key_leb a b = true -> key_leb b a = true -> a = b.
Proof. unfold key_leb. rewrite !negb_true_iff. intros H1 H2. now apply key_ltb_tricho. Qed.

(* ---- insertion sort is canonical on lists with distinct keys -------------------------------------------- *)
Section Sort.
  Context {A K : Type} (kleb : K -> K -> bool) (kf : A -> K).
  Hypothesis kleb_total : forall a b, kleb a b = false -> kleb b a = true.
  Hypothesis kleb_trans : forall a b c, kleb a b = true -> kleb b c = true -> kleb a c = true.
  Hypothesis kleb_antisym : forall a b, kleb a b = true -> kleb b a = true -> a = b.

  Definition leb (a b : A) : bool := kleb (kf a) (kf b).
  Definition sorted (l : list A) : Prop := StronglySorted (fun a b => leb a b = true) l.

  Lemma insert_perm x l : Permutation (insert_by leb x l) (x :: l).
  Proof.
    induction l as [|y l IH]; simpl; [apply Permutation_refl|].
    destruct (leb x y); [apply Permutation_refl|].
    etransitivity; [apply perm_skip, IH | apply perm_swap].
  Qed.

  Lemma insert_sorted x l : sorted l -> sorted (insert_by leb x l).
  Proof.
    unfold sorted. induction 1 as [|y l Hl IH Hy]; simpl; [repeat constructor|].
    destruct (leb x y) eqn:E.
    - constructor; [now constructor|]. constructor; [assumption|].
      eapply Forall_impl; [|exact Hy]. intros z Hz. unfold leb in *. eapply kleb_trans; eauto.
    - constructor; [assumption|]. apply Forall_forall. intros z Hz.
      apply (Permutation_in z (insert_perm x l)) in Hz. destruct Hz as [<-|Hz].
      + unfold leb in *. now apply kleb_total.
      + rewrite Forall_forall in Hy. now apply Hy.
  Qed.

  Lemma sort_sorted l : sorted (sort_by leb l).
  Proof. unfold sort_by. induction l as [|x l IH]; simpl; [constructor | now apply insert_sorted]. Qed.

  Lemma sorted_unique : forall l1 l2, sorted l1 -> sorted l2 -> Permutation l1 l2 ->
    NoDup (map kf l1) -> l1 = l2.
  Proof.
    unfold sorted. induction l1 as [|x r1 IH]; intros l2 S1 S2 P Hnd.
    - apply Permutation_nil in P. now subst.
    - destruct l2 as [|y r2]; [apply Permutation_sym, Permutation_nil in P; discriminate|].
      inversion S1 as [|? ? S1' F1]; inversion S2 as [|? ? S2' F2]; subst.
      assert (Hxy : x = y).
      { assert (Hx : In x (y :: r2)) by (apply (Permutation_in x P); now left).
        assert (Hy : In y (x :: r1)) by (apply (Permutation_in y (Permutation_sym P)); now left).
        destruct Hx as [->|Hx]; [reflexivity|]. destruct Hy as [->|Hy]; [reflexivity|].
        rewrite Forall_forall in F1, F2. specialize (F1 y Hy). specialize (F2 x Hx).
        apply (NoDup_map_eq kf (x :: r1) x y Hnd); [now left | now right|].
        unfold leb in *. now apply kleb_antisym. }
      subst y. f_equal. apply IH; try assumption.
      + now apply Permutation_cons_inv in P.
      + now inversion Hnd.
  Qed.

  Lemma sort_canonical l l' : sorted l' -> Permutation l' l -> NoDup (map kf l) -> sort_by leb l = l'.
  Proof.
    intros S P Hnd. apply sorted_unique.
    - apply sort_sorted.
    - assumption.
    - etransitivity; [apply sort_by_perm | now symmetry].
    - eapply Permutation_NoDup; [|exact Hnd]. apply Permutation_map. symmetry. apply sort_by_perm.
  Qed.
End Sort.

(* ---- (b) greedy first-fit matching is symmetric ------------------------------------------------------------ *)
Section Match.
  Context {X Y : Type} (R : X -> Y -> bool).

  Fixpoint takeY (a : X) (ys : list Y) : option (Y * list Y) :=
    match ys with
    | [] => None
    | y :: r => if R a y then Some (y, r)
                else match takeY a r with Some (z, r') => Some (z, y :: r') | None => None end
    end.
  Fixpoint takeX (d : Y) (xs : list X) : option (X * list X) :=
    match xs with
    | [] => None
    | x :: r => if R x d then Some (x, r)
                else match takeX d r with Some (z, r') => Some (z, x :: r') | None => None end
    end.

  Fixpoint pairXY (xs : list X) (ys : list Y) : list (X * Y) * list X * list Y :=
    match xs with
    | [] => ([], [], ys)
    | a :: r =>
        match takeY a ys with
        | Some (d, ys') => let '(ps, ux, uy) := pairXY r ys' in ((a, d) :: ps, ux, uy)
        | None => let '(ps, ux, uy) := pairXY r ys in (ps, a :: ux, uy)
        end
    end.
  Fixpoint pairYX (ys : list Y) (xs : list X) : list (X * Y) * list Y * list X :=
    match ys with
    | [] => ([], [], xs)
    | d :: r =>
        match takeX d xs with
        | Some (a, xs') => let '(ps, uy, ux) := pairYX r xs' in ((a, d) :: ps, uy, ux)
        | None => let '(ps, uy, ux) := pairYX r xs in (ps, d :: uy, ux)
        end
    end.

  Lemma takeY_some a ys d r : takeY a ys = Some (d, r) ->
    exists l1 l2, ys = l1 ++ d :: l2 /\ r = l1 ++ l2 /\ R a d = true /\ Forall (fun y => R a y = false) l1.
  Proof.
    revert d r. induction ys as [|y l IH]; intros d r; simpl; [discriminate|].
    destruct (R a y) eqn:E.
    - intros [= <- <-]. exists [], l. repeat split; [assumption | constructor].
    - destruct (takeY a l) as [[z r']|]; [|discriminate]. intros [= <- <-].
      destruct (IH z r' eq_refl) as [l1 [l2 [-> [-> [Ez Hl1]]]]].
      exists (y :: l1), l2. repeat split; [assumption | now constructor].
  Qed.

  Lemma takeY_none a ys : takeY a ys = None -> Forall (fun y => R a y = false) ys.
  Proof.
    induction ys as [|y l IH]; simpl; [constructor|]. destruct (R a y) eqn:E; [discriminate|].
    destruct (takeY a l) as [[z r']|]; [discriminate|]. intros _. constructor; [assumption | now apply IH].
  Qed.

  Lemma pairYX_nil ys : pairYX ys [] = ([], ys, []).
  Proof. induction ys as [|d r IH]; simpl; [reflexivity | now rewrite IH]. Qed.

  (* an element nobody matches stays unpaired *)
  Lemma pairYX_skip a : forall ys xs, Forall (fun y => R a y = false) ys ->
    pairYX ys (a :: xs) = let '(ps, uy, ux) := pairYX ys xs in (ps, uy, a :: ux).
  Proof.
    induction ys as [|d r IH]; intros xs H; simpl; [reflexivity|].
    inversion H as [|? ? Hd Hr]; subst. rewrite Hd.
    destruct (takeX d xs) as [[z xs']|].
    - rewrite (IH xs' Hr). destruct (pairYX r xs') as [[ps uy] ux]. reflexivity.
    - rewrite (IH xs Hr). destruct (pairYX r xs) as [[ps uy] ux]. reflexivity.
  Qed.

  (* the first matching y takes the x at the head *)
  Lemma pairYX_take a d l2 : R a d = true -> forall l1 xs, Forall (fun y => R a y = false) l1 ->
    forall ps1 uy1 ux1 ps2 uy2 ux2,
    pairYX (l1 ++ d :: l2) (a :: xs) = (ps1, uy1, ux1) -> pairYX (l1 ++ l2) xs = (ps2, uy2, ux2) ->
    Permutation ps1 ((a, d) :: ps2) /\ uy1 = uy2 /\ ux1 = ux2.
  Proof.
    intros Had. induction l1 as [|y l1 IH]; intros xs H ps1 uy1 ux1 ps2 uy2 ux2; simpl.
    - rewrite Had. intros E1 E2. rewrite E2 in E1. injection E1 as <- <- <-. repeat split. apply Permutation_refl.
    - inversion H as [|? ? Hy Hl]; subst. rewrite Hy.
      destruct (takeX y xs) as [[z xs']|].
      + destruct (pairYX (l1 ++ d :: l2) (a :: xs')) as [[p1 u1] v1] eqn:F1.
        destruct (pairYX (l1 ++ l2) xs') as [[p2 u2] v2] eqn:F2.
        intros [= <- <- <-] [= <- <- <-].
        destruct (IH xs' Hl _ _ _ _ _ _ F1 F2) as [P [-> ->]]. repeat split.
        etransitivity; [apply perm_skip, P | apply perm_swap].
      + destruct (pairYX (l1 ++ d :: l2) (a :: xs)) as [[p1 u1] v1] eqn:F1.
        destruct (pairYX (l1 ++ l2) xs) as [[p2 u2] v2] eqn:F2.
        intros [= <- <- <-] [= <- <- <-].
        destruct (IH xs Hl _ _ _ _ _ _ F1 F2) as [P [-> ->]]. now repeat split.
  Qed.

  Theorem greedy_symmetric : forall xs ys ps ux uy ps' uy' ux',
    pairXY xs ys = (ps, ux, uy) -> pairYX ys xs = (ps', uy', ux') ->
    Permutation ps ps' /\ Permutation ux ux' /\ Permutation uy uy'.
  Proof.
    induction xs as [|a r IH]; intros ys ps ux uy ps' uy' ux'; simpl.
    - rewrite pairYX_nil. intros [= <- <- <-] [= <- <- <-]. repeat split; apply Permutation_refl.
    - destruct (takeY a ys) as [[d ys']|] eqn:Et.
      + apply takeY_some in Et as [l1 [l2 [-> [-> [Had Hl1]]]]].
        destruct (pairXY r (l1 ++ l2)) as [[p u] v] eqn:F. intros [= <- <- <-] E'.
        destruct (pairYX (l1 ++ l2) r) as [[p2 u2] v2] eqn:F2.
        destruct (pairYX_take a d l2 Had l1 r Hl1 _ _ _ _ _ _ E' F2) as [P [-> ->]].
        destruct (IH (l1 ++ l2) _ _ _ _ _ _ F F2) as [Q1 [Q2 Q3]]. repeat split; try assumption.
        etransitivity; [apply perm_skip, Q1 | now symmetry].
      + apply takeY_none in Et. destruct (pairXY r ys) as [[p u] v] eqn:F. intros [= <- <- <-].
        rewrite (pairYX_skip a ys r Et). destruct (pairYX ys r) as [[p2 u2] v2] eqn:F2. intros [= <- <- <-].
        destruct (IH ys _ _ _ _ _ _ F F2) as [Q1 [Q2 Q3]]. repeat split; try assumption. now apply perm_skip.
  Qed.
End Match.

(* matching through maps *)
Lemma takeY_map {X Y X' Y'} (R : X -> Y -> bool) (R' : X' -> Y' -> bool) (f : Y -> X') (g : X -> Y') :
  (forall a d, R' (f d) (g a) = R a d) ->
  forall d xs, takeY R' (f d) (map g xs) =
               match takeX R d xs with Some (a, r) => Some (g a, map g r) | None => None end.
Proof.
  intros H d. induction xs as [|x r IH]; simpl; [reflexivity|]. rewrite H.
  destruct (R x d); [reflexivity|]. rewrite IH. destruct (takeX R d r) as [[z r']|]; reflexivity.
Qed.

Lemma pairXY_map {X Y X' Y'} (R : X -> Y -> bool) (R' : X' -> Y' -> bool) (f : Y -> X') (g : X -> Y') :
  (forall a d, R' (f d) (g a) = R a d) ->
  forall ys xs, pairXY R' (map f ys) (map g xs) =
    let '(ps, uy, ux) := pairYX R ys xs in (map (fun p => (f (snd p), g (fst p))) ps, map f uy, map g ux).
Proof.
  intros H. induction ys as [|d r IH]; intros xs; simpl; [reflexivity|].
  rewrite (takeY_map R R' f g H). destruct (takeX R d xs) as [[a xs']|].
  - rewrite IH. destruct (pairYX R r xs') as [[ps uy] ux]. reflexivity.
  - rewrite IH. destruct (pairYX R r xs) as [[ps uy] ux]. reflexivity.
Qed.

(* ---- (c) the rename pairing as a greedy matching -------------------------------------------------------------- *)
Definition rmatch (a d : change) : bool := hi_truthy (ahash a) && same_hash d a.

Lemma take_first_takeY a dels :
  (if hi_truthy (ahash a) then take_first (ahash a) dels else None) = takeY rmatch a dels.
Proof.
  unfold rmatch. destruct (hi_truthy (ahash a)) eqn:Et.
  - induction dels as [|d r IH]; simpl; [reflexivity|]. fold (dhash d). rewrite Et. unfold same_hash at 1.
    cbn [andb]. destruct (opt_eqb hashinfo_eqb (dhash d) (ahash a)); [reflexivity|]. now rewrite IH.
  - induction dels as [|d r IH]; simpl; [reflexivity|]. rewrite Et. cbn [andb]. now rewrite <- IH.
Qed.

Lemma pair_spec_pairXY adds : forall dels,
  pair_spec adds dels =
  let '(ps, ux, uy) := pairXY rmatch adds dels in (map (fun p => (snd p, fst p)) ps, ux, uy).
Proof.
  induction adds as [|a r IH]; intros dels; [reflexivity|].
  cbn [pair_spec pairXY]. fold (ahash a). rewrite take_first_takeY.
  destruct (takeY rmatch a dels) as [[d dels']|].
  - rewrite IH. destruct (pairXY rmatch r dels') as [[ps ux] uy]. reflexivity.
  - rewrite IH. destruct (pairXY rmatch r dels) as [[ps ux] uy]. reflexivity.
Qed.

Lemma truthy_of_eq h1 h2 : opt_eqb hashinfo_eqb h1 h2 = true -> hi_truthy h1 = hi_truthy h2.
Proof.
  intros E. apply opt_hi_eqb_spec in E. unfold opt_pr in E.
  destruct h1 as [a|], h2 as [b|]; simpl in *; try discriminate; [|reflexivity].
  unfold hashinfo_eqkey in E. injection E as _ Ev. now rewrite Ev.
Qed.

Lemma swap_side_hashes c : ahash (swap_change c) = dhash c /\ dhash (swap_change c) = ahash c.
Proof. split; reflexivity. Qed.

Lemma rmatch_swap a d : rmatch (swap_change d) (swap_change a) = rmatch a d.
Proof.
  unfold rmatch, same_hash. destruct (swap_side_hashes a) as [_ ->]. destruct (swap_side_hashes d) as [-> _].
  rewrite (opt_hi_eqb_sym (ahash a) (dhash d)).
  destruct (opt_eqb hashinfo_eqb (dhash d) (ahash a)) eqn:E; [|now rewrite !andb_false_r].
  now rewrite (truthy_of_eq _ _ E).
Qed.

Lemma swap_mk_rename d a : swap_change (mk_rename (d, a)) = mk_rename (swap_change a, swap_change d).
Proof. reflexivity. Qed.

Lemma swap_is_add c : is_add (swap_change c) = is_del c.
Proof. unfold is_add, is_del. simpl. destruct (c_typ c); reflexivity. Qed.
Lemma swap_is_del c : is_del (swap_change c) = is_add c.
Proof. unfold is_add, is_del. simpl. destruct (c_typ c); reflexivity. Qed.
Lemma swap_is_other c : is_other (swap_change c) = is_other c.
Proof. unfold is_other. rewrite swap_is_add, swap_is_del. apply andb_comm. Qed.

Lemma filter_map_swap (p q : change -> bool) l :
  (forall c, p (swap_change c) = q c) -> filter p (map swap_change l) = map swap_change (filter q l).
Proof.
  intros H. induction l as [|c l IH]; simpl; [reflexivity|]. rewrite H. destruct (q c); simpl; now rewrite IH.
Qed.

Lemma swap_key_add c : is_add c = true -> change_key (swap_change c) = change_key c.
Proof. intros H. apply is_add_typ in H. unfold change_key. simpl. now rewrite H. Qed.
Lemma swap_key_del c : is_del c = true -> change_key (swap_change c) = change_key c.
Proof. intros H. apply is_del_typ in H. unfold change_key. simpl. now rewrite H. Qed.

Lemma change_leb_leb : change_leb = leb key_leb change_key.
Proof. reflexivity. Qed.

Lemma NoDup_map_filter {A K} (g : A -> K) (p : A -> bool) l : NoDup (map g l) -> NoDup (map g (filter p l)).
Proof.
  induction l as [|x l IH]; simpl; [constructor|]. intros H. inversion H as [|? ? Hx Hl]; subst.
  destruct (p x); simpl; [|now apply IH]. constructor; [|now apply IH].
  intros Hin. apply Hx. apply in_map_iff in Hin as [y [E Hy]]. apply filter_In in Hy as [Hy _].
  rewrite <- E. now apply in_map.
Qed.

(* sorting the swapped changes of one kind = swapping the sorted ones *)
Lemma sort_swapped (p : change -> bool) D X :
  (forall c, In c D -> p c = true) -> (forall c, p c = true -> change_key (swap_change c) = change_key c) ->
  NoDup (map change_key D) -> Permutation X (map swap_change D) ->
  sort_by change_leb X = map swap_change (sort_by change_leb D).
Proof.
  intros Hp Hk Hnd P. rewrite change_leb_leb.
  assert (Hin : forall c, In c (sort_by (leb key_leb change_key) D) -> In c D).
  { intros c. apply Permutation_in, sort_by_perm. }
  assert (Hkeys : forall l, (forall c, In c l -> In c D) -> map change_key (map swap_change l) = map change_key l).
  { induction l as [|c l IH]; intros H; simpl; [reflexivity|].
    rewrite Hk by (apply Hp, H; now left). f_equal. apply IH. intros c' Hc'. apply H. now right. }
  apply (sort_canonical key_leb change_key key_leb_total key_leb_trans key_leb_antisym).
  - pose proof (sort_sorted key_leb change_key key_leb_total key_leb_trans D) as S.
    revert Hin S. generalize (sort_by (leb key_leb change_key) D). intros l Hl S. unfold sorted in *.
    induction S as [|c l Sl IH Hc]; simpl; [constructor|]. constructor.
    + apply IH. intros c' Hc'. apply Hl. now right.
    + apply Forall_forall. intros x Hx. apply in_map_iff in Hx as [y [<- Hy]].
      rewrite Forall_forall in Hc. specialize (Hc y Hy). unfold leb in *.
      rewrite !Hk; [assumption | apply Hp, Hl; now right | apply Hp, Hl; now left].
  - etransitivity; [apply Permutation_map, sort_by_perm | now symmetry].
  - eapply Permutation_NoDup; [apply Permutation_map; symmetry; exact P|].
    rewrite Hkeys by auto. assumption.
Qed.

(* C08_swap_renames, on change lists *)
Theorem detect_renames_swap cs cs' :
  NoDup (map change_key cs) -> Permutation cs' (map swap_change cs) ->
  Permutation (detect_renames cs') (map swap_change (detect_renames cs)).
Proof.
  intros Hnd P.
  set (A := sort_by change_leb (filter is_add cs)). set (D := sort_by change_leb (filter is_del cs)).
  assert (EA : sort_by change_leb (filter is_add cs') = map swap_change D).
  { apply (sort_swapped is_del).
    - intros c Hc. now apply filter_In in Hc.
    - apply swap_key_del.
    - now apply NoDup_map_filter.
    - rewrite <- (filter_map_swap is_add is_del cs swap_is_add). now apply Permutation_filter'. }
  assert (ED : sort_by change_leb (filter is_del cs') = map swap_change A).
  { apply (sort_swapped is_add).
    - intros c Hc. now apply filter_In in Hc.
    - apply swap_key_add.
    - now apply NoDup_map_filter.
    - rewrite <- (filter_map_swap is_del is_add cs swap_is_del). now apply Permutation_filter'. }
  assert (EO : Permutation (filter is_other cs') (map swap_change (filter is_other cs))).
  { rewrite <- (filter_map_swap is_other is_other cs swap_is_other). now apply Permutation_filter'. }
  unfold detect_renames. fold A D. rewrite EA, ED.
  (* both pairings, made explicit *)
  destruct (pair_spec A D) as [[ps ua] ud] eqn:E1.
  destruct (pair_adds_spec A D ps ua ud E1) as [H1 [H2 _]].
  destruct (pair_adds A D) as [out rest]. simpl in H1, H2. subst rest.
  destruct (pair_spec (map swap_change D) (map swap_change A)) as [[ps' ua'] ud'] eqn:E2.
  destruct (pair_adds_spec _ _ ps' ua' ud' E2) as [H1' [H2' _]].
  destruct (pair_adds (map swap_change D) (map swap_change A)) as [out' rest']. simpl in H1', H2'. subst rest'.
  (* relate them through the greedy matching *)
  rewrite pair_spec_pairXY in E1. destruct (pairXY rmatch A D) as [[q ux] uy] eqn:F1. injection E1 as <- <- <-.
  rewrite pair_spec_pairXY in E2.
  rewrite (pairXY_map rmatch rmatch swap_change swap_change rmatch_swap D A) in E2.
  destruct (pairYX rmatch D A) as [[q' uy'] ux'] eqn:F2. injection E2 as <- <- <-.
  destruct (greedy_symmetric rmatch A D _ _ _ _ _ _ F1 F2) as [Q1 [Q2 Q3]].
  rewrite !map_app.
  apply Permutation_app; [exact EO|].
  etransitivity; [apply Permutation_app_tail, H1'|].
  etransitivity; [|apply Permutation_app_tail, Permutation_map; symmetry; exact H1].
  rewrite !map_app, <- !app_assoc. apply Permutation_app.
  - rewrite !map_map. cbn [fst snd].
    etransitivity; [apply Permutation_map; symmetry; exact Q1|].
    apply Permutation_refl.
  - etransitivity; [apply Permutation_app_comm|].
    apply Permutation_app; apply Permutation_map; now symmetry.
Qed.

(* C08_swap_renames: through `diff`, for any pair of indexes (no well-formedness needed) *)
Theorem diff_swap o old new fuel :
  o_shallow o = false -> (fuel_for old new <= fuel)%nat ->
  (renames_on o old new = true -> o_meta_only o = false) ->
  exists l l', diff o old new fuel = DOk l /\ diff o new old fuel = DOk l' /\
               Permutation l' (map swap_change l).
Proof.
  intros Hs Hf Hm. destruct (diff_core_swap o old new fuel Hs Hf) as [cs [cs' [E [E' P]]]].
  unfold diff. rewrite E, E'.
  assert (Hr : o_with_renames o && is_some new && is_some old = renames_on o old new).
  { unfold renames_on. rewrite <- !andb_assoc. f_equal. apply andb_comm. }
  rewrite Hr. fold (renames_on o old new). destruct (renames_on o old new) eqn:Er.
  - rewrite (Hm eq_refl). eexists. eexists. repeat split.
    apply detect_renames_swap; [|assumption]. now apply (diff_keys_once_gen o old new fuel).
  - eexists. eexists. repeat split. assumption.
Qed.

(* ---- `roots`: the default is the modelled core ------------------------------------------------------------------ *)
Lemma diff_core_roots_default o old new fuel :
  diff_core_roots o old new [] fuel = diff_core o old new fuel /\
  diff_core_roots o old new [[]] fuel = diff_core o old new fuel /\
  diff_roots o old new [] fuel = diff o old new fuel.
Proof. repeat split. Qed.

(* ---- histories: only the final map matters ------------------------------------------------------------------ *)
Lemma lookup_drop_key k k' i : lookup (drop_key k i) k' = if key_eqb k' k then None else lookup i k'.
Proof.
  unfold drop_key. induction i as [|[k0 e0] r IH]; simpl; [now destruct (key_eqb k' k)|].
  destruct (key_eqb k0 k) eqn:E0; simpl.
  - apply key_eqb_spec in E0. subst k0. rewrite IH. destruct (key_eqb k' k); reflexivity.
  - rewrite IH. destruct (key_eqb k' k0) eqn:E1; [|reflexivity].
    apply key_eqb_spec in E1. subst k'. now rewrite E0.
Qed.

(* the final map is the dictionary the history describes *)
Lemma lookup_apply_hop i op k' :
  lookup (apply_hop i op) k' =
  match op with
  | HSet k e => if key_eqb k' k then Some e else lookup i k'
  | HDel k => if key_eqb k' k then None else lookup i k'
  end.
Proof.
  destruct op as [k e|k]; simpl; [|apply lookup_drop_key].
  destruct (key_eqb k' k) eqn:E; [reflexivity|]. rewrite lookup_drop_key. now rewrite E.
Qed.

(* two histories with the same final map are indistinguishable to diff (and to everything else in the model) *)
Lemma diff_final_map_only o h1 h2 h1' h2' fuel :
  final_map h1 = final_map h1' -> final_map h2 = final_map h2' ->
  diff o (Some (final_map h1)) (Some (final_map h2)) fuel = diff o (Some (final_map h1')) (Some (final_map h2')) fuel.
Proof. intros -> ->. reflexivity. Qed.
