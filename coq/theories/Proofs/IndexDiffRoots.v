(* C08, part 7: `roots` other than [()] (shallow = False).

   `_diff` starts with one queue item per root.  In closed form the output is, root by root, what
   visiting the root and the children of every node reached from it yields ([roots_closed]); for
   well-formed hash-consistent indexes each root contributes exactly the flat reference restricted
   to the keys at or below it ([roots_multi]: a sub-tree is reported once per covering root); for
   prefix-free roots that is the flat reference restricted to the keys at or below a root, each key
   once ([roots_exact]). *)
From Coq Require Import NArith List Bool Arith Lia Permutation.
From DvcData Require Import Base.Val Base.PyBase Gen.PyTypes Gen.IDiff Model.Trie Model.IndexDiff Proofs.IndexDiffProofsBase Proofs.IndexDiffBfs Proofs.IndexDiffRefine Proofs.IndexDiffShallow.
Import ListNotations.

Lemma get_info_linfo ix k : get_info ix k = linfo (Some ix) k.
Proof.
  unfold get_info, linfo. destruct (lookup ix k) eqn:E.
  - now rewrite (lookup_is_node _ _ _ E).
  - destruct (is_node ix k); reflexivity.
Qed.

Lemma root_items_at_eq i r :
  root_items_at i r = match linfo i r with Some inf => [(r, inf)] | None => [] end.
Proof. destruct i as [ix|]; simpl; [now rewrite get_info_linfo | reflexivity]. Qed.

Lemma root_items_at_get i r : get_item (root_items_at i r) r = linfo i r.
Proof. rewrite root_items_at_eq. destruct (linfo i r); simpl; [now rewrite key_eqb_refl | reflexivity]. Qed.

Lemma length_flat_map_le {A B} (f : A -> list B) (b : nat) l :
  (forall a, In a l -> (length (f a) <= b)%nat) -> (length (flat_map f l) <= length l * b)%nat.
Proof.
  induction l as [|x l IH]; intros H; simpl; [lia|]. rewrite app_length.
  specialize (H x (or_introl eq_refl)) as Hx. specialize (IH (fun a Ha => H a (or_intror Ha))). lia.
Qed.

Lemma filter_or_disjoint {A} (p q : A -> bool) l :
  (forall x, In x l -> p x = true -> q x = true -> False) ->
  Permutation (filter (fun x => p x || q x) l) (filter p l ++ filter q l).
Proof.
  induction l as [|x l IH]; intros H; simpl; [constructor|].
  specialize (IH (fun y Hy => H y (or_intror Hy))).
  destruct (p x) eqn:Ep, (q x) eqn:Eq; simpl.
  - exfalso. apply (H x); auto. now left.
  - now apply perm_skip.
  - etransitivity; [apply perm_skip, IH | apply Permutation_middle].
  - exact IH.
Qed.

Section Roots.
  Variables (o : opts) (old new : option index).
  Hypothesis Hs : o_shallow o = false.

  Definition ritem (r : key) : items * items := (root_items_at old r, root_items_at new r).
  Definition rkeys (r : key) : list key := union_keys (root_items_at old r) (root_items_at new r).

  Lemma rkeys_eq r : rkeys r = if is_some (linfo old r) || is_some (linfo new r) then [r] else [].
  Proof.
    unfold rkeys, union_keys. rewrite !root_items_at_eq.
    destruct (linfo old r), (linfo new r); cbn; rewrite ?key_eqb_refl; reflexivity.
  Qed.

  Lemma rkeys_In r c : In c (rkeys r) -> c = r.
  Proof. rewrite rkeys_eq. destruct (_ || _); simpl; [intros [<-|[]]; reflexivity | tauto]. Qed.

  Lemma rkeys_NoDup r : NoDup (rkeys r).
  Proof. rewrite rkeys_eq. destruct (_ || _); repeat constructor. intros []. Qed.

  (* nodes of the queue: a root pseudo-item, or the listing of a key *)
  Definition rnode := (key + key)%type.
  Definition rg (n : rnode) : items * items :=
    match n with inl r => ritem r | inr k => item_of old new k end.
  Definition rout (n : rnode) : list change :=
    match n with
    | inl r => flat_map (yield o old new) (rkeys r)
    | inr k => flat_map (yield o old new) (children old new k)
    end.
  Definition rkids (n : rnode) : list rnode :=
    match n with
    | inl r => map inr (filter (vdesc o old new) (rkeys r))
    | inr k => map inr (kkids o old new k)
    end.
  Definition rrank (n : rnode) : nat :=
    match n with inl _ => S (depth_bound old new) | inr k => krank old new k end.

  Lemma rout_g n : step_out o old new (rg n) = rout n.
  Proof.
    destruct n as [r|k]; [|apply step_out_item].
    unfold rg, ritem, step_out. cbn [fst snd rout]. fold (rkeys r).
    apply flat_map_ext_In. intros c Hc. apply rkeys_In in Hc. subst c.
    unfold yield. now rewrite !root_items_at_get.
  Qed.

  Lemma rkids_g n : step_todo o old new (rg n) = map rg (rkids n).
  Proof.
    destruct n as [r|k]; cbn [rg rkids]; rewrite map_map; cbn [rg].
    - unfold ritem, step_todo. cbn [fst snd]. fold (rkeys r). rewrite <- flat_map_if.
      apply flat_map_ext_In. intros c Hc. apply rkeys_In in Hc. subst c.
      rewrite !root_items_at_get, visit_snd by assumption. unfold vdesc.
      destruct (snd (visit o old new r (linfo old r) (linfo new r))); reflexivity.
    - now apply step_todo_item.
  Qed.

  Lemma rrank_kids a c : In c (rkids a) -> (rrank c < rrank a)%nat.
  Proof.
    destruct a as [r|k]; cbn [rkids]; intros H; apply in_map_iff in H as [x [<- Hx]]; cbn [rrank].
    - unfold krank. lia.
    - now apply (krank_kids o).
  Qed.

  Lemma rtree_inr m : forall k, tree rkids m (inr k) = map inr (tree (kkids o old new) m k).
  Proof.
    induction m as [|m IH]; intros k; [reflexivity|].
    cbn [tree rkids map]. f_equal. rewrite flat_map_map, map_flat_map.
    apply flat_map_ext. intros c. apply IH.
  Qed.

  (* what is reached from one root, and what is visited for it *)
  Definition rreached (r : key) : list key :=
    flat_map (tree (kkids o old new) (depth_bound old new)) (filter (vdesc o old new) (rkeys r)).
  Definition rvisited (r : key) : list key := rkeys r ++ flat_map (children old new) (rreached r).

  Lemma rtree_inl r :
    tree rkids (S (depth_bound old new)) (inl r) = inl r :: map inr (rreached r).
  Proof.
    cbn [tree rkids]. f_equal. rewrite flat_map_map. unfold rreached. rewrite map_flat_map.
    apply flat_map_ext. intros c. apply rtree_inr.
  Qed.

  Lemma rout_tree_inl r :
    flat_map rout (tree rkids (S (depth_bound old new)) (inl r)) = flat_map (yield o old new) (rvisited r).
  Proof.
    rewrite rtree_inl. cbn [flat_map rout]. unfold rvisited. rewrite flat_map_app, flat_map_map. f_equal.
    cbn [rout]. induction (rreached r) as [|a l IH]; simpl; [reflexivity|]. now rewrite flat_map_app, IH.
  Qed.

  Lemma rreached_eq r :
    rreached r = if is_some (linfo old r) || is_some (linfo new r)
                 then if vdesc o old new r then tree (kkids o old new) (depth_bound old new) r else []
                 else [].
  Proof.
    unfold rreached. rewrite rkeys_eq. destruct (_ || _); simpl; [|reflexivity].
    destruct (vdesc o old new r); simpl; [apply app_nil_r | reflexivity].
  Qed.

  Lemma rreached_NoDup r : NoDup (rreached r).
  Proof.
    rewrite rreached_eq. destruct (_ || _); [|constructor]. destruct (vdesc o old new r); [|constructor].
    apply tree_NoDup.
  Qed.

  Lemma rreached_extends r x : In x (rreached r) -> exists s, x = r ++ s.
  Proof.
    rewrite rreached_eq. destruct (_ || _); [|intros []]. destruct (vdesc o old new r); [|intros []].
    apply tree_extends.
  Qed.

  Lemma linfo_some_node i r : is_some (linfo i r) = true -> In r (nodes (idx i)).
  Proof.
    destruct i as [ix|]; simpl; [|discriminate]. destruct (is_node ix r) eqn:E; [|discriminate].
    intros _. now apply nodes_spec.
  Qed.

  Lemma rreached_nodes r k : In k (rreached r) -> In k (nodes (idx old) ++ nodes (idx new)).
  Proof.
    rewrite rreached_eq. destruct (is_some (linfo old r) || is_some (linfo new r)) eqn:E; [|intros []].
    destruct (vdesc o old new r); [|intros []]. intros H.
    apply tree_In_cases in H as [->|[p Hp]].
    - apply in_or_app. apply orb_true_iff in E as [E|E]; [left | right]; now apply linfo_some_node.
    - apply filter_In in Hp as [Hp _]. apply children_spec in Hp as [n [-> Hn]]. apply in_or_app.
      assert (Hnn : forall ix, has_node ix (p ++ [n]) = is_node ix (p ++ [n])) by (intros; destruct p; reflexivity).
      destruct Hn as [Hn|Hn]; [left | right]; apply nodes_spec.
      + destruct old as [ix|]; simpl in *; [now rewrite <- Hnn | discriminate].
      + destruct new as [ix|]; simpl in *; [now rewrite <- Hnn | discriminate].
  Qed.

  Lemma rreached_length r :
    (length (rreached r) <= length (nodes (idx old)) + length (nodes (idx new)))%nat.
  Proof.
    rewrite <- app_length. apply NoDup_incl_length; [apply rreached_NoDup|]. intros k. apply rreached_nodes.
  Qed.

  Lemma rvisited_NoDup r : NoDup (rvisited r).
  Proof.
    unfold rvisited. apply NoDup_app_intro.
    - apply rkeys_NoDup.
    - apply NoDup_flat_map.
      + apply rreached_NoDup.
      + intros a _. apply children_NoDup.
      + intros a b x _ _ Ha Hb. apply children_spec in Ha as [n1 [-> _]]. apply children_spec in Hb as [n2 [E _]].
        now apply app_inj_tail in E as [-> _].
    - intros x Hx Hf. apply rkeys_In in Hx. subst x. apply in_flat_map in Hf as [a [Ha Hc]].
      apply children_spec in Hc as [n [E _]]. apply rreached_extends in Ha as [s ->].
      apply (f_equal (@length _)) in E. rewrite !app_length in E. simpl in E. lia.
  Qed.

  (* ---- the closed form for any list of roots --------------------------------------------------------------- *)
  Theorem roots_closed rs fuel :
    (fuel_for_roots old new rs <= fuel)%nat ->
    exists cs, diff_core_roots o old new rs fuel = Some cs /\
               Permutation cs (flat_map (fun r => flat_map (yield o old new) (rvisited r)) (eff_roots rs)).
  Proof.
    intros Hf. unfold diff_core_roots, root_queue.
    replace (map (fun r => (root_items_at old r, root_items_at new r)) (eff_roots rs))
      with (map rg (map inl (eff_roots rs))) by (rewrite map_map; reflexivity).
    rewrite (bfsq_map (step_out o old new) (step_todo o old new) rout rkids rg rout_g rkids_g).
    destruct (bfsq_tree rout rkids rrank rrank_kids (S (depth_bound old new)) fuel (map inl (eff_roots rs)))
      as [cs [E P]].
    - apply Forall_forall. intros n Hn. apply in_map_iff in Hn as [r [<- _]]. cbn [rrank]. lia.
    - rewrite flat_map_map. etransitivity; [apply (length_flat_map_le _ (fuel_for old new))|].
      + intros r _. rewrite rtree_inl. simpl. rewrite map_length. pose proof (rreached_length r).
        unfold fuel_for. lia.
      + unfold fuel_for_roots in Hf. lia.
    - exists cs. split; [assumption|]. etransitivity; [exact P|]. rewrite flat_map_map.
      clear. induction (eff_roots rs) as [|r l IH]; cbn [flat_map]; [constructor|].
      rewrite flat_map_app, rout_tree_inl. now apply Permutation_app_head.
  Qed.

  (* ---- one root of well-formed indexes: the flat reference at or below it ------------------------------------- *)
  Section OneRoot.
    Hypothesis Hwo : WfO old.
    Hypothesis Hwn : WfO new.
    Hypothesis Hhc : shortcut_on o = true -> HashConsistent old new.

    Lemma valued_linfo k : cls o old new k <> [] -> is_some (linfo old k) || is_some (linfo new k) = true.
    Proof.
      intros Hc. apply orb_true_iff.
      destruct (cls_valued _ _ _ _ Hc) as [H|H]; [left | right]; apply lookup_idx_some in H as [ix [-> H]]; simpl;
        (destruct (lookup ix k) eqn:E; [|now contradiction H]); now rewrite (lookup_is_node _ _ _ E).
    Qed.

    Lemma prefix_linfo k r s : cls o old new k <> [] -> k = r ++ s ->
      is_some (linfo old r) || is_some (linfo new r) = true.
    Proof.
      intros Hc ->. apply orb_true_iff.
      destruct (cls_valued _ _ _ _ Hc) as [H|H]; [left | right]; apply lookup_idx_some in H as [ix [-> H]]; simpl;
        (destruct (lookup ix (r ++ s)) eqn:E; [|now contradiction H]); apply lookup_is_node in E;
        apply is_node_prefix in E; now rewrite E.
    Qed.

    Lemma rreached_step r p c :
      In p (rreached r) -> In c (children old new p) -> vdesc o old new c = true -> In c (rreached r).
    Proof.
      rewrite rreached_eq. destruct (_ || _); [|tauto]. destruct (vdesc o old new r); [|tauto]. intros Hp Hc Hd.
      apply (tree_In_closed (kkids o old new) (krank old new) (krank_kids o old new) _ r p c).
      - unfold krank. lia.
      - assumption.
      - unfold kkids. apply filter_In. now split.
    Qed.

    Lemma prefix_rreached r k : cls o old new k <> [] ->
      forall s, strict_prefix (r ++ s) k -> In (r ++ s) (rreached r).
    Proof.
      intros Hc s. induction s as [|m q IH] using rev_ind; intros Hp.
      - rewrite app_nil_r in *. rewrite rreached_eq.
        destruct Hp as [x [t E]]. rewrite (prefix_linfo k r (x :: t) Hc E).
        rewrite (vdesc_above o old new Hwo Hwn Hhc r k Hc) by now exists x, t. apply tree_head.
      - destruct Hp as [x [t E]]. rewrite app_assoc in *.
        assert (Hq : strict_prefix (r ++ q) k) by (exists m, (x :: t); now rewrite E, <- !app_assoc).
        apply (rreached_step r (r ++ q)); [now apply IH | |].
        + apply children_spec. exists m. split; [reflexivity|].
          destruct (cls_valued _ _ _ _ Hc) as [H|H]; [left | right];
            apply (valued_hasn _ k ((r ++ q) ++ [m]) (x :: t) H E (snoc_nonnil (r ++ q) m)).
        + apply (vdesc_above o old new Hwo Hwn Hhc _ k Hc). now exists x, t.
    Qed.

    Lemma rvisited_iff r k : cls o old new k <> [] -> (In k (rvisited r) <-> is_prefix r k = true).
    Proof.
      intros Hc. unfold rvisited. rewrite in_app_iff, is_prefix_spec. split.
      - intros [H|H].
        + apply rkeys_In in H. subst k. exists []. now rewrite app_nil_r.
        + apply in_flat_map in H as [p [Hp Hk]]. apply rreached_extends in Hp as [s ->].
          apply children_spec in Hk as [n [-> _]]. exists (s ++ [n]). now rewrite app_assoc.
      - intros [s ->]. destruct (last_case s) as [->|[s' [n ->]]].
        + left. rewrite app_nil_r in *. rewrite rkeys_eq, (valued_linfo r Hc). now left.
        + right. apply in_flat_map. exists (r ++ s'). split.
          * apply (prefix_rreached r _ Hc). exists n, []. now rewrite app_assoc.
          * rewrite app_assoc. apply children_spec. exists n. split; [reflexivity|].
            rewrite app_assoc in Hc.
            destruct (cls_valued _ _ _ _ Hc) as [H|H]; [left | right];
              apply (valued_hasn _ ((r ++ s') ++ [n]) ((r ++ s') ++ [n]) [] H (eq_sym (app_nil_r _))
                       (snoc_nonnil (r ++ s') n)).
    Qed.

    Lemma one_root_exact r :
      Permutation (flat_map (yield o old new) (rvisited r))
                  (flat_map (cls o old new) (filter (is_prefix r) (all_keys old new))).
    Proof.
      rewrite (flat_map_ext_In _ (cls o old new) _ (fun k _ => yield_classify o old new k)).
      apply flat_map_perm_support.
      - apply rvisited_NoDup.
      - apply NoDup_filter, NoDup_dedup.
      - intros k Hk. rewrite filter_In, (rvisited_iff r k Hk). split; [|tauto].
        intros H. split; [now apply (cls_all_keys o) | assumption].
    Qed.

    (* any roots (also overlapping, repeated, absent): every root contributes the flat reference at or below
       it - a sub-tree is reported once per covering root *)
    Theorem roots_multi rs fuel :
      (fuel_for_roots old new rs <= fuel)%nat ->
      exists cs, diff_core_roots o old new rs fuel = Some cs /\
        Permutation cs (flat_map (fun r => flat_map (cls o old new) (filter (is_prefix r) (all_keys old new)))
                                 (eff_roots rs)).
    Proof.
      intros Hf. destruct (roots_closed rs fuel Hf) as [cs [E P]]. exists cs. split; [assumption|].
      etransitivity; [exact P|]. clear E P Hf. induction (eff_roots rs) as [|r l IH]; simpl; [constructor|].
      apply Permutation_app; [apply one_root_exact | exact IH].
    Qed.

    Definition antichain (rs : list key) : Prop :=
      NoDup rs /\ forall a b, In a rs -> In b rs -> is_prefix a b = true -> a = b.
    Definition covered (rs : list key) (k : key) : bool := existsb (fun r => is_prefix r k) rs.

    Lemma prefixes_comparable a b k : is_prefix a k = true -> is_prefix b k = true ->
      is_prefix a b = true \/ is_prefix b a = true.
    Proof.
      rewrite !is_prefix_spec. intros [s ->]. revert b s. induction a as [|x a IH]; intros b s [t E].
      - left. now exists b.
      - destruct b as [|y b]; [right; now exists (x :: a)|]. simpl in E. injection E as -> E.
        destruct (IH b s (ex_intro _ t E)) as [[u ->]|[u ->]]; [left; now exists u | right; now exists u].
    Qed.

    Lemma antichain_filter rs l : antichain rs ->
      Permutation (flat_map (fun r => filter (is_prefix r) l) rs) (filter (covered rs) l).
    Proof.
      intros [Hnd Ha]. induction rs as [|r rs IH]; simpl.
      - unfold covered. simpl. induction l; simpl; [constructor | assumption].
      - inversion Hnd as [|? ? Hr Hnd']; subst. symmetry.
        etransitivity; [apply (filter_or_disjoint (is_prefix r) (covered rs))|].
        + intros k _ H1 H2. unfold covered in H2. apply existsb_exists in H2 as [r' [Hr' H2]].
          destruct (prefixes_comparable r r' k H1 H2) as [H|H].
          * apply Ha in H; [subst r'; contradiction | now left | now right].
          * apply Ha in H; [subst r'; contradiction | now right | now left].
        + apply Permutation_app_head. symmetry. apply IH; [assumption|].
          intros a b Ha' Hb'. apply Ha; now right.
    Qed.

    Lemma cls_keys_NoDup l : NoDup l -> NoDup (map change_key (flat_map (cls o old new) l)).
    Proof.
      intros H. apply (NoDup_keys_flat_map (fun k => k) change_key (cls o old new) l).
      - now rewrite map_id.
      - intros k c Hc. unfold cls in Hc. now apply classify_key_key in Hc.
      - intros k. apply classify_key_length.
    Qed.

    (* prefix-free roots: the flat reference restricted to the keys at or below a root, each key once *)
    Theorem roots_exact rs fuel :
      antichain (eff_roots rs) -> (fuel_for_roots old new rs <= fuel)%nat ->
      exists cs, diff_core_roots o old new rs fuel = Some cs /\
        Permutation cs (flat_map (cls o old new) (filter (covered (eff_roots rs)) (all_keys old new))) /\
        NoDup (map change_key cs).
    Proof.
      intros Ha Hf. destruct (roots_multi rs fuel Hf) as [cs [E P]]. exists cs. split; [assumption|].
      assert (P' : Permutation cs (flat_map (cls o old new) (filter (covered (eff_roots rs)) (all_keys old new)))).
      { etransitivity; [exact P|].
        etransitivity; [|apply Permutation_flat_map, (antichain_filter _ _ Ha)].
        clear. induction (eff_roots rs) as [|r l IH]; simpl; [constructor|]. rewrite flat_map_app.
        now apply Permutation_app_head. }
      split; [exact P'|].
      apply (Permutation_NoDup (l := map change_key (flat_map (cls o old new) (filter (covered (eff_roots rs)) (all_keys old new))))).
      - symmetry. now apply Permutation_map.
      - apply cls_keys_NoDup, NoDup_filter, NoDup_dedup.
    Qed.
  End OneRoot.
End Roots.
