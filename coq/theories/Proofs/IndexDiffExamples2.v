(* C08: non-vacuity of the shallow = True theorem and of swap-with-renames on the pair of
   Proofs/IndexDiffExamples.v. *)
From Coq Require Import NArith List Bool Arith Lia Permutation.
From DvcData Require Import Base.Val Base.PyBase Gen.PyTypes Gen.IDiff Model.Trie Model.IndexDiff Proofs.IndexDiffProofsBase Proofs.IndexDiffBfs Proofs.IndexDiffRefine Proofs.IndexDiffRenames Proofs.IndexDiffExamples Proofs.IndexDiffShallow Proofs.IndexDiffSwapRen.
Import ListNotations.
Open Scope N_scope.

(* shallow = True (code 32): d/ (hashed on both sides) is not listed at all; x is a hashed file in old and an
   unhashed directory in new, so x/w is listed but compared against "absent" (it is below a hashed
   entry: not a top-level key); y/z, below an implicit directory, is top-level *)
Example ex_shallow_run :
  option_map (map (fun c => (typ_code (c_typ c), change_key c, top_change (Some ex_old) (Some ex_new) c)))
    (diff_core (opts_of_code 32) (Some ex_old) (Some ex_new) (fuel_for (Some ex_old) (Some ex_new))) =
  Some [ (2, [[100]], true); (2, [[120]], true); (2, [[101]], true); (1, [[120];[119]], false);
         (1, [[121];[122]], true) ].
Proof. vm_compute. reflexivity. Qed.

Example ex_shallow_ref_top :
  map (fun c => (typ_code (c_typ c), change_key c))
    (filter (top_change (Some ex_old) (Some ex_new)) (ref_diff (opts_of_code 32) (Some ex_old) (Some ex_new))) =
  [ (2, [[100]]); (1, [[121];[122]]); (2, [[120]]); (2, [[101]]) ].
Proof. vm_compute. reflexivity. Qed.

(* d is a top-level directory whose hash differs: the hypotheses of shallow_hash_change_reported hold for it *)
Example ex_shallow_dir_differs :
  topk (Some ex_old) (Some ex_new) [[100]] = true /\
  diff_hash_info (ent_hash (lookup ex_old [[100]])) (ent_hash (lookup ex_new [[100]])) = Modify.
Proof. split; vm_compute; reflexivity. Qed.

(* the swapped run with renames: the rename d/g -> d/h comes out as d/h -> d/g, additions as deletions *)
Example ex_swapped_renames :
  match diff (opts_of_code 1) (Some ex_new) (Some ex_old) (fuel_for (Some ex_old) (Some ex_new)) with
  | DOk l => map (fun c => (typ_code (c_typ c), side_key (c_old c), side_key (c_new c))) l
  | _ => []
  end =
  [ (2, [[100]], [[100]]); (2, [[120]], [[120]]); (2, [[101]], [[101]]); (3, [[100];[104]], [[100];[103]]);
    (4, [[120];[119]], []); (4, [[121];[122]], []) ].
Proof. vm_compute. reflexivity. Qed.
