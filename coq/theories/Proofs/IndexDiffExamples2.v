(* C08: non-vacuity of the shallow = True theorem and of swap-with-renames on the pair of
   Proofs/IndexDiffExamples.v. *)
From Coq Require Import NArith List Bool Arith Lia Permutation.
From DvcData Require Import Base.Val Base.PyBase Gen.PyTypes Gen.IDiff Model.Trie Model.IndexDiff Proofs.IndexDiffProofsBase Proofs.IndexDiffBfs Proofs.IndexDiffRefine Proofs.IndexDiffRenames Proofs.IndexDiffExamples Proofs.IndexDiffShallow Proofs.IndexDiffSwapRen Proofs.IndexDiffRoots Proofs.IndexDiffSwapSh Proofs.IndexDiffRootsSh.
Import ListNotations.
Open Scope N_scope.

(* shallow = True (code 32): d/ (hashed on both sides) is not listed at all; x is a hashed file in old and an
   unhashed directory in new, so x/w is listed but compared against "absent" (it is below a hashed
   entry: not a top-level key); y/z, below an implicit directory, is top-level *)
Example ex_shallow_run :
  option_map (map (fun c => (typ_code (c_typ c), change_key c, top_change (Some ex_old) (Some ex_new) c)))
    (diff_core (opts_of_code 32) (Some ex_old) (Some ex_new) (fuel_for (Some ex_old) (Some ex_new))) =
  Some [ (2, [[100]], true); (2, [[120]], true); (2, [[101]], true); (1, [[120];[119]], false);
         (1, [[121];[122]], true) ].
Proof. vm_compute. reflexivity. Qed.

Example ex_shallow_ref_top :
  map (fun c => (typ_code (c_typ c), change_key c))
    (filter (top_change (Some ex_old) (Some ex_new)) (ref_diff (opts_of_code 32) (Some ex_old) (Some ex_new))) =
  [ (2, [[100]]); (1, [[121];[122]]); (2, [[120]]); (2, [[101]]) ].
Proof. vm_compute. reflexivity. Qed.

(* d is a top-level directory whose hash differs: the hypotheses of shallow_hash_change_reported hold for it *)
Example ex_shallow_dir_differs :
  topk (Some ex_old) (Some ex_new) [[100]] = true /\
  diff_hash_info (ent_hash (lookup ex_old [[100]])) (ent_hash (lookup ex_new [[100]])) = Modify.
Proof. split; vm_compute; reflexivity. Qed.

(* the swapped run with renames: the rename d/g -> d/h comes out as d/h -> d/g, additions as deletions *)
Example ex_swapped_renames :
  match diff (opts_of_code 1) (Some ex_new) (Some ex_old) (fuel_for (Some ex_old) (Some ex_new)) with
  | DOk l => map (fun c => (typ_code (c_typ c), side_key (c_old c), side_key (c_new c))) l
  | _ => []
  end =
  [ (2, [[100]], [[100]]); (2, [[120]], [[120]]); (2, [[101]], [[101]]); (3, [[100];[104]], [[100];[103]]);
    (4, [[120];[119]], []); (4, [[121];[122]], []) ].
Proof. vm_compute. reflexivity. Qed.

(* ---- roots -------------------------------------------------------------------------------------------------------- *)
(* prefix-free roots [d; y; z] (z is on neither side): exactly the keys at or below d and y, each once *)
Definition ex_roots : list key := [[[100]]; [[121]]; [[122]]].

Example ex_roots_antichain : antichain (eff_roots ex_roots).
Proof.
  split.
  - repeat constructor; simpl; intros H; repeat (destruct H as [H|H]; [discriminate|]); exact H.
  - intros a b Ha Hb. simpl in Ha, Hb.
    repeat (destruct Ha as [<-|Ha]); try contradiction;
      repeat (destruct Hb as [<-|Hb]); try contradiction; vm_compute; intros E; try reflexivity; discriminate.
Qed.

Example ex_roots_run :
  option_map (map (fun c => (typ_code (c_typ c), change_key c)))
    (diff_core_roots (opts_of_code 0) (Some ex_old) (Some ex_new) ex_roots
       (fuel_for_roots (Some ex_old) (Some ex_new) ex_roots)) =
  Some [ (2, [[100]]); (4, [[100];[103]]); (1, [[100];[104]]); (1, [[121];[122]]) ].
Proof. vm_compute. reflexivity. Qed.

(* overlapping roots [(); d]: the sub-tree of d is reported once per covering root - key d, d/g, d/h twice.
   "Each key once" does NOT hold for overlapping roots (the real code behaves the same; the property's
   quantifier does not cover `roots`) *)
Definition ex_overlap : list key := [[]; [[100]]].

Example ex_overlap_run :
  option_map (map (fun c => (typ_code (c_typ c), change_key c)))
    (diff_core_roots (opts_of_code 0) (Some ex_old) (Some ex_new) ex_overlap
       (fuel_for_roots (Some ex_old) (Some ex_new) ex_overlap)) =
  Some [ (2, [[100]]); (2, [[100]]); (2, [[120]]); (2, [[101]]); (4, [[100];[103]]); (1, [[100];[104]]);
         (4, [[100];[103]]); (1, [[100];[104]]); (1, [[120];[119]]); (1, [[121];[122]]) ].
Proof. vm_compute. reflexivity. Qed.

Lemma roots_once_refuted :
  exists o old new rs cs k,
    WfO old /\ WfO new /\ HashConsistent old new /\ o_shallow o = false /\
   diff_core_roots o old new rs (fuel_for_roots old new rs) = Some cs /\
   length (filter (fun c => key_eqb (change_key c) k) cs) = 2%nat /\ ~ NoDup (map change_key cs).
Proof.
  exists (opts_of_code 0), (Some ex_old), (Some ex_new), ex_overlap.
  eexists. exists [[100]].
  split; [exact ex_wf_old|]. split; [exact ex_wf_new|]. split; [exact ex_hc|]. split; [reflexivity|].
  split; [vm_compute; reflexivity|]. split; [vm_compute; reflexivity|].
  intros H. inversion H as [|x l Hx _]; subst. apply Hx. now left.
Qed.

(* ---- roots together with shallow = True (code 32) --------------------------------------------------------------------- *)
(* roots [d; y; z]: d is hashed, so nothing below it is listed (and nothing below it is "top" relative to the root
   d); y is implicit, y/z is top.  Root x: x is a hashed file in old and a directory in new - x/w is listed but
   compared against "absent" and is not top *)
Example ex_roots_shallow_run :
  option_map (map (fun c => (typ_code (c_typ c), change_key c, rtop (Some ex_old) (Some ex_new) ex_roots (change_key c))))
    (diff_core_roots (opts_of_code 32) (Some ex_old) (Some ex_new) ex_roots
       (fuel_for_roots (Some ex_old) (Some ex_new) ex_roots)) =
  Some [ (2, [[100]], true); (1, [[121];[122]], true) ].
Proof. vm_compute. reflexivity. Qed.

Example ex_roots_shallow_ref :
  map (fun c => (typ_code (c_typ c), change_key c))
    (flat_map (cls (opts_of_code 32) (Some ex_old) (Some ex_new))
       (filter (rtop (Some ex_old) (Some ex_new) ex_roots) (all_keys (Some ex_old) (Some ex_new)))) =
  [ (2, [[100]]); (1, [[121];[122]]) ].
Proof. vm_compute. reflexivity. Qed.

Example ex_roots_shallow_x :
  option_map (map (fun c => (typ_code (c_typ c), change_key c, rtop (Some ex_old) (Some ex_new) [[[120]]] (change_key c))))
    (diff_core_roots (opts_of_code 32) (Some ex_old) (Some ex_new) [[[120]]]
       (fuel_for_roots (Some ex_old) (Some ex_new) [[[120]]])) =
  Some [ (2, [[120]], true); (1, [[120];[119]], false) ].
Proof. vm_compute. reflexivity. Qed.
