(* AddStepsVMulti.v - (1) the multi-directory transfer loop with verification switched on
   (mt_loop true): a valid trace that keeps [inv] and leaves every requested file and every new
   directory present, well named and protected; (2) the hardlink add (ladd_prog): same
   guarantees as add_prog. *)
From Coq Require Import NArith List Bool Lia.
From DvcData Require Import Base.Val Model.AddSteps Proofs.AddStepsProofs Proofs.AddStepsProgs Proofs.AddStepsRecover Proofs.AddStepsVerify Proofs.AddStepsMulti.
Import ListNotations.
Open Scope N_scope.

Section VM.
  Variable bytes : Type.
  Variable H : bytes -> oid.
  Variable kids : bytes -> list oid.
  Variable empty : bytes.
  Variable part : bytes -> bytes.
  Hypothesis kids_empty : kids empty = [].

  Notation file := (file bytes).
  Notation world := (world bytes).
  Notation astep := (astep_ bytes).
  Notation obj := (obj bytes).
  Notation step := (step bytes empty).
  Notation run := (run bytes empty).
  Notation step_ok := (step_ok bytes H kids).
  Notation valid_trace := (valid_trace bytes H kids empty).
  Notation named_ok := (named_ok bytes H).
  Notation named_ok_b := (named_ok_b bytes H).
  Notation kids_ok := (kids_ok bytes H kids).
  Notation inv := (inv bytes H kids).
  Notation G := (G bytes).
  Notation step_oid := (step_oid bytes).
  Notation protect := (protect bytes).
  Notation good := (good bytes H).
  Notation files_ok := (files_ok bytes H).
  Notation dir_ok := (dir_ok bytes H kids).
  Notation heal_prog := (heal_prog bytes H empty).
  Notation absent := (absent bytes).
  Notation copy_block := (copy_block bytes part).
  Notation copy_blocks := (copy_blocks bytes part).
  Notation probe_of := (probe_of bytes).
  Notation vtail := (vtail bytes H empty).
  Notation vadd_prog := (vadd_prog bytes H empty part).
  Notation mem_vadd_prog := (mem_vadd_prog bytes H empty).
  Notation listed := (listed bytes kids).
  Notation n_ren := (n_ren bytes).
  Notation mt_loop := (mt_loop bytes H kids empty part).
  Notation link_block := (link_block bytes).
  Notation link_blocks := (link_blocks bytes).
  Notation ladd_prog := (ladd_prog bytes).

  (* ---- F: the verified add of items that are all absent ---- *)
  Lemma vadd_false_eq t its w :
    inv w -> G w -> (forall it, In it its -> obj w (fst it) = None) ->
    vadd_prog false t its w = vadd_prog true t its w.
  Proof.
    intros Hi HG Hnone.
    pose proof (heal_prog_valid bytes H kids empty kids_empty (map fst its) w Hi HG) as H1.
    cbv zeta in H1. destruct H1 as (_ & _ & _ & _ & _ & A1 & _).
    unfold AddSteps.vadd_prog, AddSteps.seq2. cbv beta iota zeta.
    rewrite (filter_all_id (absent (run (heal_prog (map fst its) w) w)) its); [reflexivity|].
    intros it Hit. unfold AddSteps.absent. rewrite (A1 (fst it) (Hnone it Hit)). reflexivity.
  Qed.

  Theorem vadd_absent_valid t its w :
    inv w -> G w ->
    (forall it, In it its ->
       (named_ok_b (fst it) (snd it) = true /\ is_dir (fst it) = false) /\ obj w (fst it) = None) ->
    let p := match its with [] => [] | _ :: _ => vadd_prog false t its w end in
    let w' := run p w in
    valid_trace p w = true /\ inv w' /\ G w' /\
    (forall it, In it its -> good w' (fst it)) /\
    (forall o, ~ In o (map fst its) -> obj w' o = obj w o) /\
    (forall s, In s p -> forall o, step_oid s = Some o -> In o (map fst its)).
  Proof.
    intros Hi HG Hits. cbv zeta. destruct its as [|x r].
    - split; [reflexivity|split; [exact Hi|split; [exact HG|]]].
      split; [intros it []|split; [reflexivity|intros s []]].
    - set (its := x :: r) in *.
      rewrite (vadd_false_eq t its w Hi HG (fun it Hit => proj2 (Hits it Hit))).
      apply (vadd_prog_valid bytes H kids empty part kids_empty t its w Hi HG).
      intros it Hit. exact (proj1 (Hits it Hit)).
  Qed.

  (* ---- G: the verified local -> local add of one directory object ---- *)
  Lemma dir_copy_phase_valid t o b w :
    G w -> obj w o = None -> named_ok_b o b = true -> kids_ok w b = true ->
    let cp := map Mkdir (dedup (map (fun it : oid * bytes => pfx (fst it)) [(o, b)])) ++
              probe_of [(o, b)] ++ copy_blocks t [(o, b)] in
    let w' := run cp w in
    valid_trace cp w = true /\ G w' /\ obj w' o = Some (mkF b false) /\
    (forall o', o' <> o -> obj w' o' = obj w o') /\
    (forall s, In s cp -> forall o', step_oid s = Some o' -> o' = o).
  Proof.
    intros HG Ho Hn Hk. cbv zeta.
    change (map Mkdir (dedup (map (fun it : oid * bytes => pfx (fst it)) [(o, b)])) ++
            probe_of [(o, b)] ++ copy_blocks t [(o, b)])
      with (map (@Mkdir bytes) [pfx o] ++ [Probe o; ProbeClean o] ++ (copy_block t (o, b) ++ [])).
    rewrite app_nil_r.
    destruct (mkdirs_valid bytes H kids empty [pfx o] w HG) as [VA RA].
    destruct (probe_valid bytes H kids empty w o HG Ho) as (VB & GB & OB).
    set (wB := run [Probe o; ProbeClean o] w) in *.
    assert (HkB : kids_ok wB b = true).
    { rewrite (kids_ok_ext_on bytes H kids wB w b); [exact Hk|]. intros k _. apply OB. }
    pose proof (block_valid_dir bytes H kids empty part wB t o b GB Hn HkB) as HC. cbv zeta in HC.
    destruct HC as (VC & GC & OC & RC).
    assert (Erun : run (map (@Mkdir bytes) [pfx o] ++ [Probe o; ProbeClean o] ++ copy_block t (o, b)) w
                   = run (copy_block t (o, b)) wB).
    { rewrite !run_app, RA. reflexivity. }
    rewrite Erun.
    split; [|split; [exact GC|split; [exact OC|split]]].
    - apply valid_app; [exact VA|]. rewrite RA. apply valid_app; [exact VB|exact VC].
    - intros o' Hne. rewrite (RC o' Hne). apply OB.
    - intros s Hin o' Hs.
      apply in_app_or in Hin. destruct Hin as [Hin|Hin].
      { destruct Hin as [<-|[]]. discriminate Hs. }
      apply in_app_or in Hin. destruct Hin as [Hin|Hin].
      { destruct Hin as [<-|[<-|[]]]; simpl in Hs; injection Hs as <-; reflexivity. }
      exact (copy_block_oid bytes part t o b s o' Hin Hs).
  Qed.

  Theorem vadd_dir_valid t d w :
    inv w -> G w -> obj w (fst d) = None -> named_ok_b (fst d) (snd d) = true ->
    kids_ok w (snd d) = true -> ~ In (fst d) (kids (snd d)) ->
    let p := vadd_prog false t [d] w in
    let w' := run p w in
    valid_trace p w = true /\ inv w' /\ G w' /\ good w' (fst d) /\
    (forall o, o <> fst d -> obj w' o = obj w o) /\
    (forall s, In s p -> forall o, step_oid s = Some o -> o = fst d).
  Proof.
    destruct d as [o b]. cbn [fst snd]. intros Hi HG Ho Hn Hk Hnk. cbv zeta.
    unfold AddSteps.vadd_prog, AddSteps.seq2. cbv beta iota zeta.
    change (map fst [(o, b)]) with [o].
    pose proof (heal_prog_valid bytes H kids empty kids_empty [o] w Hi HG) as H1.
    cbv zeta in H1. destruct H1 as (V1 & I1 & G1 & _ & R1 & A1 & S1).
    set (a := heal_prog [o] w) in *. set (w1 := run a w) in *.
    assert (R1' : forall o', o' <> o -> obj w1 o' = obj w o').
    { intros o' Hne. apply R1. intros [He|[]]. apply Hne. symmetry. exact He. }
    assert (Hk1 : kids_ok w1 b = true).
    { rewrite (kids_ok_ext_on bytes H kids w1 w b); [exact Hk|]. intros k Hin. apply R1'.
      intros ->. exact (Hnk Hin). }
    pose proof (dir_copy_phase_valid t o b w1 G1 (A1 o Ho) Hn Hk1) as H2. cbv zeta in H2.
    destruct H2 as (V2 & G2 & O2 & R2 & S2).
    set (cp := map Mkdir (dedup (map _ [(o, b)])) ++ probe_of [(o, b)] ++ copy_blocks t [(o, b)]) in *.
    assert (I2 : inv (run cp w1)).
    { apply run_inv; assumption. }
    set (w2 := run cp w1) in *.
    set (req := dedup [o]).
    assert (Hreq1 : forall o', In o' req -> o' = o).
    { intros o' Hin. apply (proj1 (dedup_In o' [o])) in Hin. destruct Hin as [He|[]].
      symmetry. exact He. }
    assert (Hreq2 : In o req).
    { apply (proj2 (dedup_In o [o])). left. reflexivity. }
    assert (Hn2 : forall o' f, In o' req -> obj w2 o' = Some f -> named_ok o' (f_bytes f)).
    { intros o' f Hin Hf. apply Hreq1 in Hin. subst o'. rewrite O2 in Hf. injection Hf as <-.
      simpl. apply named_ok_b_iff. exact Hn. }
    pose proof (vtail_valid bytes H kids empty kids_empty req w2 I2 G2 Hn2) as H3. cbv zeta in H3.
    destruct H3 as (V3 & I3 & G3 & D3 & _ & R3 & S3).
    rewrite !run_app. fold w1. fold w2.
    split; [|split; [exact I3|split; [exact G3|split; [|split]]]].
    - apply valid_app; [exact V1|]. apply valid_app; [exact V2|exact V3].
    - apply D3; [exact Hreq2|]. eexists. exact O2.
    - intros o' Hne.
      rewrite R3 by (intros Hr; apply Hne; exact (Hreq1 o' Hr)).
      rewrite (R2 o' Hne). apply R1'. exact Hne.
    - intros s Hin o' Hs.
      apply in_app_or in Hin. destruct Hin as [Hin|Hin].
      { destruct (S1 s Hin o' Hs) as [He|[]]. symmetry. exact He. }
      apply in_app_or in Hin. destruct Hin as [Hin|Hin].
      + exact (S2 s Hin o' Hs).
      + exact (Hreq1 o' (S3 s Hin o' Hs)).
  Qed.

  (* ---- H: the loop with verification on ---- *)
  Lemma mt_loop_nil_v mem t newf w :
    mt_loop true mem t [] newf w
    = match newf with [] => [] | _ :: _ => vadd_prog false t newf w end.
  Proof. destruct newf; reflexivity. Qed.

  Lemma mt_loop_cons_v mem t d r newf w :
    mt_loop true mem t (d :: r) newf w
    = let bound := filter (listed d) newf in
      let restf := filter (fun it => negb (listed d it)) newf in
      let a := match bound with [] => [] | _ :: _ => vadd_prog false t bound w end in
      let w2 := run a w in
      let t2 := t + n_ren a in
      let b := if mem then mem_vadd_prog t2 d w2 else vadd_prog false t2 [d] w2 in
      a ++ b ++ mt_loop true mem (t2 + (if mem then 2 * n_ren b else n_ren b)) r restf (run b w2).
  Proof. reflexivity. Qed.

  Theorem mt_loop_valid_v mem forder : forall nds newf t w,
    inv w -> G w -> files_ok forder -> (forall d, In d nds -> dir_ok forder d) ->
    NoDup (map fst nds) ->
    (forall it, In it newf -> In it forder /\ obj w (fst it) = None) ->
    (forall o, In o (map fst forder) -> good w o \/ In o (map fst newf)) ->
    (forall d, In d nds -> obj w (fst d) = None) ->
    let p := mt_loop true mem t nds newf w in
    let w' := run p w in
    valid_trace p w = true /\ inv w' /\ G w' /\
    (forall o, In o (map fst forder) -> good w' o) /\
    (forall d, In d nds -> good w' (fst d)) /\
    (forall o, ~ In o (map fst newf) -> ~ In o (map fst nds) -> obj w' o = obj w o) /\
    (forall s, In s p -> forall o, step_oid s = Some o ->
       In o (map fst newf) \/ In o (map fst nds)).
  Proof.
    induction nds as [|d r IH]; intros newf t w Hi HG Hfo Hdo Hnd Hnew Hcov Hda; cbv zeta.
    - rewrite mt_loop_nil_v.
      assert (Hits : forall it, In it newf ->
                (named_ok_b (fst it) (snd it) = true /\ is_dir (fst it) = false) /\
                obj w (fst it) = None).
      { intros it Hit. destruct (Hnew it Hit) as [Hf Hn]. split; [exact (Hfo it Hf)|exact Hn]. }
      pose proof (vadd_absent_valid t newf w Hi HG Hits) as HA. cbv zeta in HA.
      destruct HA as (VA & IA & GA & DA & RA & SA).
      split; [exact VA|split; [exact IA|split; [exact GA|split; [|split; [intros d' []|split]]]]].
      + intros o Hin. destruct (in_dec oid_dec o (map fst newf)) as [Hn|Hnn].
        * apply in_map_iff in Hn. destruct Hn as (it & <- & Hit). exact (DA it Hit).
        * destruct (Hcov o Hin) as [Hg|Hn]; [|contradiction].
          apply (good_ext bytes H w); [apply RA; exact Hnn|exact Hg].
      + intros o Hnn _. apply RA. exact Hnn.
      + intros s Hin o Hs. left. exact (SA s Hin o Hs).
    - rewrite mt_loop_cons_v. cbv zeta.
      destruct d as [od bd].
      set (bound := filter (listed (od, bd)) newf).
      set (restf := filter (fun it => negb (listed (od, bd) it)) newf).
      destruct (Hdo (od, bd) (or_introl eq_refl)) as (Hdn & Hdd & Hdk). cbn [fst snd] in Hdn, Hdd, Hdk.
      assert (Hodf : ~ In od (map fst forder)).
      { exact (dir_not_file bytes H forder (od, bd) Hfo Hdd). }
      assert (Hbound : forall it, In it bound -> In it newf /\ In (fst it) (kids bd)).
      { intros it Hit. apply filter_In in Hit. destruct Hit as [Hi' Hl]. split; [exact Hi'|].
        apply mem_oid_In. exact Hl. }
      assert (Hrestf : forall it, In it restf -> In it newf /\ ~ In (fst it) (kids bd)).
      { intros it Hit. apply filter_In in Hit. destruct Hit as [Hi' Hl]. split; [exact Hi'|].
        intros Hk. apply mem_oid_In in Hk. unfold AddSteps.listed in Hl. cbn [snd] in Hl.
        rewrite Hk in Hl. discriminate Hl. }
      assert (Hsplit : forall it, In it newf -> In it bound \/ In it restf).
      { intros it Hit. destruct (listed (od, bd) it) eqn:El.
        - left. apply filter_In. split; assumption.
        - right. apply filter_In. split; [exact Hit|]. rewrite El. reflexivity. }
      assert (HbN : forall o, In o (map fst bound) -> In o (map fst newf) /\ In o (kids bd)).
      { intros o Hin. apply in_map_iff in Hin. destruct Hin as (it & <- & Hit).
        destruct (Hbound it Hit) as [Hi' Hk]. split; [apply in_map; exact Hi'|exact Hk]. }
      assert (HrN : forall o, In o (map fst restf) -> In o (map fst newf) /\ ~ In o (kids bd)).
      { intros o Hin. apply in_map_iff in Hin. destruct Hin as (it & <- & Hit).
        destruct (Hrestf it Hit) as [Hi' Hk]. split; [apply in_map; exact Hi'|exact Hk]. }
      assert (HnewF : forall o, In o (map fst newf) -> In o (map fst forder) /\ obj w o = None).
      { intros o Hin. apply in_map_iff in Hin. destruct Hin as (it & <- & Hit).
        destruct (Hnew it Hit) as [Hf Hn]. split; [apply in_map; exact Hf|exact Hn]. }
      (* phase a *)
      assert (Hits : forall it, In it bound ->
                (named_ok_b (fst it) (snd it) = true /\ is_dir (fst it) = false) /\
                obj w (fst it) = None).
      { intros it Hit. destruct (Hnew it (proj1 (Hbound it Hit))) as [Hf Hn].
        split; [exact (Hfo it Hf)|exact Hn]. }
      pose proof (vadd_absent_valid t bound w Hi HG Hits) as HA. cbv zeta in HA.
      destruct HA as (VA & IA & GA & DA & RA & SA).
      set (a := match bound with [] => [] | _ :: _ => vadd_prog false t bound w end) in *.
      set (w2 := run a w) in *.
      set (t2 := t + n_ren a).
      assert (Hkg : forall k, In k (kids bd) -> good w2 k).
      { intros k Hk. pose proof (Hdk k Hk) as Hkf.
        destruct (in_dec oid_dec k (map fst newf)) as [Hn|Hnn].
        - apply in_map_iff in Hn. destruct Hn as (it & <- & Hit).
          apply DA. apply filter_In. split; [exact Hit|]. apply mem_oid_In. exact Hk.
        - destruct (Hcov k Hkf) as [Hg|Hn]; [|contradiction].
          apply (good_ext bytes H w); [|exact Hg]. apply RA. intros Hb. apply Hnn.
          exact (proj1 (HbN k Hb)). }
      assert (Hk2 : kids_ok w2 bd = true).
      { apply (kids_ok_intro bytes H kids). intros k Hk. destruct (Hkg k Hk) as (f & Hf & Hn & _).
        exists f. split; assumption. }
      assert (Hod2 : obj w2 od = None).
      { rewrite RA; [apply (Hda (od, bd)); left; reflexivity|].
        intros Hb. apply Hodf. exact (proj1 (HnewF od (proj1 (HbN od Hb)))). }
      assert (Hodk : ~ In od (kids bd)).
      { intros Hk. apply Hodf. exact (Hdk od Hk). }
      (* phase b *)
      set (b := if mem then mem_vadd_prog t2 (od, bd) w2 else vadd_prog false t2 [(od, bd)] w2).
      assert (HB : valid_trace b w2 = true /\ inv (run b w2) /\ G (run b w2) /\
                   good (run b w2) od /\
                   (forall o, o <> od -> obj (run b w2) o = obj w2 o) /\
                   (forall s, In s b -> forall o, step_oid s = Some o -> o = od)).
      { unfold b. destruct mem.
        - exact (mem_vadd_prog_valid bytes H kids empty kids_empty t2 (od, bd) w2 IA GA Hdn Hk2 Hodk).
        - exact (vadd_dir_valid t2 (od, bd) w2 IA GA Hod2 Hdn Hk2 Hodk). }
      destruct HB as (VB & IB & GB & DB & RB & SB).
      set (w3 := run b w2) in *.
      set (t3 := t2 + (if mem then 2 * n_ren b else n_ren b)).
      (* the invariant for the rest *)
      assert (Hnd' : ~ In od (map fst r) /\ NoDup (map fst r)).
      { simpl in Hnd. inversion Hnd; subst. split; assumption. }
      assert (Hdirs : forall d', In d' r -> fst d' <> od /\ ~ In (fst d') (map fst forder)).
      { intros d' Hd'. split.
        - intros He. apply (proj1 Hnd'). rewrite <- He. apply in_map. exact Hd'.
        - destruct (Hdo d' (or_intror Hd')) as (_ & Hdd' & _).
          exact (dir_not_file bytes H forder d' Hfo Hdd'). }
      assert (Hnew3 : forall it, In it restf -> In it forder /\ obj w3 (fst it) = None).
      { intros it Hit. destruct (Hrestf it Hit) as [Hi' Hnk].
        destruct (Hnew it Hi') as [Hf Hn]. split; [exact Hf|].
        rewrite RB.
        - rewrite RA; [exact Hn|]. intros Hb. exact (Hnk (proj2 (HbN _ Hb))).
        - intros He. apply Hodf. rewrite <- He. apply in_map. exact Hf. }
      assert (Hcov3 : forall o, In o (map fst forder) -> good w3 o \/ In o (map fst restf)).
      { intros o Hin.
        assert (Hne : o <> od) by (intros ->; exact (Hodf Hin)).
        destruct (in_dec oid_dec o (map fst newf)) as [Hn|Hnn].
        - apply in_map_iff in Hn. destruct Hn as (it & <- & Hit).
          destruct (Hsplit it Hit) as [Hb|Hr].
          + left. apply (good_ext bytes H w2); [apply RB; exact Hne|]. exact (DA it Hb).
          + right. apply in_map. exact Hr.
        - destruct (Hcov o Hin) as [Hg|Hn]; [|contradiction].
          left. apply (good_ext bytes H w); [|exact Hg].
          rewrite (RB o Hne). apply RA. intros Hb. apply Hnn. exact (proj1 (HbN o Hb)). }
      assert (Hda3 : forall d', In d' r -> obj w3 (fst d') = None).
      { intros d' Hd'. destruct (Hdirs d' Hd') as [Hne Hnf].
        rewrite (RB _ Hne). rewrite RA; [apply Hda; right; exact Hd'|].
        intros Hb. apply Hnf. exact (proj1 (HnewF _ (proj1 (HbN _ Hb)))). }
      pose proof (IH restf t3 w3 IB GB Hfo (fun d' Hd' => Hdo d' (or_intror Hd')) (proj2 Hnd')
                    Hnew3 Hcov3 Hda3) as HR.
      cbv zeta in HR. destruct HR as (VR & IR & GR & FR & DR & RR & SR).
      rewrite !run_app. fold w2. fold w3.
      split; [|split; [exact IR|split; [exact GR|split; [exact FR|split; [|split]]]]].
      + apply valid_app; [exact VA|]. apply valid_app; [exact VB|exact VR].
      + intros d' [<-|Hd']; [|exact (DR d' Hd')]. cbn [fst].
        apply (good_ext bytes H w3); [|exact DB]. apply RR.
        * intros Hr. apply Hodf. exact (proj1 (HnewF od (proj1 (HrN od Hr)))).
        * exact (proj1 Hnd').
      + intros o Hnn Hnd2. simpl in Hnd2.
        rewrite RR.
        * rewrite RB by (intros ->; apply Hnd2; left; reflexivity).
          apply RA. intros Hb. apply Hnn. exact (proj1 (HbN o Hb)).
        * intros Hr. apply Hnn. exact (proj1 (HrN o Hr)).
        * intros Hr. apply Hnd2. right. exact Hr.
      + intros s Hin o Hs.
        apply in_app_or in Hin. destruct Hin as [Hin|Hin].
        { left. exact (proj1 (HbN o (SA s Hin o Hs))). }
        apply in_app_or in Hin. destruct Hin as [Hin|Hin].
        { right. left. symmetry. exact (SB s Hin o Hs). }
        destruct (SR s Hin o Hs) as [Hr|Hr].
        * left. exact (proj1 (HrN o Hr)).
        * right. right. exact Hr.
  Qed.

  (* ---- I: hardlink add ---- *)
  Lemma link_block_valid w t o b :
    G w -> named_ok_b o b = true -> is_dir o = false ->
    let w' := run (link_block t (o, b)) w in
    valid_trace (link_block t (o, b)) w = true /\ G w' /\
    obj w' o = Some (mkF b false) /\ forall o', o' <> o -> obj w' o' = obj w o'.
  Proof.
    intros HG Hn Hd. destruct w as [objs tmps rows pend].
    unfold AddStepsProgs.G in HG. cbn [w_pend] in HG. subst pend.
    unfold AddSteps.link_block. cbn [fst snd].
    cbn [AddSteps.run fold_left AddSteps.valid_trace AddSteps.step AddSteps.step_ok
         w_pend w_objs w_tmps w_rows andb].
    unfold AddSteps.tmp. cbn [w_tmps]. rewrite !nget_aset_eq.
    cbn [w_pend w_objs w_tmps w_rows].
    rewrite Hn, Hd. cbn [negb orb andb].
    split; [reflexivity|split; [reflexivity|split]].
    - apply oget_aset_eq.
    - intros o' Hne. apply oget_aset_neq. exact Hne.
  Qed.

  Lemma link_blocks_valid l : forall t w,
    G w ->
    (forall it, In it l -> named_ok_b (fst it) (snd it) = true /\ is_dir (fst it) = false) ->
    let w' := run (link_blocks t l) w in
    valid_trace (link_blocks t l) w = true /\ G w' /\
    (forall o, In o (map fst l) -> exists b, In (o, b) l /\ obj w' o = Some (mkF b false)) /\
    (forall o, ~ In o (map fst l) -> obj w' o = obj w o).
  Proof.
    induction l as [|[o b] r IH]; intros t w HG Hok; cbv zeta.
    - split; [reflexivity|split; [exact HG|split; [intros o []|reflexivity]]].
    - change (link_blocks t ((o, b) :: r)) with (link_block t (o, b) ++ link_blocks (t + 1) r).
      rewrite run_app.
      assert (Hob : named_ok_b o b = true /\ is_dir o = false).
      { apply (Hok (o, b)). left. reflexivity. }
      pose proof (link_block_valid w t o b HG (proj1 Hob) (proj2 Hob)) as Hb. cbv zeta in Hb.
      destruct Hb as (V1 & G1 & O1 & R1).
      set (w1 := run (link_block t (o, b)) w) in *.
      assert (Hokr : forall it, In it r ->
                named_ok_b (fst it) (snd it) = true /\ is_dir (fst it) = false).
      { intros it Hit. apply Hok. right. exact Hit. }
      pose proof (IH (t + 1) w1 G1 Hokr) as Hr. cbv zeta in Hr.
      destruct Hr as (V2 & G2 & O2 & R2).
      split; [apply valid_app; assumption|split; [exact G2|split]].
      + intros o' Hin. destruct (in_dec oid_dec o' (map fst r)) as [Hr|Hnr].
        * destruct (O2 o' Hr) as (b' & Hb' & Ho'). exists b'.
          split; [right; exact Hb'|exact Ho'].
        * simpl in Hin. destruct Hin as [<-|Hin]; [|contradiction].
          exists b. split; [left; reflexivity|]. rewrite (R2 o Hnr). exact O1.
      + intros o' Hnin. simpl in Hnin. rewrite R2 by (intros Hr'; apply Hnin; right; exact Hr').
        apply R1. intros ->. apply Hnin. left. reflexivity.
  Qed.

  Lemma link_blocks_oid l : forall t s o,
    In s (link_blocks t l) -> step_oid s = Some o -> In o (map fst l).
  Proof.
    induction l as [|[o0 b] r IH]; intros t s o Hin Hs; [destruct Hin|].
    change (link_blocks t ((o0, b) :: r)) with (link_block t (o0, b) ++ link_blocks (t + 1) r) in Hin.
    apply in_app_or in Hin. destruct Hin as [Hin|Hin].
    - unfold AddSteps.link_block in Hin. cbn [fst snd] in Hin. simpl in Hin.
      repeat (destruct Hin as [<-|Hin];
              [simpl in Hs; try discriminate Hs; injection Hs as <-; left; reflexivity|]).
      destruct Hin.
    - right. exact (IH _ _ _ Hin Hs).
  Qed.

  Theorem ladd_prog_valid t its w :
    G w ->
    (forall it, In it its -> named_ok_b (fst it) (snd it) = true /\ is_dir (fst it) = false) ->
    (forall it f, In it its -> obj w (fst it) = Some f -> named_ok (fst it) (f_bytes f)) ->
    let p := ladd_prog true t its w in
    let w' := run p w in
    valid_trace p w = true /\ G w' /\
    (forall it, In it its ->
       exists f, obj w' (fst it) = Some f /\ named_ok (fst it) (f_bytes f) /\ f_prot f = true) /\
    (forall o, ~ In o (map fst its) -> obj w' o = obj w o) /\
    (forall s, In s p -> forall o, step_oid s = Some o -> In o (map fst its)).
  Proof.
    intros HG Hok Hex. unfold AddSteps.ladd_prog. cbv zeta.
    set (todo := filter (absent w) its).
    set (req := dedup (map fst its)).
    set (dirs := dedup (map _ todo)).
    assert (Hreq1 : forall o, In o req -> In o (map fst its)).
    { intros o. apply (proj1 (dedup_In o (map fst its))). }
    assert (Hreq2 : forall o, In o (map fst its) -> In o req).
    { intros o. apply (proj2 (dedup_In o (map fst its))). }
    assert (Htodo : forall it, In it todo -> In it its /\ obj w (fst it) = None).
    { intros it Hit. apply filter_In in Hit. destruct Hit as [Hi Ha]. split; [exact Hi|].
      apply (absent_none bytes). exact Ha. }
    assert (Hsub : forall o, In o (map fst todo) -> In o (map fst its)).
    { intros o Hin. apply in_map_iff in Hin. destruct Hin as (it & <- & Hit).
      apply in_map. apply Htodo. exact Hit. }
    destruct (mkdirs_valid bytes H kids empty dirs w HG) as [VA RA].
    destruct (probe_of_valid bytes H kids empty todo w HG (fun it Hit => proj2 (Htodo it Hit)))
      as (VB & GB & OB).
    set (wB := run (probe_of todo) w) in *.
    assert (HokT : forall it, In it todo ->
              named_ok_b (fst it) (snd it) = true /\ is_dir (fst it) = false).
    { intros it Hit. apply Hok. apply Htodo. exact Hit. }
    pose proof (link_blocks_valid todo t wB GB HokT) as HC. cbv zeta in HC.
    destruct HC as (VC & GC & OC & RC).
    set (wC := run (link_blocks t todo) wB) in *.
    assert (Hkey : forall o, In o (map fst its) ->
              exists f, obj wC o = Some f /\ named_ok o (f_bytes f)).
    { intros o Hin. destruct (in_dec oid_dec o (map fst todo)) as [Ht|Hnt].
      - destruct (OC o Ht) as (b & Hb & Ho). exists (mkF b false). split; [exact Ho|].
        simpl. apply named_ok_b_iff. apply (Hok (o, b)). apply Htodo. exact Hb.
      - rewrite (RC o Hnt), OB. apply in_map_iff in Hin. destruct Hin as (it & <- & Hit).
        destruct (absent w it) eqn:Ea.
        + exfalso. apply Hnt. apply in_map. apply filter_In. split; assumption.
        + apply (absent_false bytes) in Ea. destruct Ea as [f Ef].
          exists f. split; [exact Ef|]. exact (Hex it f Hit Ef). }
    assert (HreqC : forall o f, In o req -> obj wC o = Some f -> named_ok o (f_bytes f)).
    { intros o f Hin Ho. apply Hreq1 in Hin. destruct (Hkey o Hin) as (f0 & Hf0 & Hn0).
      rewrite Ho in Hf0. injection Hf0 as <-. exact Hn0. }
    pose proof (chmods_valid bytes H kids empty req wC GC HreqC) as HD. cbv zeta in HD.
    destruct HD as (VD & GD & OD & RD).
    set (wD := run (map Chmod req) wC) in *.
    assert (HreqD : forall o f, In o req -> obj wD o = Some f -> named_ok o (f_bytes f)).
    { intros o f Hin Ho. rewrite (OD o Hin) in Ho.
      destruct (obj wC o) as [f0|] eqn:E0; [|discriminate Ho].
      simpl in Ho. injection Ho as <-. exact (HreqC o f0 Hin E0). }
    pose proof (statesave_self_valid bytes H kids req wD GD HreqD) as VE.
    assert (Erun : run (map Mkdir dirs ++ probe_of todo ++ link_blocks t todo ++
                        map Chmod req ++ [StateSave (self_rows req)]) w
                   = step wD (StateSave (self_rows req))).
    { rewrite !run_app, RA. reflexivity. }
    rewrite Erun.
    split; [|split; [|split; [|split]]].
    - apply valid_app; [exact VA|]. rewrite RA.
      apply valid_app; [exact VB|]. apply valid_app; [exact VC|]. apply valid_app; [exact VD|].
      change (step_ok wD (StateSave (self_rows req)) && true = true). rewrite VE. reflexivity.
    - exact GD.
    - intros it Hit.
      assert (Hin : In (fst it) (map fst its)) by (apply in_map; exact Hit).
      destruct (Hkey _ Hin) as (f0 & Hf0 & Hn0).
      exists (protect f0). split; [|split; [exact Hn0|reflexivity]].
      change (obj wD (fst it) = Some (protect f0)).
      rewrite OD by (apply Hreq2; exact Hin). rewrite Hf0. reflexivity.
    - intros o Hnin. change (obj wD o = obj w o).
      rewrite RD by (intros Hr; apply Hnin; apply Hreq1; exact Hr).
      rewrite RC by (intros Ht; apply Hnin; apply Hsub; exact Ht).
      apply OB.
    - intros s Hin o Hs.
      apply in_app_or in Hin. destruct Hin as [Hin|Hin].
      { apply in_map_iff in Hin. destruct Hin as (d & <- & _). discriminate Hs. }
      apply in_app_or in Hin. destruct Hin as [Hin|Hin].
      { apply Hsub. destruct todo as [|it r]; [destruct Hin|].
        simpl in Hin. destruct Hin as [<-|[<-|[]]]; simpl in Hs; injection Hs as <-;
          left; reflexivity. }
      apply in_app_or in Hin. destruct Hin as [Hin|Hin].
      { apply Hsub. exact (link_blocks_oid _ _ _ _ Hin Hs). }
      apply in_app_or in Hin. destruct Hin as [Hin|Hin].
      { apply in_map_iff in Hin. destruct Hin as (o' & <- & Ho'). simpl in Hs.
        injection Hs as <-. apply Hreq1. exact Ho'. }
      destruct Hin as [<-|[]]. discriminate Hs.
  Qed.

  Lemma ladd_false_eq t its w :
    (forall it, In it its -> absent w it = true) -> ladd_prog false t its w = ladd_prog true t its w.
  Proof.
    intros Ha. unfold AddSteps.ladd_prog. rewrite (filter_all_id _ _ Ha). reflexivity.
  Qed.

  Theorem ladd_absent_valid t its w :
    G w ->
    (forall it, In it its ->
       (named_ok_b (fst it) (snd it) = true /\ is_dir (fst it) = false) /\ obj w (fst it) = None) ->
    let p := match its with [] => [] | _ :: _ => ladd_prog false t its w end in
    let w' := run p w in
    valid_trace p w = true /\ G w' /\
    (forall it, In it its -> good w' (fst it)) /\
    (forall o, ~ In o (map fst its) -> obj w' o = obj w o) /\
    (forall s, In s p -> forall o, step_oid s = Some o -> In o (map fst its)).
  Proof.
    intros HG Hits. cbv zeta. destruct its as [|x r].
    - split; [reflexivity|split; [exact HG|split; [intros it []|split; [reflexivity|intros s []]]]].
    - set (its := x :: r) in *.
      rewrite (ladd_false_eq t its w).
      2:{ intros it Hit. unfold AddSteps.absent. rewrite (proj2 (Hits it Hit)). reflexivity. }
      apply (ladd_prog_valid t its w HG).
      + intros it Hit. exact (proj1 (Hits it Hit)).
      + intros it f Hit Hf. rewrite (proj2 (Hits it Hit)) in Hf. discriminate Hf.
  Qed.
End VM.

Print Assumptions vadd_absent_valid.
Print Assumptions vadd_dir_valid.
Print Assumptions mt_loop_valid_v.
Print Assumptions ladd_prog_valid.
Print Assumptions ladd_absent_valid.
