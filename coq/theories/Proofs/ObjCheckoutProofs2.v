(* Link clean-up (C05_links), cache immutability and the relink decision (C10). *)
From Coq Require Import NArith List Bool Lia.
From DvcData Require Import Base.Val Base.PyBase Gen.PyTypes Gen.ODiff Gen.Relink Model.ObjCheckout Proofs.ObjCheckoutProofs.
Import ListNotations.
Open Scope N_scope.

(* ------------------------------------------------------------------ links *)
Lemma kmem_spec k l : kmem k l = true <-> In k l.
Proof.
  unfold kmem. rewrite existsb_exists. split.
  - intros [x [Hin E]]. apply key_eqb_spec in E. now subst.
  - intros Hin. exists k. split; [exact Hin | apply key_eqb_refl].
Qed.

Lemma N_pair_eqb_spec a b : rec_eqb a b = true -> fst a = fst b.
Proof. unfold rec_eqb. intros E. apply andb_true_iff in E as [E _]. now apply N.eqb_eq. Qed.

Lemma kn_list_eqb_spec a b : kn_list_eqb a b = true <-> a = b.
Proof.
  revert b. induction a as [|[k m] a IH]; intros [|[k' m'] b]; simpl; split; intros E;
    try reflexivity; try discriminate.
  - apply andb_true_iff in E as [E E3]. apply andb_true_iff in E as [E1 E2].
    apply key_eqb_spec in E1. apply N.eqb_eq in E2. apply IH in E3. congruence.
  - injection E as -> -> ->. rewrite key_eqb_refl, N.eqb_refl. simpl. now apply IH.
Qed.
Lemma rec_eqb_spec a b : rec_eqb a b = true <-> a = b.
Proof.
  destruct a as [i t], b as [i' t']. unfold rec_eqb. simpl. rewrite andb_true_iff, N.eqb_eq. split.
  - intros [-> E]. f_equal. destruct t, t'; simpl in E; try discriminate.
    + apply N.eqb_eq in E. now subst.
    + apply kn_list_eqb_spec in E. now subst.
  - intros E. injection E as -> ->. split; [reflexivity|]. destruct t'; simpl.
    + apply N.eqb_refl.
    + now apply kn_list_eqb_spec.
Qed.

(* get_unused_links returns only recorded paths, not listed as used, that still exist and whose
   recorded (inode, token) equals the current one *)
Theorem unused_sound f tab used p :
  In p (get_unused_links f tab used) ->
  exists r, In (p, r) tab /\ ~ In p used /\ token_now f p = Some r.
Proof.
  unfold get_unused_links. intros Hin. apply in_map_iff in Hin as [[q r] [<- Hin]].
  apply filter_In in Hin as [Hin E]. simpl in *. apply andb_true_iff in E as [E1 E2].
  exists r. split; [exact Hin|]. split.
  - intros Hu. apply kmem_spec in Hu. rewrite Hu in E1. discriminate.
  - destruct (token_now f q) as [r'|]; [|discriminate]. apply rec_eqb_spec in E2. now subst.
Qed.

Lemma is_prefix_refl p : is_prefix p p = true.
Proof. induction p as [|x p IH]; simpl; [reflexivity|]. rewrite IH. now rewrite (proj2 (list_N_eqb_spec x x) eq_refl). Qed.

Lemma kassoc_filter_lfs (P : key -> bool) q (f : lfs) :
  kassoc q (filter (fun kn => P (fst kn)) f) = if P q then kassoc q f else None.
Proof.
  induction f as [|[k n] f IH]; simpl; [now destruct (P q)|].
  destruct (P k) eqn:Ek; simpl.
  - destruct (key_eqb q k) eqn:E; [apply key_eqb_spec in E; subst; now rewrite Ek|exact IH].
  - rewrite IH. destruct (key_eqb q k) eqn:E; [apply key_eqb_spec in E; subst; now rewrite Ek|reflexivity].
Qed.

(* remove_links removes exactly the listed paths (with everything below them) *)
Theorem remove_links_exact f tab unused q :
  kassoc q (fst (remove_links f tab unused)) =
    if existsb (fun p => is_prefix p q) unused then None else kassoc q f.
Proof.
  unfold remove_links. simpl. induction unused as [|p u IH]; simpl; [reflexivity|].
  unfold lfs_remove at 1.
  rewrite (kassoc_filter_lfs (fun k => negb (is_prefix p k))). destruct (is_prefix p q); simpl; [reflexivity|exact IH].
Qed.
Theorem remove_links_table f tab unused p r :
  In (p, r) (snd (remove_links f tab unused)) <-> In (p, r) tab /\ ~ In p unused.
Proof.
  unfold remove_links. simpl. rewrite filter_In. simpl. split; intros [H1 H2]; split; try exact H1.
  - intros Hu. apply kmem_spec in Hu. rewrite Hu in H2. discriminate.
  - destruct (kmem p unused) eqn:E; [apply kmem_spec in E; contradiction|reflexivity].
Qed.

(* non-vacuity: a history in which one recorded path is removed, a modified one and a used one are kept *)
Example links_example :
  let f1 := [[102;49]] in let f2 := [[102;50]] in let f3 := [[102;51]] in
  let s := lrun [OpWrite f1 (LFile 1 1); OpWrite f2 (LFile 2 2); OpWrite f3 (LFile 3 3);
                 OpRecord f1; OpRecord f2; OpRecord f3; OpWrite f2 (LFile 2 9); OpCleanup [f3]] in
  l_removed s = [[f1]] /\ map fst (l_fs s) = [f2; f3].
Proof. vm_compute. split; reflexivity. Qed.

(* ------------------------------------------------------------------ cache immutability *)
Theorem checkout_cache_untouched H g c w tgt order : r_cache (checkout H g c w tgt order) = c.
Proof.
  unfold checkout.
  destruct (is_nil _ && is_nil _ && is_nil _)%bool; [reflexivity|].
  destruct (is_nil (g_links g)); [reflexivity|].
  destruct (run_del g _ w) as [w1 [p|]]; [reflexivity|].
  destruct (run_files g c _ _) as [s [p|p|]]; reflexivity.
Qed.

(* ------------------------------------------------------------------ the relink decision *)
(* what it means for a workspace file (its meta) to have link type t with respect to the cache
   object (cache_meta) of the target oid o *)
Definition has_kind (t : lkind) (m : meta) (cm : option meta) (o : oid) : Prop :=
  match t with
  | LCopy => m_is_link m = false /\ N.ltb 1 (m_nlink m) = false
  | LHard => m_is_link m = false /\ N.ltb 1 (m_nlink m) = true /\
             exists c, cm = Some c /\ m_inode m = m_inode c
  | LSym => m_is_link m = true /\ m_destination m = Some o
  end.

Lemma opt_N_eqb_spec a b : opt_eqb N.eqb a b = true -> a = b.
Proof. destruct a, b; simpl; intros E; try discriminate; [apply N.eqb_eq in E; now subst|reflexivity]. Qed.
Lemma opt_list_eqb_spec a b : opt_eqb list_N_eqb a b = true -> a = b.
Proof. destruct a, b; simpl; intros E; try discriminate; [apply list_N_eqb_spec in E; now subst|reflexivity]. Qed.

(* the obligation that design finding 7.7 refuted before commit a8647e5: when the generated
   _needs_relink answers "no", the file already has the (single) configured link type *)
Theorem needs_relink_sound t g_tys path m cm o :
  g_tys = [lkind_name t] ->
  needs_relink path (mk_cacheinfo g_tys (fun x => x)) m cm (Some o) = false ->
  has_kind t m cm o.
Proof.
  intros ->. unfold needs_relink, has_kind. destruct t; cbn.
  - destruct (m_is_link m); cbn; [discriminate|]. destruct (N.ltb 1 (m_nlink m)); cbn; [discriminate|]. auto.
  - destruct (m_is_link m); cbn; [discriminate|]. destruct (N.ltb 1 (m_nlink m)); cbn; [|discriminate].
    destruct cm as [c|]; cbn; [|discriminate]. intros E. apply negb_false_iff in E. apply opt_N_eqb_spec in E. eauto.
  - destruct (m_is_link m); cbn; [|discriminate].
    destruct (m_destination m) as [d|]; cbn; [|discriminate].
    destruct (truthy_list d); cbn; [|discriminate]. destruct (truthy_list o); cbn; [|discriminate].
    intros E. apply negb_false_iff in E. apply list_N_eqb_spec in E. subst. auto.
Qed.

(* and conversely a file of the configured kind is left alone *)
Theorem needs_relink_complete t path m cm o :
  o <> [] -> has_kind t m cm o ->
  needs_relink path (mk_cacheinfo [lkind_name t] (fun x => x)) m cm (Some o) = false.
Proof.
  intros Ho. unfold needs_relink, has_kind. destruct t; cbn.
  - intros [-> ->]. reflexivity.
  - intros [-> [-> [c [-> E]]]]. cbn. rewrite E. destruct (m_inode c); cbn; [now rewrite N.eqb_refl|reflexivity].
  - intros [-> ->]. cbn. destruct o; [contradiction|]. cbn.
    now rewrite N.eqb_refl, (proj2 (list_N_eqb_spec o o) eq_refl).
Qed.

Example needs_relink_example :
  has_kind LHard (meta_of (mk_fnode [1] false None false 3 2 5)) (Some (cmeta_of (mk_cobj [1] 3 2 5))) [7] /\
  needs_relink [] (mk_cacheinfo [hardlink_name] (fun x => x)) (meta_of (mk_fnode [1] true (Some [7]) false 3 2 5))
               (Some (cmeta_of (mk_cobj [1] 3 2 5))) (Some [7]) = true.
Proof. split; [cbn; eauto | reflexivity]. Qed.
