(* Proofs about Model/IdxCheckout.v, part 2: the deletion phases of apply with delete=True
   (_delete_files, then _delete_dirs deepest first - the order repaired by /repo d2d7c8a).
   The directory phase is an induction along the list sorted by key depth: when a directory
   scheduled for removal is reached, its files are gone (phase 1) and every directory below it
   comes earlier in the list, so os.rmdir finds it empty. *)
From Coq Require Import NArith List Bool Lia PeanoNat.
From DvcData Require Import Base.Val Base.PyBase Gen.PyTypes Gen.IDiff Model.IdxCheckout Proofs.IdxCheckoutProofs.
Import ListNotations.
Open Scope N_scope.

(* prior workspace: prefix closed (every non-empty strict prefix of a path is a directory), the root itself
   is no entry; it MAY hold broken links (Dangling) *)
Definition ws_ok (w : ws) : Prop :=
  (forall k, lookup w k <> None -> forall p, strict_prefix p k = true -> p <> [] -> lookup w p = Some Dir)
  /\ lookup w [] = None.
(* target: every non-empty strict prefix of a key has a directory entry (build(), lazy loading) *)
Definition dirs_explicit (t' : target) : Prop :=
  forall k, lookup t' k <> None -> forall p, strict_prefix p k = true -> p <> [] -> t_dir (lookup t' p) = true.

(* target, general form: nothing lies below a file entry; directories may have an entry (build(),
   lazy loading) or be implicit trie nodes (an index of file entries only) *)
Definition tgt_ok (t' : target) : Prop :=
  forall k, lookup t' k <> None -> forall p, strict_prefix p k = true -> t_file (lookup t' p) = false.

Lemma dirs_explicit_tgt_ok t' : dirs_explicit t' -> t_file (lookup t' []) = false -> tgt_ok t'.
Proof.
  intros H R k N p P. destruct p as [|x p]; auto.
  assert (NE : x :: p <> []) by discriminate. specialize (H k N _ P NE).
  destruct (lookup t' (x :: p)) as [[]|]; simpl in *; congruence.
Qed.

Lemma has_child_spec k (w : ws) :
  has_child k w = true <-> exists k', strict_prefix k k' = true /\ lookup w k' <> None.
Proof.
  unfold has_child. rewrite existsb_exists. split.
  - intros [[k' v] [H P]]. exists k'. split; auto. apply lookup_In_keys. apply in_map_iff. now exists (k', v).
  - intros [k' [P H]]. apply lookup_In_keys, in_map_iff in H as [[k0 v] [E H]]. simpl in E. subst k0.
    exists (k', v). auto.
Qed.
Lemma has_node_spec k (t : target) :
  has_node t k = true <-> exists k', strict_prefix k k' = true /\ lookup t k' <> None.
Proof.
  unfold has_node. rewrite existsb_exists. split.
  - intros [[k' v] [H P]]. exists k'. split; auto. apply lookup_In_keys. apply in_map_iff. now exists (k', v).
  - intros [k' [P H]]. apply lookup_In_keys, in_map_iff in H as [[k0 v] [E H]]. simpl in E. subst k0.
    exists (k', v). auto.
Qed.

Lemma strict_prefix_length p k : strict_prefix p k = true -> (length p < length k)%nat.
Proof. unfold strict_prefix. intros H. apply andb_true_iff in H as [_ H]. now apply Nat.ltb_lt. Qed.
Lemma strict_prefix_trans a b c : strict_prefix a b = true -> strict_prefix b c = true -> strict_prefix a c = true.
Proof.
  intros H1 H2. pose proof (strict_prefix_length _ _ H1). pose proof (strict_prefix_length _ _ H2).
  unfold strict_prefix in *. apply andb_true_iff in H1 as [P1 _]. apply andb_true_iff in H2 as [P2 _].
  rewrite (is_prefix_trans _ _ _ P1 P2). apply Nat.ltb_lt. lia.
Qed.
Lemma strict_prefix_nonempty a b : a <> [] -> strict_prefix a b = true -> b <> [].
Proof. intros N H E. subst. apply strict_prefix_length in H. simpl in H. lia. Qed.

(* ---- rmdir along a list in which descendants come first ------------------------------------------- *)
Lemma rmdirs_spec L : forall w, NoDup L ->
  (forall l1 k l2, L = l1 ++ k :: l2 ->
     lookup w k = Some Dir /\ forall k', strict_prefix k k' = true -> lookup w k' <> None -> In k' l1) ->
  forall k, lookup (fold_left (fun w k => rmdir k w) L w) k = if mem_key k L then None else lookup w k.
Proof.
  induction L as [|k1 L IH]; intros w ND H k; simpl; auto.
  inversion ND as [|? ? NI ND']; subst.
  destruct (H [] k1 L eq_refl) as [D1 C1].
  assert (R : rmdir k1 w = remove k1 w).
  { unfold rmdir. rewrite D1. destruct (has_child k1 w) eqn:E; auto.
    apply has_child_spec in E as [k' [P N]]. destruct (C1 _ P N). }
  rewrite R. rewrite IH; auto.
  - rewrite lookup_remove, (key_eqb_sym k k1). destruct (key_eqb k1 k); simpl; auto. now destruct (mem_key k L).
  - intros l1 k0 l2 E. subst L. destruct (H (k1 :: l1) k0 l2 eq_refl) as [D0 C0].
    assert (N0 : k1 <> k0) by (intros ->; apply NI, in_elt).
    split.
    + rewrite lookup_remove, key_eqb_neq; auto.
    + intros k' P N. rewrite lookup_remove in N. destruct (key_eqb k1 k') eqn:E1; [congruence|].
      destruct (C0 _ P N) as [<-|X]; auto. now rewrite key_eqb_refl in E1.
Qed.

(* ---- sort_desc: a permutation, longest first ---------------------------------------------------------- *)
Fixpoint sorted_desc (l : list key) : Prop :=
  match l with
  | [] => True
  | x :: r => (forall y, In y r -> (length y <= length x)%nat) /\ sorted_desc r
  end.
Lemma insert_desc_sorted x l : sorted_desc l -> sorted_desc (insert_desc x l).
Proof.
  induction l as [|y l IH]; simpl; intros S; [split; [intros ? []|exact I]|].
  destruct S as [S1 S2]. destruct (Nat.leb (length y) (length x)) eqn:E.
  - apply Nat.leb_le in E. simpl. split; [|split; auto].
    intros z [<-|Hz]; [lia|]. specialize (S1 _ Hz). lia.
  - apply Nat.leb_gt in E. simpl. split; auto. intros z Hz. apply insert_desc_In in Hz as [->|Hz]; auto. lia.
Qed.
Lemma sort_desc_sorted l : sorted_desc (sort_desc l).
Proof. induction l; simpl; auto. now apply insert_desc_sorted. Qed.
Lemma insert_desc_NoDup x l : ~ In x l -> NoDup l -> NoDup (insert_desc x l).
Proof.
  induction l as [|y l IH]; simpl; intros NI ND; [repeat constructor; auto|].
  destruct (Nat.leb (length y) (length x)); [constructor; auto|].
  inversion ND; subst. constructor.
  - rewrite insert_desc_In. intros [->|X]; [apply NI; now left | contradiction].
  - apply IH; auto.
Qed.
Lemma sort_desc_NoDup l : NoDup l -> NoDup (sort_desc l).
Proof.
  induction l; simpl; intros ND; [constructor|]. inversion ND; subst.
  apply insert_desc_NoDup; auto. now rewrite sort_desc_In.
Qed.
Lemma sorted_desc_split l : sorted_desc l -> forall l1 k l2, l = l1 ++ k :: l2 ->
  forall y, In y l2 -> (length y <= length k)%nat.
Proof.
  induction l as [|x l IH]; intros S l1 k l2 E y Hy.
  - destruct l1; discriminate.
  - destruct S as [S1 S2]. destruct l1 as [|z l1]; simpl in E; injection E as -> ->; eauto.
Qed.

Lemma dedup_NoDup l : NoDup (dedup l).
Proof.
  induction l as [|x l IH]; simpl; [constructor|].
  destruct (mem_key x l) eqn:E; auto. constructor; auto. rewrite dedup_In. now apply mem_key_false.
Qed.
Lemma sel_NoDup (g : key -> bool) l : NoDup l -> NoDup (flat_map (fun k => if g k then [k] else []) l).
Proof.
  induction l as [|x l IH]; simpl; intros ND; [constructor|]. inversion ND; subst.
  destruct (g x); simpl; auto. constructor; auto.
  rewrite (flat_map_sel g (fun k => k)). intros [k [Hk [_ ->]]]. contradiction.
Qed.

(* ---- the two deletion phases ---------------------------------------------------------------------------- *)
Section DeletePhase.
  Variables (w : ws) (tr : trees) (t : target).
  Let t' := fst (expand tr t).
  Let p := compare false true w tr t.
  Hypothesis Hw : ws_ok w.
  Hypothesis Ht : tgt_ok t'.

  (* nothing of the target lies below a key that is absent from it (and is no implicit node), or
     below a file entry *)
  Lemma nothing_below k : k <> [] -> (lookup t' k = None /\ has_node t' k = false) \/ t_file (lookup t' k) = true ->
    forall k', strict_prefix k k' = true -> lookup t' k' = None /\ has_node t' k' = false.
  Proof.
    intros NE H k' P.
    assert (A : forall k2, strict_prefix k k2 = true -> lookup t' k2 = None).
    { intros k2 P2. destruct (lookup t' k2) eqn:E; auto. exfalso.
      assert (N2 : lookup t' k2 <> None) by congruence.
      destruct H as [[E0 HN]|TF].
      - assert (X : has_node t' k = true) by (apply has_node_spec; eauto). congruence.
      - pose proof (Ht _ N2 _ P2) as D. congruence. }
    split; auto. destruct (has_node t' k') eqn:E; auto.
    apply has_node_spec in E as [k2 [P2 N2]]. rewrite (A k2) in N2; [congruence|]. eapply strict_prefix_trans; eauto.
  Qed.

  Theorem delete_phase : forall k, k <> [] ->
    lookup (ws2 p w) k =
    if fd true (lookup w k) (lookup t' k) || dd true (lookup w k) (lookup t' k) (has_node t' k) then None else lookup w k.
  Proof.
    destruct Hw as [Hpc Hroot].
    assert (W1 : forall k, lookup (ws1 p w) k = if fd true (lookup w k) (lookup t' k) then None else lookup w k).
    { intros k. unfold ws1. rewrite rm_fold_spec.
      - destruct (mem_key k (files_delete (fst p))) eqn:E.
        + apply mem_key_spec, In_files_delete in E. fold t' in E. now rewrite E.
        + destruct (fd true (lookup w k) (lookup t' k)) eqn:F; auto.
          apply (In_files_delete true w tr t), mem_key_spec in F. unfold p in E. congruence.
      - intros k' Hk'. apply In_files_delete in Hk'. unfold fd in Hk'. destruct (lookup w k') as [[]|]; simpl in Hk'; congruence. }
    intros k NE. unfold ws2.
    rewrite rmdirs_spec.
    - rewrite W1. destruct (mem_key k (sort_desc (dirs_delete (fst p)))) eqn:E.
      + apply mem_key_spec in E. rewrite sort_desc_In in E. apply In_dirs_delete in E. fold t' in E.
        rewrite E, orb_true_r. reflexivity.
      + destruct (dd true (lookup w k) (lookup t' k) (has_node t' k)) eqn:D.
        * apply (In_dirs_delete true w tr t) in D. rewrite <- sort_desc_In in D. apply mem_key_spec in D.
          unfold p in E. congruence.
        * now rewrite orb_false_r.
    - apply sort_desc_NoDup. unfold p. rewrite dirs_delete_acts. apply sel_NoDup, dedup_NoDup.
    - intros l1 k0 l2 EL.
      assert (I0 : In k0 (dirs_delete (fst p))) by (rewrite <- sort_desc_In, EL; apply in_elt).
      apply In_dirs_delete in I0. fold t' in I0.
      assert (D0 : lookup w k0 = Some Dir) by (unfold dd in I0; destruct (lookup w k0) as [[]|]; simpl in I0; congruence).
      split.
      + rewrite W1, D0. reflexivity.
      + intros k' P N. rewrite W1 in N.
        destruct (fd true (lookup w k') (lookup t' k')) eqn:F; [congruence|].
        assert (NE0 : k0 <> []) by (intros ->; congruence).
        destruct (nothing_below k0 NE0) with (k' := k') as [TN HN]; auto.
        { unfold dd in I0. rewrite D0 in I0. simpl in I0. destruct (lookup t' k0) as [[]|] eqn:T0; try discriminate.
          - now right.
          - left. split; auto. destruct (has_node t' k0); auto; try discriminate. }
        assert (I1 : In k' (dirs_delete (fst p))).
        { apply In_dirs_delete. fold t'. rewrite TN, HN. unfold dd, fd in *. rewrite TN in F.
          destruct (lookup w k') as [[]|] eqn:E1; simpl in *; try congruence.
          }
        rewrite <- sort_desc_In, EL in I1. apply in_app_iff in I1 as [I1|[<-|I1]]; auto.
        * apply strict_prefix_length in P. lia.
        * pose proof (sorted_desc_split _ (sort_desc_sorted _) _ _ _ EL _ I1). apply strict_prefix_length in P. lia.
  Qed.
End DeletePhase.

(* ---- non-vacuity: a concrete nested removal + directory -> file change ------------------------------------ *)
Fixpoint sprefixes (k : key) : list key :=
  match k with [] => [] | x :: r => [] :: map (cons x) (sprefixes r) end.
Lemma strict_prefix_In p : forall k, strict_prefix p k = true -> In p (sprefixes k).
Proof.
  induction p as [|y p IH]; intros [|x r] H; simpl; auto.
  - apply strict_prefix_length in H. simpl in H. lia.
  - apply strict_prefix_length in H. simpl in H. lia.
  - right. pose proof (strict_prefix_length _ _ H) as L. unfold strict_prefix in H. apply andb_true_iff in H as [P _].
    simpl in P. apply andb_true_iff in P as [E P]. apply list_N_eqb_spec in E. subst y.
    apply in_map. apply IH. unfold strict_prefix. rewrite P. apply Nat.ltb_lt. simpl in L. lia.
Qed.

(* a/b/c (file), a/x/ (empty directory), d/ with d/e, keep   ->   target: a (file), keep *)
Definition ex2_ws : ws :=
  [([[97]], Dir); ([[97]; [98]], Dir); ([[97]; [98]; [99]], File [1] false false); ([[97]; [120]], Dir);
   ([[100]], Dir); ([[100]; [101]], File [2] true false); ([[107]], File [3] false false)].
Definition ex2_target : target := [([[97]], TFile true (Some [9])); ([[107]], TFile false (Some [3]))].

Example ex2_ws_ok : ws_ok ex2_ws.
Proof.
  split; [|reflexivity].
  intros k H. apply lookup_In_keys in H. simpl in H.
  repeat (destruct H as [<-|H]); try contradiction; intros p P NE; apply strict_prefix_In in P; simpl in P;
    repeat (destruct P as [<-|P]); try contradiction; reflexivity.
Qed.
Example ex2_dirs_explicit : dirs_explicit (fst (expand [] ex2_target)).
Proof.
  intros k H. apply lookup_In_keys in H. simpl in H.
  repeat (destruct H as [<-|H]); try contradiction; intros p P NE; apply strict_prefix_In in P; simpl in P;
    repeat (destruct P as [<-|P]); try contradiction; reflexivity.
Qed.
(* the whole checkout on it, by computation: the workspace IS the target *)
Example ex2_converges :
  let o := checkout Hardlink true [[9]; [3]] [] [] [] ex2_ws ex2_target in
  o_ws o = [([[97]], File [9] true true); ([[107]], File [3] false false)] /\ o_errs o = [] /\ o_raised o = false /\
  fst (compare false true (o_ws o) [] ex2_target) = [].
Proof. repeat split; vm_compute; reflexivity. Qed.
