(* C18, part 3: the hypotheses of the push / fetch / checkout theorems derived from the index and
   the storage map: collect's requests are closed, its groups are unique per remote, and - under
   "one cache per remote group" - the cache designated for a key is the cache of its remote's group. *)
From Coq Require Import NArith List Bool Lia Arith.
From DvcData Require Import Base.Val Model.Transfer Gen.StorageMap Model.PushFetch Proofs.TransferBase Proofs.TransferStatus Proofs.TransferLoop Proofs.TransferProofs Proofs.PushFetchResolve Proofs.PushFetchProofs.
Import ListNotations.
Open Scope N_scope.

(* ---- one group per remote ---- *)
Lemma add_group_data_in d c oids : forall gs d',
  In d' (map g_data (add_group d c oids gs)) -> d' = d \/ In d' (map g_data gs).
Proof.
  induction gs as [|g0 r IH]; simpl; intros d' H.
  - destruct H as [H|[]]. auto.
  - destruct (N.eqb (g_data g0) d) eqn:E; simpl in H.
    + destruct H as [H|H]; auto.
    + destruct H as [H|H]; auto. destruct (IH d' H); auto.
Qed.
Lemma add_group_nodup d c oids : forall gs,
  NoDup (map g_data gs) -> NoDup (map g_data (add_group d c oids gs)).
Proof.
  induction gs as [|g0 r IH]; simpl; intros H.
  - repeat constructor. intros [].
  - apply NoDup_cons_iff in H. destruct H as [Hn Hr].
    destruct (N.eqb (g_data g0) d) eqn:E; simpl.
    + apply N.eqb_eq in E. constructor; auto. now rewrite <- E.
    + apply N.eqb_neq in E. constructor; auto.
      intros Hin. apply add_group_data_in in Hin. destruct Hin as [Hin|Hin]; auto.
Qed.
Lemma collect_nodup_fold m idx : forall l acc,
  NoDup (map g_data acc) -> NoDup (map g_data (fold_left (collect_step m idx) l acc)).
Proof.
  induction l as [|ps l IH]; simpl; intros acc H; auto.
  apply IH. unfold collect_step. destruct (getitem m (fst ps)) as [si|]; auto.
  destruct (si_remote si); auto. now apply add_group_nodup.
Qed.
Lemma collect_nodup m idx : NoDup (map g_data (collect m idx)).
Proof. unfold collect. apply collect_nodup_fold. constructor. Qed.
Lemma nodup_gdata_inj (gs : list group) g g' :
  NoDup (map g_data gs) -> In g gs -> In g' gs -> g_data g = g_data g' -> g = g'.
Proof.
  induction gs as [|g0 r IH]; simpl; intros Hn H1 H2 E; [destruct H1|].
  apply NoDup_cons_iff in Hn. destruct Hn as [Hn Hr].
  destruct H1 as [<-|H1], H2 as [<-|H2]; auto.
  - exfalso. apply Hn. rewrite E. now apply in_map.
  - exfalso. apply Hn. rewrite <- E. now apply in_map.
Qed.

(* ---- where a group's request and cache come from ---- *)
Lemma add_group_inv d c oids : forall gs g,
  In g (add_group d c oids gs) ->
  In g gs \/
  (g_data g = d /\ ((g_cache g = c /\ g_req g = oids) \/
                    exists g0, In g0 gs /\ g_data g0 = d /\ g_cache g = g_cache g0 /\ g_req g = g_req g0 ++ oids)).
Proof.
  induction gs as [|g0 r IH]; simpl; intros g H.
  - destruct H as [<-|[]]. right. simpl. auto.
  - destruct (N.eqb (g_data g0) d) eqn:E.
    + destruct H as [<-|H]; auto. apply N.eqb_eq in E. right. simpl. split; auto. right. exists g0. auto.
    + destruct H as [<-|H]; auto. destruct (IH g H) as [H1|[H1 [H2|[g1 [A B]]]]]; auto.
      right. split; auto. right. exists g1. auto.
Qed.

Definition prov (m : smap) (idx : index) (g : group) : Prop :=
  forall o, In o (g_req g) -> exists p s si,
    In (p, s) m /\ getitem m p = Some si /\ si_remote si = Some (g_data g) /\ In o (under p (entries m idx)).
Definition cprov (m : smap) (g : group) : Prop :=
  exists p s si, In (p, s) m /\ getitem m p = Some si /\ si_remote si = Some (g_data g) /\
                 g_cache g = si_cache si.

Lemma collect_prov_fold m idx : forall l acc, incl l m ->
  (forall g, In g acc -> prov m idx g /\ cprov m g) ->
  forall g, In g (fold_left (collect_step m idx) l acc) -> prov m idx g /\ cprov m g.
Proof.
  induction l as [|[p s] l IH]; simpl; intros acc Hi Hacc; auto.
  apply IH; [intros x Hx; apply Hi; now right|].
  assert (Hps : In (p, s) m) by (apply Hi; now left).
  intros g Hg. unfold collect_step in Hg. simpl in Hg.
  destruct (getitem m p) as [si|] eqn:Eg; auto.
  destruct (si_remote si) as [d|] eqn:Er; auto.
  destruct (add_group_inv _ _ _ _ _ Hg) as [H|[Hd [[Hc Hq]|[g0 [H0 [Hd0 [Hc0 Hq0]]]]]]]; auto.
  - split.
    + intros o Ho. rewrite Hq in Ho. exists p, s, si. rewrite Hd. auto.
    + exists p, s, si. rewrite Hd. auto.
  - destruct (Hacc g0 H0) as [P0 C0]. split.
    + intros o Ho. rewrite Hq0 in Ho. apply in_app_or in Ho. destruct Ho as [Ho|Ho].
      * destruct (P0 o Ho) as [p' [s' [si' [A [B [C D]]]]]]. exists p', s', si'. rewrite Hd, <- Hd0. auto.
      * exists p, s, si. rewrite Hd. auto.
    + destruct C0 as [p' [s' [si' [A [B [C D]]]]]]. exists p', s', si'. rewrite Hd, <- Hd0, Hc0. auto.
Qed.
Lemma collect_prov m idx g : In g (collect m idx) -> prov m idx g /\ cprov m g.
Proof.
  intros Hg. unfold collect in Hg. eapply collect_prov_fold; eauto; [apply incl_refl|intros ? []].
Qed.

(* everything under a prefix that resolves to remote r is requested by r's group *)
Lemma collect_all_under m idx g p s si o :
  In g (collect m idx) -> In (p, s) m -> getitem m p = Some si -> si_remote si = Some (g_data g) ->
  In o (under p (entries m idx)) -> In o (g_req g).
Proof.
  intros Hg Hp Hgi Hr Ho.
  destruct (collect_fold_has m idx p s si (g_data g) o m [] Hp Hgi Hr Ho) as [g' [Hg' [Hd Ho']]].
  fold (collect m idx) in Hg'.
  rewrite (nodup_gdata_inj _ g g' (collect_nodup m idx) Hg Hg'); auto.
Qed.

(* ---- a well-formed index: directory entries carry the listing their object parses to ---- *)
Definition idx_ok (e : env) (w : stores) (idx : index) : Prop :=
  forall i, In i idx ->
    match i with
    | IFile k o => is_dir_oid o = false
    | IDir k d l =>
        is_dir_oid d = true /\ (forall f, In f (map snd l) -> is_dir_oid f = false) /\
        forall s b, lookup d (sget w s) = Some b -> e_parse e b = Some (map snd l)
    end.

Lemma dir_entry e w m idx k D : idx_ok e w idx ->
  In (k, D) (entries m idx) -> is_dir_oid D = true -> exists l, In (IDir k D l) idx.
Proof.
  intros Hok Hin Hd. unfold entries in Hin. apply in_flat_map in Hin. destruct Hin as [i [Hi Hv]].
  pose proof (Hok i Hi) as Hi'. destruct i as [k0 o|k0 d l]; simpl in Hv.
  - destruct Hv as [E|[]]. inversion E; subst. congruence.
  - destruct Hi' as [_ [Hfl _]].
    assert (Hch : In (k, D) (children k0 l) -> False).
    { unfold children. intros H. apply in_map_iff in H. destruct H as [[rk f] [E Hf]]. simpl in E.
      inversion E; subst. assert (is_dir_oid D = false) by (apply Hfl; apply in_map_iff; exists (rk, D); auto).
      congruence. }
    destruct (covered m k0); simpl in Hv.
    + destruct Hv as [E|Hv]; [inversion E; subst; eauto|]. exfalso. auto.
    + destruct Hv as [E|[]]. inversion E; subst. eauto.
Qed.

(* C18_collect_closed: every group requests a directory object together with every file its
   listing names - also the files a longer prefix re-routes elsewhere (iteritems(prefix) does not
   exclude them), so no side condition is needed for the REQUEST *)
Theorem collect_closed e w m idx : idx_ok e w idx ->
  forall g, In g (collect m idx) -> req_closed e w g.
Proof.
  intros Hok g Hg D s b l f HD Hdir HL HP Hf.
  destruct (collect_prov m idx g Hg) as [P _].
  destruct (P D HD) as [p [sp [si [Hp [Hgi [Hr Hu]]]]]].
  apply under_In in Hu. destruct Hu as [k [Hin Hm]].
  destruct (dir_entry e w m idx k D Hok Hin Hdir) as [l0 Hi].
  destruct (Hok _ Hi) as [_ [_ Hparse]].
  rewrite (Hparse s b HL) in HP. inversion HP; subst l.
  apply in_map_iff in Hf. destruct Hf as [[rk f'] [E Hrk]]. simpl in E. subst f'.
  apply (collect_all_under m idx g p sp si f Hg Hp Hgi Hr).
  apply under_In. exists (k ++ rk). split.
  - unfold entries. apply in_flat_map. exists (IDir k D l0). split; auto. simpl.
    assert (Hc : covered m k = true).
    { unfold covered. apply existsb_exists. exists (p, sp). auto. }
    rewrite Hc. right. unfold children. apply in_map_iff. exists (rk, f). auto.
  - apply matches_spec in Hm. destruct Hm as [t ->]. apply matches_spec. exists (t ++ rk).
    now rewrite app_assoc.
Qed.

(* ---- one cache per remote group ---- *)
(* all the prefixes that resolve to one remote resolve to one cache *)
Definition single_cache (m : smap) : Prop :=
  forall p s p' s' si si', In (p, s) m -> In (p', s') m ->
    getitem m p = Some si -> getitem m p' = Some si' ->
    si_remote si = si_remote si' -> si_remote si <> None -> si_cache si = si_cache si'.

Lemma role_cache : is_role si_cache. Proof. right; left; reflexivity. Qed.
Lemma role_remote : is_role si_remote. Proof. right; right; reflexivity. Qed.

(* the cache resolved for a key is the cache resolved at the prefix that defines its remote *)
Lemma same_cache m k sik pstar r sistar : NoDup (map fst m) -> single_cache m ->
  getitem m k = Some sik -> longest si_remote m k pstar r -> getitem m pstar = Some sistar ->
  si_cache sik = si_cache sistar.
Proof.
  intros Hn SC Hk [[sstar [Ain [Am Ar]]] Hl] Hps.
  destruct (resolve_spec si_cache m k role_cache Hn) as [_ Rk]. destruct (Rk sik Hk) as [RkS RkN].
  destruct (resolve_spec si_cache m pstar role_cache Hn) as [_ Rp]. destruct (Rp sistar Hps) as [RpS RpN].
  destruct (si_cache sik) as [c|] eqn:Ec.
  - destruct (proj1 (RkS c) eq_refl) as [q [[sq [Bin [Bm Bc]]] Bl]].
    destruct (Nat.leb (length q) (length pstar)) eqn:EL.
    + apply Nat.leb_le in EL. symmetry. apply RpS. exists q. split.
      * exists sq. split; auto. split; auto. apply (matches_comparable q pstar k); auto.
      * intros q' c' [sq' [Cin [Cm Cc]]]. apply (Bl q' c'). exists sq'. split; auto. split; auto.
        eapply matches_trans; eauto.
    + apply Nat.leb_gt in EL.
      destruct (resolve_self si_cache m q sq c role_cache Hn Bin Bc) as [siq [Gq Gc]].
      assert (Hrq : si_remote siq = Some r).
      { destruct (resolve_spec si_remote m q role_remote Hn) as [_ Rq]. apply (proj1 (Rq siq Gq) r).
        exists pstar. split.
        - exists sstar. split; auto. split; auto. apply (matches_comparable pstar q k); auto. lia.
        - intros p' x' [s' [Cin [Cm Cc]]]. apply (Hl p' x'). exists s'. split; auto. split; auto.
          eapply matches_trans; eauto. }
      destruct (resolve_self si_remote m pstar sstar r role_remote Hn Ain Ar) as [si2 [G2 G2r]].
      rewrite Hps in G2. inversion G2; subst si2.
      rewrite <- Gc. apply (SC q sq pstar sstar siq sistar); auto; congruence.
  - destruct (si_cache sistar) as [c|] eqn:Ec2; auto. exfalso.
    destruct (proj1 (RpS c) eq_refl) as [q [[sq [Bin [Bm Bc]]] _]].
    apply (proj1 RkN eq_refl q c). exists sq. split; auto. split; auto. eapply matches_trans; eauto.
Qed.

(* C18_single_cache_per_group: under [single_cache] the cache the mapping designates for a key is
   the cache of the group of the key's remote *)
Theorem cache_of_group m idx : NoDup (map fst m) -> single_cache m ->
  forall g k, In g (collect m idx) -> remote_of m k = Some (g_data g) -> cache_of m k = g_cache g.
Proof.
  intros Hn SC g k Hg Hr.
  destruct (collect_prov m idx g Hg) as [_ [p0 [s0 [si0 [A0 [B0 [C0 D0]]]]]]].
  unfold remote_of in Hr. unfold cache_of. destruct (getitem m k) as [sik|] eqn:Ek; [|discriminate].
  destruct (proj1 (proj1 (proj2 (resolve_spec si_remote m k role_remote Hn) sik Ek) (g_data g)) Hr)
    as [pstar HL].
  pose proof HL as [[sstar [Ain [Am Ar]]] _].
  destruct (resolve_self si_remote m pstar sstar (g_data g) role_remote Hn Ain Ar) as [sistar [G Gr]].
  rewrite (same_cache m k sik pstar (g_data g) sistar Hn SC Ek HL G), D0.
  symmetry. apply (SC p0 s0 pstar sstar si0 sistar); auto; congruence.
Qed.

(* ---- the placement of the objects ---- *)
(* a longer prefix may re-route the REMOTE of entries below a remote-bearing prefix, but not their
   cache: complement of the split-directory finding (a little stronger: it also excludes loose
   files re-routed to another cache, which are harmless) *)
Definition no_split (m : smap) (idx : index) : Prop :=
  forall p s si k o, In (p, s) m -> getitem m p = Some si -> si_remote si <> None ->
    In (k, o) (entries m idx) -> matches p k = true -> cache_of m k = si_cache si.
(* what index.save establishes: every entry's object is in the cache designated for its key *)
Definition placed (w : stores) (m : smap) (idx : index) : Prop :=
  forall k o c, In (k, o) (entries m idx) -> cache_of m k = Some c -> has (sget w c) o = true.
(* every remote group has a cache, and no cache is a remote *)
Definition caches_apart (m : smap) (idx : index) : Prop :=
  forall g, In g (collect m idx) -> exists c, g_cache g = Some c /\
    forall g', In g' (collect m idx) -> g_data g' <> c.

Lemma group_cache_holds w m idx : NoDup (map fst m) -> single_cache m -> no_split m idx ->
  placed w m idx -> caches_apart m idx ->
  forall g o, In g (collect m idx) -> In o (g_req g) -> has (sget w (gc g)) o = true.
Proof.
  intros Hn SC NS PL CA g o Hg Ho.
  destruct (collect_prov m idx g Hg) as [P [p0 [s0 [si0 [A0 [B0 [C0 D0]]]]]]].
  destruct (P o Ho) as [p [s [si [A [B [C D]]]]]].
  apply under_In in D. destruct D as [k [Hin Hm]].
  destruct (CA g Hg) as [c [Ec _]].
  assert (E : cache_of m k = Some c).
  { rewrite (NS p s si k o A B) by (auto; congruence). rewrite <- Ec, D0.
    apply (SC p s p0 s0 si si0); auto; congruence. }
  unfold gc. rewrite Ec. eapply PL; eauto.
Qed.

Lemma caches_apart_indep m idx : caches_apart m idx -> indep RPush (collect m idx).
Proof.
  intros CA. split; [|split].
  - intros g Hg. destruct (CA g Hg) as [c [E _]]. congruence.
  - exact (collect_nodup m idx).
  - intros g g' Hg Hg'. destruct (CA g Hg) as [c [E H]]. unfold gsrc, gd, group_dst, gc. rewrite E.
    intros F. apply (H g' Hg'). auto.
Qed.
Lemma caches_apart_seqok m idx : caches_apart m idx -> seqok RFetch (collect m idx).
Proof.
  intros CA. split.
  - intros g Hg. destruct (CA g Hg) as [c [E _]]. congruence.
  - intros g g' Hg Hg'. destruct (CA g' Hg') as [c [E H]]. unfold gsrc, gd, group_dst, gc. rewrite E.
    apply H; auto.
Qed.

(* ====================================================================================== *)
(* the theorems with hypotheses on the index, the map and the initial stores only *)

Section MapLevel.
Variables (e : env) (m : smap) (idx : index) (w : stores).
Hypothesis Hn : NoDup (map fst m).
Hypothesis Hb : ord_ok (e_bord e).
Hypothesis Hd : ord_ok (e_dord e).
Hypothesis Hflat : forall b l f, e_parse e b = Some l -> In f l -> is_dir_oid f = false.
Hypothesis Htr : e_parse e [] = None.
(* content addressing over all stores; every directory object in a store is a listing *)
Hypothesis GA : forall s1 s2 D b1 b2,
  lookup D (sget w s1) = Some b1 -> lookup D (sget w s2) = Some b2 -> e_parse e b1 = e_parse e b2.
Hypothesis Hdirs : forall s D b, is_dir_oid D = true -> lookup D (sget w s) = Some b -> e_parse e b <> None.
Hypothesis Hok : idx_ok e w idx.
Hypothesis SC : single_cache m.
Hypothesis CA : caches_apart m idx.
Hypothesis Hnf : forall s o, e_fails e s o = false.

Lemma origin_self : origin w w.
Proof. intros s o b H. eauto. Qed.

Theorem push_map : forall out,
  no_split m idx -> placed w m idx ->
  (forall g, In g (collect m idx) -> closed (e_parse e) (sget w (g_data g))) ->
  run_round e RPush m idx w = out -> p_err out = None ->
  forall r,
    (forall o, In o (designated m idx r) -> has (sget (p_w out) r) o = true) /\
    (forall o, has (sget (p_w out) r) o = true -> has (sget w r) o = true \/ In o (reachable idx)).
Proof.
  intros out NS PL Hcl Hrun Herr.
  apply (push_spec e m idx w out Hn Hrun Herr (caches_apart_indep m idx CA)); auto.
  - intros g Hg. apply (wf_of_inv e RPush w Hb Hd Hflat Htr GA w g origin_self).
    + apply Hcl; auto.
    + apply (collect_closed e w m idx Hok g Hg).
  - apply (group_cache_holds w m idx Hn SC NS PL CA).
  - intros g D b Hg HD HL. eapply Hdirs; eauto.
Qed.

Theorem fetch_map : forall out,
  (forall g, In g (collect m idx) -> closed (e_parse e) (sget w (gc g))) ->
  (forall g o, In g (collect m idx) -> In o (g_req g) -> has (sget w (g_data g)) o = true) ->
  run_round e RFetch m idx w = out -> p_err out = None ->
  (forall g o, In g (collect m idx) -> In o (g_req g) -> has (sget (p_w out) (gc g)) o = true) /\
  (forall c o b, lookup o (sget (p_w out) c) = Some b ->
     lookup o (sget w c) = Some b \/
     exists g, In g (collect m idx) /\ gc g = c /\ In o (g_req g) /\ In o (reachable idx) /\
               lookup o (sget w (g_data g)) = Some b).
Proof.
  intros out Hcl Hsrc Hrun Herr.
  apply (fetch_exact_seq e m idx w out Hb Hd Hflat Htr GA Hrun Herr (caches_apart_seqok m idx CA)); auto.
  - apply (collect_closed e w m idx Hok).
  - intros g D b Hg HD HL. eapply Hdirs; eauto.
Qed.

Theorem checkout_map : forall out,
  (forall g, In g (collect m idx) -> sget w (gc g) = []) ->
  (forall g o, In g (collect m idx) -> In o (g_req g) -> has (sget w (g_data g)) o = true) ->
  run_round e RFetch m idx w = out -> p_err out = None ->
  forall k o r, In (k, o) (entries m idx) -> is_file_oid o = true -> remote_of m k = Some r ->
    exists b r', lookup o (sget w r') = Some b /\ In (k, Some b) (checkout_view m idx (p_w out)).
Proof.
  intros out Hempty Hsrc Hrun Herr.
  apply (checkout_spec_seq e m idx w out Hn Hb Hd Hflat Htr GA Hrun Herr (caches_apart_seqok m idx CA)); auto.
  - apply (collect_closed e w m idx Hok).
  - intros g D b Hg HD HL. eapply Hdirs; eauto.
  - intros g k o Hg _ Hr. now apply (cache_of_group m idx Hn SC g k Hg).
Qed.
End MapLevel.
