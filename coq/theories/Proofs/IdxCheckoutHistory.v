(* Proofs about Model/IdxCheckout.v, part 5: compare + apply maps a prefix-closed workspace to a prefix-closed
   workspace (any delete flag, link type, availability), hence convergence from every workspace reachable
   through a history of earlier rounds. *)
From Coq Require Import NArith List Bool Lia PeanoNat.
From DvcData Require Import Base.Val Base.PyBase Gen.PyTypes Gen.IDiff Gen.IdxCompare Model.IdxCheckout.
From DvcData Require Import Proofs.IdxCheckoutProofs Proofs.IdxCheckoutConverge Proofs.IdxCheckoutPhases Proofs.IdxCheckoutFinal.
Import ListNotations.
Open Scope N_scope.

(* ---- ws_ok under the primitives --------------------------------------------------------------------------- *)
Lemma strict_prefix_neq p k : strict_prefix p k = true -> p <> k.
Proof. intros H ->. apply strict_prefix_length in H. lia. Qed.

(* a downward closed sub-map of a prefix-closed workspace *)
Lemma ws_ok_sub w w' : ws_ok w ->
  (forall k, lookup w' k = lookup w k \/ lookup w' k = None) ->
  (forall k p, lookup w' k <> None -> strict_prefix p k = true -> p <> [] -> lookup w' p <> None) ->
  ws_ok w'.
Proof.
  intros [C R] S D. split.
  - intros k N p P NE. pose proof (D k p N P NE) as Np.
    destruct (S k) as [E|E]; [|congruence]. destruct (S p) as [Ep|Ep]; [|congruence].
    rewrite Ep. apply (C k); auto. congruence.
  - destruct (S []) as [E|E]; congruence.
Qed.

Lemma ws_ok_rm k' w : ws_ok w -> ws_ok (rm k' w).
Proof.
  intros H. pose proof H as [C R]. unfold rm. destruct (lookup w k') as [n|] eqn:E.
  destruct n as [b x sh| |].
  2: { (* rmtree *)
    apply (ws_ok_sub w); auto.
    - intros k. rewrite (lookup_filter_keys (fun k0 => negb (is_prefix k' k0))). destruct (negb (is_prefix k' k)); auto.
    - intros k p N P NE. rewrite (lookup_filter_keys (fun k0 => negb (is_prefix k' k0))) in *.
      destruct (is_prefix k' k) eqn:Pk; simpl in N; [congruence|].
      destruct (is_prefix k' p) eqn:Pp; simpl.
      + rewrite (is_prefix_trans _ _ _ Pp (strict_is_prefix _ _ P)) in Pk. discriminate.
      + rewrite (C k N p P NE). discriminate. }
  all: apply (ws_ok_sub w); auto;
    [ intros k; rewrite lookup_remove; destruct (key_eqb k' k); auto
    | intros k p N P NE; rewrite lookup_remove in *; destruct (key_eqb k' k) eqn:Ek; [congruence|];
      destruct (key_eqb k' p) eqn:Ep;
      [ apply key_eqb_spec in Ep; subst p; rewrite (C k N k' P NE) in E; discriminate
      | rewrite (C k N p P NE); discriminate ] ].
Qed.

Lemma ws_ok_rmdir k' w : ws_ok w -> ws_ok (rmdir k' w).
Proof.
  intros H. pose proof H as [C R]. unfold rmdir. destruct (lookup w k') as [[]|] eqn:E; auto.
  destruct (has_child k' w) eqn:HC; auto.
  apply (ws_ok_sub w); auto.
  - intros k. rewrite lookup_remove. destruct (key_eqb k' k); auto.
  - intros k p N P NE. rewrite lookup_remove in *. destruct (key_eqb k' k) eqn:Ek; [congruence|].
    destruct (key_eqb k' p) eqn:Ep.
    + apply key_eqb_spec in Ep. subst p. assert (X : has_child k' w = true) by (apply has_child_spec; eauto). congruence.
    + rewrite (C k N p P NE). discriminate.
Qed.

Lemma ws_ok_set k n w : ws_ok w -> k <> [] -> lookup w k <> Some Dir ->
  (forall p, strict_prefix p k = true -> p <> [] -> lookup w p = Some Dir) -> ws_ok (set k n w).
Proof.
  intros [C R] NE ND PD. split.
  - intros y N p P NEp. rewrite lookup_set in *. destruct (key_eqb k y) eqn:Ey.
    + apply key_eqb_spec in Ey. subst y. rewrite key_eqb_neq by (intros ->; now apply strict_prefix_neq in P). auto.
    + assert (Wp : lookup w p = Some Dir) by (apply (C y); auto).
      destruct (key_eqb k p) eqn:Ep; auto. apply key_eqb_spec in Ep. subst p. congruence.
  - rewrite lookup_set, key_eqb_neq; auto.
Qed.

Lemma strict_prefix_snoc p : forall pre x, strict_prefix p (pre ++ [x]) = true -> is_prefix p pre = true.
Proof.
  induction p as [|y p IH]; intros pre x H; [reflexivity|].
  pose proof (strict_prefix_length _ _ H) as L. destruct pre as [|z pre].
  - simpl in L. lia.
  - unfold strict_prefix in H. apply andb_true_iff in H as [P _]. simpl in P. apply andb_true_iff in P as [E P].
    simpl. rewrite E. simpl. apply IH with x. unfold strict_prefix. rewrite P. apply Nat.ltb_lt.
    rewrite app_length in *. simpl in *. lia.
Qed.

Lemma ws_ok_set_dir pre x w : ws_ok w -> (pre = [] \/ lookup w pre = Some Dir) -> lookup w (pre ++ [x]) = None ->
  ws_ok (set (pre ++ [x]) Dir w).
Proof.
  intros H PD N. pose proof H as [C R]. apply ws_ok_set; auto.
  - destruct pre; discriminate.
  - congruence.
  - intros p P NE. apply strict_prefix_snoc in P. destruct (is_prefix_cases _ _ P) as [->|S].
    + destruct PD as [E0|D]; [subst; exfalso; apply NE; reflexivity|auto].
    + destruct PD as [->|D]; [apply strict_prefix_length in S; simpl in S; lia|].
      apply (C pre); auto. congruence.
Qed.

Lemma prefixes_cons_map pre x r :
  map (app pre) (prefixes (x :: r)) = (pre ++ [x]) :: map (app (pre ++ [x])) (prefixes r).
Proof.
  simpl. f_equal. rewrite map_map. apply map_ext. intros q. now rewrite <- app_assoc.
Qed.
Lemma map_app_nil (l : list key) : map (app []) l = l.
Proof. induction l as [|a l IH]; [reflexivity|]. change (map (app []) (a :: l)) with (a :: map (app []) l). f_equal. exact IH. Qed.

(* os.makedirs stopping at an obstruction *)
Lemma ws_ok_mk_until rest : forall pre w, ws_ok w -> (pre = [] \/ lookup w pre = Some Dir) ->
  ws_ok (mk_until (map (app pre) (prefixes rest)) w).
Proof.
  induction rest as [|x r IH]; intros pre w H PD; [exact H|].
  rewrite prefixes_cons_map. simpl. destruct (lookup w (pre ++ [x])) as [[b y s| |]|] eqn:E.
  - exact H.
  - apply IH; [exact H | right; exact E].
  - exact H.
  - apply IH; [now apply ws_ok_set_dir|]. right. now rewrite lookup_set, key_eqb_refl.
Qed.

(* os.makedirs without obstruction *)
Lemma ws_ok_mkdirs rest : forall pre w, ws_ok w -> (pre = [] \/ lookup w pre = Some Dir) ->
  (forall q, In q (map (app pre) (prefixes rest)) -> clear_at w q) ->
  ws_ok (fold_left mkdir1 (map (app pre) (prefixes rest)) w).
Proof.
  induction rest as [|x r IH]; intros pre w H PD CL; [exact H|].
  rewrite prefixes_cons_map in *. simpl.
  destruct (CL (pre ++ [x]) (or_introl eq_refl)) as [E|E].
  - unfold mkdir1 at 2. rewrite E. apply IH; [now apply ws_ok_set_dir| right; now rewrite lookup_set, key_eqb_refl|].
    intros q I. unfold clear_at. rewrite lookup_set. destruct (key_eqb (pre ++ [x]) q); auto. apply CL. now right.
  - unfold mkdir1 at 2. rewrite E. apply IH; [exact H | right; exact E |]. intros q I. apply CL. now right.
Qed.
Lemma ws_ok_makedirs k w : ws_ok w -> (forall q, In q (prefixes k) -> clear_at w q) -> ws_ok (makedirs k w).
Proof.
  intros H CL. unfold makedirs. rewrite <- (map_app_nil (prefixes k)). apply ws_ok_mkdirs; auto.
  now rewrite map_app_nil.
Qed.

Lemma blocked_false_inv w k : blocked w k = false -> forall q, In q (prefixes k) -> clear_at w q.
Proof.
  unfold blocked. intros H q I. unfold clear_at.
  destruct (lookup w q) as [[]|] eqn:E; auto; exfalso;
    (assert (X : existsb (fun p => match lookup w p with Some Dir | None => false | Some _ => true end) (prefixes k) = true)
       by (apply existsb_exists; exists q; split; auto; now rewrite E)); congruence.
Qed.

Lemma ws_ok_create_dirs l : forall w, ws_ok w -> ws_ok (fst (create_dirs l w)).
Proof.
  induction l as [|k l IH]; intros w H; simpl; auto.
  destruct (blocked w k) eqn:B; cbn [fst].
  - rewrite <- (map_app_nil (prefixes k)). apply ws_ok_mk_until; auto.
  - apply IH. apply ws_ok_makedirs; auto. now apply blocked_false_inv.
Qed.

(* chmod only raises exec bits *)
Lemma ws_ok_exec_le w w' : ws_ok w -> (forall k, exec_le (lookup w k) (lookup w' k)) -> ws_ok w'.
Proof.
  intros [C R] LE. split.
  - intros k N p P NE. pose proof (LE k) as Lk. pose proof (LE p) as Lp.
    assert (Nk : lookup w k <> None) by (destruct (lookup w k) as [[]|], (lookup w' k) as [[]|]; simpl in Lk; try tauto; congruence).
    rewrite (C k Nk p P NE) in Lp. destruct (lookup w' p) as [[]|]; simpl in Lp; tauto || auto.
  - pose proof (LE []) as L0. rewrite R in L0. destruct (lookup w' []) as [[]|]; simpl in L0; tauto || auto.
Qed.
Lemma chmod1_le k w w1 : chmod1 k w = Some w1 -> forall k2, exec_le (lookup w k2) (lookup w1 k2).
Proof.
  unfold chmod1. intros H k2. destruct (lookup w k) as [[b x [|]| |]|] eqn:E; try discriminate; injection H as <-.
  - rewrite lookup_set_exec_shared. destruct (lookup w k2) as [[b2 x2 [|]| |]|]; simpl; auto.
    destruct (list_N_eqb b2 b); simpl; auto.
  - rewrite lookup_set. destruct (key_eqb k k2) eqn:E2; [|apply exec_le_refl].
    apply key_eqb_spec in E2. subst. rewrite E. simpl. auto.
  - apply exec_le_refl.
Qed.
Lemma chmod_files_le l : forall w k2, exec_le (lookup w k2) (lookup (fst (chmod_files l w)) k2).
Proof.
  induction l as [|k l IH]; intros w k2; simpl; [apply exec_le_refl|].
  destruct (chmod1 k w) as [w1|] eqn:E; [|apply exec_le_refl].
  eapply exec_le_trans; [eapply chmod1_le; eauto | apply IH].
Qed.

(* ---- clear paths stay clear through the deletion and directory phases ---------------------------------------- *)
Lemma clear_rmdir k w q : clear_at w q -> clear_at (rmdir k w) q.
Proof.
  unfold clear_at, rmdir. intros H. destruct (lookup w k) as [[]|]; auto. destruct (has_child k w); auto.
  rewrite lookup_remove. destruct (key_eqb k q); auto.
Qed.
Lemma clear_makedirs k w q : clear_at w q -> clear_at (makedirs k w) q.
Proof.
  unfold clear_at. rewrite makedirs_spec. intros [H|H]; rewrite H; auto. destruct (mem_key q (prefixes k)); auto.
Qed.
Lemma clear_mk_until ps : forall w q, clear_at w q -> clear_at (mk_until ps w) q.
Proof.
  induction ps as [|p ps IH]; intros w q H; simpl; auto.
  destruct (lookup w p) as [[]|] eqn:E; auto. apply IH. unfold clear_at in *. rewrite lookup_set.
  destruct (key_eqb p q); auto.
Qed.
Lemma clear_create_dirs l : forall w q, clear_at w q -> clear_at (fst (create_dirs l w)) q.
Proof.
  induction l as [|k l IH]; intros w q H; simpl; auto.
  destruct (blocked w k); cbn [fst]; [now apply clear_mk_until | apply IH; now apply clear_makedirs].
Qed.
Lemma fold_clear (f : key -> ws -> ws) l : (forall k w q, clear_at w q -> clear_at (f k w) q) ->
  forall w q, clear_at w q -> clear_at (fold_left (fun w k => f k w) l w) q.
Proof. intros Hf. induction l; intros w q H; simpl; auto. Qed.
Lemma fold_ws_ok (f : key -> ws -> ws) l : (forall k w, ws_ok w -> ws_ok (f k w)) ->
  forall w, ws_ok w -> ws_ok (fold_left (fun w k => f k w) l w).
Proof. intros Hf. induction l; intros w H; simpl; auto. Qed.

(* ---- creating one file ------------------------------------------------------------------------------------------ *)
Lemma strict_prefixes_dir k w : ws_ok w -> parent_ok k w = true ->
  forall p, strict_prefix p k = true -> p <> [] -> lookup w p = Some Dir.
Proof.
  intros [C R] PO p P NE. apply strict_prefix_removelast in P. unfold parent_ok, parent in PO.
  destruct (removelast k) as [|x r] eqn:E.
  - destruct p; [congruence|discriminate].
  - destruct (lookup w (x :: r)) as [[]|] eqn:D; try discriminate.
    destruct (is_prefix_cases _ _ P) as [->|S]; auto. apply (C (x :: r)); auto. congruence.
Qed.

Lemma create_file_ws_ok lt avail w k c : ws_ok w -> k <> [] ->
  (lt = Copy -> c <> None -> forall q, In q (prefixes (parent k)) -> clear_at w q) ->
  ws_ok (fst (create_file lt avail w (k, c))).
Proof.
  intros H NE CL. unfold create_file. cbn [fst snd]. destruct c as [c|]; auto.
  destruct lt.
  - assert (H1 : ws_ok (makedirs (parent k) w)) by (apply ws_ok_makedirs; auto; apply CL; auto; discriminate).
    destruct (negb (mem_bytes c avail)); cbn [fst]; auto.
    assert (PD : forall p, strict_prefix p k = true -> p <> [] -> lookup (makedirs (parent k) w) p = Some Dir).
    { intros p P NEp. pose proof (In_prefixes_parent_iff p k NEp P) as I. rewrite makedirs_spec.
      destruct (CL eq_refl ltac:(discriminate) p I) as [E|E]; rewrite E; auto.
      apply mem_key_spec in I. now rewrite I. }
    destruct (lookup (makedirs (parent k) w) k) as [[]|] eqn:E; cbn [fst]; auto; apply ws_ok_set; auto; congruence.
  - destruct (negb (mem_bytes c avail)); cbn [fst]; auto.
    destruct (parent_ok k w) eqn:PO; cbn [negb fst]; auto.
    pose proof (strict_prefixes_dir k w H PO) as PD.
    destruct c; destruct (lookup w k) as [[]|] eqn:E; cbn [fst]; auto; apply ws_ok_set; auto; congruence.
  - destruct (negb (mem_bytes c avail)); cbn [fst]; auto.
    destruct (parent_ok k w) eqn:PO; cbn [negb fst]; auto.
    pose proof (strict_prefixes_dir k w H PO) as PD.
    destruct (lookup w k) as [[]|] eqn:E; cbn [fst]; auto; apply ws_ok_set; auto; congruence.
Qed.

(* a path other than the created key stays clear *)
Lemma create_file_clear lt avail w k c q : q <> k -> clear_at w q -> clear_at (fst (create_file lt avail w (k, c))) q.
Proof.
  intros NE H. unfold create_file. cbn [fst snd]. destruct c as [c|]; auto.
  assert (M : clear_at (makedirs (parent k) w) q) by now apply clear_makedirs.
  assert (S : forall n w0, clear_at w0 q -> clear_at (set k n w0) q).
  { intros n w0 H0. unfold clear_at. rewrite lookup_set, key_eqb_neq; auto. }
  destruct lt.
  - destruct (negb (mem_bytes c avail)); cbn [fst]; auto.
    destruct (lookup (makedirs (parent k) w) k) as [[]|]; cbn [fst]; auto.
  - destruct (negb (mem_bytes c avail)); cbn [fst]; auto. destruct (negb (parent_ok k w)); cbn [fst]; auto.
    destruct c; destruct (lookup w k) as [[]|]; cbn [fst]; auto.
  - destruct (negb (mem_bytes c avail)); cbn [fst]; auto. destruct (negb (parent_ok k w)); cbn [fst]; auto.
    destruct (lookup w k) as [[]|]; cbn [fst]; auto.
Qed.

Lemma create_fold_ws_ok lt avail l : forall acc, ws_ok (fst acc) ->
  (forall k c, In (k, c) l -> k <> []) ->
  (forall k c q, In (k, c) l -> In q (prefixes (parent k)) -> clear_at (fst acc) q /\ ~ In q (map fst l)) ->
  ws_ok (fst (fold_left (cf_step lt avail) l acc)).
Proof.
  induction l as [|[k1 c1] l IH]; intros acc H NE CL; simpl; auto.
  apply IH.
  - rewrite cf_step_fst. apply create_file_ws_ok; auto.
    + apply (NE k1 c1). now left.
    + intros _ _ q I. apply (CL k1 c1 q); auto. now left.
  - intros k c I. apply (NE k c). now right.
  - intros k c q I Iq. destruct (CL k c q (or_intror I) Iq) as [C NI]. split.
    + rewrite cf_step_fst. apply create_file_clear; auto. intros ->. apply NI. now left.
    + intros X. apply NI. now right.
Qed.

Lemma make_parents_ok lt avail l : forall w, ws_ok w ->
  (forall k c q, In (k, c) l -> In q (prefixes (parent k)) -> clear_at w q) ->
  ws_ok (make_parents lt avail l w) /\ forall q, clear_at w q -> clear_at (make_parents lt avail l w) q.
Proof.
  unfold make_parents. induction l as [|[k1 c1] l IH]; intros w H CL; simpl; [auto|].
  destruct (to_transfer lt avail (k1, c1)); cbn [fst].
  - destruct (IH (makedirs (parent k1) w)) as [A B].
    + apply ws_ok_makedirs; auto. intros q I. apply (CL k1 c1 q); auto. now left.
    + intros k c q I Iq. apply clear_makedirs. apply (CL k c q); auto. now right.
    + split; auto. intros q Hq. apply B. now apply clear_makedirs.
  - apply IH; auto. intros k c q I Iq. apply (CL k c q); auto. now right.
Qed.

(* ---- one round preserves prefix closure -------------------------------------------------------------------------- *)
Section Preserve.
  Variables (lt : link) (delete : bool) (avail : list bytes) (tr : trees) (order odc : list key) (w : ws) (t : target).
  Let t' := fst (expand tr t).
  Let p := compare false delete w tr t.
  Hypothesis Hw : ws_ok w.
  Hypothesis Ht : tgt_ok t'.
  Hypothesis Hroot : t_file (lookup t' []) = false.
  (* without delete, no file or broken link of the workspace occupies the path of an implicit directory of the
     target (there os.makedirs raises out of _create_files: outside the model's domain, see ASSUMPTIONS) *)
  Hypothesis Hdom : delete = false -> forall q, lookup t' q = None -> has_node t' q = true -> clear_at w q.

  Let L := files_create (fst p).

  Lemma fd_nondir k' : In k' (files_delete (fst p)) -> lookup w k' <> Some Dir.
  Proof. intros I. apply In_files_delete in I. unfold fd in I. destruct (lookup w k') as [[]|]; congruence. Qed.

  Lemma cd3_ws_ok : ws_ok (fst (cd3 odc p w)).
  Proof.
    unfold cd3. apply ws_ok_create_dirs. unfold ws2. apply (fold_ws_ok rmdir); [intros; now apply ws_ok_rmdir|].
    unfold ws1. apply (fold_ws_ok rm); [intros; now apply ws_ok_rm|exact Hw].
  Qed.

  Lemma parents_clear k c q : In (k, c) L -> In q (prefixes (parent k)) ->
    clear_at (fst (cd3 odc p w)) q /\ ~ In q (map fst L).
  Proof.
    intros I Iq. apply In_files_create in I as [F _]. fold t' in F.
    assert (Tk : lookup t' k <> None) by (unfold fc in F; destruct (lookup t' k); [discriminate|discriminate]).
    apply In_prefixes_parent in Iq as [P NE].
    pose proof (Ht k Tk q P) as TF.
    split.
    - unfold cd3. apply clear_create_dirs. unfold ws2. apply (fold_clear rmdir); [intros; now apply clear_rmdir|].
      unfold clear_at, ws1. rewrite rm_fold_spec by (intros; now apply fd_nondir).
      destruct (mem_key q (files_delete (fst p))) eqn:M; auto.
      assert (FD : fd delete (lookup w q) (lookup t' q) = false).
      { destruct (fd delete (lookup w q) (lookup t' q)) eqn:X; auto.
        apply (In_files_delete delete w tr t), mem_key_spec in X. unfold p in M. congruence. }
      destruct (lookup t' q) as [[x c'|h lz]|] eqn:Tq; [discriminate| |].
      + destruct (lookup w q) as [[]|]; simpl in FD; auto; discriminate.
      + assert (HN : has_node t' q = true) by (apply has_node_spec; eauto).
        destruct delete eqn:D.
        * destruct (lookup w q) as [[]|]; simpl in FD; auto; discriminate.
        * apply (Hdom eq_refl q Tq HN).
    - intros X. apply in_map_iff in X as [[q0 c'] [E X]]. simpl in E. subst q0.
      apply In_files_create in X as [X _]. fold t' in X. unfold fc in X. rewrite TF in X. discriminate.
  Qed.

  Lemma L_nonroot k c : In (k, c) L -> k <> [].
  Proof.
    intros I ->. apply In_files_create in I as [F _]. fold t' in F. unfold fc in F. rewrite Hroot in F. discriminate.
  Qed.

  Theorem apply_preserves_ws_ok : ws_ok (o_ws (checkout lt delete avail tr order odc w t)).
  Proof.
    unfold checkout. fold p. destruct (snd (cd3 odc p w)) eqn:R.
    - destruct (apply_aborted lt avail order odc p w R) as [E _]. rewrite E. apply cd3_ws_ok.
    - rewrite (apply_ws lt avail order odc p w R).
      eapply ws_ok_exec_le; [|apply chmod_files_le].
      unfold ws4. fold L. rewrite create_files_eq.
      destruct (make_parents_ok lt avail L (fst (cd3 odc p w)) cd3_ws_ok) as [A B].
      { intros k c q I Iq. now destruct (parents_clear k c q I Iq). }
      apply create_fold_ws_ok; cbn [fst]; auto.
      + apply L_nonroot.
      + intros k c q I Iq. destruct (parents_clear k c q I Iq) as [C NI]. split; auto.
  Qed.
End Preserve.

(* ---- histories ------------------------------------------------------------------------------------------------------ *)
Record round := {
  r_lt : link; r_delete : bool; r_avail : list bytes; r_trees : trees; r_order : list key; r_odc : list key;
  r_target : target }.
Definition round_ws (r : round) (w : ws) : ws :=
  o_ws (checkout (r_lt r) (r_delete r) (r_avail r) (r_trees r) (r_order r) (r_odc r) w (r_target r)).
(* the model's domain for one round: a well-formed target; without delete no file / broken link at an implicit
   directory of the target.  NO availability hypothesis: directory objects may fail to load, file sources may
   be missing, _create_dirs or _chmod_files may raise. *)
Definition round_dom (r : round) (w : ws) : Prop :=
  let t' := fst (expand (r_trees r) (r_target r)) in
  tgt_ok t' /\ t_file (lookup t' []) = false /\
  (r_delete r = false -> forall q, lookup t' q = None -> has_node t' q = true -> clear_at w q).
Fixpoint run_rounds (rs : list round) (w : ws) : ws :=
  match rs with [] => w | r :: rs' => run_rounds rs' (round_ws r w) end.
Fixpoint rounds_dom (rs : list round) (w : ws) : Prop :=
  match rs with [] => True | r :: rs' => round_dom r w /\ rounds_dom rs' (round_ws r w) end.

Theorem history_ws_ok rs : forall w, ws_ok w -> rounds_dom rs w -> ws_ok (run_rounds rs w).
Proof.
  induction rs as [|r rs IH]; intros w H D; simpl; auto.
  destruct D as [[T [R X]] D]. apply IH; auto. unfold round_ws. now apply apply_preserves_ws_ok.
Qed.

Definition converged (lt : link) (avail : list bytes) (tr : trees) (order odc : list key) (w : ws) (t : target) : Prop :=
  let t' := fst (expand tr t) in
  let o := checkout lt true avail tr order odc w t in
  let p2 := fst (compare false true (o_ws o) tr t) in
  o_errs o = [] /\ o_raised o = false /\
  (forall k, k <> [] -> conv_at (lookup (o_ws o) k) (lookup t' k) (has_node t' k)) /\
  lookup (o_ws o) [] = None /\
  files_delete p2 = [] /\ dirs_delete p2 = [] /\ files_create p2 = [] /\ (forall k, In k (dirs_create p2) -> k = []).

Theorem history_converges rs w0 lt avail tr order odc t :
  ws_ok w0 -> rounds_dom rs w0 ->
  tgt_ok (fst (expand tr t)) -> t_file (lookup (fst (expand tr t)) []) = false -> snd (expand tr t) = [] ->
  (forall k x c, lookup (fst (expand tr t)) k = Some (TFile x c) -> exists c0, c = Some c0 /\ mem_bytes c0 avail = true) ->
  converged lt avail tr order odc (run_rounds rs w0) t.
Proof.
  intros H D T R NF AV. pose proof (history_ws_ok rs w0 H D) as W.
  destruct (converges lt avail tr order odc _ t W T R NF AV) as [A [B [C E]]].
  destruct (fixpoint lt avail tr order odc _ t W T R NF AV) as [F1 [F2 [F3 F4]]].
  unfold converged. cbv zeta. repeat split; auto.
Qed.

(* the two-round retry of harness/props/c09.py (Model: run_retry): ANY first round on the same target - directory
   objects [tr1] that may fail to load, sources [avail1] that may be missing - then a round with everything there *)
Theorem retry_converges lt1 delete1 avail1 tr1 order1 odc1 w t lt avail tr order odc :
  ws_ok w ->
  round_dom {| r_lt := lt1; r_delete := delete1; r_avail := avail1; r_trees := tr1; r_order := order1; r_odc := odc1;
               r_target := t |} w ->
  tgt_ok (fst (expand tr t)) -> t_file (lookup (fst (expand tr t)) []) = false -> snd (expand tr t) = [] ->
  (forall k x c, lookup (fst (expand tr t)) k = Some (TFile x c) -> exists c0, c = Some c0 /\ mem_bytes c0 avail = true) ->
  converged lt avail tr order odc (o_ws (checkout lt1 delete1 avail1 tr1 order1 odc1 w t)) t.
Proof.
  intros H D. apply (history_converges [ {| r_lt := lt1; r_delete := delete1; r_avail := avail1; r_trees := tr1;
                                           r_order := order1; r_odc := odc1; r_target := t |} ] w); simpl; auto.
Qed.

(* non-vacuity: round 1 of ex6 with the directory object missing (nothing can be loaded, the failure is
   reported, a/b/c is not there), round 2 with it *)
Example ex_retry :
  let r1 := {| r_lt := Symlink; r_delete := true; r_avail := [[65]]; r_trees := []; r_order := []; r_odc := [];
               r_target := ex6_target |} in
  ws_ok ex6_ws /\ round_dom r1 ex6_ws /\
  o_errs (checkout Symlink true [[65]] [] [] [] ex6_ws ex6_target) = [([[97]], 1)] /\
  lookup (round_ws r1 ex6_ws) [[97]; [98]; [99]] = None /\
  lookup (o_ws (checkout Symlink true [[65]] ex6_trees [] [] (round_ws r1 ex6_ws) ex6_target)) [[97]; [98]; [99]]
    = Some (File [65] false true).
Proof.
  split; [exact (proj1 ex6_hyps)|]. split; [|repeat split; vm_compute; reflexivity].
  split; [|split; [reflexivity|discriminate]].
  intros k H p P. enum_keys H; enum_prefixes P; reflexivity.
Qed.
