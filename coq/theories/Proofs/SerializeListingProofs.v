(* Proofs for C20, part 3: a directory listing written with metadata parses back, given its hash name.

   Tree.as_list(with_meta=True) merges three dictionaries per entry: meta.to_dict(), the hash under the name
   "md5" (for both md5 and md5-dos2unix) and "relpath"; Tree.from_list(lst, hash_name) pops "relpath", reads the
   rest with Meta.from_dict and takes the hash from the attribute of that Meta named like the hash ("md5").
   Consequence, visible in the statement: the md5 slot of the metadata that comes back holds the entry's hash
   value (whatever the original Meta.md5 was); every other serialised field survives as in C20_meta. *)
From Coq Require Import NArith List Bool Lia Permutation.
From DvcData Require Import Base.Val Base.PyBase Gen.PyTypes Gen.SerDict Model.Serialize.
From DvcData Require Import Proofs.SerializeProofs Proofs.SerializeIndexProofs.
Import ListNotations.
Open Scope N_scope.

(* ---------------------------------------------------------------------------------------------- *)
(* generic: mapM, insertion sort *)

Lemma mapM_ok {A B} (f : A -> res B) (g : A -> B) l :
  (forall a, In a l -> f a = Ok (g a)) -> mapM f l = Ok (map g l).
Proof.
  induction l as [|a r IH]; intros H; simpl; [reflexivity|].
  rewrite (H a (or_introl eq_refl)). cbn [bind]. rewrite IH; [reflexivity|].
  intros a' Ha'. apply H. now right.
Qed.

Lemma insert_by_map {A B} (g : A -> B) (leb : B -> B -> bool) x l :
  insert_by leb (g x) (map g l) = map g (insert_by (fun a b => leb (g a) (g b)) x l).
Proof.
  induction l as [|y r IH]; simpl; [reflexivity|].
  destruct (leb (g x) (g y)); simpl; [reflexivity|]. now rewrite IH.
Qed.

Lemma sort_by_map {A B} (g : A -> B) (leb : B -> B -> bool) l :
  sort_by leb (map g l) = map g (sort_by (fun a b => leb (g a) (g b)) l).
Proof.
  unfold sort_by. induction l as [|x r IH]; simpl; [reflexivity|].
  rewrite IH. apply insert_by_map.
Qed.

Lemma insert_by_perm {A} (leb : A -> A -> bool) x l : Permutation (insert_by leb x l) (x :: l).
Proof.
  induction l as [|y r IH]; simpl; [apply Permutation_refl|].
  destruct (leb x y); [apply Permutation_refl|].
  eapply Permutation_trans; [apply perm_skip, IH | apply perm_swap].
Qed.

Lemma sort_by_perm {A} (leb : A -> A -> bool) l : Permutation (sort_by leb l) l.
Proof.
  unfold sort_by. induction l as [|x r IH]; simpl; [apply Permutation_refl|].
  eapply Permutation_trans; [apply insert_by_perm | now apply perm_skip].
Qed.

(* ---------------------------------------------------------------------------------------------- *)
(* one entry *)

(* entries in the quantifier: joinable key, metadata present, hash of the listing's algorithm with a value *)
Definition titem_wf (hn : text) (t : titem) : bool :=
  key_joinable (fst t) &&
  match snd t with
  | (Some m, Some h) => opt_eqb list_N_eqb (hi_name h) (Some hn) && ostr_truthy (hi_value h)
  | _ => false
  end.

Definition md5_set (m : meta) (v : option text) : meta :=
  mk_meta (m_isdir m) (m_size m) (m_nfiles m) (m_isexec m) (m_version_id m) (m_etag m) (m_checksum m) v
          (m_inode m) (m_mtime m) (m_remote m) (m_is_link m) (m_destination m) (m_nlink m).

(* what comes back for an entry *)
Definition titem_rt (hn : text) (t : titem) : titem :=
  match snd t with
  | (Some m, Some h) =>
      (fst t, (Some (md5_set (meta_ser m) (hi_value h)), Some (mk_hashinfo (Some hn) (hi_value h) None)))
  | _ => t
  end.

(* its dictionary in the listing *)
Definition titem_dict (t : titem) : pydict :=
  match snd t with
  | (Some m, Some h) =>
      dict_set (dict_set (Meta_to_dict m) k_md5 (pv_ostr (hi_value h))) k_relpath (PVStr (join (fst t)))
  | _ => []
  end.

Definition md5_family (hn : text) : Prop := hn = k_md5 \/ hn = k_md5_dos2unix.

Lemma opt_eqb_Some_text (o : option text) x : opt_eqb list_N_eqb o (Some x) = true -> o = Some x.
Proof. destruct o as [y|]; simpl; [|discriminate]. intros H. apply list_N_eqb_spec in H. now subst. Qed.

Lemma to_jdict_wf hn t : md5_family hn -> titem_wf hn t = true -> to_jdict true t = Ok (titem_dict t).
Proof.
  intros Hhn Hwf. unfold titem_wf in Hwf. apply andb_true_iff in Hwf as [_ Hwf].
  destruct t as [k [[m|] [h|]]]; cbn [fst snd] in *; try discriminate.
  apply andb_true_iff in Hwf as [Hn Hv]. apply opt_eqb_Some_text in Hn.
  unfold to_jdict, titem_dict. cbn [fst snd bind].
  unfold lst_hi_to_dict, hi_truthy. rewrite Hv. cbn [negb]. rewrite Hn.
  destruct Hhn as [-> | ->].
  - (* md5: HashInfo.to_dict *)
    change (list_N_eqb k_md5 k_md5_dos2unix) with false. cbv iota.
    rewrite HashInfo_to_dict_nf. rewrite Hv, Hn. cbn [ostr_truthy truthy_list is_nil k_md5 negb andb].
    reflexivity.
  - change (list_N_eqb k_md5_dos2unix k_md5_dos2unix) with true. cbv iota. reflexivity.
Qed.

Lemma meta_from_listing m (v : text) :
  Meta_from_dict (dict_set (Meta_to_dict m) k_md5 (PVStr v)) = Ok (md5_set (meta_ser m) (Some v)).
Proof.
  rewrite Meta_to_dict_nf. unfold Meta_from_dict, meta_nf.
  get_chain.
  rewrite !rd_bool_emit, !rd_oN_emit, !rd_ostr_emit. reflexivity.
Qed.

Lemma relpath_absent m pv : dict_get (dict_set (Meta_to_dict m) k_md5 pv) k_relpath = None.
Proof. rewrite Meta_to_dict_nf. unfold meta_nf. get_chain. reflexivity. Qed.

Lemma from_list_item_wf hn t :
  md5_family hn -> titem_wf hn t = true -> from_list_item (Some hn) (titem_dict t) = Ok (titem_rt hn t).
Proof.
  intros Hhn Hwf. unfold titem_wf in Hwf. apply andb_true_iff in Hwf as [Hk Hwf].
  destruct t as [k [[m|] [h|]]]; cbn [fst snd] in *; try discriminate.
  apply andb_true_iff in Hwf as [Hn Hv].
  destruct (hi_value h) as [v|] eqn:Ev; [|discriminate].
  unfold from_list_item, titem_dict, titem_rt. cbn [fst snd]. rewrite Ev. cbn [pv_ostr].
  rewrite dict_get_set, list_N_eqb_refl.
  rewrite (dict_del_set_fresh _ _ _ (relpath_absent m (PVStr v))).
  rewrite meta_from_listing. cbn [bind]. rewrite (split_join _ Hk).
  destruct Hhn as [-> | ->]; reflexivity.
Qed.

Lemma relpath_of_titem_dict hn t : titem_wf hn t = true -> relpath_of (titem_dict t) = join (fst t).
Proof.
  intros Hwf. unfold titem_wf in Hwf. apply andb_true_iff in Hwf as [_ Hwf].
  destruct t as [k [[m|] [h|]]]; cbn [fst snd] in *; try discriminate.
  unfold relpath_of, titem_dict. cbn [fst snd]. now rewrite dict_get_set, list_N_eqb_refl.
Qed.

(* ---------------------------------------------------------------------------------------------- *)
(* the whole listing *)

Definition tree_wf (hn : text) (t : tree) : Prop :=
  NoDup (map fst t) /\ forallb (titem_wf hn) t = true.

(* the order in which from_list sees the entries: sorted by joined path (stable) *)
Definition listing_order (t : tree) : tree :=
  sort_by (fun a b => relpath_leb (titem_dict a) (titem_dict b)) t.

Lemma as_list_wf hn t :
  md5_family hn -> forallb (titem_wf hn) t = true ->
  as_list true t = Ok (map titem_dict (listing_order t)).
Proof.
  intros Hhn Hwf. unfold as_list.
  rewrite (mapM_ok (to_jdict true) titem_dict).
  - cbn [bind]. unfold listing_order. now rewrite sort_by_map.
  - intros a Ha. apply (to_jdict_wf hn); [exact Hhn|]. rewrite forallb_forall in Hwf. now apply Hwf.
Qed.

Lemma map_fst_titem_rt hn t : map fst (map (titem_rt hn) t) = map fst t.
Proof.
  rewrite map_map. apply map_ext. intros [k [[m|] [h|]]]; reflexivity.
Qed.

(* C20_listing_meta *)
Theorem listing_roundtrip_wf hn t :
  md5_family hn -> tree_wf hn t ->
  listing_roundtrip (Some hn) t = Ok (map (titem_rt hn) (listing_order t))
  /\ Permutation (listing_order t) t.
Proof.
  intros Hhn [Hn Hwf].
  assert (Hp : Permutation (listing_order t) t) by apply sort_by_perm.
  split; [|exact Hp].
  unfold listing_roundtrip. rewrite (as_list_wf hn t Hhn Hwf). cbn [bind].
  unfold from_list. rewrite collect_map.
  rewrite (collect_ok key_eqb key_eqb_spec _ (titem_rt hn) (listing_order t) []).
  - reflexivity.
  - intros a Ha. apply from_list_item_wf; [exact Hhn|].
    rewrite forallb_forall in Hwf. apply Hwf. eapply Permutation_in; [exact Hp|exact Ha].
  - simpl. rewrite map_fst_titem_rt.
    eapply Permutation_NoDup; [|exact Hn]. apply Permutation_sym. now apply Permutation_map.
Qed.

(* same keys, same hashes (name and value), same serialised metadata up to the md5 slot, which holds the hash *)
Definition titem_same (hn : text) (a b : titem) : Prop :=
  fst b = fst a /\
  exists m h m' v,
    snd a = (Some m, Some h) /\ hi_name h = Some hn /\ hi_value h = Some v /\
    snd b = (Some m', Some (mk_hashinfo (Some hn) (Some v) None)) /\
    meta_ser m' = md5_set (meta_ser m) (Some v) /\
    Meta_to_dict m' = Meta_to_dict (md5_set m (Some v)).

Lemma titem_rt_same hn a : titem_wf hn a = true -> titem_same hn a (titem_rt hn a).
Proof.
  intros Hwf. unfold titem_wf in Hwf. apply andb_true_iff in Hwf as [_ Hwf].
  destruct a as [k [[m|] [h|]]]; cbn [fst snd] in *; try discriminate.
  apply andb_true_iff in Hwf as [Hn Hv]. apply opt_eqb_Some_text in Hn.
  destruct (hi_value h) as [v|] eqn:Ev; [|discriminate].
  unfold titem_rt. cbn [fst snd]. rewrite Ev. split; [reflexivity|].
  exists m, h, (md5_set (meta_ser m) (Some v)), v.
  split; [reflexivity|]. split; [exact Hn|]. split; [exact Ev|]. split; [reflexivity|]. split.
  - (* meta_ser is idempotent and commutes with setting a truthy md5 *)
    unfold meta_ser, md5_set. cbn [m_isdir m_size m_nfiles m_isexec m_version_id m_etag m_checksum m_md5 m_remote].
    assert (H : forall o, ostr_norm (ostr_norm o) = ostr_norm o) by (intros [[|c s]|]; reflexivity).
    rewrite !H. destruct v; [discriminate|]. reflexivity.
  - rewrite !Meta_to_dict_nf. unfold meta_nf, md5_set, meta_ser.
    cbn [m_isdir m_size m_nfiles m_isexec m_version_id m_etag m_checksum m_md5 m_remote].
    rewrite !emit_ostr_norm. reflexivity.
Qed.

Theorem listing_roundtrip_same hn t :
  md5_family hn -> tree_wf hn t ->
  exists t' t0, listing_roundtrip (Some hn) t = Ok t' /\ Permutation t0 t /\ Forall2 (titem_same hn) t0 t'.
Proof.
  intros Hhn Hw. destruct (listing_roundtrip_wf hn t Hhn Hw) as [E Hp].
  exists (map (titem_rt hn) (listing_order t)), (listing_order t). split; [exact E|]. split; [exact Hp|].
  destruct Hw as [_ Hwf]. rewrite forallb_forall in Hwf.
  assert (Hall : forall a, In a (listing_order t) -> titem_wf hn a = true).
  { intros a Ha. apply Hwf. eapply Permutation_in; [exact Hp|exact Ha]. }
  clear E Hp Hwf. revert Hall. generalize (listing_order t). intros l.
  induction l as [|a r IH]; intros Hall; simpl; constructor.
  - apply titem_rt_same. apply Hall. now left.
  - apply IH. intros b Hb. apply Hall. now right.
Qed.

(* when the metadata already carries the hash in its md5 slot (every tree that from_list builds does), the
   serialised metadata comes back unchanged *)
Corollary titem_same_md5_kept hn a b m h v :
  titem_same hn a b -> snd a = (Some m, Some h) -> hi_value h = Some v -> m_md5 m = Some v ->
  exists m', fst (snd b) = Some m' /\ Meta_to_dict m' = Meta_to_dict m.
Proof.
  intros [_ (m0 & h0 & m' & v0 & Ea & _ & Ev & Eb & _ & Ed)] Ha Hv Hm.
  rewrite Ha in Ea. injection Ea as <- <-. rewrite Hv in Ev. injection Ev as <-.
  exists m'. rewrite Eb. split; [reflexivity|]. rewrite Ed.
  destruct m. unfold md5_set. cbn in *. now rewrite Hm.
Qed.

Example listing_nontrivial :
  let m1 := mk_meta false (Some 3) None true None None None None (Some 9) None None false None 1 in
  let m2 := mk_meta false (Some 0) None false None None None (Some [120]) None None (Some [114]) false None 1 in
  let h v := mk_hashinfo (Some k_md5_dos2unix) (Some v) None in
  let t := [([[98]], (Some m1, Some (h [49]))); ([[97]; [252]], (Some m2, Some (h [50])))] in
  tree_wf k_md5_dos2unix t /\
  as_list true t = Ok [[(k_size, PVInt 0); (k_md5, PVStr [50]); (k_remote, PVStr [114]); (k_relpath, PVStr [97;47;252])];
                       [(k_size, PVInt 3); (k_isexec, PVBool true); (k_md5, PVStr [49]); (k_relpath, PVStr [98])]] /\
  listing_roundtrip (Some k_md5_dos2unix) t
  = Ok [([[97]; [252]], (Some (md5_set m2 (Some [50])), Some (h [50])));
        ([[98]], (Some (md5_set (meta_ser m1) (Some [49])), Some (h [49])))].
Proof.
  cbv zeta. split; [|split]; try reflexivity.
  split; [|reflexivity].
  constructor; [intros [H|[]]; discriminate|]. constructor; [intros []|constructor].
Qed.

(* outside the md5 family the flat listing has no slot for the hash: from_list fails (AttributeError) *)
Example listing_sha256_fails :
  listing_roundtrip (Some [115;104;97;50;53;54])
    [([[97]], (Some (mk_meta false None None false None None None None None None None false None 1),
               Some (mk_hashinfo (Some [115;104;97;50;53;54]) (Some [49]) None)))]
  = Err E_ATTR.
Proof. reflexivity. Qed.
